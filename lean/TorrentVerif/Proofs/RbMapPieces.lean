import TorrentVerif.Model.Rebuild
import TorrentVerif.Proofs.Basic
/- `_map_pieces`: the path nodes of piece i, read from the original files, are slice i of the
   stream; indices and ranges are in bounds; every file gets a node. -/
namespace TorrentVerif
open Rebuild

namespace Impl

/-- loop invariant of `_map_pieces` relative to the real files -/
def MPInv (files : List Bytes) (st : MPState) : Prop :=
  st.rest = (files.drop st.idx).map List.length ∧
  (st.remainder ≠ 0 → ∃ f, files[st.idx]? = some f ∧ st.cur = f.length ∧ st.remainder ≤ f.length)

/-- the part of the stream not yet assigned to a piece -/
def remStream (files : List Bytes) (st : MPState) : Bytes :=
  if st.remainder ≠ 0 then
    (files[st.idx]?.getD []).drop (st.cur - st.remainder) ++ (files.drop (st.idx + 1)).flatten
  else (files.drop st.idx).flatten

/-- a node addresses an existing file and a range inside it -/
def NodeOK (files : List Bytes) (n : Node) : Prop :=
  ∃ f, files[n.1]? = some f ∧ n.2.1 ≤ f.length ∧ ∀ e, n.2.2 = some e → n.2.1 ≤ e ∧ e ≤ f.length

structure StepOK (files : List Bytes) (idx0 : Nat) (S : Bytes) (t : Nat) (nodes : List Node)
    (st' : MPState) : Prop where
  inv : MPInv files st'
  read : (nodes.map (Spec.readNode files)).flatten = S.take t
  rem : remStream files st' = S.drop t
  wf : ∀ n ∈ nodes, NodeOK files n
  mono : idx0 ≤ st'.idx
  cov : ∀ i, idx0 ≤ i → i < st'.idx → ∃ n ∈ nodes, n.1 = i
  covCur : st'.remainder ≠ 0 → ∃ n ∈ nodes, n.1 = st'.idx

theorem drop_cons_facts {files : List Bytes} {idx : Nat} {f : Bytes} {tl : List Bytes}
    (h : files.drop idx = f :: tl) : files[idx]? = some f ∧ files.drop (idx + 1) = tl := by
  constructor
  · have : (files.drop idx)[0]? = some f := by rw [h]; rfl
    simpa [List.getElem?_drop] using this
  · have : (files.drop idx).drop 1 = tl := by rw [h]; rfl
    simpa [List.drop_drop, Nat.add_comm] using this

theorem fillPiece_spec (files : List Bytes) :
    ∀ (rest : List Nat) (target idx cur : Nat), rest = (files.drop idx).map List.length →
      StepOK files idx (files.drop idx).flatten target
        (fillPiece target idx cur rest).1 (fillPiece target idx cur rest).2 := by
  intro rest
  induction rest with
  | nil =>
    intro target idx cur hrest
    have hd : files.drop idx = [] := by
      cases h : files.drop idx with
      | nil => rfl
      | cons a b => rw [h] at hrest; simp at hrest
    simp only [fillPiece]
    refine ⟨⟨by simp [hd], by simp⟩, by simp [hd], by simp [remStream, hd], by simp, Nat.le_refl _, ?_, by simp⟩
    intro i h1 h2; simp at h2; omega
  | cons size rest' ih =>
    intro target idx cur hrest
    cases hd : files.drop idx with
    | nil => rw [hd] at hrest; simp at hrest
    | cons f tl =>
      rw [hd] at hrest
      simp only [List.map_cons, List.cons.injEq] at hrest
      obtain ⟨hsize, hrest'⟩ := hrest
      obtain ⟨hget, htl⟩ := drop_cons_facts hd
      simp only [fillPiece]
      by_cases ht0 : target = 0
      · subst ht0
        simp only [if_true]
        refine ⟨⟨by simp [hd, hsize, hrest'], by simp⟩, by simp, ?_, by simp, Nat.le_refl _, ?_, by simp⟩
        · simp [remStream, hd]
        · intro i h1 h2; simp at h2; omega
      · simp only [ht0, if_false]
        by_cases hlt : size < target
        · simp only [hlt, if_true]
          have ihs := ih (target - size) (idx + 1) size (by rw [htl]; exact hrest')
          rw [htl] at ihs
          refine ⟨ihs.inv, ?_, ?_, ?_, by have := ihs.mono; omega, ?_,
            fun h => (ihs.covCur h).imp fun n hn => ⟨List.mem_cons_of_mem _ hn.1, hn.2⟩⟩
          · simp only [List.map_cons, List.flatten_cons, ihs.read, List.flatten_cons]
            have : Spec.readNode files (idx, 0, none) = f := by
              simp [Spec.readNode, getPart, hget]
            rw [this, List.take_append]
            have hle : f.length ≤ target := by omega
            rw [List.take_of_length_le hle, hsize]
          · rw [ihs.rem, List.flatten_cons, List.drop_append]
            have hle : f.length ≤ target := by omega
            rw [List.drop_of_length_le hle, hsize]; simp
          · intro n hn
            cases hn with
            | head => exact ⟨f, hget, by simp, by simp⟩
            | tail _ hn => exact ihs.wf n hn
          · intro i h1 h2
            by_cases hi : i = idx
            · exact ⟨(idx, 0, none), List.mem_cons_self, hi.symm⟩
            · obtain ⟨n, hn, hni⟩ := ihs.cov i (by omega) h2
              exact ⟨n, List.mem_cons_of_mem _ hn, hni⟩
        · simp only [hlt, if_false]
          have hle : target ≤ f.length := by omega
          have hread : [Spec.readNode files (idx, 0, some target)].flatten = (f :: tl).flatten.take target := by
            simp [Spec.readNode, getPart, hget, List.take_append_of_le_length hle]
          have hwf : ∀ n ∈ [((idx, 0, some target) : Node)], NodeOK files n := by
            intro n hn
            simp at hn
            subst hn
            exact ⟨f, hget, by simp, by intro e he; simp at he; subst he; exact ⟨by simp, hle⟩⟩
          by_cases hz : size - target = 0
          · simp only [hz, if_true]
            have heq : f.length = target := by omega
            refine ⟨⟨by simp [htl, hrest'], by simp⟩, by simpa using hread, ?_, hwf, by simp, ?_, by simp⟩
            · simp [remStream, htl, heq]
            · intro i h1 h2
              simp at h2
              exact ⟨(idx, 0, some target), by simp, by simp; omega⟩
          · simp only [hz, if_false]
            refine ⟨⟨by simp [hd, hsize, hrest'], ?_⟩, by simpa using hread, ?_, hwf, by simp, ?_, ?_⟩
            · intro _
              exact ⟨f, hget, hsize, by simp; omega⟩
            · simp only [remStream, ne_eq, hz, not_false_eq_true, if_true, hget, Option.getD_some, htl]
              have : size - (size - target) = target := by omega
              rw [this, List.flatten_cons, List.drop_append_of_le_length hle]
            · intro i h1 h2; simp at h2; omega
            · intro _; exact ⟨(idx, 0, some target), by simp, rfl⟩

theorem take_append_short {α} (a b : List α) (n : Nat) (h : a.length ≤ n) :
    (a ++ b).take n = a ++ b.take (n - a.length) := by
  rw [List.take_append, List.take_of_length_le h]

theorem drop_append_short {α} (a b : List α) (n : Nat) (h : a.length ≤ n) :
    (a ++ b).drop n = b.drop (n - a.length) := by
  rw [List.drop_append, List.drop_of_length_le h]; simp

theorem pieceStep_spec (files : List Bytes) (pl : Nat) (st : MPState) (hinv : MPInv files st) :
    StepOK files st.idx (remStream files st) pl (pieceStep pl st).1 (pieceStep pl st).2 := by
  unfold pieceStep
  by_cases hr : st.remainder = 0
  · simp only [hr, ne_eq, not_true_eq_false, if_false]
    have := fillPiece_spec files st.rest pl st.idx st.cur hinv.1
    simpa [remStream, hr] using this
  · simp only [ne_eq, hr, not_false_eq_true, if_true]
    obtain ⟨f, hget, hcur, hle⟩ := hinv.2 hr
    have hS : remStream files st = f.drop (st.cur - st.remainder) ++ (files.drop (st.idx + 1)).flatten := by
      simp [remStream, hr, hget]
    have hlen : (f.drop (st.cur - st.remainder)).length = st.remainder := by
      simp [List.length_drop]; omega
    have hresttail : st.rest.tail = (files.drop (st.idx + 1)).map List.length := by
      rw [hinv.1, ← List.map_tail, List.tail_drop]
    rw [hS]
    by_cases hlt : st.remainder < pl
    · simp only [hlt, if_true]
      have ihs := fillPiece_spec files st.rest.tail (pl - st.remainder) (st.idx + 1) st.cur hresttail
      refine ⟨ihs.inv, ?_, ?_, ?_, by have := ihs.mono; omega, ?_,
        fun h => (ihs.covCur h).imp fun n hn => ⟨List.mem_cons_of_mem _ hn.1, hn.2⟩⟩
      · simp only [List.map_cons, List.flatten_cons, ihs.read]
        have : Spec.readNode files (st.idx, st.cur - st.remainder, none) = f.drop (st.cur - st.remainder) := by
          simp [Spec.readNode, getPart, hget]
        rw [this, take_append_short _ _ _ (by rw [hlen]; omega), hlen]
      · rw [ihs.rem, drop_append_short _ _ _ (by rw [hlen]; omega), hlen]
      · intro n hn
        cases hn with
        | head => exact ⟨f, hget, by simp; omega, by simp⟩
        | tail _ hn => exact ihs.wf n hn
      · intro i h1 h2
        by_cases hi : i = st.idx
        · exact ⟨_, List.mem_cons_self, hi.symm⟩
        · obtain ⟨n, hn, hni⟩ := ihs.cov i (by omega) h2
          exact ⟨n, List.mem_cons_of_mem _ hn, hni⟩
    · simp only [hlt, if_false]
      have hple : pl ≤ st.remainder := by omega
      have hread : [Spec.readNode files (st.idx, st.cur - st.remainder, some (st.cur - st.remainder + pl))].flatten
          = (f.drop (st.cur - st.remainder) ++ (files.drop (st.idx + 1)).flatten).take pl := by
        simp [Spec.readNode, getPart, hget]
        rw [List.take_append_of_le_length (by rw [hlen]; exact hple)]
      have hwf : ∀ n ∈ [((st.idx, st.cur - st.remainder, some (st.cur - st.remainder + pl)) : Node)],
          NodeOK files n := by
        intro n hn
        simp at hn
        subst hn
        exact ⟨f, hget, by simp; omega, by intro e he; simp at he; subst he; exact ⟨by simp, by omega⟩⟩
      by_cases hz : st.remainder - pl = 0
      · simp only [hz, if_true]
        have heq : st.remainder = pl := by omega
        refine ⟨⟨by simp [hresttail], by simp⟩, by simpa using hread, ?_, hwf, by simp, ?_, by simp⟩
        · simp only [remStream, ne_eq, not_true_eq_false, if_false]
          rw [drop_append_short _ _ _ (by rw [hlen]; omega), hlen, heq]
          simp
        · intro i h1 h2
          simp at h2
          exact ⟨_, List.mem_cons_self, by simp; omega⟩
      · simp only [hz, if_false]
        refine ⟨⟨hinv.1, ?_⟩, by simpa using hread, ?_, hwf, by simp, ?_, ?_⟩
        · intro _; exact ⟨f, hget, hcur, by simp; omega⟩
        · simp only [remStream, ne_eq, hz, not_false_eq_true, if_true, hget, Option.getD_some]
          rw [List.drop_append_of_le_length (by rw [hlen]; exact hple), List.drop_drop]
          have : st.cur - (st.remainder - pl) = st.cur - st.remainder + pl := by omega
          rw [this]
        · intro i h1 h2; simp at h2; omega
        · intro _; exact ⟨_, List.mem_cons_self, rfl⟩

/-- the bytes a piece's nodes denote -/
def readPiece (files : List Bytes) (nodes : List Node) : Bytes := (nodes.map (Spec.readNode files)).flatten

theorem mapLoop_wf (files : List Bytes) (pl : Nat) :
    ∀ n st, MPInv files st →
      (∀ p ∈ (mapLoop pl n st).1, ∀ nd ∈ p, NodeOK files nd) ∧ MPInv files (mapLoop pl n st).2 := by
  intro n
  induction n with
  | zero => intro st h; simp [mapLoop, h]
  | succ n ih =>
    intro st h
    have hs := pieceStep_spec files pl st h
    have := ih _ hs.inv
    simp only [mapLoop]
    refine ⟨?_, this.2⟩
    intro p hp
    cases hp with
    | head => exact hs.wf
    | tail _ hp => exact this.1 p hp

theorem mapLoop_spec (files : List Bytes) (pl : Nat) (hpl : 0 < pl) :
    ∀ n st, MPInv files st → n = (chunks pl (remStream files st)).length →
      (mapLoop pl n st).1.map (readPiece files) = chunks pl (remStream files st) ∧
      remStream files (mapLoop pl n st).2 = [] ∧ st.idx ≤ (mapLoop pl n st).2.idx ∧
      (∀ i, st.idx ≤ i → i < (mapLoop pl n st).2.idx → ∃ p ∈ (mapLoop pl n st).1, ∃ nd ∈ p, nd.1 = i) := by
  intro n
  induction n with
  | zero =>
    intro st _ hn
    have hnil : remStream files st = [] := by
      apply Classical.byContradiction
      intro hne
      rw [chunks_cons pl hpl _ hne] at hn
      simp at hn
    simp only [mapLoop]
    refine ⟨by simp [hnil, chunks_nil], hnil, Nat.le_refl _, ?_⟩
    intro i h1 h2; omega
  | succ n ih =>
    intro st hinv hn
    have hne : remStream files st ≠ [] := by
      intro e; rw [e, chunks_nil] at hn; simp at hn
    rw [chunks_cons pl hpl _ hne] at hn ⊢
    have hs := pieceStep_spec files pl st hinv
    have hn' : n = (chunks pl (remStream files (pieceStep pl st).2)).length := by
      rw [hs.rem]; simp at hn; exact hn
    obtain ⟨h1, h2, h3, h4⟩ := ih _ hs.inv hn'
    simp only [mapLoop, List.map_cons]
    refine ⟨?_, h2, by have := hs.mono; omega, ?_⟩
    · rw [h1, hs.rem]
      congr 1
      exact hs.read
    · intro i hi1 hi2
      by_cases hlt : i < (pieceStep pl st).2.idx
      · obtain ⟨nd, hnd, hi⟩ := hs.cov i hi1 hlt
        exact ⟨_, List.mem_cons_self, nd, hnd, hi⟩
      · obtain ⟨p, hp, hnd⟩ := h4 i (by omega) hi2
        exact ⟨p, List.mem_cons_of_mem _ hp, hnd⟩

theorem trailing_spec (files : List Bytes) :
    ∀ rest idx, rest = (files.drop idx).map List.length →
      (∀ nd ∈ trailing idx rest, Spec.readNode files nd = [] ∧ NodeOK files nd) ∧
      ((files.drop idx).flatten = [] → ∀ i, idx ≤ i → i < files.length → ∃ nd ∈ trailing idx rest, nd.1 = i) := by
  intro rest
  induction rest with
  | nil =>
    intro idx hrest
    have hd : files.drop idx = [] := by
      cases h : files.drop idx with
      | nil => rfl
      | cons a b => rw [h] at hrest; simp at hrest
    refine ⟨by simp [trailing], ?_⟩
    intro _ i h1 h2
    have := List.drop_eq_nil_iff.mp hd
    omega
  | cons size rest' ih =>
    intro idx hrest
    cases hd : files.drop idx with
    | nil => rw [hd] at hrest; simp at hrest
    | cons f tl =>
      rw [hd] at hrest
      simp only [List.map_cons, List.cons.injEq] at hrest
      obtain ⟨hsize, hrest'⟩ := hrest
      obtain ⟨hget, htl⟩ := drop_cons_facts hd
      have ihs := ih (idx + 1) (by rw [htl]; exact hrest')
      simp only [trailing]
      by_cases hz : size = 0
      · simp only [hz, ne_eq, not_true_eq_false, if_false]
        have hf : f = [] := List.eq_nil_of_length_eq_zero (by omega)
        constructor
        · intro nd hnd
          cases hnd with
          | head => exact ⟨by simp [Spec.readNode, getPart, hget, hf], f, hget, by simp, by simp⟩
          | tail _ hnd => exact ihs.1 nd hnd
        · intro hflat i h1 h2
          by_cases hi : i = idx
          · exact ⟨_, List.mem_cons_self, hi.symm⟩
          · have : (files.drop (idx + 1)).flatten = [] := by
              rw [htl]; simp at hflat; simp; exact hflat.2
            obtain ⟨nd, hnd, hni⟩ := ihs.2 this i (by omega) h2
            exact ⟨nd, List.mem_cons_of_mem _ hnd, hni⟩
      · simp only [ne_eq, hz, not_false_eq_true, if_true]
        refine ⟨by simp, ?_⟩
        intro hflat
        exfalso
        simp at hflat
        have : f.length = 0 := by rw [hflat.1]; rfl
        omega

theorem mem_appendLast {α} {l : List (List α)} {x p : List α} (h : p ∈ appendLast l x) :
    p ∈ l ∨ ∃ a ∈ l, p = a ++ x := by
  induction l with
  | nil => simp [appendLast] at h
  | cons a r ih =>
    cases r with
    | nil => simp [appendLast] at h; exact Or.inr ⟨a, by simp, h⟩
    | cons b r' =>
      simp only [appendLast, List.mem_cons] at h
      rcases h with h | h
      · exact Or.inl (by simp [h])
      · rcases ih (by simpa using h) with h' | ⟨c, hc, h'⟩
        · exact Or.inl (List.mem_cons_of_mem _ h')
        · exact Or.inr ⟨c, List.mem_cons_of_mem _ hc, h'⟩

theorem appendLast_covers {α} {l : List (List α)} (x : List α) (hne : l ≠ []) :
    (∀ p ∈ l, ∃ q ∈ appendLast l x, ∀ a ∈ p, a ∈ q) ∧ (∃ q ∈ appendLast l x, ∀ a ∈ x, a ∈ q) := by
  induction l with
  | nil => exact absurd rfl hne
  | cons a r ih =>
    cases r with
    | nil =>
      simp only [appendLast]
      exact ⟨fun p hp => ⟨a ++ x, by simp, by simp at hp; subst hp; intro y hy; simp [hy]⟩,
        ⟨a ++ x, by simp, by intro y hy; simp [hy]⟩⟩
    | cons b r' =>
      obtain ⟨h1, q, hq, h2⟩ := ih (by simp)
      simp only [appendLast]
      constructor
      · intro p hp
        cases hp with
        | head => exact ⟨a, List.mem_cons_self, fun _ h => h⟩
        | tail _ hp =>
          obtain ⟨q', hq', h'⟩ := h1 p hp
          exact ⟨q', List.mem_cons_of_mem _ hq', h'⟩
      · exact ⟨q, List.mem_cons_of_mem _ hq, h2⟩

theorem map_appendLast {α β} (g : List α → β) (l : List (List α)) (x : List α)
    (h : ∀ a, g (a ++ x) = g a) : (appendLast l x).map g = l.map g := by
  induction l with
  | nil => rfl
  | cons a r ih =>
    cases r with
    | nil => simp [appendLast, h]
    | cons b r' => simp only [appendLast, List.map_cons]; rw [ih]; simp

/-- `_map_pieces` read against the original files gives the pieces of the stream -/
theorem mapPieces_read (pl : Nat) (hpl : 0 < pl) (files : List Bytes) (n : Nat)
    (hn : n = (chunks pl files.flatten).length) :
    (mapPieces pl n (files.map List.length)).map (readPiece files) = chunks pl files.flatten := by
  have hinv : MPInv files ⟨0, 0, 0, files.map List.length⟩ := ⟨by simp, by simp⟩
  have hS : remStream files ⟨0, 0, 0, files.map List.length⟩ = files.flatten := by simp [remStream]
  obtain ⟨h1, _, _, _⟩ := mapLoop_spec files pl hpl n _ hinv (by rw [hS]; exact hn)
  have hfin := (mapLoop_wf files pl n _ hinv).2
  unfold mapPieces
  simp only
  rw [map_appendLast, h1, hS]
  intro a
  have ht := (trailing_spec files _ _ hfin.1).1
  unfold readPiece
  rw [List.map_append, List.flatten_append]
  have : ((trailing (mapLoop pl n ⟨0, 0, 0, files.map List.length⟩).2.idx
      (mapLoop pl n ⟨0, 0, 0, files.map List.length⟩).2.rest).map (Spec.readNode files)).flatten = [] := by
    rw [List.flatten_eq_nil_iff]
    intro l hl
    rw [List.mem_map] at hl
    obtain ⟨nd, hnd, rfl⟩ := hl
    exact (ht nd hnd).1
  rw [this]; simp

/-- indices and ranges of all nodes are in bounds, for any number of pieces -/
theorem mapPieces_nodeOK (pl n : Nat) (files : List Bytes) :
    ∀ p ∈ mapPieces pl n (files.map List.length), ∀ nd ∈ p, NodeOK files nd := by
  have hinv : MPInv files ⟨0, 0, 0, files.map List.length⟩ := ⟨by simp, by simp⟩
  obtain ⟨h1, hfin⟩ := mapLoop_wf files pl n _ hinv
  have ht := (trailing_spec files _ _ hfin.1).1
  intro p hp nd hnd
  unfold mapPieces at hp
  rcases mem_appendLast hp with h | ⟨a, ha, rfl⟩
  · exact h1 p h nd hnd
  · rcases List.mem_append.mp hnd with h | h
    · exact h1 a ha nd h
    · exact (ht nd h).2

/-- every file has a node in some piece, provided there is at least one byte -/
theorem mapPieces_all_files (pl : Nat) (hpl : 0 < pl) (files : List Bytes) (n : Nat)
    (hn : n = (chunks pl files.flatten).length) (hne : files.flatten ≠ []) :
    ∀ i, i < files.length → ∃ p ∈ mapPieces pl n (files.map List.length), ∃ nd ∈ p, nd.1 = i := by
  have hinv : MPInv files ⟨0, 0, 0, files.map List.length⟩ := ⟨by simp, by simp⟩
  have hS : remStream files ⟨0, 0, 0, files.map List.length⟩ = files.flatten := by simp [remStream]
  obtain ⟨h1, h2, _, h4⟩ := mapLoop_spec files pl hpl n _ hinv (by rw [hS]; exact hn)
  have hfin := (mapLoop_wf files pl n _ hinv).2
  have hlne : (mapLoop pl n ⟨0, 0, 0, files.map List.length⟩).1 ≠ [] := by
    intro e
    rw [e, hS, chunks_cons pl hpl _ hne] at h1
    simp at h1
  -- the final state has no remainder and only empty files left
  have hrem0 : (mapLoop pl n ⟨0, 0, 0, files.map List.length⟩).2.remainder = 0 := by
    apply Classical.byContradiction
    intro hr
    obtain ⟨f, hget, hcur, hle⟩ := hfin.2 hr
    simp only [remStream, ne_eq, hr, not_false_eq_true, if_true, hget, Option.getD_some] at h2
    have := congrArg List.length h2
    simp [List.length_drop] at this
    omega
  have hflat : (files.drop (mapLoop pl n ⟨0, 0, 0, files.map List.length⟩).2.idx).flatten = [] := by
    simpa [remStream, hrem0] using h2
  have ht := (trailing_spec files _ _ hfin.1).2 hflat
  obtain ⟨c1, q, hq, c2⟩ := appendLast_covers
    (trailing (mapLoop pl n ⟨0, 0, 0, files.map List.length⟩).2.idx
      (mapLoop pl n ⟨0, 0, 0, files.map List.length⟩).2.rest) hlne
  intro i hi
  unfold mapPieces
  by_cases hlt : i < (mapLoop pl n ⟨0, 0, 0, files.map List.length⟩).2.idx
  · obtain ⟨p, hp, nd, hnd, hni⟩ := h4 i (Nat.zero_le _) hlt
    obtain ⟨q', hq', hsub⟩ := c1 p hp
    exact ⟨q', hq', nd, hsub nd hnd, hni⟩
  · obtain ⟨nd, hnd, hni⟩ := ht i (by omega) hi
    exact ⟨q, hq, nd, c2 nd hnd, hni⟩

end Impl
end TorrentVerif

import TorrentVerif.Proofs.Creators
import TorrentVerif.Proofs.Align
/-
  The `files` list of a v1 (plain / piece-aligned) or hybrid metafile, read back:
  which entries are padding, what the listed lengths add up to, which byte stream it describes.
  The hybrid `files` list is the piece-aligned v1 list over the traversal order.
-/
namespace TorrentVerif
open Impl Spec

/-! ### reading single entries -/

theorem isPad_fileEntry (p : List Bytes) (s : Nat) : isPadEntry (fileEntry p s) = false := by
  simp [isPadEntry, fileEntry, BVal.get?, dictGet, K.length, K.attr, K.path]

theorem isPad_padEntry (n : Nat) : isPadEntry (padEntry n) = true := by
  simp [isPadEntry, padEntry, BVal.get?, dictGet, K.attr, sP]

theorem entryLength_fileEntry (p : List Bytes) (s : Nat) : entryLength (fileEntry p s) = some s := by
  simp [entryLength, fileEntry, BVal.get?, dictGet, K.length]

theorem entryLength_padEntry (n : Nat) : entryLength (padEntry n) = some n := by
  simp [entryLength, padEntry, BVal.get?, dictGet, K.length, K.attr]

theorem strList_strs (l : List Bytes) : strList (l.map .str) = some l := by
  induction l with
  | nil => rfl
  | cons a t ih => simp [strList, ih]

theorem entryPath_fileEntry (p : List Bytes) (s : Nat) : entryPath (fileEntry p s) = some p := by
  simp [entryPath, fileEntry, BVal.get?, dictGet, K.length, K.path, strs, strList_strs]

/-- an entry as (is padding, length) -/
def readFE (e : BVal) : Option FileEntry := (entryLength e).map (fun n => ⟨isPadEntry e, n⟩)

theorem readFE_fileEntry (p : List Bytes) (s : Nat) : readFE (fileEntry p s) = some ⟨false, s⟩ := by
  simp [readFE, entryLength_fileEntry, isPad_fileEntry]

theorem readFE_padEntry (n : Nat) : readFE (padEntry n) = some ⟨true, n⟩ := by
  simp [readFE, entryLength_padEntry, isPad_padEntry]

/-! ### the whole list -/

/-- every entry is a file entry or a padding entry -/
theorem v1Entries_shape (al : Bool) (pl : Nat) (ps : List (List Bytes × Nat)) :
    ∀ e ∈ v1Entries al pl ps, (∃ p s, e = fileEntry p s) ∨ (∃ n, e = padEntry n) := by
  induction ps with
  | nil => simp [v1Entries]
  | cons x t ih =>
    obtain ⟨p, s⟩ := x
    intro e he
    simp only [v1Entries] at he
    split at he
    · simp only [List.mem_cons] at he
      rcases he with he | he | he
      · exact Or.inl ⟨p, s, he⟩
      · exact Or.inr ⟨_, he⟩
      · exact ih e he
    · simp only [List.mem_cons] at he
      rcases he with he | he
      · exact Or.inl ⟨p, s, he⟩
      · exact ih e he

theorem v1Entries_readFE_true (pl : Nat) (ps : List (List Bytes × Nat)) :
    (v1Entries true pl ps).map readFE = (alignedEntries pl (ps.map (·.2))).map some := by
  induction ps with
  | nil => simp [v1Entries, alignedEntries]
  | cons x t ih =>
    obtain ⟨p, s⟩ := x
    simp only [v1Entries, List.map_cons, alignedEntries, Bool.true_and]
    by_cases h : gap pl s = 0
    · simp [h, readFE_fileEntry, ih]
    · simp [h, readFE_fileEntry, readFE_padEntry, ih]

theorem v1Entries_false (pl : Nat) (ps : List (List Bytes × Nat)) :
    v1Entries false pl ps = ps.map (fun x => fileEntry x.1 x.2) := by
  induction ps with
  | nil => simp [v1Entries]
  | cons x t ih => obtain ⟨p, s⟩ := x; simp [v1Entries, ih]

/-- the non-padding entries are the files, in order -/
theorem v1Entries_filter (al : Bool) (pl : Nat) (ps : List (List Bytes × Nat)) :
    (v1Entries al pl ps).filter (fun e => !isPadEntry e) = ps.map (fun x => fileEntry x.1 x.2) := by
  induction ps with
  | nil => simp [v1Entries]
  | cons x t ih =>
    obtain ⟨p, s⟩ := x
    simp only [v1Entries]
    split <;> simp [isPad_fileEntry, isPad_padEntry, ih]

theorem lengthsSum_of_read : ∀ (pre : List BVal) (l : List FileEntry),
    l.map some = pre.map readFE → lengthsSum pre = some (entriesLength l)
  | [], l, h => by
    have : l = [] := by simpa using h
    subst this; simp [lengthsSum, entriesLength]
  | e :: pre, l, h => by
    cases l with
    | nil => simp at h
    | cons a l' =>
      simp only [List.map_cons, List.cons.injEq] at h
      have ih := lengthsSum_of_read pre l' h.2
      have hl : entryLength e = some a.length := by
        have := h.1
        unfold readFE at this
        cases he : entryLength e with
        | none => simp [he] at this
        | some n => simp [he] at this; rw [this]
      simp [lengthsSum, hl, ih, entriesLength_cons]

/-- every non-padding entry of a piece-aligned list starts at a multiple of the piece length
    of the stream the listed lengths describe -/
theorem v1Entries_aligned (pl : Nat) (hpl : 0 < pl) (ps : List (List Bytes × Nat))
    (pre suf : List BVal) (e : BVal) (h : v1Entries true pl ps = pre ++ e :: suf)
    (hp : isPadEntry e = false) : ∃ n, lengthsSum pre = some n ∧ n % pl = 0 := by
  have hr := v1Entries_readFE_true pl ps
  rw [h, List.map_append, List.map_cons] at hr
  obtain ⟨l1, l2, hl, h1, h2⟩ := List.map_eq_append_iff.mp hr.symm
  obtain ⟨a, l3, hl2, ha, _⟩ := List.map_eq_cons_iff.mp h2
  have hapad : a.pad = false := by
    unfold readFE at ha
    cases he : entryLength e with
    | none => simp [he] at ha
    | some n => simp [he] at ha; rw [ha]; exact hp
  have hst := alignedEntries_starts pl hpl (ps.map (·.2)) l1 l3 a.length (by
    rw [hl, hl2]; congr 2; cases a; simp_all)
  exact ⟨_, lengthsSum_of_read pre l1 h1, hst⟩

/-- a padding entry of a piece-aligned list directly follows a file entry whose length is not
    a multiple of the piece length, and is literally the BEP 47 padding entry of the gap -/
theorem v1Entries_pad (pl : Nat) (ps : List (List Bytes × Nat))
    (pre suf : List BVal) (e : BVal) (h : v1Entries true pl ps = pre ++ e :: suf)
    (hp : isPadEntry e = true) :
    ∃ pre' f s, pre = pre' ++ [f] ∧ isPadEntry f = false ∧ entryLength f = some s ∧
      gap pl s ≠ 0 ∧ e = padEntry (gap pl s) := by
  have hr := v1Entries_readFE_true pl ps
  rw [h, List.map_append, List.map_cons] at hr
  obtain ⟨l1, l2, hl, h1, h2⟩ := List.map_eq_append_iff.mp hr.symm
  obtain ⟨a, l3, hl2, ha, _⟩ := List.map_eq_cons_iff.mp h2
  -- `e` is a literal padding entry
  have he : e ∈ v1Entries true pl ps := by rw [h]; simp
  rcases v1Entries_shape true pl ps e he with ⟨p, s, rfl⟩ | ⟨m, rfl⟩
  · rw [isPad_fileEntry] at hp; cases hp
  · rw [readFE_padEntry] at ha
    have ha' : a = ⟨true, m⟩ := (Option.some.inj ha)
    subst ha'
    obtain ⟨pre'', s, hpre, hm, hne⟩ := alignedEntries_pad pl (ps.map (·.2)) l1 l3 m (by rw [hl, hl2])
    subst hpre
    rw [List.map_append, List.map_cons, List.map_nil] at h1
    obtain ⟨q1, q2, hq, hq1, hq2⟩ := List.map_eq_append_iff.mp h1.symm
    obtain ⟨f, q3, hq2', hf, hq3⟩ := List.map_eq_cons_iff.mp hq2
    have : q3 = [] := by simpa using hq3
    subst this
    refine ⟨q1, f, s, by rw [hq, hq2'], ?_, ?_, by rw [← hm]; exact hne, by rw [hm]⟩
    · unfold readFE at hf
      cases hfl : entryLength f with
      | none => simp [hfl] at hf
      | some n => simp [hfl] at hf; exact hf.1
    · unfold readFE at hf
      cases hfl : entryLength f with
      | none => simp [hfl] at hf
      | some n => simp [hfl] at hf; rw [hf.2]

/-! ### the stream a list describes -/

theorem entryBytes_fileEntry (t : Node) (p : List Bytes) (d : Bytes) (h : fileAt t p = some d) :
    entryBytes t (fileEntry p d.length) = some d := by
  simp [entryBytes, isPad_fileEntry, entryPath_fileEntry, h, entryLength_fileEntry]

theorem entryBytes_padEntry (t : Node) (n : Nat) : entryBytes t (padEntry n) = some (zeros n) := by
  simp [entryBytes, isPad_padEntry, entryLength_padEntry]

/-- a piece-aligned list over files found in the content tree describes the aligned stream -/
theorem filesStream_aligned (t : Node) (pl : Nat) (files : List (List Bytes × Bytes))
    (h : ∀ x ∈ files, fileAt t x.1 = some x.2) :
    filesStream t (v1Entries true pl (files.map fun x => (x.1, x.2.length)))
      = some (Spec.alignedStream pl (files.map (·.2))) := by
  induction files with
  | nil => simp [v1Entries, filesStream, Spec.alignedStream]
  | cons x r ih =>
    obtain ⟨p, d⟩ := x
    have hd := h (p, d) (by simp)
    have ih' := ih (fun y hy => h y (by simp [hy]))
    unfold Spec.alignedStream at ih' ⊢
    simp only [List.map_cons, v1Entries, Bool.true_and]
    by_cases hg : gap pl d.length = 0
    · simp [hg, filesStream, entryBytes_fileEntry t p d hd, ih', zeros]
    · simp [hg, filesStream, entryBytes_fileEntry t p d hd, entryBytes_padEntry, ih']

/-- a plain list over files found in the content tree describes their concatenation -/
theorem filesStream_plain (t : Node) (pl : Nat) (files : List (List Bytes × Bytes))
    (h : ∀ x ∈ files, fileAt t x.1 = some x.2) :
    filesStream t (v1Entries false pl (files.map fun x => (x.1, x.2.length)))
      = some (files.map (·.2)).flatten := by
  induction files with
  | nil => simp [v1Entries, filesStream]
  | cons x r ih =>
    obtain ⟨p, d⟩ := x
    have hd := h (p, d) (by simp)
    have ih' := ih (fun y hy => h y (by simp [hy]))
    simp [v1Entries, filesStream, entryBytes_fileEntry t p d hd, ih']

/-! ### the hybrid list is the piece-aligned list -/

theorem hybridEntries_eq (hf : Bytes → FileHash) (pl : Nat)
    (hpad : ∀ d, d.length ≠ 0 → (hf d).padding = Spec.hybridPadding pl d)
    (files : List (List Bytes × Bytes)) :
    hybridEntries hf files = v1Entries true pl (files.map fun x => (x.1, x.2.length)) := by
  induction files with
  | nil => simp [hybridEntries, v1Entries]
  | cons x r ih =>
    obtain ⟨p, d⟩ := x
    simp only [hybridEntries, List.map_cons, v1Entries, Bool.true_and]
    by_cases h0 : d.length = 0
    · have hg : gap pl 0 = 0 := by simp [gap]
      simp [h0, hg, ih]
    · rw [hpad d h0]
      unfold Spec.hybridPadding
      by_cases hg : gap pl d.length = 0
      · simp [h0, hg, ih]
      · simp [h0, hg, ih]

end TorrentVerif

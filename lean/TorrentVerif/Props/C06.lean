import TorrentVerif.Proofs.CreateWF
import TorrentVerif.Proofs.EditCanon
import TorrentVerif.Proofs.CreatorsCanon
/-
  C06 — every metafile written is canonical, structurally valid bencoding.
  Property theorems only; helper lemmas live in `Proofs/`.

  `Impl.encode`/`Impl.decode` model pyben, `Spec.strictDecode` is the strict reference decoder
  (keys strictly ascending in raw byte order at every level, minimal numerals, nothing trailing),
  `Canonical` says "keys strictly ascending at every level", `Spec.WellFormed ver` is the
  structure a version requires. Payload parts computed elsewhere (file list, file tree, piece
  string, piece layers) are parameters; what is assumed about them is stated in each theorem.
-/
/-! example inputs used by the `example`s below -/
namespace TorrentVerif.Ex.C06
open TorrentVerif Impl Spec

/-- example options: tracker list, comment, private, source, web seeds and http seeds -/
def exOpts : CreateOpts :=
  { createdBy := [116], creationDate := 1700000000, announce := .list [[104], [105]],
    comment := [99], priv := true, source := [115], urlList := .str [119],
    httpseeds := .list [[120]], pieceLength := 16384, name := [110] }

/-- two files `b`, `a/c` as a v1 file list -/
def exFiles : BVal := .list [.dict [(K.length, .int 5), ([112, 97, 116, 104], .list [.str [98]])],
  .dict [(K.length, .int 0), ([112, 97, 116, 104], .list [.str [97], .str [99]])]]

/-- their file tree -/
def exTree : BVal := .dict [([97], .dict [([99], .dict [([], .dict [(K.length, .int 0)])])]),
  ([98], .dict [([], .dict [(K.length, .int 5), ([112, 105, 101, 99, 101, 115, 32, 114, 111, 111, 116],
    .str (List.replicate 32 7))])])]

/-- a small canonical v1 metafile -/
def exMeta : BVal := .dict [(K.announce, .str [97]), (K.info, .dict [(K.length, .int 5),
  (K.name, .str [110]), (K.pieceLength, .int 16384), (K.pieces, .str (List.replicate 20 1))])]

/-- adds `comment`, `private`, http seeds; replaces the tracker by two -/
def exReq : EditReq :=
  { comment := .str [99], priv := .str [49], announce := .str [120, 32, 121],
    httpseeds := .list [[104]] }

end TorrentVerif.Ex.C06

namespace TorrentVerif.Props.C06
open TorrentVerif Impl Spec TorrentVerif.Ex.C06

/-- A canonical value, encoded, is accepted by the strict decoder and gives the value back:
    what `write` emits for a canonical value has unique ascending keys at every level, minimal
    integers and lengths, and nothing trailing. -/
theorem canonical_roundtrip (v : BVal) (h : Canonical v = true) :
    strictDecode (encode v) = some v := by
  unfold strictDecode
  have := parse_encode v (encode v).length [] (Nat.le_refl _)
  rw [List.append_nil] at this
  simp [this, h]

example : strictDecode (encode (.dict [([97], .int (-3)), ([97, 98], .list [.str [1, 2]]),
    ([255], .dict [([], .int 0)])])) = some (.dict [([97], .int (-3)), ([97, 98], .list [.str [1, 2]]),
    ([255], .dict [([], .int 0)])]) := canonical_roundtrip _ (by decide)

/-- Whatever byte string the strict decoder accepts is the encoding of a canonical value, and
    of that value only: a value has exactly one accepted byte string, so every conforming
    decoder sees the same bytes for `info` (hence the same info-hash). -/
theorem strict_only_canonical (b : Bytes) (v : BVal) (h : strictDecode b = some v) :
    Canonical v = true ∧ encode v = b := by
  unfold strictDecode at h
  cases hp : parse b.length b with
  | none => simp [hp] at h
  | some vr =>
    obtain ⟨v', r⟩ := vr
    cases r with
    | nil =>
      simp only [hp] at h
      by_cases hc : Canonical v' = true
      · simp only [hc, if_true, Option.some.injEq] at h
        subst h
        have := parse_sound b.length b v' [] hp
        rw [List.append_nil] at this
        exact ⟨hc, this.symm⟩
      · simp [hc] at h
    | cons c t => simp [hp] at h

-- "d1:ai1e1:bli2eee" is accepted; the same items in the other order are not
example : strictDecode [100, 49, 58, 97, 105, 49, 101, 49, 58, 98, 108, 105, 50, 101, 101, 101]
    = some (.dict [([97], .int 1), ([98], .list [.int 2])]) := by decide
example : strictDecode [100, 49, 58, 98, 108, 105, 50, 101, 101, 49, 58, 97, 105, 49, 101, 101]
    = none := by decide

/-- Two byte strings that strictly decode to the same value are equal. -/
theorem strict_injective (b b' : Bytes) (v : BVal) (h : strictDecode b = some v)
    (h' : strictDecode b' = some v) : b = b' := by
  rw [← (strict_only_canonical b v h).2, ← (strict_only_canonical b' v h').2]

example : ∀ b', strictDecode b' = some (.int 7) → [105, 55, 101] = b' :=
  fun b' h' => strict_injective _ b' _ (by decide) h'

/-- `sort_meta` yields a canonical value whenever: the top level and `info` have distinct keys
    (they are Python dictionaries), the values inside `info` are canonical, `piece layers` — if
    present — is a dictionary with distinct keys and canonical values, and every other
    top-level value is canonical. Nothing is assumed about the order of any keys. -/
theorem sortMeta_canonical (m info : Dict) (hi : dictGet m K.info = some (.dict info))
    (hm : (keys m).Nodup) (hin : (keys info).Nodup) (hiv : ∀ kv ∈ info, Canonical kv.2 = true)
    (hrest : ∀ kv ∈ m, kv.1 ≠ K.info → kv.1 ≠ K.pieceLayers → Canonical kv.2 = true)
    (hl : ∀ v, dictGet m K.pieceLayers = some v →
      ∃ l, v = .dict l ∧ (keys l).Nodup ∧ ∀ kv ∈ l, Canonical kv.2 = true) :
    ∃ r, sortMeta (.dict m) = some r ∧ Canonical r = true :=
  sortMeta_canon m info hi hm ⟨hin, hiv⟩ hrest (fun v hv => by
    obtain ⟨l, e, h1, h2⟩ := hl v hv; exact ⟨l, e, ⟨h1, h2⟩⟩)

example : ∃ r, sortMeta (.dict [(K.pieceLayers, .dict [([9], .str []), ([3], .str [])]),
      (K.info, .dict [(K.name, .str [110]), (K.length, .int 1)]), (K.announce, .str [97])]) = some r ∧
    Canonical r = true :=
  sortMeta_canonical _ [(K.name, .str [110]), (K.length, .int 1)] (by decide) (by decide) (by decide)
    (by decide) (by decide) (by
      intro v hv
      refine ⟨[([9], .str []), ([3], .str [])], ?_, by decide, by decide⟩
      have : dictGet [(K.pieceLayers, BVal.dict [([9], .str []), ([3], .str [])]),
        (K.info, .dict [(K.name, .str [110]), (K.length, .int 1)]), (K.announce, .str [97])]
        K.pieceLayers = some (.dict [([9], .str []), ([3], .str [])]) := by decide
      rw [this] at hv; exact (Option.some.inj hv).symm)

/-- v1 creator (`TorrentFile`): for all options, the value handed to `pyben.dump` is canonical
    and is read back unchanged by the strict decoder. Assumed of the parameters: the `files`
    list (multi-file case) is canonical, i.e. each entry dictionary has its keys (`length`,
    `path`, and `attr` for padding) in ascending order — the entries are built that way. -/
theorem create_canonical_v1 (o : CreateOpts) (content : Content) (pieces : Bytes)
    (hf : ∀ files, content = .multi files → Canonical files = true) :
    ∃ r, Written (assembleV1 o content pieces) r := by
  obtain ⟨r, h, hc⟩ := v1_canon o content pieces (by
    cases content with
    | single n => rfl
    | multi files => exact hf files rfl)
  exact ⟨r, h, hc, by simp [write, h], canonical_roundtrip r hc⟩

/-- v2 creator (`TorrentFileV2`). Assumed: the file tree returned by `_traverse` is canonical
    (directory entries are visited in sorted order, names in a directory are distinct, leaves
    are `{"": {"length", "pieces root"}}`). The piece layers may arrive in any order and with
    repeated roots (identical files): the model builds the dictionary as the code does. -/
theorem create_canonical_v2 (o : CreateOpts) (single : Option Nat) (tree : BVal)
    (layers : List (Bytes × Bytes)) (ht : Canonical tree = true) :
    ∃ r, Written (assembleV2 o single tree layers) r := by
  obtain ⟨r, h, hc⟩ := v2_canon o single tree layers ht
  exact ⟨r, h, hc, by simp [write, h], canonical_roundtrip r hc⟩

/-- `TorrentAssembler` in v2 mode: same as v2 (keys are inserted in another order). -/
theorem create_canonical_asm2 (o : CreateOpts) (single : Option Nat) (tree : BVal)
    (layers : List (Bytes × Bytes)) (ht : Canonical tree = true) :
    ∃ r, Written (assembleAsmV2 o single tree layers) r := by
  obtain ⟨r, h, hc⟩ := asm2_canon o single tree layers ht
  exact ⟨r, h, hc, by simp [write, h], canonical_roundtrip r hc⟩

/-- hybrid creators (`TorrentFileHybrid`, `TorrentAssembler` in hybrid mode). -/
theorem create_canonical_hybrid (o : CreateOpts) (content : Content) (tree : BVal)
    (pieces : Bytes) (layers : List (Bytes × Bytes)) (ht : Canonical tree = true)
    (hf : ∀ files, content = .multi files → Canonical files = true) :
    ∃ r, Written (assembleHybrid o content tree pieces layers) r := by
  obtain ⟨r, h, hc⟩ := hybrid_canon o content tree pieces layers ht (by
    cases content with
    | single n => rfl
    | multi files => exact hf files rfl)
  exact ⟨r, h, hc, by simp [write, h], canonical_roundtrip r hc⟩


example : ∃ r, Written (assembleV1 exOpts (.multi exFiles) (List.replicate 20 1)) r :=
  create_canonical_v1 exOpts (.multi exFiles) _ (by intro f e; cases e; decide)
example : ∃ r, Written (assembleV2 exOpts none exTree [([9], List.replicate 64 0), ([3], []),
    ([9], [])]) r :=
  create_canonical_v2 exOpts none exTree _ (by decide)
example : ∃ r, Written (assembleAsmV2 exOpts (some 5) (.dict [([], .dict [(K.length, .int 5)])])
    []) r :=
  create_canonical_asm2 exOpts (some 5) _ _ (by decide)
example : ∃ r, Written (assembleHybrid exOpts (.multi exFiles) exTree (List.replicate 20 1)
    [([9], List.replicate 64 0), ([3], [])]) r :=
  create_canonical_hybrid exOpts (.multi exFiles) exTree _ _ (by decide)
    (by intro f e; cases e; decide)

/-- What every creator writes has the structure its version requires. Assumed of the
    parameters: the piece string is a whole number of 20-byte hashes, every piece layer a
    whole number of 32-byte hashes, `files` is a list, and the tree of a directory is a
    dictionary. (v1) -/
theorem create_wellformed_v1 (o : CreateOpts) (content : Content) (pieces : Bytes) (r : BVal)
    (hp : pieces.length % 20 = 0) (hf : ∀ files, content = .multi files → isList (some files) = true)
    (h : sortMeta (assembleV1 o content pieces) = some r) : WellFormed .v1 r = true :=
  v1_wf o content pieces r hp (by
    cases content with
    | single n => rfl
    | multi files => exact hf files rfl) h

/-- (v2, both creators) -/
theorem create_wellformed_v2 (o : CreateOpts) (single : Option Nat) (tree : BVal)
    (layers : List (Bytes × Bytes)) (r : BVal) (ht : single = none → isDict (some tree) = true)
    (hl : ∀ kv ∈ layers, kv.2.length % 32 = 0)
    (h : sortMeta (assembleV2 o single tree layers) = some r ∨
         sortMeta (assembleAsmV2 o single tree layers) = some r) : WellFormed .v2 r = true := by
  rcases h with h | h
  · exact v2_wf o single tree layers r ht hl h
  · exact asm2_wf o single tree layers r ht hl h

/-- (hybrid: everything v1 requires and everything v2 requires) -/
theorem create_wellformed_hybrid (o : CreateOpts) (content : Content) (tree : BVal)
    (pieces : Bytes) (layers : List (Bytes × Bytes)) (r : BVal) (hp : pieces.length % 20 = 0)
    (hf : ∀ files, content = .multi files → isList (some files) = true)
    (ht : (∀ n, content ≠ .single n) → isDict (some tree) = true)
    (hl : ∀ kv ∈ layers, kv.2.length % 32 = 0)
    (h : sortMeta (assembleHybrid o content tree pieces layers) = some r) :
    WellFormed .hybrid r = true :=
  hybrid_wf o content tree pieces layers r hp (by
    cases content with
    | single n => rfl
    | multi files => exact hf files rfl) ht hl h

example : ∀ r, sortMeta (assembleV1 exOpts (.multi exFiles) (List.replicate 40 1)) = some r →
    WellFormed .v1 r = true :=
  fun r h => create_wellformed_v1 exOpts _ _ r (by decide) (by intro f e; cases e; rfl) h
example : ∀ r, sortMeta (assembleV2 exOpts none exTree [([9], List.replicate 64 0)]) = some r →
    WellFormed .v2 r = true :=
  fun r h => create_wellformed_v2 exOpts none exTree _ r (fun _ => rfl) (by decide) (Or.inl h)
example : ∀ r, sortMeta (assembleHybrid exOpts (.single 5) (.dict [([], .dict [(K.length, .int 5)])])
    (List.replicate 20 1) []) = some r → WellFormed .hybrid r = true :=
  fun r h => create_wellformed_hybrid exOpts _ _ _ _ r (by decide) (by intro f e; cases e)
    (by intro hn; exact absurd rfl (hn 5)) (by decide) h

/-- An edit of a canonical metafile writes a canonical metafile, whatever fields it adds,
    replaces or removes. -/
theorem edit_preserves_canonical (mf mf' : BVal) (req : EditReq) (hc : Canonical mf = true)
    (h : editTorrent mf req = .ok mf') : Canonical mf' = true :=
  edit_canon mf mf' req hc h


example : ∃ mf', editTorrent exMeta exReq = .ok mf' ∧ Canonical mf' = true :=
  ⟨_, rfl, edit_preserves_canonical exMeta _ exReq (by decide) rfl⟩

/-- An edit keeps the structure the version requires (it cannot remove or retype `name`,
    `piece length`, `length`, `files`, `pieces`, `meta version`, `file tree`, `piece layers`). -/
theorem edit_preserves_wellformed (ver : Version) (mf mf' : BVal) (req : EditReq)
    (hw : WellFormed ver mf = true) (h : editTorrent mf req = .ok mf') :
    WellFormed ver mf' = true := by
  obtain ⟨top, info, tr, hmf, hi, _, _⟩ := edit_ok mf mf' req h
  have hinfo : ∀ k, k ≠ K.comment → k ≠ K.source → k ≠ K.priv → mf'.infoGet? k = mf.infoGet? k := by
    intro k h1 h2 h3
    rw [edit_info_get mf mf' req h top hmf k, infoWriteG_keep_other req top k h1 h2 h3]; rfl
  have hpl : mf'.get? K.pieceLayers = mf.get? K.pieceLayers := by
    rw [edit_top_get mf mf' req h K.pieceLayers (by decide)]; rfl
  simp only [WellFormed, baseOk, v1Ok, v2Ok] at hw ⊢
  rw [hinfo K.name (by decide) (by decide) (by decide),
    hinfo K.pieceLength (by decide) (by decide) (by decide),
    hinfo K.length (by decide) (by decide) (by decide),
    hinfo K.files (by decide) (by decide) (by decide),
    hinfo K.pieces (by decide) (by decide) (by decide),
    hinfo K.metaVersion (by decide) (by decide) (by decide),
    hinfo K.fileTree (by decide) (by decide) (by decide), hpl]
  exact hw

example : ∃ mf', editTorrent exMeta exReq = .ok mf' ∧ WellFormed .v1 mf' = true :=
  ⟨_, rfl, edit_preserves_wellformed .v1 exMeta _ exReq (by decide) rfl⟩

/-- After any finite sequence of edits a canonical, well-formed metafile is still canonical
    and well-formed. -/
theorem edits_canonical (ver : Version) (reqs : List EditReq) (mf mf' : BVal)
    (hc : Canonical mf = true) (hw : WellFormed ver mf = true)
    (h : editMany mf reqs = .ok mf') : Canonical mf' = true ∧ WellFormed ver mf' = true := by
  induction reqs generalizing mf with
  | nil => simp only [editMany, Except.ok.injEq] at h; subst h; exact ⟨hc, hw⟩
  | cons r rs ih =>
    obtain ⟨m1, h1, h2⟩ := editMany_cons mf mf' r rs h
    exact ih m1 (edit_preserves_canonical mf m1 r hc h1)
      (edit_preserves_wellformed ver mf m1 r hw h1) h2

example : ∃ mf', editMany exMeta [exReq, { comment := .cleared, urlList := .list [[119]] },
    { announce := .cleared }] = .ok mf' ∧ Canonical mf' = true ∧ WellFormed .v1 mf' = true := by
  obtain ⟨mf', h⟩ : ∃ mf', editMany exMeta [exReq, { comment := .cleared, urlList := .list [[119]] },
    { announce := .cleared }] = .ok mf' :=
    editMany_total _ exMeta _ (rfl : exMeta.get? K.info = some (.dict _)) (by
      intro r hr
      simp only [List.mem_cons, List.not_mem_nil, or_false] at hr
      rcases hr with e | e | e <;> subst e <;> exact ⟨_, rfl⟩)
  exact ⟨mf', h, edits_canonical .v1 _ exMeta mf' (by decide) (by decide) h⟩

end TorrentVerif.Props.C06

/-! ### the real creators (`Model/Creators.lean`): nothing is assumed of the payload parts

  The hypotheses of `create_canonical_*` / `create_wellformed_*` about the file list, the file
  tree, the piece string and the piece layers are discharged by the real directory walks and
  hashers. `r` is the value handed to `pyben.dump`, `b` the bytes written. -/
namespace TorrentVerif.Props.C06
open TorrentVerif Impl Spec TorrentVerif.Toy TorrentVerif.Ex.G7

/-- v1 creator (`TorrentFile`, with or without `align`), any content tree, any options, any
    enumeration order: whenever it writes a metafile, the value is canonical, the bytes are its
    encoding and are read back unchanged by the strict decoder, and it has the structure v1
    requires (the v1 hash has 20-byte digests, as SHA-1 has). -/
theorem create_canonical_real_v1 (o : CreateOpts) (align : Bool) (H1 : Bytes → Bytes)
    (h20 : ∀ x, (H1 x).length = 20)
    (enum : List (List (Bytes × Bytes)) → List (List (Bytes × Bytes))) (pre : Bytes) (t : Node)
    (r : BVal) (b : Bytes) (h : createV1 o align H1 enum pre t = some (r, b)) :
    Canonical r = true ∧ b = encode r ∧ strictDecode b = some r ∧ WellFormed .v1 r = true := by
  obtain ⟨content, l, hs', hb, hc, hl⟩ := createV1_sortMeta o align H1 enum pre t r b h
  obtain ⟨r', hr', hcan⟩ := v1_canon o content ((l.map H1).flatten) hc
  rw [hs'] at hr'; cases hr'
  refine ⟨hcan, hb, by rw [hb]; exact canonical_roundtrip r hcan, ?_⟩
  exact v1_wf o content _ r (flatten_map_mod H1 20 h20 l) hl hs'

/-- met by: the example tree, piece-aligned, enumerated backwards; the creator succeeds -/
example : ∃ r b, createV1 exOpts true toyH20 List.reverse [114] exTree = some (r, b) ∧
    Canonical r = true ∧ b = encode r ∧ strictDecode b = some r ∧ WellFormed .v1 r = true := by
  obtain ⟨r, b, h⟩ := createV1_dir_some exOpts true toyH20 List.reverse List.reverse_perm [114] _
    exTree_wellNamed (exTree_sorted_ne [114])
  exact ⟨r, b, h, create_canonical_real_v1 exOpts true toyH20 (by intro x; simp [toyH20])
    List.reverse [114] exTree r b h⟩

/-- v2 creators (`TorrentFileV2`, `TorrentAssembler` in v2 mode), any content tree whose entry
    names are non-empty, `/`-free and distinct among siblings, any options, any enumeration
    order: what is written is canonical, strictly decodable to the same value, and has the
    structure v2 requires (hash and zero-hash size 32, piece length `2^j · B`). The piece
    layers may contain equal roots and arrive in traversal order; the file tree comes from the
    real traversal. -/
theorem create_canonical_real_v2 (o : CreateOpts) (H H1 : Bytes → Bytes) (B hs j : Nat)
    (hB : 0 < B) (hpl : o.pieceLength = 2 ^ j * B) (hs32 : hs = 32) (hH : ∀ x, (H x).length = 32)
    (enum : List (Bytes × FTree) → List (Bytes × FTree)) (henum : ∀ l, (enum l).Perm l)
    (t : Node) (hwn : WellNamed t) (r : BVal) (b : Bytes)
    (h : createV2Class o H B hs enum t = some (r, b) ∨
         createAsm false o H H1 B hs enum t = some (r, b)) :
    Canonical r = true ∧ b = encode r ∧ strictDecode b = some r ∧ WellFormed .v2 r = true := by
  subst hs32
  have h' : createV2Class o H B 32 enum t = some (r, b) := by
    rcases h with h | h
    · exact h
    · rwa [createAsm_false_eq o H H1 B 32 (2 ^ j) hB (Nat.two_pow_pos j) hpl] at h
  unfold createV2Class at h'
  simp only [pl_div o B (2 ^ j) hB hpl] at h'
  obtain ⟨hs', hb⟩ := written_some _ r b h'
  obtain ⟨r', hr', hcan⟩ := v2_canon o (singleLen t) _ (layerItems (fhV2 H B 32 (2 ^ j))
    o.pieceLength (ftreeFiles [] (traverse enum t)))
    (canon_traverse (fhV2 H B 32 (2 ^ j)) enum henum t hwn)
  rw [hs'] at hr'; cases hr'
  refine ⟨hcan, hb, by rw [hb]; exact canonical_roundtrip r hcan, ?_⟩
  refine v2_wf o (singleLen t) _ _ r ?_ ?_ hs'
  · intro hsingle
    cases t with
    | file d => simp [singleLen] at hsingle
    | dir es => exact isDict_traverse_dir _ enum es
  · rw [hpl]; exact layerItems_mod H B 32 j hB hH _

/-- met by: the example tree enumerated backwards, a toy hash with 32-byte digests -/
example : ∃ r b, createAsm false exOpts (fun x => List.replicate 32 (toyH x).length.toUInt8) toyH1 2 32
      List.reverse exTree = some (r, b) ∧
    Canonical r = true ∧ b = encode r ∧ strictDecode b = some r ∧ WellFormed .v2 r = true := by
  obtain ⟨r, b, h⟩ := createAsm_false_some exOpts (fun x => List.replicate 32 (toyH x).length.toUInt8)
    toyH1 2 32 2 (by decide) (by decide) rfl List.reverse exTree
  exact ⟨r, b, h, create_canonical_real_v2 exOpts _ toyH1 2 32 1 (by decide) rfl rfl (by simp)
    List.reverse List.reverse_perm exTree exTree_wellNamed r b (Or.inr h)⟩

/-- hybrid creators (`TorrentFileHybrid`, `TorrentAssembler` in hybrid mode): the same, with
    everything v1 requires and everything v2 requires (20-byte v1 digests, 32-byte v2 hashes). -/
theorem create_canonical_real_hybrid (o : CreateOpts) (H H1 : Bytes → Bytes) (B hs j : Nat)
    (hB : 0 < B) (hpl : o.pieceLength = 2 ^ j * B) (hs32 : hs = 32) (hH : ∀ x, (H x).length = 32)
    (h20 : ∀ x, (H1 x).length = 20)
    (enum : List (Bytes × FTree) → List (Bytes × FTree)) (henum : ∀ l, (enum l).Perm l)
    (t : Node) (hwn : WellNamed t) (r : BVal) (b : Bytes)
    (h : createHybridClass o H H1 B hs enum t = some (r, b) ∨
         createAsm true o H H1 B hs enum t = some (r, b)) :
    Canonical r = true ∧ b = encode r ∧ strictDecode b = some r ∧ WellFormed .hybrid r = true := by
  subst hs32
  have h' : createHybridClass o H H1 B 32 enum t = some (r, b) := by
    rcases h with h | h
    · exact h
    · rwa [createAsm_true_eq o H H1 B 32 (2 ^ j) hB (Nat.two_pow_pos j) hpl h20] at h
  obtain ⟨content, l, hs', hb, hc, hl, hdir⟩ :=
    createHybridClass_sortMeta o H H1 B 32 (2 ^ j) hB (Nat.two_pow_pos j) hpl enum t r b h'
  obtain ⟨r', hr', hcan⟩ := hybrid_canon o content _ ((l.map H1).flatten) _
    (canon_traverse (fhHybrid H H1 B 32 (2 ^ j)) enum henum t hwn) hc
  rw [hs'] at hr'; cases hr'
  refine ⟨hcan, hb, by rw [hb]; exact canonical_roundtrip r hcan, ?_⟩
  refine hybrid_wf o content _ _ _ r (flatten_map_mod H1 20 h20 l) hl ?_ ?_ hs'
  · intro hn
    obtain ⟨es, rfl⟩ := hdir hn
    exact isDict_traverse_dir _ enum es
  · rw [hpl]; exact layerItems_hybrid_mod H H1 B 32 j hB hH _

/-- met by (hypotheses other than the digest sizes, which no 1-byte toy hash has): the example
    tree and the example file; stated for hash functions with the right digest sizes -/
example (H H1 : Bytes → Bytes) (hH : ∀ x, (H x).length = 32) (h20 : ∀ x, (H1 x).length = 20) :
    ∃ r b, createHybridClass exOpts H H1 2 32 id exTree = some (r, b) ∧
      Canonical r = true ∧ b = encode r ∧ strictDecode b = some r ∧ WellFormed .hybrid r = true := by
  obtain ⟨r, b, h⟩ := createHybridClass_some exOpts H H1 2 32 2 (by decide) (by decide) rfl id exTree
  exact ⟨r, b, h, create_canonical_real_hybrid exOpts H H1 2 32 1 (by decide) rfl rfl hH h20 id
    (fun _ => .refl _) exTree exTree_wellNamed r b (Or.inl h)⟩

example : ∃ H : Bytes → Bytes, ∀ x, (H x).length = 32 := ⟨fun _ => List.replicate 32 0, by simp⟩

end TorrentVerif.Props.C06

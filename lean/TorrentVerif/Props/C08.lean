import TorrentVerif.Proofs.Listing
/-
  C08 — the info dictionary depends only on the payload, not on where the payload lives or in
  which order the operating system enumerates directories.  This file covers the listing part:
  the v1 file list (`utils.filelist_total`) and the v2 / hybrid file tree (`_traverse`).
  The OS enumeration order is the parameter `enum`: any function that only permutes.
  Property theorems only; helper lemmas live in `Proofs/Listing.lean`.
-/
namespace TorrentVerif.Props.C08
open TorrentVerif Listing

/-- Whatever order the OS enumerates directories in, the v1 listing of a real directory tree
    (entry names non-empty, without `/`, distinct among siblings) rooted at any path `pre` is
    the list of all its regular files sorted by full path string.  (For a single file both
    sides are the one-element list `[(pre, contents)]`.) -/
theorem listV1_eq_sorted (enum : List (List (Bytes × Bytes)) → List (List (Bytes × Bytes)))
    (henum : ∀ l, (enum l).Perm l) (pre : Bytes) (t : Node) (h : Spec.WellNamed t) :
    Impl.listV1 enum pre t = Spec.sortedFiles pre t ∧
    (∀ d, t = .file d → Impl.listV1 enum pre t = [(pre, d)]) :=
  ⟨Impl.listV1_eq_sortedFiles enum henum pre t h, fun d e => by subst e; simp [Impl.listV1]⟩

/-- met by: the example tree (unsorted, nested, with an empty directory) enumerated backwards -/
example : Impl.listV1 List.reverse [114] exTree = Spec.sortedFiles [114] exTree :=
  (listV1_eq_sorted List.reverse List.reverse_perm [114] exTree exTree_wellNamed).1

/-- Any two enumeration orders give the same v1 file list. -/
theorem enum_order_invariant_v1
    (enum₁ enum₂ : List (List (Bytes × Bytes)) → List (List (Bytes × Bytes)))
    (h₁ : ∀ l, (enum₁ l).Perm l) (h₂ : ∀ l, (enum₂ l).Perm l)
    (pre : Bytes) (t : Node) (h : Spec.WellNamed t) :
    Impl.listV1 enum₁ pre t = Impl.listV1 enum₂ pre t := by
  rw [Impl.listV1_eq_sortedFiles enum₁ h₁ pre t h, Impl.listV1_eq_sortedFiles enum₂ h₂ pre t h]

/-- met by: backwards enumeration against stored order, on the example tree -/
example : Impl.listV1 List.reverse [114] exTree = Impl.listV1 id [114] exTree :=
  enum_order_invariant_v1 List.reverse id List.reverse_perm (fun _ => .refl _) [114] exTree
    exTree_wellNamed

/-- The v2 / hybrid file tree does not depend on the order in which the OS enumerates
    directories: it is the tree obtained from the stored order. -/
theorem enum_order_invariant_v2 (enum : List (Bytes × Impl.FTree) → List (Bytes × Impl.FTree))
    (henum : ∀ l, (enum l).Perm l) (t : Node) (h : Spec.WellNamed t) :
    Impl.traverse enum t = Impl.traverse id t :=
  Impl.traverse_enum enum henum t h

/-- met by: backwards enumeration of the example tree -/
example : Impl.traverse List.reverse exTree = Impl.traverse id exTree :=
  enum_order_invariant_v2 List.reverse List.reverse_perm exTree exTree_wellNamed

/-- Hence the order in which files are visited — the order of the hybrid `files` list and of
    the piece-layer insertions — does not depend on the OS enumeration order either. -/
theorem enum_order_invariant_v2_files
    (enum : List (Bytes × Impl.FTree) → List (Bytes × Impl.FTree))
    (henum : ∀ l, (enum l).Perm l) (t : Node) (h : Spec.WellNamed t) :
    Impl.ftreeFiles [] (Impl.traverse enum t) = Impl.ftreeFiles [] (Impl.traverse id t) := by
  rw [Impl.traverse_enum enum henum t h]

/-- met by: backwards enumeration of the example tree -/
example : Impl.ftreeFiles [] (Impl.traverse List.reverse exTree) =
    Impl.ftreeFiles [] (Impl.traverse id exTree) :=
  enum_order_invariant_v2_files List.reverse List.reverse_perm exTree exTree_wellNamed

/-- The v1 listing relative to the root does not depend on where the root lives (nor on how
    either copy is enumerated): listing the same tree under the paths `p` and `q` and cutting
    the root path off every entry gives the same list of (relative path, contents).  Sorting
    full path strings that share a prefix is the same as sorting the relative paths. -/
theorem location_invariant
    (enum₁ enum₂ : List (List (Bytes × Bytes)) → List (List (Bytes × Bytes)))
    (h₁ : ∀ l, (enum₁ l).Perm l) (h₂ : ∀ l, (enum₂ l).Perm l)
    (p q : Bytes) (t : Node) (h : Spec.WellNamed t) :
    (Impl.listV1 enum₁ p t).map (fun x => (x.1.drop p.length, x.2)) =
    (Impl.listV1 enum₂ q t).map (fun x => (x.1.drop q.length, x.2)) := by
  rw [Impl.listV1_eq_sortedFiles enum₁ h₁ p t h, Impl.listV1_eq_sortedFiles enum₂ h₂ q t h,
    Spec.sortedFiles_relative, Spec.sortedFiles_relative]

/-- met by: the example tree at `r` and at `/x y/r`, enumerated in different orders -/
example : (Impl.listV1 id [114] exTree).map (fun x => (x.1.drop 1, x.2)) =
    (Impl.listV1 List.reverse [47, 120, 32, 121, 47, 114] exTree).map
      (fun x => (x.1.drop 6, x.2)) :=
  location_invariant id List.reverse (fun _ => .refl _) List.reverse_perm [114]
    [47, 120, 32, 121, 47, 114] exTree exTree_wellNamed

/-- In the file tree built by the v2 / hybrid traversal every dictionary (every directory
    level) has its keys strictly ascending in byte order, whatever the OS enumeration order —
    the precondition of a canonical bencoding of the file tree. -/
theorem traverse_sorted (enum : List (Bytes × Impl.FTree) → List (Bytes × Impl.FTree))
    (henum : ∀ l, (enum l).Perm l) (t : Node) (h : Spec.WellNamed t) :
    Spec.KeysAscending (Impl.traverse enum t) :=
  Impl.traverse_keysAscending enum henum t h

/-- met by: backwards enumeration of the example tree -/
example : Spec.KeysAscending (Impl.traverse List.reverse exTree) :=
  traverse_sorted List.reverse List.reverse_perm exTree exTree_wellNamed

end TorrentVerif.Props.C08

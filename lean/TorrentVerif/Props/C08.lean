import TorrentVerif.Proofs.Listing
import TorrentVerif.Proofs.CreatorsInfo
/-
  C08 — the info dictionary depends only on the payload, not on where the payload lives or in
  which order the operating system enumerates directories.  This file covers the listing part:
  the v1 file list (`utils.filelist_total`) and the v2 / hybrid file tree (`_traverse`).
  The OS enumeration order is the parameter `enum`: any function that only permutes.
  Property theorems only; helper lemmas live in `Proofs/Listing.lean`.
-/
namespace TorrentVerif.Props.C08
open TorrentVerif Listing

/-- Whatever order the OS enumerates directories in, the v1 listing of a real directory tree
    (entry names non-empty, without `/`, distinct among siblings) rooted at any path `pre` is
    the list of all its regular files sorted by full path string.  (For a single file both
    sides are the one-element list `[(pre, contents)]`.) -/
theorem listV1_eq_sorted (enum : List (List (Bytes × Bytes)) → List (List (Bytes × Bytes)))
    (henum : ∀ l, (enum l).Perm l) (pre : Bytes) (t : Node) (h : Spec.WellNamed t) :
    Impl.listV1 enum pre t = Spec.sortedFiles pre t ∧
    (∀ d, t = .file d → Impl.listV1 enum pre t = [(pre, d)]) :=
  ⟨Impl.listV1_eq_sortedFiles enum henum pre t h, fun d e => by subst e; simp [Impl.listV1]⟩

/-- met by: the example tree (unsorted, nested, with an empty directory) enumerated backwards -/
example : Impl.listV1 List.reverse [114] exTree = Spec.sortedFiles [114] exTree :=
  (listV1_eq_sorted List.reverse List.reverse_perm [114] exTree exTree_wellNamed).1

/-- Any two enumeration orders give the same v1 file list. -/
theorem enum_order_invariant_v1
    (enum₁ enum₂ : List (List (Bytes × Bytes)) → List (List (Bytes × Bytes)))
    (h₁ : ∀ l, (enum₁ l).Perm l) (h₂ : ∀ l, (enum₂ l).Perm l)
    (pre : Bytes) (t : Node) (h : Spec.WellNamed t) :
    Impl.listV1 enum₁ pre t = Impl.listV1 enum₂ pre t := by
  rw [Impl.listV1_eq_sortedFiles enum₁ h₁ pre t h, Impl.listV1_eq_sortedFiles enum₂ h₂ pre t h]

/-- met by: backwards enumeration against stored order, on the example tree -/
example : Impl.listV1 List.reverse [114] exTree = Impl.listV1 id [114] exTree :=
  enum_order_invariant_v1 List.reverse id List.reverse_perm (fun _ => .refl _) [114] exTree
    exTree_wellNamed

/-- The v2 / hybrid file tree does not depend on the order in which the OS enumerates
    directories: it is the tree obtained from the stored order. -/
theorem enum_order_invariant_v2 (enum : List (Bytes × Impl.FTree) → List (Bytes × Impl.FTree))
    (henum : ∀ l, (enum l).Perm l) (t : Node) (h : Spec.WellNamed t) :
    Impl.traverse enum t = Impl.traverse id t :=
  Impl.traverse_enum enum henum t h

/-- met by: backwards enumeration of the example tree -/
example : Impl.traverse List.reverse exTree = Impl.traverse id exTree :=
  enum_order_invariant_v2 List.reverse List.reverse_perm exTree exTree_wellNamed

/-- Hence the order in which files are visited — the order of the hybrid `files` list and of
    the piece-layer insertions — does not depend on the OS enumeration order either. -/
theorem enum_order_invariant_v2_files
    (enum : List (Bytes × Impl.FTree) → List (Bytes × Impl.FTree))
    (henum : ∀ l, (enum l).Perm l) (t : Node) (h : Spec.WellNamed t) :
    Impl.ftreeFiles [] (Impl.traverse enum t) = Impl.ftreeFiles [] (Impl.traverse id t) := by
  rw [Impl.traverse_enum enum henum t h]

/-- met by: backwards enumeration of the example tree -/
example : Impl.ftreeFiles [] (Impl.traverse List.reverse exTree) =
    Impl.ftreeFiles [] (Impl.traverse id exTree) :=
  enum_order_invariant_v2_files List.reverse List.reverse_perm exTree exTree_wellNamed

/-- The v1 listing relative to the root does not depend on where the root lives (nor on how
    either copy is enumerated): listing the same tree under the paths `p` and `q` and cutting
    the root path off every entry gives the same list of (relative path, contents).  Sorting
    full path strings that share a prefix is the same as sorting the relative paths. -/
theorem location_invariant
    (enum₁ enum₂ : List (List (Bytes × Bytes)) → List (List (Bytes × Bytes)))
    (h₁ : ∀ l, (enum₁ l).Perm l) (h₂ : ∀ l, (enum₂ l).Perm l)
    (p q : Bytes) (t : Node) (h : Spec.WellNamed t) :
    (Impl.listV1 enum₁ p t).map (fun x => (x.1.drop p.length, x.2)) =
    (Impl.listV1 enum₂ q t).map (fun x => (x.1.drop q.length, x.2)) := by
  rw [Impl.listV1_eq_sortedFiles enum₁ h₁ p t h, Impl.listV1_eq_sortedFiles enum₂ h₂ q t h,
    Spec.sortedFiles_relative, Spec.sortedFiles_relative]

/-- met by: the example tree at `r` and at `/x y/r`, enumerated in different orders -/
example : (Impl.listV1 id [114] exTree).map (fun x => (x.1.drop 1, x.2)) =
    (Impl.listV1 List.reverse [47, 120, 32, 121, 47, 114] exTree).map
      (fun x => (x.1.drop 6, x.2)) :=
  location_invariant id List.reverse (fun _ => .refl _) List.reverse_perm [114]
    [47, 120, 32, 121, 47, 114] exTree exTree_wellNamed

/-- In the file tree built by the v2 / hybrid traversal every dictionary (every directory
    level) has its keys strictly ascending in byte order, whatever the OS enumeration order —
    the precondition of a canonical bencoding of the file tree. -/
theorem traverse_sorted (enum : List (Bytes × Impl.FTree) → List (Bytes × Impl.FTree))
    (henum : ∀ l, (enum l).Perm l) (t : Node) (h : Spec.WellNamed t) :
    Spec.KeysAscending (Impl.traverse enum t) :=
  Impl.traverse_keysAscending enum henum t h

/-- met by: backwards enumeration of the example tree -/
example : Spec.KeysAscending (Impl.traverse List.reverse exTree) :=
  traverse_sorted List.reverse List.reverse_perm exTree exTree_wellNamed

end TorrentVerif.Props.C08

/-! ### whole metafiles (creators of `Model/Creators.lean`) -/
namespace TorrentVerif.Props.C08
open TorrentVerif TorrentVerif.Toy TorrentVerif.Ex.G7

/-- The `info` value written by each of the five creators (hence its encoding and the
    info-hash under any hash function) is the same for any two option records that agree on
    `comment`, `private`, `source`, the piece length and the root name, for any two enumeration
    orders, and — for the v1 creator, whose listing sorts full path strings — for any two
    locations `pre`, `pre'` of the content root. Trackers, web seeds, http seeds, `created by`
    and the creation date are not arguments of it. (Content tree with non-empty, `/`-free,
    distinct names; both sides fail together where Python raises.) -/
theorem info_factors (o o' : CreateOpts) (hc : o.comment = o'.comment) (hp : o.priv = o'.priv)
    (hsrc : o.source = o'.source) (hpl : o.pieceLength = o'.pieceLength) (hn : o.name = o'.name)
    (H H1 : Bytes → Bytes) (B hs : Nat) (align : Bool)
    (enum1 enum1' : List (List (Bytes × Bytes)) → List (List (Bytes × Bytes)))
    (h1 : ∀ l, (enum1 l).Perm l) (h1' : ∀ l, (enum1' l).Perm l)
    (enum enum' : List (Bytes × Impl.FTree) → List (Bytes × Impl.FTree))
    (h2 : ∀ l, (enum l).Perm l) (h2' : ∀ l, (enum' l).Perm l) (pre pre' : Bytes)
    (t : Node) (hwn : Spec.WellNamed t) :
    (Impl.createV1 o align H1 enum1 pre t).map (fun x => x.1.get? K.info)
      = (Impl.createV1 o' align H1 enum1' pre' t).map (fun x => x.1.get? K.info) ∧
    (Impl.createV2Class o H B hs enum t).map (fun x => x.1.get? K.info)
      = (Impl.createV2Class o' H B hs enum' t).map (fun x => x.1.get? K.info) ∧
    (Impl.createHybridClass o H H1 B hs enum t).map (fun x => x.1.get? K.info)
      = (Impl.createHybridClass o' H H1 B hs enum' t).map (fun x => x.1.get? K.info) ∧
    (∀ hybrid, (Impl.createAsm hybrid o H H1 B hs enum t).map (fun x => x.1.get? K.info)
      = (Impl.createAsm hybrid o' H H1 B hs enum' t).map (fun x => x.1.get? K.info)) := by
  refine ⟨createV1_info o o' hc hp hsrc hpl hn align H1 enum1 enum1' h1 h1' pre pre' t hwn,
    createV2Class_info o o' hc hp hsrc hpl hn H B hs enum enum' h2 h2' t hwn,
    createHybridClass_info o o' hc hp hsrc hpl hn H H1 B hs enum enum' h2 h2' t hwn, ?_⟩
  intro hybrid
  cases hybrid
  · exact createAsm_false_info o o' hc hp hsrc hpl hn H H1 B hs enum enum' h2 h2' t hwn
  · exact createAsm_true_info o o' hc hp hsrc hpl hn H H1 B hs enum enum' h2 h2' t hwn

/-- met by: two option records with different trackers, seeds, creator string and clock but the
    same comment / private / source / piece length / name; the example tree enumerated in
    stored and in reverse order, rooted at `r` and at `/x/r` -/
example : (Impl.createAsm true exOpts toyH toyH1 2 1 id exTree).map (fun x => x.1.get? K.info)
      = (Impl.createAsm true exOpts' toyH toyH1 2 1 List.reverse exTree).map (fun x => x.1.get? K.info) ∧
    (Impl.createV1 exOpts true toyH1 id [114] exTree).map (fun x => x.1.get? K.info)
      = (Impl.createV1 exOpts' true toyH1 List.reverse [47, 120, 47, 114] exTree).map
          (fun x => x.1.get? K.info) :=
  have h := info_factors exOpts exOpts' rfl rfl rfl rfl rfl toyH toyH1 2 1 true id List.reverse
    (fun _ => .refl _) List.reverse_perm id List.reverse (fun _ => .refl _) List.reverse_perm
    [114] [47, 120, 47, 114] exTree exTree_wellNamed
  ⟨h.2.2.2 true, h.1⟩

/-- Two runs of the same creator on the same content with the same options at different times
    differ at most in the `creation date` entry: the second metafile value is the first with
    the value of that one top-level entry replaced (`Spec.setDate`: same keys, same order, every
    other value identical), the bytes written are its encoding, and a run fails iff the other
    does. Holds for all five creators, every content tree and every option record. -/
theorem only_date_differs (o : CreateOpts) (date' : Int) (H H1 : Bytes → Bytes) (B hs : Nat)
    (align : Bool) (enum1 : List (List (Bytes × Bytes)) → List (List (Bytes × Bytes)))
    (enum : List (Bytes × Impl.FTree) → List (Bytes × Impl.FTree)) (pre : Bytes) (t : Node) :
    Impl.createV1 { o with creationDate := date' } align H1 enum1 pre t
      = (Impl.createV1 o align H1 enum1 pre t).map
          (fun x => (Spec.setDate date' x.1, Impl.encode (Spec.setDate date' x.1))) ∧
    Impl.createV2Class { o with creationDate := date' } H B hs enum t
      = (Impl.createV2Class o H B hs enum t).map
          (fun x => (Spec.setDate date' x.1, Impl.encode (Spec.setDate date' x.1))) ∧
    Impl.createHybridClass { o with creationDate := date' } H H1 B hs enum t
      = (Impl.createHybridClass o H H1 B hs enum t).map
          (fun x => (Spec.setDate date' x.1, Impl.encode (Spec.setDate date' x.1))) ∧
    (∀ hybrid, Impl.createAsm hybrid { o with creationDate := date' } H H1 B hs enum t
      = (Impl.createAsm hybrid o H H1 B hs enum t).map
          (fun x => (Spec.setDate date' x.1, Impl.encode (Spec.setDate date' x.1)))) :=
  ⟨createV1_date o date' align H1 enum1 pre t, createV2Class_date o date' H B hs enum t,
   createHybridClass_date o date' H H1 B hs enum t,
   fun hybrid => createAsm_date hybrid o date' H H1 B hs enum t⟩

/-- met by: the example options and tree, a later clock value -/
example : Impl.createV2Class { exOpts with creationDate := 1800000000 } toyH 2 1 id exTree
    = (Impl.createV2Class exOpts toyH 2 1 id exTree).map
        (fun x => (Spec.setDate 1800000000 x.1, Impl.encode (Spec.setDate 1800000000 x.1))) :=
  (only_date_differs exOpts 1800000000 toyH toyH1 2 1 false id id [114] exTree).2.1

/-- `Spec.setDate` touches nothing but the value under `creation date`: every other top-level
    lookup is unchanged, and the list of keys is the same. -/
theorem setDate_only_date (date' : Int) (kvs : Dict) :
    keys (match Spec.setDate date' (.dict kvs) with | .dict l => l | _ => []) = keys kvs ∧
    ∀ k, k ≠ K.creationDate → (Spec.setDate date' (.dict kvs)).get? k = (BVal.dict kvs).get? k := by
  constructor
  · rw [setDate_dict]
    simp only [keys, List.map_map]
    apply List.map_congr_left
    intro kv _
    exact gDate_fst date' kv
  · intro k hk
    rw [setDate_dict]
    exact dictGet_map_gDate date' kvs k hk

example : (Spec.setDate 5 (.dict [(K.announce, .str [97]), (K.creationDate, .int 1), (K.info, .dict [])]))
    = .dict [(K.announce, .str [97]), (K.creationDate, .int 5), (K.info, .dict [])] := by decide

end TorrentVerif.Props.C08

import TorrentVerif.Proofs.Listing
import TorrentVerif.Proofs.CreatorsInfo
import TorrentVerif.Proofs.Spelling
import TorrentVerif.Proofs.Utf8
/-
  C08 — the info dictionary depends only on the payload, not on where the payload lives or in
  which order the operating system enumerates directories.  This file covers the listing part:
  the v1 file list (`utils.filelist_total`) and the v2 / hybrid file tree (`_traverse`).
  The OS enumeration order is the parameter `enum`: any function that only permutes.
  Property theorems only; helper lemmas live in `Proofs/Listing.lean`.
-/
namespace TorrentVerif.Props.C08
open TorrentVerif Listing

/-- Whatever order the OS enumerates directories in, the v1 listing of a real directory tree
    (entry names non-empty, without `/`, distinct among siblings) rooted at any path `pre` is
    the list of all its regular files sorted by full path string.  (For a single file both
    sides are the one-element list `[(pre, contents)]`.) -/
theorem listV1_eq_sorted (enum : List (List (Bytes × Bytes)) → List (List (Bytes × Bytes)))
    (henum : ∀ l, (enum l).Perm l) (pre : Bytes) (t : Node) (h : Spec.WellNamed t) :
    Impl.listV1 enum pre t = Spec.sortedFiles pre t ∧
    (∀ d, t = .file d → Impl.listV1 enum pre t = [(pre, d)]) :=
  ⟨Impl.listV1_eq_sortedFiles enum henum pre t h, fun d e => by subst e; simp [Impl.listV1]⟩

/-- met by: the example tree (unsorted, nested, with an empty directory) enumerated backwards -/
example : Impl.listV1 List.reverse [114] exTree = Spec.sortedFiles [114] exTree :=
  (listV1_eq_sorted List.reverse List.reverse_perm [114] exTree exTree_wellNamed).1

/-- Any two enumeration orders give the same v1 file list. -/
theorem enum_order_invariant_v1
    (enum₁ enum₂ : List (List (Bytes × Bytes)) → List (List (Bytes × Bytes)))
    (h₁ : ∀ l, (enum₁ l).Perm l) (h₂ : ∀ l, (enum₂ l).Perm l)
    (pre : Bytes) (t : Node) (h : Spec.WellNamed t) :
    Impl.listV1 enum₁ pre t = Impl.listV1 enum₂ pre t := by
  rw [Impl.listV1_eq_sortedFiles enum₁ h₁ pre t h, Impl.listV1_eq_sortedFiles enum₂ h₂ pre t h]

/-- met by: backwards enumeration against stored order, on the example tree -/
example : Impl.listV1 List.reverse [114] exTree = Impl.listV1 id [114] exTree :=
  enum_order_invariant_v1 List.reverse id List.reverse_perm (fun _ => .refl _) [114] exTree
    exTree_wellNamed

/-- The v2 / hybrid file tree does not depend on the order in which the OS enumerates
    directories: it is the tree obtained from the stored order. -/
theorem enum_order_invariant_v2 (enum : List (Bytes × Impl.FTree) → List (Bytes × Impl.FTree))
    (henum : ∀ l, (enum l).Perm l) (t : Node) (h : Spec.WellNamed t) :
    Impl.traverse enum t = Impl.traverse id t :=
  Impl.traverse_enum enum henum t h

/-- met by: backwards enumeration of the example tree -/
example : Impl.traverse List.reverse exTree = Impl.traverse id exTree :=
  enum_order_invariant_v2 List.reverse List.reverse_perm exTree exTree_wellNamed

/-- Hence the order in which files are visited — the order of the hybrid `files` list and of
    the piece-layer insertions — does not depend on the OS enumeration order either. -/
theorem enum_order_invariant_v2_files
    (enum : List (Bytes × Impl.FTree) → List (Bytes × Impl.FTree))
    (henum : ∀ l, (enum l).Perm l) (t : Node) (h : Spec.WellNamed t) :
    Impl.ftreeFiles [] (Impl.traverse enum t) = Impl.ftreeFiles [] (Impl.traverse id t) := by
  rw [Impl.traverse_enum enum henum t h]

/-- met by: backwards enumeration of the example tree -/
example : Impl.ftreeFiles [] (Impl.traverse List.reverse exTree) =
    Impl.ftreeFiles [] (Impl.traverse id exTree) :=
  enum_order_invariant_v2_files List.reverse List.reverse_perm exTree exTree_wellNamed

/-- The v1 listing relative to the root does not depend on where the root lives (nor on how
    either copy is enumerated): listing the same tree under the paths `p` and `q` and cutting
    the root path off every entry gives the same list of (relative path, contents).  Sorting
    full path strings that share a prefix is the same as sorting the relative paths. -/
theorem location_invariant
    (enum₁ enum₂ : List (List (Bytes × Bytes)) → List (List (Bytes × Bytes)))
    (h₁ : ∀ l, (enum₁ l).Perm l) (h₂ : ∀ l, (enum₂ l).Perm l)
    (p q : Bytes) (t : Node) (h : Spec.WellNamed t) :
    (Impl.listV1 enum₁ p t).map (fun x => (x.1.drop p.length, x.2)) =
    (Impl.listV1 enum₂ q t).map (fun x => (x.1.drop q.length, x.2)) := by
  rw [Impl.listV1_eq_sortedFiles enum₁ h₁ p t h, Impl.listV1_eq_sortedFiles enum₂ h₂ q t h,
    Spec.sortedFiles_relative, Spec.sortedFiles_relative]

/-- met by: the example tree at `r` and at `/x y/r`, enumerated in different orders -/
example : (Impl.listV1 id [114] exTree).map (fun x => (x.1.drop 1, x.2)) =
    (Impl.listV1 List.reverse [47, 120, 32, 121, 47, 114] exTree).map
      (fun x => (x.1.drop 6, x.2)) :=
  location_invariant id List.reverse (fun _ => .refl _) List.reverse_perm [114]
    [47, 120, 32, 121, 47, 114] exTree exTree_wellNamed

/-- In the file tree built by the v2 / hybrid traversal every dictionary (every directory
    level) has its keys strictly ascending in byte order, whatever the OS enumeration order —
    the precondition of a canonical bencoding of the file tree. -/
theorem traverse_sorted (enum : List (Bytes × Impl.FTree) → List (Bytes × Impl.FTree))
    (henum : ∀ l, (enum l).Perm l) (t : Node) (h : Spec.WellNamed t) :
    Spec.KeysAscending (Impl.traverse enum t) :=
  Impl.traverse_keysAscending enum henum t h

/-- met by: backwards enumeration of the example tree -/
example : Spec.KeysAscending (Impl.traverse List.reverse exTree) :=
  traverse_sorted List.reverse List.reverse_perm exTree exTree_wellNamed

end TorrentVerif.Props.C08

/-! ### whole metafiles (creators of `Model/Creators.lean`) -/
namespace TorrentVerif.Props.C08
open TorrentVerif TorrentVerif.Toy TorrentVerif.Ex.G7

/-- The `info` value written by each of the five creators (hence its encoding and the
    info-hash under any hash function) is the same for any two option records that agree on
    `comment`, `private`, `source`, the piece length and the root name, for any two enumeration
    orders, and — for the v1 creator, whose listing sorts full path strings — for any two
    locations `pre`, `pre'` of the content root. Trackers, web seeds, http seeds, `created by`
    and the creation date are not arguments of it. (Content tree with non-empty, `/`-free,
    distinct names; both sides fail together where Python raises.) -/
theorem info_factors (o o' : CreateOpts) (hc : o.comment = o'.comment) (hp : o.priv = o'.priv)
    (hsrc : o.source = o'.source) (hpl : o.pieceLength = o'.pieceLength) (hn : o.name = o'.name)
    (H H1 : Bytes → Bytes) (B hs : Nat) (align : Bool)
    (enum1 enum1' : List (List (Bytes × Bytes)) → List (List (Bytes × Bytes)))
    (h1 : ∀ l, (enum1 l).Perm l) (h1' : ∀ l, (enum1' l).Perm l)
    (enum enum' : List (Bytes × Impl.FTree) → List (Bytes × Impl.FTree))
    (h2 : ∀ l, (enum l).Perm l) (h2' : ∀ l, (enum' l).Perm l) (pre pre' : Bytes)
    (t : Node) (hwn : Spec.WellNamed t) :
    (Impl.createV1 o align H1 enum1 pre t).map (fun x => x.1.get? K.info)
      = (Impl.createV1 o' align H1 enum1' pre' t).map (fun x => x.1.get? K.info) ∧
    (Impl.createV2Class o H B hs enum t).map (fun x => x.1.get? K.info)
      = (Impl.createV2Class o' H B hs enum' t).map (fun x => x.1.get? K.info) ∧
    (Impl.createHybridClass o H H1 B hs enum t).map (fun x => x.1.get? K.info)
      = (Impl.createHybridClass o' H H1 B hs enum' t).map (fun x => x.1.get? K.info) ∧
    (∀ hybrid, (Impl.createAsm hybrid o H H1 B hs enum t).map (fun x => x.1.get? K.info)
      = (Impl.createAsm hybrid o' H H1 B hs enum' t).map (fun x => x.1.get? K.info)) := by
  refine ⟨createV1_info o o' hc hp hsrc hpl hn align H1 enum1 enum1' h1 h1' pre pre' t hwn,
    createV2Class_info o o' hc hp hsrc hpl hn H B hs enum enum' h2 h2' t hwn,
    createHybridClass_info o o' hc hp hsrc hpl hn H H1 B hs enum enum' h2 h2' t hwn, ?_⟩
  intro hybrid
  cases hybrid
  · exact createAsm_false_info o o' hc hp hsrc hpl hn H H1 B hs enum enum' h2 h2' t hwn
  · exact createAsm_true_info o o' hc hp hsrc hpl hn H H1 B hs enum enum' h2 h2' t hwn

/-- met by: two option records with different trackers, seeds, creator string and clock but the
    same comment / private / source / piece length / name; the example tree enumerated in
    stored and in reverse order, rooted at `r` and at `/x/r` -/
example : (Impl.createAsm true exOpts toyH toyH1 2 1 id exTree).map (fun x => x.1.get? K.info)
      = (Impl.createAsm true exOpts' toyH toyH1 2 1 List.reverse exTree).map (fun x => x.1.get? K.info) ∧
    (Impl.createV1 exOpts true toyH1 id [114] exTree).map (fun x => x.1.get? K.info)
      = (Impl.createV1 exOpts' true toyH1 List.reverse [47, 120, 47, 114] exTree).map
          (fun x => x.1.get? K.info) :=
  have h := info_factors exOpts exOpts' rfl rfl rfl rfl rfl toyH toyH1 2 1 true id List.reverse
    (fun _ => .refl _) List.reverse_perm id List.reverse (fun _ => .refl _) List.reverse_perm
    [114] [47, 120, 47, 114] exTree exTree_wellNamed
  ⟨h.2.2.2 true, h.1⟩

/-- Two runs of the same creator on the same content with the same options at different times
    differ at most in the `creation date` entry: the second metafile value is the first with
    the value of that one top-level entry replaced (`Spec.setDate`: same keys, same order, every
    other value identical), the bytes written are its encoding, and a run fails iff the other
    does. Holds for all five creators, every content tree and every option record. -/
theorem only_date_differs (o : CreateOpts) (date' : Int) (H H1 : Bytes → Bytes) (B hs : Nat)
    (align : Bool) (enum1 : List (List (Bytes × Bytes)) → List (List (Bytes × Bytes)))
    (enum : List (Bytes × Impl.FTree) → List (Bytes × Impl.FTree)) (pre : Bytes) (t : Node) :
    Impl.createV1 { o with creationDate := date' } align H1 enum1 pre t
      = (Impl.createV1 o align H1 enum1 pre t).map
          (fun x => (Spec.setDate date' x.1, Impl.encode (Spec.setDate date' x.1))) ∧
    Impl.createV2Class { o with creationDate := date' } H B hs enum t
      = (Impl.createV2Class o H B hs enum t).map
          (fun x => (Spec.setDate date' x.1, Impl.encode (Spec.setDate date' x.1))) ∧
    Impl.createHybridClass { o with creationDate := date' } H H1 B hs enum t
      = (Impl.createHybridClass o H H1 B hs enum t).map
          (fun x => (Spec.setDate date' x.1, Impl.encode (Spec.setDate date' x.1))) ∧
    (∀ hybrid, Impl.createAsm hybrid { o with creationDate := date' } H H1 B hs enum t
      = (Impl.createAsm hybrid o H H1 B hs enum t).map
          (fun x => (Spec.setDate date' x.1, Impl.encode (Spec.setDate date' x.1)))) :=
  ⟨createV1_date o date' align H1 enum1 pre t, createV2Class_date o date' H B hs enum t,
   createHybridClass_date o date' H H1 B hs enum t,
   fun hybrid => createAsm_date hybrid o date' H H1 B hs enum t⟩

/-- met by: the example options and tree, a later clock value -/
example : Impl.createV2Class { exOpts with creationDate := 1800000000 } toyH 2 1 id exTree
    = (Impl.createV2Class exOpts toyH 2 1 id exTree).map
        (fun x => (Spec.setDate 1800000000 x.1, Impl.encode (Spec.setDate 1800000000 x.1))) :=
  (only_date_differs exOpts 1800000000 toyH toyH1 2 1 false id id [114] exTree).2.1

/-- `Spec.setDate` touches nothing but the value under `creation date`: every other top-level
    lookup is unchanged, and the list of keys is the same. -/
theorem setDate_only_date (date' : Int) (kvs : Dict) :
    keys (match Spec.setDate date' (.dict kvs) with | .dict l => l | _ => []) = keys kvs ∧
    ∀ k, k ≠ K.creationDate → (Spec.setDate date' (.dict kvs)).get? k = (BVal.dict kvs).get? k := by
  constructor
  · rw [setDate_dict]
    simp only [keys, List.map_map]
    apply List.map_congr_left
    intro kv _
    exact gDate_fst date' kv
  · intro k hk
    rw [setDate_dict]
    exact dictGet_map_gDate date' kvs k hk

example : (Spec.setDate 5 (.dict [(K.announce, .str [97]), (K.creationDate, .int 1), (K.info, .dict [])]))
    = .dict [(K.announce, .str [97]), (K.creationDate, .int 5), (K.info, .dict [])] := by decide

end TorrentVerif.Props.C08

/-! ### the recorded name does not depend on how the content path is spelled -/
namespace TorrentVerif.Props.C08
open TorrentVerif Rebuild PosixPath

/-- In any working directory (`cwd` absolute — `os.getcwd()` always is, and is normalised too,
    which is not even needed), every spelling `t` obtained from a spelling `s` (relative or
    absolute; the root and the empty spelling included) by finitely many of the rewrites
    insert `./` before a component, double a `/`, append `/`, append `/.`, insert `x/../` before
    a component, prefix `./` records the same `info.name` as `s`:
    `basename(abspath(t)) = basename(abspath(s))`. -/
theorem name_of_spelling (cwd s t : Bytes) (hc : cwd.head? = some 47)
    (h : Spec.SameSpelling s t) : Impl.torrentName cwd t = Impl.torrentName cwd s := by
  rw [Impl.torrentName_eq cwd t hc, Impl.torrentName_eq cwd s hc, run_join cwd t hc,
    run_join cwd s hc, stackOf_same _ s t h]

/-- met by: in `/srv/data`, the spelling `./pay//q/../load/.` comes from `pay/load` by four
    rewrites (insert `q/../` before `load`, double the first `/`, prefix `./`, append `/.`) and
    both record the name `load` -/
example : Impl.torrentName (render exCwd) [46, 47, 112, 97, 121, 47, 47, 113, 47, 46, 46, 47, 108, 111, 97, 100, 47, 46]
      = Impl.torrentName (render exCwd) [112, 97, 121, 47, 108, 111, 97, 100] ∧
    Impl.torrentName (render exCwd) [112, 97, 121, 47, 108, 111, 97, 100] = [108, 111, 97, 100] := by
  refine ⟨name_of_spelling _ _ _ (by decide) ?_, by decide⟩
  exact ((((Spec.SameSpelling.refl _).step
    (Spec.SpellingStep.xDotDot [112, 97, 121, 47] [108, 111, 97, 100] [113] (by decide)
      (Or.inr (by decide)))).step
    (Spec.SpellingStep.dblSep [112, 97, 121] [113, 47, 46, 46, 47, 108, 111, 97, 100])).step
    (Spec.SpellingStep.prefixDot _ (by decide))).step
    (Spec.SpellingStep.trailDot _ (by decide))

/-- The recorded name is the last component of the normalised absolute path: in a working
    directory `cwd` (absolute) the string `abspath(s) = normpath(join(cwd, s))` is `/` (or `//`,
    the POSIX special case that `normpath` keeps) followed by the `/`-joined list `q` of its
    non-empty components, all of them plain (non-empty, not `.`/`..`, no `/`), and the name is
    the last element of `q` — or the empty string when `q` is empty, i.e. for the filesystem
    root (`basename("/") = ""` in Python as well). -/
theorem name_is_last_component (cwd s : Bytes) (hc : cwd.head? = some 47) :
    let q := comps (abspathIn cwd s)
    Spec.CleanPath q ∧ (abspathIn cwd s = render q ∨ abspathIn cwd s = 47 :: render q) ∧
    (q.getLast? = some (Impl.torrentName cwd s) ∨ (q = [] ∧ Impl.torrentName cwd s = [])) := by
  have hj := join_head cwd s hc
  obtain ⟨hq, hn⟩ := normpath_run _ hj
  have hk := initialSlashes_abs _ hj
  have hcomps : comps (abspathIn cwd s) = (run [] (join cwd s)).reverse := by
    unfold abspathIn; rw [hn]; exact (comps_slashes _ _ hq).1
  simp only [hcomps]
  refine ⟨hq, ?_, ?_⟩
  · unfold abspathIn
    rw [hn]
    rcases hk with h | h <;> rw [h]
    · left; rfl
    · right; rfl
  · rw [Impl.torrentName_eq cwd s hc, List.getLast?_reverse]
    cases run [] (join cwd s) with
    | nil => right; simp
    | cons a r => left; simp

/-- met by: `../data/./x//` in `/srv/data` is `/srv/data/x`, name `x` -/
example : abspathIn (render exCwd) [46, 46, 47, 100, 97, 116, 97, 47, 46, 47, 120, 47, 47]
      = render (exCwd ++ [[120]]) ∧
    Impl.torrentName (render exCwd) [46, 46, 47, 100, 97, 116, 97, 47, 46, 47, 120, 47, 47] = [120] := by
  decide

/-- Relative and absolute spellings agree: the name recorded for `s` in the working directory
    `cwd` is the name recorded for the absolute spelling `join(cwd, s)` in any working
    directory `cwd'` whatever (in particular `/`). -/
theorem name_relative_absolute (cwd cwd' s : Bytes) (hc : cwd.head? = some 47) :
    Impl.torrentName cwd s = Impl.torrentName cwd' (join cwd s) := by
  unfold Impl.torrentName abspathIn
  rw [join_abs cwd' _ (join_head cwd s hc)]

/-- met by: `x/y` in `/srv/data` against `/srv/data/x/y` in `/` -/
example : Impl.torrentName (render exCwd) [120, 47, 121]
    = Impl.torrentName [47] [47, 115, 114, 118, 47, 100, 97, 116, 97, 47, 120, 47, 121] :=
  name_relative_absolute _ [47] _ (by decide)

/-- What the name is for the plain spellings: in the working directory `/p₁/…/pₘ`, the relative
    spelling `r₁/…/rₙ` (plain components; `n = 0` is the empty spelling) and, since the repair
    of `torrentfile create .`, the spelling `.` record the last component of `/p₁/…/pₘ/r₁/…/rₙ`
    resp. of the working directory itself, provided that location is not the filesystem root.
    Together with `name_of_spelling` this gives the name for every rewritten spelling. -/
theorem name_of_plain_spelling (p r : Path) (hp : Spec.CleanPath p) (hr : Spec.CleanPath r) :
    (p ++ r ≠ [] → (p ++ r).getLast? = some (Impl.torrentName (render p) (joinSep r))) ∧
    (p ≠ [] → p.getLast? = some (Impl.torrentName (render p) [46])) := by
  rw [Impl.torrentName_canonical p r hp hr, Impl.torrentName_dot p hp]
  constructor
  · intro h
    cases hl : (p ++ r).getLast? with
    | none => exact absurd (List.getLast?_eq_none_iff.mp hl) h
    | some x => rfl
  · intro h
    cases hl : p.getLast? with
    | none => exact absurd (List.getLast?_eq_none_iff.mp hl) h
    | some x => rfl

/-- met by: `.` and `x/y` in `/srv/data` -/
example : Impl.torrentName (render exCwd) [46] = [100, 97, 116, 97] ∧
    Impl.torrentName (render exCwd) (joinSep [[120], [121]]) = [121] := by
  have h := name_of_plain_spelling exCwd [[120], [121]] (by decide) (by decide)
  have h1 := h.1 (by decide)
  have h2 := h.2 (by decide)
  simp only [exCwd, List.cons_append, List.nil_append, List.getLast?_cons_cons, List.getLast?_singleton,
    Option.some.injEq] at h1 h2
  exact ⟨h2.symm, h1.symm⟩

end TorrentVerif.Props.C08

/-! ### sorting `str` and sorting UTF-8 bytes is the same -/
namespace TorrentVerif.Props.C08
open TorrentVerif

/-- UTF-8 preserves order: for strings `a`, `b` given as lists of Unicode scalar values,
    comparing the UTF-8 encodings byte by byte (`Listing.leBytes`, the order the model sorts
    names in) gives the same answer as comparing the code point lists (`Utf8.leCode`, Python's
    `<=` on `str`, the order `sorted(os.listdir(…))` and `sorted(filelist)` use). -/
theorem utf8_order_preserving (a b : List Nat) (ha : ∀ c ∈ a, Utf8.Scalar c)
    (hb : ∀ c ∈ b, Utf8.Scalar c) :
    Listing.leBytes (Utf8.encodeStr a) (Utf8.encodeStr b) = Utf8.leCode a b :=
  Utf8.leBytes_encodeStr a b (fun c hc => Utf8.scalar_lt (ha c hc))
    (fun c hc => Utf8.scalar_lt (hb c hc))

/-- met by: `"z\uFFFD" < "z\U00010000"` (3-byte against 4-byte encoding; in UTF-16 code
    units the order would be the opposite), and `"é" > "z"` -/
example : Listing.leBytes (Utf8.encodeStr [122, 0xFFFD]) (Utf8.encodeStr [122, 0x10000]) = true ∧
    Utf8.leCode [122, 0xFFFD] [122, 0x10000] = true ∧
    Listing.leBytes (Utf8.encodeStr [0xE9]) (Utf8.encodeStr [122]) = false ∧
    Utf8.encodeStr [122, 0xFFFD] = [122, 0xEF, 0xBF, 0xBD] := by decide

/-- Hence sorting a list of names as Python strings and then encoding them gives the same
    list as encoding them and sorting the byte strings. -/
theorem utf8_sort_commutes (l : List (List Nat)) (hl : ∀ a ∈ l, ∀ c ∈ a, Utf8.Scalar c) :
    (l.mergeSort Utf8.leCode).map Utf8.encodeStr
      = (l.map Utf8.encodeStr).mergeSort Listing.leBytes :=
  List.map_mergeSort (fun a ha b hb => (utf8_order_preserving a b (hl a ha) (hl b hb)).symm)

/-- met by: the names `é`, `z`, `U+10000`, `U+FFFD`, `a` -/
example : ([[0xE9], [122], [0x10000], [0xFFFD], [97]].mergeSort Utf8.leCode).map Utf8.encodeStr
    = ([[0xE9], [122], [0x10000], [0xFFFD], [97]].map Utf8.encodeStr).mergeSort Listing.leBytes :=
  utf8_sort_commutes _ (by decide)

/-- The encoding loses nothing: strings of scalar values with equal UTF-8 encodings are equal
    (so sibling names that are distinct as `str` are distinct as byte strings). -/
theorem utf8_injective (a b : List Nat) (ha : ∀ c ∈ a, Utf8.Scalar c)
    (hb : ∀ c ∈ b, Utf8.Scalar c) (h : Utf8.encodeStr a = Utf8.encodeStr b) : a = b := by
  apply Utf8.leCode_antisymm
  · rw [← utf8_order_preserving a b ha hb, h]; exact Listing.leBytes_refl _
  · rw [← utf8_order_preserving b a hb ha, h]; exact Listing.leBytes_refl _

/-- met by: the hypotheses hold for a string with 1-, 2-, 3- and 4-byte characters -/
example : ∀ c ∈ [0x41, 0xE9, 0x20AC, 0x1F600], Utf8.Scalar c := by decide

end TorrentVerif.Props.C08

import TorrentVerif.Proofs.Options
/-
  C20 — a create option means the same via flag, configuration file or keyword.
  The theorems are stated for ANY option table `t` that passes the decidable check
  `Impl.tableOK` (the driver evaluates it on the table extracted from the running parser and
  compares that table with `Impl.createTable`); `createTable_ok` is the instance.

  Vocabulary (Model/Options.lean): a `Spec.Group` is an option string with its values;
  `Spec.commandLine gs1 p gs2` are the tokens "groups, content path, groups"; `Spec.meaning` is
  what a set of groups means independent of order; `Spec.expected t groups p` is the keyword
  record `MetaFile.__init__` must end up with.
-/
namespace TorrentVerif.Props.C20
open TorrentVerif Spec

/-- The table transcribed from `cli.execute` satisfies the check. -/
theorem createTable_ok : Impl.tableOK Impl.createTable = true := by decide

/-- Flag route, any order.  Take well-formed option groups with pairwise different keywords,
    whose values do not start with `-`, and a content path `p` that exists, is not empty and
    does not start with `-`; no value of a list-valued option (tracker / web-seed / http-seed
    URL) is an existing path.  Put the groups in ANY order and the path at ANY group boundary —
    first, last, or anywhere in between, including directly after a list-valued flag, which then
    swallows it.  Then argparse accepts the line, and after `MetaFile.__init__` has resolved the
    path the keyword record is `expected t groups p`: the path is `p`, every option has the
    value of its group, every other keyword its default.  It does not depend on the arrangement. -/
theorem cli_order_invariant (t : Table) (hok : Impl.tableOK t = true) (ex : String → Bool)
    (groups : List Group) (hw : ∀ g ∈ groups, g.wf t = true)
    (hnd : (groups.map (Group.dest t)).Nodup)
    (hurl : ∀ g ∈ groups, g.isPlus t = true → ∀ v ∈ g.vals, ex v = false)
    (p : String) (hpd : isDash p = false) (hex : ex p = true) (hpne : p ≠ "")
    (gs1 gs2 gs1' gs2' : List Group)
    (hperm : (gs1 ++ gs2).Perm groups) (hperm' : (gs1' ++ gs2').Perm groups) :
    ∃ ns ns', Impl.argparse t (commandLine gs1 p gs2) = .ok ns ∧
      Impl.argparse t (commandLine gs1' p gs2') = .ok ns' ∧
      Impl.metaInit ex (Impl.toKwargs ns) = .ok (expected t groups p) ∧
      Impl.metaInit ex (Impl.toKwargs ns') = Impl.metaInit ex (Impl.toKwargs ns) := by
  obtain ⟨ns, h1, h2⟩ := Impl.cli_record t hok ex groups hw hnd hurl p hpd hex hpne gs1 gs2 hperm
  obtain ⟨ns', h1', h2'⟩ := Impl.cli_record t hok ex groups hw hnd hurl p hpd hex hpne gs1' gs2' hperm'
  exact ⟨ns, ns', h1, h1', h2, by rw [h2, h2']⟩

/-- the hypotheses are satisfiable: five groups of the real table, well formed, distinct keywords -/
example :
    let groups : List Group := [⟨"-a", ["http://t/a", "http://t/b"]⟩, ⟨"--private", []⟩,
      ⟨"--web-seed", ["http://w"]⟩, ⟨"-o", ["out/"]⟩, ⟨"--meta-version", ["3"]⟩]
    (∀ g ∈ groups, g.wf Impl.createTable = true) ∧
    (groups.map (Group.dest Impl.createTable)).Nodup ∧
    (∀ g ∈ groups, g.isPlus Impl.createTable = true → ∀ v ∈ g.vals, (fun s => s == "pay") v = false) ∧
    isDash "pay" = false := by decide

/-- three arrangements of the same options: path first; path swallowed by `--web-seed`; path
    swallowed by `-a` — one and the same record -/
example :
    let ex : String → Bool := fun s => s == "pay"
    let rec1 := (Impl.argparse Impl.createTable
      ["pay", "-a", "http://t/a", "http://t/b", "--private", "--web-seed", "http://w", "-o", "out/"]).toOption.map
        (fun ns => Impl.metaInit ex (Impl.toKwargs ns))
    let rec2 := (Impl.argparse Impl.createTable
      ["-o", "out/", "--web-seed", "http://w", "pay", "--private", "-a", "http://t/a", "http://t/b"]).toOption.map
        (fun ns => Impl.metaInit ex (Impl.toKwargs ns))
    let rec3 := (Impl.argparse Impl.createTable
      ["--private", "--web-seed", "http://w", "-o", "out/", "-a", "http://t/a", "http://t/b", "pay"]).toOption.map
        (fun ns => Impl.metaInit ex (Impl.toKwargs ns))
    rec1 = rec2 ∧ rec2 = rec3 ∧
    rec1 = some (.ok {
      path := .str "pay", content := .none,
      announce := .list ["http://t/a", "http://t/b"], urlList := .list ["http://w"],
      httpseeds := .none, private_ := .bool true, source := .none, comment := .none,
      pieceLength := .none, metaVersion := .str "1", outfile := .str "out/", align := .bool false }) := by
  decide

/-- Each documented configuration key is stored under the same keyword as the flag it stands
    for, with the same kind of value: for every pair (configuration key, flag) of the documented
    options, the table maps the flag to an option whose `dest` is the keyword that
    `parse_config_file` writes the key to; a list-valued flag corresponds to the list of the
    value's non-empty lines, a single-valued flag to the value as is (a string — also for the
    texts `true`/`false`), a switch to `True` for each of the words `true`, `yes`, `on`, `1` in
    any letter case (see `config_bool_words` for the other direction and the other values). -/
theorem config_eq_kwargs (t : Table) (hok : Impl.tableOK t = true) :
    ∀ kf ∈ documentedConfig, ∃ o, t.lookup kf.2 = some o ∧ Impl.configDest kf.1 = o.dest ∧
      ∀ (v : String) (ns : Namespace),
        NS.get (Impl.parseConfig [(kf.1, v)] ns) o.dest = some (Impl.configVal kf.1 v) ∧
        (o.nargs = .plus → Impl.configVal kf.1 v = Group.value t ⟨kf.2, Impl.splitLines v⟩) ∧
        (o.nargs = .one → Impl.configVal kf.1 v = Group.value t ⟨kf.2, [v]⟩) ∧
        (o.nargs = .zero → Impl.isTrueWord v = true →
          Impl.configVal kf.1 v = Group.value t ⟨kf.2, []⟩) := by
  intro kf hkf
  have D := (Impl.tableFacts t hok).documented
  obtain ⟨k, f⟩ := kf
  simp only [documentedConfig, List.mem_cons, Prod.mk.injEq, List.not_mem_nil, or_false] at hkf
  rcases hkf with ⟨hk, hf⟩ | ⟨hk, hf⟩ | ⟨hk, hf⟩ | ⟨hk, hf⟩ | ⟨hk, hf⟩ | ⟨hk, hf⟩ | ⟨hk, hf⟩ |
    ⟨hk, hf⟩ | ⟨hk, hf⟩ | ⟨hk, hf⟩ | ⟨hk, hf⟩ <;> subst hk <;> subst hf
  · exact Impl.config_case t _ _ "announce" .plus (D ("--announce", "announce", .plus) (by simp [Impl.documentedFlags]))
      (by decide) (by intro v; simp [Impl.configVal])
  · exact Impl.config_case t _ _ "announce" .plus (D ("--tracker", "announce", .plus) (by simp [Impl.documentedFlags]))
      (by decide) (by intro v; simp [Impl.configVal])
  · exact Impl.config_case t _ _ "url_list" .plus (D ("--web-seed", "url_list", .plus) (by simp [Impl.documentedFlags]))
      (by decide) (by intro v; simp [Impl.configVal])
  · exact Impl.config_case t _ _ "httpseeds" .plus (D ("--http-seed", "httpseeds", .plus) (by simp [Impl.documentedFlags]))
      (by decide) (by intro v; simp [Impl.configVal])
  · exact Impl.config_case t _ _ "private" .zero (D ("--private", "private", .zero) (by simp [Impl.documentedFlags]))
      (by decide) (by intro v h; simp [Impl.configVal, h])
  · exact Impl.config_case t _ _ "source" .one (D ("--source", "source", .one) (by simp [Impl.documentedFlags]))
      (by decide) (by intro v; simp [Impl.configVal])
  · exact Impl.config_case t _ _ "comment" .one (D ("--comment", "comment", .one) (by simp [Impl.documentedFlags]))
      (by decide) (by intro v; simp [Impl.configVal])
  · exact Impl.config_case t _ _ "piece_length" .one (D ("--piece-length", "piece_length", .one) (by simp [Impl.documentedFlags]))
      (by decide) (by intro v; simp [Impl.configVal])
  · exact Impl.config_case t _ _ "meta_version" .one (D ("--meta-version", "meta_version", .one) (by simp [Impl.documentedFlags]))
      (by decide) (by intro v; simp [Impl.configVal])
  · exact Impl.config_case t _ _ "outfile" .one (D ("--out", "outfile", .one) (by simp [Impl.documentedFlags]))
      (by decide) (by intro v; simp [Impl.configVal])
  · exact Impl.config_case t _ _ "align" .zero (D ("--align", "align", .zero) (by simp [Impl.documentedFlags]))
      (by decide) (by intro v h; simp [Impl.configVal, h])

example : Impl.toKwargs (Impl.parseConfig
      [("tracker", "http://t/a\nhttp://t/b"), ("web-seed", "http://w"), ("private", "True"),
       ("comment", "true"), ("out", "out/"), ("piece-length", "18")] Impl.createTable.defaults)
    = { Impl.toKwargs Impl.createTable.defaults with
        announce := .list ["http://t/a", "http://t/b"], urlList := .list ["http://w"],
        private_ := .bool true, comment := .str "true", outfile := .str "out/",
        pieceLength := .str "18" } := by decide

/-- Boolean options in the configuration file (`private`, `align`).  Take any accepted command
    line `toks` with namespace `ns`, and a configuration entry `key = w` applied on top of it.
    * If `w` is one of `true`, `yes`, `on`, `1` (any letter case) the resulting keyword
      dictionary is literally the one of the command line with the flag appended: the entry
      means exactly "flag present".
    * If `w` is one of `false`, `no`, `off`, `0` (any letter case) the keyword becomes `False`;
      when the flag is absent from the command line (keyword still at its default `False`) the
      dictionary is literally unchanged: the entry means exactly "flag absent".
    * Any other value is stored as the raw string (as the code does); downstream `if private:` /
      `if align:` reads it as "on" unless it is empty (`private =` gives the empty string). -/
theorem config_bool_words (t : Table) (hok : Impl.tableOK t = true) (key flag : String)
    (hkf : (key = "private" ∧ flag = "--private") ∨ (key = "align" ∧ flag = "--align"))
    (w : String) (toks : List String) (ns : Namespace) (h : Impl.argparse t toks = .ok ns) :
    ∃ o, t.lookup flag = some o ∧ o.nargs = .zero ∧ Impl.configDest key = o.dest ∧
      (Impl.isTrueWord w = true →
        Impl.argparse t (toks ++ [flag]) = .ok (Impl.parseConfig [(key, w)] ns)) ∧
      (Impl.isFalseWord w = true →
        Impl.parseConfig [(key, w)] ns = NS.set ns o.dest (.bool false) ∧
        (NS.get ns o.dest = some (.bool false) → Impl.parseConfig [(key, w)] ns = ns)) ∧
      (Impl.isTrueWord w = false → Impl.isFalseWord w = false →
        Impl.parseConfig [(key, w)] ns = NS.set ns o.dest (.str w) ∧
        ((Val.str w).truthy = true ↔ w ≠ "")) := by
  have D := (Impl.tableFacts t hok).documented
  rcases hkf with ⟨hk, hf⟩ | ⟨hk, hf⟩ <;> subst hk <;> subst hf
  · exact Impl.config_bool_core t _ _ "private"
      (D ("--private", "private", .zero) (by simp [Impl.documentedFlags]))
      (by decide) (by decide) (Or.inl rfl) w toks ns h
  · exact Impl.config_bool_core t _ _ "align"
      (D ("--align", "align", .zero) (by simp [Impl.documentedFlags]))
      (by decide) (by decide) (Or.inr (Or.inl rfl)) w toks ns h

/-- all eight words in mixed case, on top of `create pay -a http://t`: the "on" words give the
    namespace of `create pay -a http://t --private`, the "off" words leave it as it is -/
example :
    (["true", "YES", "On", "1", "TrUe", "yEs"].all fun w =>
      (Impl.argparse Impl.createTable ["pay", "-a", "http://t"]).map (Impl.parseConfig [("private", w)])
        == Impl.argparse Impl.createTable ["pay", "-a", "http://t", "--private"]) = true ∧
    (["false", "NO", "Off", "0", "FaLsE", "oFF"].all fun w =>
      (Impl.argparse Impl.createTable ["pay", "-a", "http://t"]).map (Impl.parseConfig [("align", w)])
        == Impl.argparse Impl.createTable ["pay", "-a", "http://t"]) = true := by decide

/-- other values fall through as raw strings: `private = maybe` is truthy and lands as
    `info.private = 1`; `private =` (empty) is falsy and does not; a `%` is an ordinary character -/
example :
    (Impl.toKwargs (Impl.parseConfig [("private", "maybe"), ("comment", "100%% of %(x)s 50%")]
      Impl.createTable.defaults)).private_ = .str "maybe" ∧
    (Impl.toKwargs (Impl.parseConfig [("private", "maybe"), ("comment", "100%% of %(x)s 50%")]
      Impl.createTable.defaults)).comment = .str "100%% of %(x)s 50%" ∧
    ((Impl.metaInit (fun s => s == "pay") (Impl.toKwargs (Impl.parseConfig
        [("private", "maybe"), ("piece-length", "15")] (Impl.createTable.defaults.map
          (fun e => if e.1 = "content" then (e.1, Val.str "pay") else e))))).toOption.map
      (fun kw => Impl.fields kw 100 "/cwd" "pay"))
      = some (.ok [("info.private", .int 1), ("info.piece length", .int 32768),
                   ("<output path>", .val (.str "/cwd/pay.torrent"))]) ∧
    ((Impl.metaInit (fun s => s == "pay") (Impl.toKwargs (Impl.parseConfig
        [("private", ""), ("piece-length", "15")] (Impl.createTable.defaults.map
          (fun e => if e.1 = "content" then (e.1, Val.str "pay") else e))))).toOption.map
      (fun kw => Impl.fields kw 100 "/cwd" "pay"))
      = some (.ok [("info.piece length", .int 32768),
                   ("<output path>", .val (.str "/cwd/pay.torrent"))]) := by decide

/-- Where each keyword lands.  If `fields` succeeds on a resolved keyword record, then
    * a tracker list with a non-empty first URL gives `announce` = the first URL and
      `announce-list` = one tier with all URLs (and no announce fields appear otherwise);
    * `url_list` / `httpseeds` / `source` / `comment`, when truthy, appear unchanged as
      `url-list` / `httpseeds` / `info.source` / `info.comment`, and do not appear when falsy;
    * a truthy `private` gives `info.private = 1`, a falsy one no such field;
    * `info."piece length"` is the normalised value of `piece_length` (the automatic choice if
      it is falsy), see C12;
    * the output path is `Impl.outPath` of the `outfile` keyword.
    And `fields` fails exactly when the piece length is rejected. -/
theorem option_lands (kw : Kwargs) (size : Nat) (cwd : Path) (name : String) :
    (∀ fs, Impl.fields kw size cwd name = .ok fs →
      (∀ a r, kw.announce = .list (a :: r) → a ≠ "" →
        ("announce", Impl.FieldVal.val (.str a)) ∈ fs ∧
        ("announce-list", Impl.FieldVal.tiers [.list (a :: r)]) ∈ fs) ∧
      (kw.announce.truthy = false → ∀ v, ("announce", v) ∉ fs ∧ ("announce-list", v) ∉ fs) ∧
      (∀ v, ("url-list", v) ∈ fs ↔ (kw.urlList.truthy = true ∧ v = .val kw.urlList)) ∧
      (∀ v, ("httpseeds", v) ∈ fs ↔ (kw.httpseeds.truthy = true ∧ v = .val kw.httpseeds)) ∧
      (∀ v, ("info.private", v) ∈ fs ↔ (kw.private_.truthy = true ∧ v = .int 1)) ∧
      (∀ v, ("info.source", v) ∈ fs ↔ (kw.source.truthy = true ∧ v = .val kw.source)) ∧
      (∀ v, ("info.comment", v) ∈ fs ↔ (kw.comment.truthy = true ∧ v = .val kw.comment)) ∧
      (∀ v, ("info.piece length", v) ∈ fs ↔ ∃ pl,
        Impl.recordedPieceLength (Impl.plArgOfVal kw.pieceLength) size = .ok pl ∧ v = .int pl) ∧
      (∀ v, ("<output path>", v) ∈ fs ↔
        v = .val (.str (Impl.outPath (Impl.outArgOf kw.outfile) cwd name)))) ∧
    (Impl.fields kw size cwd name = .error .pieceLength ↔
      ∃ e, Impl.recordedPieceLength (Impl.plArgOfVal kw.pieceLength) size = .error e) ∧
    (∀ e, Impl.fields kw size cwd name = .error e → e = .pieceLength) := by
  have hann : ∀ v k, (k, v) ∈ Impl.annFields kw.announce → k = "announce" ∨ k = "announce-list" := by
    intro v k h
    unfold Impl.annFields at h
    split at h
    · split at h
      · simp at h; rcases h with ⟨h, _⟩ | ⟨h, _⟩ <;> simp [h]
      · cases h
    · split at h
      · simp at h; rcases h with ⟨h, _⟩ | ⟨h, _⟩ <;> simp [h]
      · cases h
    · cases h
  have mem_opt : ∀ (c : Bool) (k k' : String) (x v : Impl.FieldVal),
      (k', v) ∈ Impl.optField c k x ↔ (c = true ∧ k' = k ∧ v = x) := by
    intro c k k' x v; unfold Impl.optField; cases c <;> simp
  unfold Impl.fields
  cases hr : Impl.recordedPieceLength (Impl.plArgOfVal kw.pieceLength) size with
  | error e =>
    simp only
    refine ⟨fun fs h => (by cases h), ?_, fun e h => (by cases h; rfl)⟩
    simp
    exact ⟨e, trivial⟩
  | ok pl =>
    simp only
    refine ⟨fun fs h => ?_, ⟨fun h => (by cases h), fun ⟨e, h⟩ => (by cases h)⟩,
      fun e h => (by cases h)⟩
    simp only [Except.ok.injEq] at h
    subst h
    have hk : ∀ (k : String) (v : Impl.FieldVal), k ≠ "announce" → k ≠ "announce-list" →
        (k, v) ∉ Impl.annFields kw.announce := by
      intro k v h1 h2 hm
      rcases hann v k hm with h | h
      · exact h1 h
      · exact h2 h
    refine ⟨?_, ?_, ?_, ?_, ?_, ?_, ?_, ?_, ?_⟩
    · intro a r ha hne
      simp [Impl.annFields, ha, hne]
    · intro hf v
      have : Impl.annFields kw.announce = [] := by
        cases hka : kw.announce with
        | none => rfl
        | bool b => rfl
        | str s => rw [hka] at hf; simp [Val.truthy] at hf; simp [Impl.annFields, hf]
        | list l =>
          cases l with
          | nil => rfl
          | cons x r => rw [hka] at hf; simp [Val.truthy] at hf
      simp [this, mem_opt]
    · intro v; simp [mem_opt, hk "url-list" v (by decide) (by decide)]
    · intro v; simp [mem_opt, hk "httpseeds" v (by decide) (by decide)]
    · intro v; simp [mem_opt, hk "info.private" v (by decide) (by decide)]
    · intro v; simp [mem_opt, hk "info.source" v (by decide) (by decide)]
    · intro v; simp [mem_opt, hk "info.comment" v (by decide) (by decide)]
    · intro v; simp [mem_opt, hk "info.piece length" v (by decide) (by decide)]
    · intro v; simp [mem_opt, hk "<output path>" v (by decide) (by decide)]

example : Impl.fields
      { path := .str "pay", content := .none, announce := .list ["http://t/a", "http://t/b"],
        urlList := .list ["http://w"], httpseeds := .none, private_ := .bool true,
        source := .str "SRC", comment := .none, pieceLength := .str "15", metaVersion := .str "1",
        outfile := .str "out/", align := .bool false } 100 "/cwd" "pay"
    = .ok [("announce", .val (.str "http://t/a")),
           ("announce-list", .tiers [.list ["http://t/a", "http://t/b"]]),
           ("info.private", .int 1), ("info.source", .val (.str "SRC")),
           ("url-list", .val (.list ["http://w"])), ("info.piece length", .int 32768),
           ("<output path>", .val (.str "out/pay.torrent"))] := by decide

/-- The three routes agree.  For the same option groups (hypotheses as in `cli_order_invariant`):
    * the flag route, in any arrangement,
    * the configuration route — `create <p>` with a configuration file whose entries say the
      same as the groups (`ConfigFor`), applied by `parse_config_file` on top of the parsed
      command line —, and
    * the library route — `TorrentFile(path=p, <keyword>=<value> …)` with only these keywords —
    all pass `MetaFile.__init__`; flags and configuration give literally the same keyword
    record (`expected`), and all three give the same metafile fields and output path
    (`Impl.fields`, for every payload size, working directory and name; this includes failing
    alike when the piece length is invalid).  The metafile differs at most in `creation date`,
    which is not a function of the options. -/
theorem routes_agree (t : Table) (hok : Impl.tableOK t = true) (ex : String → Bool)
    (groups : List Group) (hw : ∀ g ∈ groups, g.wf t = true)
    (hnd : (groups.map (Group.dest t)).Nodup)
    (hurl : ∀ g ∈ groups, g.isPlus t = true → ∀ v ∈ g.vals, ex v = false)
    (p : String) (hpd : isDash p = false) (hex : ex p = true) (hpne : p ≠ "")
    (gs1 gs2 : List Group) (hperm : (gs1 ++ gs2).Perm groups)
    (items : List (String × String)) (hcfg : ConfigFor t groups items)
    (size : Nat) (cwd : Path) (name : String) :
    ∃ nsCli nsBase kwLib,
      Impl.argparse t (commandLine gs1 p gs2) = .ok nsCli ∧
      Impl.argparse t [p] = .ok nsBase ∧
      Impl.metaInit ex (Impl.toKwargs nsCli) = .ok (expected t groups p) ∧
      Impl.metaInit ex (Impl.toKwargs (Impl.parseConfig items nsBase)) = .ok (expected t groups p) ∧
      Impl.metaInit ex (Impl.toKwargs (libraryKwargs t groups p)) = .ok kwLib ∧
      Impl.fields kwLib size cwd name = Impl.fields (expected t groups p) size cwd name := by
  obtain ⟨nsCli, h1, h2⟩ := Impl.cli_record t hok ex groups hw hnd hurl p hpd hex hpne gs1 gs2 hperm
  obtain ⟨kwLib, h3, _, h4⟩ := Impl.library_fields t hok ex groups hw hnd p hpne size cwd name
  have hbase : Impl.argparse t [p] = .ok (NS.set t.defaults t.positional (.str p)) := by
    have := Impl.argparse_groups_pos t [] [] (by simp) (by simp) (by simp) p hpd
    simpa using this
  exact ⟨nsCli, _, kwLib, h1, hbase, h2,
    Impl.config_record t hok ex groups hw hnd p hpne items hcfg, h3, h4⟩

/-- flags (path swallowed by `--web-seed`), configuration file and keywords for the same
    options: the same fields -/
example :
    ((Impl.argparse Impl.createTable
      ["--web-seed", "http://w", "pay", "--private", "-a", "http://t/a", "http://t/b",
       "--comment", "true", "--piece-length", "15"]).toOption.bind
        (fun ns => (Impl.metaInit (fun s => s == "pay") (Impl.toKwargs ns)).toOption)).map
          (fun kw => Impl.fields kw 100 "/cwd" "pay")
    = some (.ok [("announce", .val (.str "http://t/a")),
           ("announce-list", .tiers [.list ["http://t/a", "http://t/b"]]),
           ("info.comment", .val (.str "true")), ("info.private", .int 1),
           ("url-list", .val (.list ["http://w"])), ("info.piece length", .int 32768),
           ("<output path>", .val (.str "/cwd/pay.torrent"))]) := by decide

example :
    ((Impl.argparse Impl.createTable ["pay"]).toOption.bind
        (fun ns => (Impl.metaInit (fun s => s == "pay") (Impl.toKwargs (Impl.parseConfig
          [("comment", "true"), ("private", "TRUE"), ("web-seed", "http://w"), ("piece-length", "15"),
           ("tracker", "http://t/a\nhttp://t/b")] ns))).toOption)).map
          (fun kw => Impl.fields kw 100 "/cwd" "pay")
    = some (.ok [("announce", .val (.str "http://t/a")),
           ("announce-list", .tiers [.list ["http://t/a", "http://t/b"]]),
           ("info.comment", .val (.str "true")), ("info.private", .int 1),
           ("url-list", .val (.list ["http://w"])), ("info.piece length", .int 32768),
           ("<output path>", .val (.str "/cwd/pay.torrent"))]) := by decide

example :
    ((Impl.metaInit (fun s => s == "pay") (Impl.toKwargs
        [("path", .str "pay"), ("announce", .list ["http://t/a", "http://t/b"]), ("private", .bool true),
         ("url_list", .list ["http://w"]), ("comment", .str "true"), ("piece_length", .str "15")])).toOption).map
          (fun kw => Impl.fields kw 100 "/cwd" "pay")
    = some (.ok [("announce", .val (.str "http://t/a")),
           ("announce-list", .tiers [.list ["http://t/a", "http://t/b"]]),
           ("info.comment", .val (.str "true")), ("info.private", .int 1),
           ("url-list", .val (.list ["http://w"])), ("info.piece length", .int 32768),
           ("<output path>", .val (.str "/cwd/pay.torrent"))]) := by decide

end TorrentVerif.Props.C20

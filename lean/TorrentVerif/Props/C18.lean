import TorrentVerif.Proofs.Effects
import TorrentVerif.Proofs.RenameName
/-
  C18 — inspecting commands are read-only; create writes one file; rename never clobbers.
  Thin theorems over the effects model; the strength of this property lies in the comparison of
  the audit-hook trace of the real commands with the operation lists `Impl.infoOps`,
  `Impl.magnetOps`, `Impl.recheckOps`, `Impl.createOps`, `Impl.renameOps`.
-/
namespace TorrentVerif.Props.C18
open TorrentVerif

/-- Any trace that consists only of read operations and runs to completion leaves the
    filesystem equal — the same paths with the same bytes in the same order. -/
theorem reads_preserve_fs (fs : FS) (ops : List Op) (h : ∀ o ∈ ops, o.isRead = true) (s : FS)
    (hr : run fs ops = some s) : s = fs :=
  run_only_reads fs ops h s hr

example : run [("m", [1]), ("p", [2, 3])] [.read "m", .read "p", .read "p"]
    = some [("m", [1]), ("p", [2, 3])] := by decide

/-- The traces of `info`, `magnet` and `recheck` consist of reads only, hence (by
    `reads_preserve_fs`) whenever they complete the filesystem is unchanged; and a crash in
    the middle of them finds it unchanged as well. -/
theorem info_recheck_magnet_readonly (fs : FS) (mf : Path) (present : List Path) (s : FS) :
    (run fs (Impl.infoOps mf) = some s → s = fs) ∧
    (run fs (Impl.magnetOps mf) = some s → s = fs) ∧
    (run fs (Impl.recheckOps mf present) = some s → s = fs) ∧
    (∀ c k, crashState fs (Impl.recheckOps mf present) c k = some s → s = fs) := by
  have hre : ∀ o ∈ Impl.recheckOps mf present, o.isRead = true := by
    intro o ho
    simp only [Impl.recheckOps, List.mem_cons, List.mem_map] at ho
    rcases ho with rfl | ⟨p, _, rfl⟩ <;> rfl
  refine ⟨fun h => run_only_reads fs _ (by simp [Impl.infoOps, Op.isRead]) s h,
          fun h => run_only_reads fs _ (by simp [Impl.magnetOps, Op.isRead]) s h,
          fun h => run_only_reads fs _ hre s h, fun c k h => ?_⟩
  unfold crashState at h
  cases hrun : run fs ((Impl.recheckOps mf present).take c) with
  | none => rw [hrun] at h; cases h
  | some t =>
    rw [hrun] at h
    have ht : t = fs :=
      run_only_reads fs _ (fun o ho => hre o (List.mem_of_mem_take ho)) t hrun
    subst ht
    unfold interrupted at h
    cases hop : (Impl.recheckOps mf present)[c]? with
    | none => rw [hop] at h; simpa using h.symm
    | some o =>
      have : o.isRead = true := hre o (List.mem_of_getElem? hop)
      cases o <;> simp [Op.isRead] at this
      rw [hop] at h; simpa using h.symm

example : run [("m", [1]), ("p", [2, 3])] (Impl.recheckOps "m" ["p", "p"])
    = some [("m", [1]), ("p", [2, 3])] := by decide

/-- `create` writes exactly one file.  For every filesystem, output argument (absent, a file
    path, or a directory spelling ending in a separator), working directory, torrent name,
    payload (present) and metafile bytes: the command completes and the resulting filesystem
    is the old one with the output path set to the metafile bytes — literally, so every other
    path is present/absent as before with the same bytes.  In particular the probe path
    (`<dir>/.torrent` for a directory spelling) is unchanged whenever it differs from the
    output path: a pre-existing file of that name is neither emptied nor removed, and a probe
    file that did not exist does not stay behind. -/
theorem create_one_file (fs : FS) (outfile : Option Path) (cwd : Path) (name : String)
    (payload : List Path) (data : Bytes) (hp : ∀ p ∈ payload, fs.has p = true) :
    run fs (Impl.createOps fs outfile cwd name payload data)
        = some (fs.set (Impl.outPath outfile cwd name) data) ∧
    (fs.set (Impl.outPath outfile cwd name) data).get (Impl.outPath outfile cwd name) = some data ∧
    (∀ q, q ≠ Impl.outPath outfile cwd name →
      (fs.set (Impl.outPath outfile cwd name) data).get q = fs.get q) := by
  refine ⟨?_, FS.get_set_same _ _ _, fun q hq => FS.get_set_other _ _ _ _ hq⟩
  unfold Impl.createOps
  rw [List.append_assoc, run_append, run_probe, Option.bind_some, run_append,
    run_reads fs payload hp, Option.bind_some]
  simp [run, applyOp, FS.get_set_same, FS.set_set]

/-- The case that was broken before the fix: the output is a directory spelling `out` (ends in a
    separator), the torrent name is not empty.  Then the probe path `out/.torrent` differs from
    the output path, so after `create` it is exactly as before: still there with the same
    bytes if it existed, still absent if it did not. -/
theorem create_probe_untouched (fs : FS) (out cwd : Path) (name : String)
    (payload : List Path) (data : Bytes) (hp : ∀ p ∈ payload, fs.has p = true)
    (hsep : Impl.endsWithSep out = true) (hname : name ≠ "") :
    Impl.probePath (Impl.probeArg (some out) cwd) = out ++ ".torrent" ∧
    ∃ s, run fs (Impl.createOps fs (some out) cwd name payload data) = some s ∧
      s.get (out ++ ".torrent") = fs.get (out ++ ".torrent") := by
  have hout : out ≠ "" := by
    intro e; subst e; simp [Impl.endsWithSep] at hsep
  have hne : out ++ ".torrent" ≠ Impl.outPath (some out) cwd name := by
    simp only [Impl.outPath, hout, hsep, ↓reduceIte]
    intro h
    have := congrArg String.length h
    simp at this
    exact hname this
  refine ⟨by simp [Impl.probeArg, Impl.probePath, hout, hsep], _,
    (create_one_file fs (some out) cwd name payload data hp).1, ?_⟩
  exact (create_one_file fs (some out) cwd name payload data hp).2.2 _ hne

/-- output is the directory spelling `out/`; a bystander literally named `out/.torrent` (the
    probe path) and the payload survive, the metafile appears as `out/n.torrent` -/
example : run [("out/.torrent", [7]), ("pay", [1, 2])]
      (Impl.createOps [("out/.torrent", [7]), ("pay", [1, 2])] (some "out/") "/cwd" "n" ["pay"] [100, 101])
    = some [("out/.torrent", [7]), ("pay", [1, 2]), ("out/n.torrent", [100, 101])] := by decide

/-- no bystander: the probe file is created and removed again, nothing but the metafile is new -/
example : run [("pay", [1, 2])]
      (Impl.createOps [("pay", [1, 2])] (some "out/") "/cwd" "n" ["pay"] [100, 101])
    = some [("pay", [1, 2]), ("out/n.torrent", [100, 101])] ∧
    Impl.createOps [("pay", [1, 2])] (some "out/") "/cwd" "n" ["pay"] [100, 101]
    = [.touch "out/.torrent", .remove "out/.torrent", .read "pay",
       .create "out/n.torrent", .write "out/n.torrent" [100, 101]] := by decide

/-- `rename` refuses (without performing any operation) when the new name already exists or
    the target is missing; otherwise it completes, the new path holds exactly the bytes the
    target held, the target path is gone, and every other path is unchanged. -/
theorem rename_moves_only (fs : FS) (target newPath : Path) :
    (fs.has target = true → fs.has newPath = true →
      Impl.renameOps fs target newPath = .error .exists) ∧
    (fs.has target = false → Impl.renameOps fs target newPath = .error .notFound) ∧
    (∀ ops, Impl.renameOps fs target newPath = .ok ops →
      ∃ c s, fs.get target = some c ∧ fs.get newPath = none ∧ run fs ops = some s ∧
        s.get newPath = some c ∧ s.get target = none ∧
        ∀ q, q ≠ target → q ≠ newPath → s.get q = fs.get q) := by
  refine ⟨fun h1 h2 => by simp [Impl.renameOps, h1, h2],
          fun h1 => by simp [Impl.renameOps, h1], fun ops hops => ?_⟩
  unfold Impl.renameOps at hops
  by_cases h1 : fs.has target = true
  · by_cases h2 : fs.has newPath = true
    · simp [h1, h2] at hops
    · have h2' : fs.has newPath = false := by simpa using h2
      simp only [h1, h2', not_true_eq_false, ↓reduceIte, Bool.false_eq_true, Except.ok.injEq] at hops
      obtain ⟨c, hc⟩ := (FS.has_eq_true_iff _ _).mp h1
      have hn : fs.get newPath = none := (FS.has_eq_false_iff _ _).mp (by simpa using h2)
      have hne : target ≠ newPath := by
        intro e; rw [e] at hc; rw [hc] at hn; cases hn
      refine ⟨c, (fs.del target).set newPath c, hc, hn, ?_, FS.get_set_same _ _ _, ?_, ?_⟩
      · subst hops; simp [run, applyOp, h1, hc]
      · rw [FS.get_set_other _ _ _ _ hne, FS.get_del_same]
      · intro q hq1 hq2
        rw [FS.get_set_other _ _ _ _ hq2, FS.get_del_other _ _ _ hq1]
  · simp [h1] at hops

example : Impl.renameOps [("d/x.torrent", [1, 2]), ("d/other", [3])] "d/x.torrent" "d/name.torrent"
      = .ok [.read "d/x.torrent", .replace "d/x.torrent" "d/name.torrent"] ∧
    run [("d/x.torrent", [1, 2]), ("d/other", [3])]
      [.read "d/x.torrent", .replace "d/x.torrent" "d/name.torrent"]
      = some [("d/other", [3]), ("d/name.torrent", [1, 2])] ∧
    Impl.renameOps [("d/x.torrent", [1, 2]), ("d/name.torrent", [3])] "d/x.torrent" "d/name.torrent"
      = .error .exists := by decide

/-! ### the NAME handling of `rename` (`Model/RenameName.lean`)

  Path strings are `Bytes` here (the Python `str` as UTF-8, as in `Model/Path.lean`);
  `Impl.fsKey` turns one into a key of the effects model.  `info.name` is ANY byte string. -/

open PosixPath in
/-- `rename` keeps the metafile in its directory.  For EVERY byte string `info.name` — `../b/evil`,
    an absolute path, trailing separators, separators only, bytes that are not UTF-8 — and every
    target path string: whenever the command computes a new path at all, that path lies in the
    directory of the target (`os.path.dirname` of both is the same string) and its last
    component is `name + ".torrent"` where `name` — the last component of `info.name` after
    stripping trailing separators — contains no `/` and is not empty, `.` or `..`.  So the new
    path never names an entry of another directory. -/
theorem rename_stays_in_directory (target infoName new : Bytes)
    (h : Impl.renameTarget target infoName = .ok new) :
    dirname new = dirname target ∧ (47 : UInt8) ∉ basename new ∧
    ∃ name, name = basename (rstripSep (Impl.pyStr infoName)) ∧
      new = join (dirname target) (name ++ Impl.sTorrent) ∧
      basename new = name ++ Impl.sTorrent ∧
      (47 : UInt8) ∉ name ∧ name ≠ [] ∧ name ≠ Rebuild.DOT ∧ name ≠ Rebuild.DOTDOT := by
  obtain ⟨name, hn, rfl⟩ := Impl.renameTarget_ok target infoName new h
  obtain ⟨hdef, hne, hdot, hdd, hsep⟩ := Impl.renameName_ok infoName name hn
  have hs : (47 : UInt8) ∉ name ++ Impl.sTorrent := by
    intro hm
    rcases List.mem_append.mp hm with hm | hm
    · exact hsep hm
    · exact Impl.sep_not_mem_sTorrent hm
  obtain ⟨hd, hb⟩ := dirname_join_dirname target (name ++ Impl.sTorrent) (by simp [hne]) hs
  exact ⟨hd, sep_not_mem_basename _, name, hdef, rfl, hb, hsep, hne, hdot, hdd⟩

/-- target `/tmp/d/x.torrent`: the name `../b/evil` gives `/tmp/d/evil.torrent`, `/abs/x` gives
    `/tmp/d/x.torrent`, `a/b//` gives `/tmp/d/b.torrent`; target `x.torrent` (no directory part):
    `../b/evil` gives `evil.torrent`; target `/x.torrent` (in the root): `/evil.torrent`; the
    bytes `FF / a` are not UTF-8, `str()` of them is `b'\xff/a'`, the last component is `a'` -/
example :
    Impl.renameTarget [47, 116, 109, 112, 47, 100, 47, 120, 46, 116, 111, 114, 114, 101, 110, 116]
        [46, 46, 47, 98, 47, 101, 118, 105, 108]
      = .ok [47, 116, 109, 112, 47, 100, 47, 101, 118, 105, 108, 46, 116, 111, 114, 114, 101, 110, 116] ∧
    Impl.renameTarget [47, 116, 109, 112, 47, 100, 47, 120, 46, 116, 111, 114, 114, 101, 110, 116]
        [47, 97, 98, 115, 47, 120]
      = .ok [47, 116, 109, 112, 47, 100, 47, 120, 46, 116, 111, 114, 114, 101, 110, 116] ∧
    Impl.renameTarget [47, 116, 109, 112, 47, 100, 47, 120, 46, 116, 111, 114, 114, 101, 110, 116]
        [97, 47, 98, 47, 47]
      = .ok [47, 116, 109, 112, 47, 100, 47, 98, 46, 116, 111, 114, 114, 101, 110, 116] ∧
    Impl.renameTarget [120, 46, 116, 111, 114, 114, 101, 110, 116] [46, 46, 47, 98, 47, 101, 118, 105, 108]
      = .ok [101, 118, 105, 108, 46, 116, 111, 114, 114, 101, 110, 116] ∧
    Impl.renameTarget [47, 120, 46, 116, 111, 114, 114, 101, 110, 116] [46, 46, 47, 98, 47, 101, 118, 105, 108]
      = .ok [47, 101, 118, 105, 108, 46, 116, 111, 114, 114, 101, 110, 116] ∧
    Impl.renameTarget [47, 47, 120, 46, 116, 111, 114, 114, 101, 110, 116] [255, 47, 97]
      = .ok [47, 47, 97, 39, 46, 116, 111, 114, 114, 101, 110, 116] := by
  decide +kernel

/-- the hypotheses of `rename_stays_in_directory` for the first of these: both paths have the
    directory `/tmp/d` -/
example : PosixPath.dirname [47, 116, 109, 112, 47, 100, 47, 101, 118, 105, 108, 46, 116, 111, 114,
      114, 101, 110, 116] = [47, 116, 109, 112, 47, 100] ∧
    PosixPath.dirname [47, 116, 109, 112, 47, 100, 47, 120, 46, 116, 111, 114, 114, 101, 110, 116]
      = [47, 116, 109, 112, 47, 100] := by decide +kernel

open PosixPath in
/-- The `ValueError` cases: the command refuses exactly when the last component of `info.name`
    (trailing separators stripped) is empty, `.` or `..` — the empty name, names made of
    separators only, `a/..`, `../` — and then no operation list exists, whatever the file
    system holds. -/
theorem rename_refuses_bad_name (target infoName : Bytes) :
    ((∃ e, Impl.renameTarget target infoName = .error e) ↔
      (basename (rstripSep (Impl.pyStr infoName)) = [] ∨
        basename (rstripSep (Impl.pyStr infoName)) = Rebuild.DOT ∨
        basename (rstripSep (Impl.pyStr infoName)) = Rebuild.DOTDOT)) ∧
    (∀ e, Impl.renameTarget target infoName = .error e → e = .badName ∧
      ∀ fs others ops, Impl.renameCmd fs others target infoName ≠ .ok ops) := by
  have key : ∀ e, Impl.renameTarget target infoName = .error e →
      Impl.renameName infoName = .error e := by
    intro e h
    unfold Impl.renameTarget at h
    cases hn : Impl.renameName infoName with
    | error e' => rw [hn] at h; exact h
    | ok name => rw [hn] at h; cases h
  refine ⟨⟨fun ⟨e, h⟩ => (Impl.renameName_error infoName e (key e h)).2, fun hc => ?_⟩,
    fun e h => ⟨(Impl.renameName_error infoName e (key e h)).1, fun fs others ops hops => ?_⟩⟩
  · refine ⟨.badName, ?_⟩
    unfold Impl.renameTarget Impl.renameName
    simp only [hc, if_true]
  · unfold Impl.renameCmd at hops
    split at hops
    · cases hops
    · rw [h] at hops; cases hops

/-- the empty name, `.`, `..`, `//`, `a/..` and `../` are refused -/
example :
    Impl.renameTarget [100, 47, 120] [] = .error .badName ∧
    Impl.renameTarget [100, 47, 120] [46] = .error .badName ∧
    Impl.renameTarget [100, 47, 120] [46, 46] = .error .badName ∧
    Impl.renameTarget [100, 47, 120] [47, 47] = .error .badName ∧
    Impl.renameTarget [100, 47, 120] [97, 47, 46, 46] = .error .badName ∧
    Impl.renameTarget [100, 47, 120] [46, 46, 47] = .error .badName := by decide +kernel

/-- `rename` never replaces anything.  If ANYTHING exists at the new path — a regular file of
    `fs`, or one of the `others`: a directory, a symbolic link (dangling or not), any directory
    entry; `os.path.lexists` is membership in that set — the command performs no operation: there
    is no operation list, and when the target exists the answer is `FileExistsError`. -/
theorem rename_refuses_occupied (fs : FS) (others : List Path) (target infoName new : Bytes)
    (hnew : Impl.renameTarget target infoName = .ok new)
    (hocc : Impl.lexists fs others (Impl.fsKey new) = true) :
    (∀ ops, Impl.renameCmd fs others target infoName ≠ .ok ops) ∧
    (target ≠ [] → fs.has (Impl.fsKey target) = true →
      Impl.renameCmd fs others target infoName = .error .exists) := by
  refine ⟨fun ops h => ?_, fun ht hh => ?_⟩
  · unfold Impl.renameCmd at h
    split at h
    · cases h
    · simp [hnew, hocc] at h
  · unfold Impl.renameCmd
    simp [ht, hh, hnew, hocc]

/-- the metafile `d/x.torrent` of the torrent `album`: the new path `d/album.torrent` is taken by
    a regular file, or by something that is not a regular file (a directory, a dangling link) -/
example :
    Impl.renameTarget [100, 47, 120, 46, 116, 111, 114, 114, 101, 110, 116] [97, 108, 98, 117, 109, 47]
      = .ok [100, 47, 97, 108, 98, 117, 109, 46, 116, 111, 114, 114, 101, 110, 116] ∧
    Impl.renameCmd [("d/x.torrent", [1, 2]), ("d/album.torrent", [3])] []
        [100, 47, 120, 46, 116, 111, 114, 114, 101, 110, 116] [97, 108, 98, 117, 109, 47]
      = .error .exists ∧
    Impl.renameCmd [("d/x.torrent", [1, 2])] ["d/album.torrent"]
        [100, 47, 120, 46, 116, 111, 114, 114, 101, 110, 116] [97, 108, 98, 117, 109, 47]
      = .error .exists := by decide +kernel

open PosixPath in
/-- Otherwise `rename` moves the name and nothing else.  The target is a regular file with the
    bytes `c`, a new path is computed and nothing exists there: the operation list is the load
    followed by exactly one `os.rename(target, new)`; it runs to completion; afterwards the new
    path holds exactly the bytes `c`, the target path is gone, every other path is as before —
    and the new path is in the target's directory (`rename_stays_in_directory`). -/
theorem rename_moves_only_the_name (fs : FS) (others : List Path) (target infoName new c : Bytes)
    (ht : target ≠ []) (hc : fs.get (Impl.fsKey target) = some c)
    (hnew : Impl.renameTarget target infoName = .ok new)
    (hfree : Impl.lexists fs others (Impl.fsKey new) = false) :
    Impl.renameCmd fs others target infoName
      = .ok [.read (Impl.fsKey target), .replace (Impl.fsKey target) (Impl.fsKey new)] ∧
    (∃ s, run fs [.read (Impl.fsKey target), .replace (Impl.fsKey target) (Impl.fsKey new)] = some s ∧
      s.get (Impl.fsKey new) = some c ∧ s.get (Impl.fsKey target) = none ∧
      ∀ q, q ≠ Impl.fsKey target → q ≠ Impl.fsKey new → s.get q = fs.get q) ∧
    dirname new = dirname target := by
  have hh : fs.has (Impl.fsKey target) = true := (FS.has_eq_true_iff _ _).mpr ⟨c, hc⟩
  have hn : fs.has (Impl.fsKey new) = false := by
    unfold Impl.lexists at hfree
    simp only [Bool.or_eq_false_iff] at hfree
    exact hfree.1
  refine ⟨?_, ?_, (rename_stays_in_directory target infoName new hnew).1⟩
  · unfold Impl.renameCmd
    simp [ht, hh, hnew, hfree]
  · have hops : Impl.renameOps fs (Impl.fsKey target) (Impl.fsKey new)
        = .ok [.read (Impl.fsKey target), .replace (Impl.fsKey target) (Impl.fsKey new)] := by
      simp [Impl.renameOps, hh, hn]
    obtain ⟨c', s, hc', _, hrun, h1, h2, h3⟩ :=
      (rename_moves_only fs (Impl.fsKey target) (Impl.fsKey new)).2.2 _ hops
    rw [hc] at hc'
    cases hc'
    exact ⟨s, hrun, h1, h2, h3⟩

/-- `d/x.torrent` of the torrent `../b/evil`, next to a bystander `d/other` and a directory `b`:
    one rename to `d/evil.torrent`, same bytes, the bystander untouched -/
example :
    Impl.renameCmd [("d/x.torrent", [1, 2]), ("d/other", [3])] ["b", "d"]
        [100, 47, 120, 46, 116, 111, 114, 114, 101, 110, 116] [46, 46, 47, 98, 47, 101, 118, 105, 108]
      = .ok [.read "d/x.torrent", .replace "d/x.torrent" "d/evil.torrent"] ∧
    run [("d/x.torrent", [1, 2]), ("d/other", [3])]
        [.read "d/x.torrent", .replace "d/x.torrent" "d/evil.torrent"]
      = some [("d/other", [3]), ("d/evil.torrent", [1, 2])] := by decide +kernel

/-- Conversely, an operation list is only ever produced in that situation: the target is a
    regular file, the name is usable and nothing exists at the new path. -/
theorem rename_ops_only_when_free (fs : FS) (others : List Path) (target infoName : Bytes)
    (ops : List Op) (h : Impl.renameCmd fs others target infoName = .ok ops) :
    ∃ new c, target ≠ [] ∧ fs.get (Impl.fsKey target) = some c ∧
      Impl.renameTarget target infoName = .ok new ∧
      Impl.lexists fs others (Impl.fsKey new) = false ∧
      ops = [.read (Impl.fsKey target), .replace (Impl.fsKey target) (Impl.fsKey new)] := by
  unfold Impl.renameCmd at h
  split at h
  · cases h
  · rename_i hcond
    simp only [not_or, Decidable.not_not] at hcond
    obtain ⟨c, hc⟩ := (FS.has_eq_true_iff _ _).mp hcond.2
    cases hn : Impl.renameTarget target infoName with
    | error e => rw [hn] at h; cases h
    | ok new =>
      rw [hn] at h
      simp only at h
      split at h
      · cases h
      · rename_i hfree
        simp only [Except.ok.injEq] at h
        exact ⟨new, c, hcond.1, hc, rfl, by simpa using hfree, h.symm⟩

/-- applied to the run of the previous example: the target exists, `d/evil.torrent` was free -/
example : ∃ new c, ([100, 47, 120, 46, 116, 111, 114, 114, 101, 110, 116] : Bytes) ≠ [] ∧
    FS.get [("d/x.torrent", [1, 2]), ("d/other", [3])]
      (Impl.fsKey [100, 47, 120, 46, 116, 111, 114, 114, 101, 110, 116]) = some c ∧
    Impl.renameTarget [100, 47, 120, 46, 116, 111, 114, 114, 101, 110, 116]
      [46, 46, 47, 98, 47, 101, 118, 105, 108] = .ok new ∧
    Impl.lexists [("d/x.torrent", [1, 2]), ("d/other", [3])] ["b", "d"] (Impl.fsKey new) = false ∧
    [Op.read "d/x.torrent", .replace "d/x.torrent" "d/evil.torrent"]
      = [.read (Impl.fsKey [100, 47, 120, 46, 116, 111, 114, 114, 101, 110, 116]),
         .replace (Impl.fsKey [100, 47, 120, 46, 116, 111, 114, 114, 101, 110, 116]) (Impl.fsKey new)] :=
  rename_ops_only_when_free _ _ _ _ _ (by decide +kernel)

end TorrentVerif.Props.C18

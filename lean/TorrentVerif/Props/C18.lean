import TorrentVerif.Proofs.Effects
/-
  C18 — inspecting commands are read-only; create writes one file; rename never clobbers.
  Thin theorems over the effects model; the strength of this property lies in the comparison of
  the audit-hook trace of the real commands with the operation lists `Impl.infoOps`,
  `Impl.magnetOps`, `Impl.recheckOps`, `Impl.createOps`, `Impl.renameOps`.
-/
namespace TorrentVerif.Props.C18
open TorrentVerif

/-- Any trace that consists only of read operations and runs to completion leaves the
    filesystem equal — the same paths with the same bytes in the same order. -/
theorem reads_preserve_fs (fs : FS) (ops : List Op) (h : ∀ o ∈ ops, o.isRead = true) (s : FS)
    (hr : run fs ops = some s) : s = fs :=
  run_only_reads fs ops h s hr

example : run [("m", [1]), ("p", [2, 3])] [.read "m", .read "p", .read "p"]
    = some [("m", [1]), ("p", [2, 3])] := by decide

/-- The traces of `info`, `magnet` and `recheck` consist of reads only, hence (by
    `reads_preserve_fs`) whenever they complete the filesystem is unchanged; and a crash in
    the middle of them finds it unchanged as well. -/
theorem info_recheck_magnet_readonly (fs : FS) (mf : Path) (present : List Path) (s : FS) :
    (run fs (Impl.infoOps mf) = some s → s = fs) ∧
    (run fs (Impl.magnetOps mf) = some s → s = fs) ∧
    (run fs (Impl.recheckOps mf present) = some s → s = fs) ∧
    (∀ c k, crashState fs (Impl.recheckOps mf present) c k = some s → s = fs) := by
  have hre : ∀ o ∈ Impl.recheckOps mf present, o.isRead = true := by
    intro o ho
    simp only [Impl.recheckOps, List.mem_cons, List.mem_map] at ho
    rcases ho with rfl | ⟨p, _, rfl⟩ <;> rfl
  refine ⟨fun h => run_only_reads fs _ (by simp [Impl.infoOps, Op.isRead]) s h,
          fun h => run_only_reads fs _ (by simp [Impl.magnetOps, Op.isRead]) s h,
          fun h => run_only_reads fs _ hre s h, fun c k h => ?_⟩
  unfold crashState at h
  cases hrun : run fs ((Impl.recheckOps mf present).take c) with
  | none => rw [hrun] at h; cases h
  | some t =>
    rw [hrun] at h
    have ht : t = fs :=
      run_only_reads fs _ (fun o ho => hre o (List.mem_of_mem_take ho)) t hrun
    subst ht
    unfold interrupted at h
    cases hop : (Impl.recheckOps mf present)[c]? with
    | none => rw [hop] at h; simpa using h.symm
    | some o =>
      have : o.isRead = true := hre o (List.mem_of_getElem? hop)
      cases o <;> simp [Op.isRead] at this
      rw [hop] at h; simpa using h.symm

example : run [("m", [1]), ("p", [2, 3])] (Impl.recheckOps "m" ["p", "p"])
    = some [("m", [1]), ("p", [2, 3])] := by decide

/-- `create` writes exactly one file.  For every filesystem, output argument (absent, a file
    path, or a directory spelling ending in a separator), working directory, torrent name,
    payload (present) and metafile bytes: the command completes and the resulting filesystem
    is the old one with the output path set to the metafile bytes — literally, so every other
    path is present/absent as before with the same bytes.  In particular the probe path
    (`<dir>/.torrent` for a directory spelling) is unchanged whenever it differs from the
    output path: a pre-existing file of that name is neither emptied nor removed, and a probe
    file that did not exist does not stay behind. -/
theorem create_one_file (fs : FS) (outfile : Option Path) (cwd : Path) (name : String)
    (payload : List Path) (data : Bytes) (hp : ∀ p ∈ payload, fs.has p = true) :
    run fs (Impl.createOps fs outfile cwd name payload data)
        = some (fs.set (Impl.outPath outfile cwd name) data) ∧
    (fs.set (Impl.outPath outfile cwd name) data).get (Impl.outPath outfile cwd name) = some data ∧
    (∀ q, q ≠ Impl.outPath outfile cwd name →
      (fs.set (Impl.outPath outfile cwd name) data).get q = fs.get q) := by
  refine ⟨?_, FS.get_set_same _ _ _, fun q hq => FS.get_set_other _ _ _ _ hq⟩
  unfold Impl.createOps
  rw [List.append_assoc, run_append, run_probe, Option.bind_some, run_append,
    run_reads fs payload hp, Option.bind_some]
  simp [run, applyOp, FS.get_set_same, FS.set_set]

/-- The case that was broken before the fix: the output is a directory spelling `out` (ends in a
    separator), the torrent name is not empty.  Then the probe path `out/.torrent` differs from
    the output path, so after `create` it is exactly as before: still there with the same
    bytes if it existed, still absent if it did not. -/
theorem create_probe_untouched (fs : FS) (out cwd : Path) (name : String)
    (payload : List Path) (data : Bytes) (hp : ∀ p ∈ payload, fs.has p = true)
    (hsep : Impl.endsWithSep out = true) (hname : name ≠ "") :
    Impl.probePath (Impl.probeArg (some out) cwd) = out ++ ".torrent" ∧
    ∃ s, run fs (Impl.createOps fs (some out) cwd name payload data) = some s ∧
      s.get (out ++ ".torrent") = fs.get (out ++ ".torrent") := by
  have hout : out ≠ "" := by
    intro e; subst e; simp [Impl.endsWithSep] at hsep
  have hne : out ++ ".torrent" ≠ Impl.outPath (some out) cwd name := by
    simp only [Impl.outPath, hout, hsep, ↓reduceIte]
    intro h
    have := congrArg String.length h
    simp at this
    exact hname this
  refine ⟨by simp [Impl.probeArg, Impl.probePath, hout, hsep], _,
    (create_one_file fs (some out) cwd name payload data hp).1, ?_⟩
  exact (create_one_file fs (some out) cwd name payload data hp).2.2 _ hne

/-- output is the directory spelling `out/`; a bystander literally named `out/.torrent` (the
    probe path) and the payload survive, the metafile appears as `out/n.torrent` -/
example : run [("out/.torrent", [7]), ("pay", [1, 2])]
      (Impl.createOps [("out/.torrent", [7]), ("pay", [1, 2])] (some "out/") "/cwd" "n" ["pay"] [100, 101])
    = some [("out/.torrent", [7]), ("pay", [1, 2]), ("out/n.torrent", [100, 101])] := by decide

/-- no bystander: the probe file is created and removed again, nothing but the metafile is new -/
example : run [("pay", [1, 2])]
      (Impl.createOps [("pay", [1, 2])] (some "out/") "/cwd" "n" ["pay"] [100, 101])
    = some [("pay", [1, 2]), ("out/n.torrent", [100, 101])] ∧
    Impl.createOps [("pay", [1, 2])] (some "out/") "/cwd" "n" ["pay"] [100, 101]
    = [.touch "out/.torrent", .remove "out/.torrent", .read "pay",
       .create "out/n.torrent", .write "out/n.torrent" [100, 101]] := by decide

/-- `rename` refuses (without performing any operation) when the new name already exists or
    the target is missing; otherwise it completes, the new path holds exactly the bytes the
    target held, the target path is gone, and every other path is unchanged. -/
theorem rename_moves_only (fs : FS) (target newPath : Path) :
    (fs.has target = true → fs.has newPath = true →
      Impl.renameOps fs target newPath = .error .exists) ∧
    (fs.has target = false → Impl.renameOps fs target newPath = .error .notFound) ∧
    (∀ ops, Impl.renameOps fs target newPath = .ok ops →
      ∃ c s, fs.get target = some c ∧ fs.get newPath = none ∧ run fs ops = some s ∧
        s.get newPath = some c ∧ s.get target = none ∧
        ∀ q, q ≠ target → q ≠ newPath → s.get q = fs.get q) := by
  refine ⟨fun h1 h2 => by simp [Impl.renameOps, h1, h2],
          fun h1 => by simp [Impl.renameOps, h1], fun ops hops => ?_⟩
  unfold Impl.renameOps at hops
  by_cases h1 : fs.has target = true
  · by_cases h2 : fs.has newPath = true
    · simp [h1, h2] at hops
    · have h2' : fs.has newPath = false := by simpa using h2
      simp only [h1, h2', not_true_eq_false, ↓reduceIte, Bool.false_eq_true, Except.ok.injEq] at hops
      obtain ⟨c, hc⟩ := (FS.has_eq_true_iff _ _).mp h1
      have hn : fs.get newPath = none := (FS.has_eq_false_iff _ _).mp (by simpa using h2)
      have hne : target ≠ newPath := by
        intro e; rw [e] at hc; rw [hc] at hn; cases hn
      refine ⟨c, (fs.del target).set newPath c, hc, hn, ?_, FS.get_set_same _ _ _, ?_, ?_⟩
      · subst hops; simp [run, applyOp, h1, hc]
      · rw [FS.get_set_other _ _ _ _ hne, FS.get_del_same]
      · intro q hq1 hq2
        rw [FS.get_set_other _ _ _ _ hq2, FS.get_del_other _ _ _ hq1]
  · simp [h1] at hops

example : Impl.renameOps [("d/x.torrent", [1, 2]), ("d/other", [3])] "d/x.torrent" "d/name.torrent"
      = .ok [.read "d/x.torrent", .replace "d/x.torrent" "d/name.torrent"] ∧
    run [("d/x.torrent", [1, 2]), ("d/other", [3])]
      [.read "d/x.torrent", .replace "d/x.torrent" "d/name.torrent"]
      = some [("d/other", [3]), ("d/name.torrent", [1, 2])] ∧
    Impl.renameOps [("d/x.torrent", [1, 2]), ("d/name.torrent", [3])] "d/x.torrent" "d/name.torrent"
      = .error .exists := by decide

end TorrentVerif.Props.C18

import TorrentVerif.Proofs.Recheck
import TorrentVerif.Proofs.RecheckFull
import TorrentVerif.Model.ExceptEq
/-
  C05 — recheck reports exactly 100 % for intact content of any well-formed metafile.
  Property theorems only; helper lemmas live in `Proofs/Recheck.lean`.
  The reported number is `(matched / consumed) * 100`; the model returns `(matched, consumed)`,
  so "exactly 100 %" is `matched = consumed > 0`.
-/
namespace TorrentVerif.Props.C05
open TorrentVerif

/-- v1, intact content.  Let the metafile record, for the files `data` in listed order, their
    exact lengths and as `pieces` the concatenated digests of the piece-length slices of the
    concatenated files (BEP 3; any encoder).  If every file on disk is exactly its data and the
    payload is not empty, then every piece verifies: matched = consumed = total payload
    length > 0, i.e. exactly 100 %.  Files may be empty, end on piece boundaries or share
    pieces.  `H1` is any function with 20-byte digests. -/
theorem intact_full_v1 (H1 : Bytes → Bytes) (hH : ∀ b, (H1 b).length = 20) (pl : Nat)
    (hpl : 0 < pl) (data : List Bytes) (htotal : 0 < data.flatten.length) :
    Impl.iterHashes (Impl.feedCheck H1 pl ((chunks pl data.flatten).map H1).flatten
        (data.map (fun d => (d.length, some d))))
      = (data.flatten.length, data.flatten.length) ∧ 0 < data.flatten.length := by
  refine ⟨?_, htotal⟩
  have hd : ∀ e ∈ data.map (fun d => (d.length, some d)), ∀ d, e.2 = some d → d.length ≤ e.1 := by
    intro e he d hed
    obtain ⟨x, _, rfl⟩ := List.mem_map.mp he
    simp only [Option.some.injEq] at hed
    subst hed; exact Nat.le_refl _
  have hs := Spec.flatMap_zeroFill_intact data
  rw [Impl.iterHashes_eq_ratio, Impl.feedCheck_eq_v1Check H1 pl hpl _ _ hd]
  have hall : ∀ v ∈ Spec.v1Check H1 pl ((chunks pl data.flatten).map H1).flatten
      (data.map (fun d => (d.length, some d))), v.1 = true := by
    intro v hv
    unfold Spec.v1Check at hv
    rw [hs] at hv
    obtain ⟨ci, hci, rfl⟩ := List.mem_map.mp hv
    have hget := List.mem_zipIdx_iff_getElem?.mp hci
    simp only [decide_eq_true_eq]
    symm
    apply digestSlice_flatten 20 _ _ ci.2 (H1 ci.1)
    · rw [List.getElem?_map, hget]; rfl
    · intro x hx
      obtain ⟨c, _, rfl⟩ := List.mem_map.mp hx
      exact hH c
  rw [Spec.ratio_all _ hall]
  have hsum := Spec.v1Check_sizes H1 pl hpl ((chunks pl data.flatten).map H1).flatten
    (data.map (fun d => (d.length, some d)))
  rw [hs] at hsum
  rw [hsum]

/-- toy digest (first byte of the piece, 20 times); three files, the middle one empty, the
    first ending inside piece 0: both pieces verify, 7 of 7 bytes -/
example :
    Impl.iterHashes (Impl.feedCheck (fun b => List.replicate 20 (b.headD 0)) 4
      (List.replicate 20 1 ++ List.replicate 20 5)
      ([[1,2,3],[],[4,5,6,7]].map (fun d => (d.length, some d)))) = (7, 7) := by
  decide

/-- v2 / hybrid, intact content.  For each file `d` the metafile records its exact length and
    the `pieces root` and piece layer that `FileHasher` computes for `d` (this is the
    well-formedness hypothesis: recorded values = `Impl.fileHasher` output; that this output
    is the BEP 52 root / layer is property C02).  If every file on disk is exactly its data
    and the payload is not empty, every piece of every file verifies: matched = consumed =
    total length > 0, exactly 100 %.  Files may be empty (they contribute nothing), shorter
    than a piece (compared with the root) or end on piece boundaries.  `H` is any function
    with `hs`-byte digests; `H1` is irrelevant (`hybrid=False`). -/
theorem intact_full_v2 (H H1 : Bytes → Bytes) (B hs bpp : Nat) (hB : 0 < B) (hbpp : 0 < bpp)
    (hhs : 0 < hs) (hH : ∀ b, (H b).length = hs) (data : List Bytes)
    (htotal : 0 < data.flatten.length) :
    Impl.iterHashes (Impl.hashCheck H B hs bpp (data.map (fun d =>
        (d.length, (Impl.fileHasher H H1 B hs bpp false d).1,
          (Impl.fileHasher H H1 B hs bpp false d).2.1, some d))))
      = (data.flatten.length, data.flatten.length) ∧ 0 < data.flatten.length := by
  refine ⟨?_, htotal⟩
  have hok : ∀ f ∈ data.map (Impl.intactFile H H1 B hs bpp), Impl.FileOK hs (bpp * B) f := by
    intro f hf
    obtain ⟨d, _, rfl⟩ := List.mem_map.mp hf
    exact (Impl.intactFile_ok H H1 B hs bpp hB hbpp hH d).1
  show Impl.iterHashes (Impl.hashCheck H B hs bpp (data.map (Impl.intactFile H H1 B hs bpp))) = _
  rw [Impl.iterHashes_eq_ratio, Impl.hashCheck_eq_v2Check H B hs bpp hB hbpp hhs _ hok,
    Spec.ratio_all _ (Impl.v2Check_intact_all H H1 B hs bpp hB hbpp hH data),
    Impl.v2Check_sizes H B hs bpp (Nat.mul_pos hbpp hB)]
  have : (data.map (Impl.intactFile H H1 B hs bpp)).map (·.1) = data.map List.length := by
    simp [List.map_map, Function.comp_def, Impl.intactFile]
  rw [this, List.length_flatten]

/-- toy digest, 4-byte pieces: a 7-byte file (two pieces, compared with its layer), an empty
    file, a 3-byte file (compared with its root): 10 of 10 bytes -/
example :
    Impl.iterHashes (Impl.hashCheck toyH 2 2 2 ([[1,2,3,4,5,6,7], [], [8,9,10]].map (fun d =>
        (d.length, (Impl.fileHasher toyH toyH 2 2 2 false d).1,
          (Impl.fileHasher toyH toyH 2 2 2 false d).2.1, some d)))) = (10, 10) := by
  decide +kernel

/-! ### the whole `Checker` (`Model/RecheckFull`): metafile → file map → verdicts → result -/

open RF in
/-- The file map.  For every well-formed v1, v2 or hybrid metafile — `Spec.describedFiles` is
    defined: its dictionaries may list their keys in any order, own or foreign encoder — the
    `paths` / `fileinfo` that `Checker.check_paths` / `walk_file_tree` build (path below the
    payload root, recorded length, pieces root; and `total`) are exactly the files the
    metafile describes per BEP 3 / BEP 52: v1 the `files` list in order, padding entries
    included, or the single file; v2 / hybrid the leaves of the file tree, or the single file
    (`length` present, or tree `{name: file}` on a regular-file payload — the repaired D11
    rule).  The one exception is excluded by `hne` and exhibited in
    `emptySingleV2_keyError`. -/
theorem checkPaths_eq_described (mf : BVal) (info : Dict) (name : Bytes) (rootIsFile : Bool)
    (recs : List FileRec) (hinfo : mf.get? K.info = some (.dict info))
    (hname : dictGet info K.name = some (.str name))
    (hd : Spec.describedFiles mf rootIsFile = some recs)
    (hne : ¬ Spec.EmptySingleV2 mf rootIsFile) :
    Impl.checkPaths info name (Impl.metaVersion info) rootIsFile = .ok (recs, totalOf recs) :=
  Spec.checkPaths_of_described mf info name rootIsFile recs hinfo hname hd
    (fun hv he => hne ⟨by rw [hd, he], info, hinfo, hv⟩)

/-- a v1 directory (keys unsorted, an empty file, a nested file); a hybrid tree; a v2 single
    file without `info.length` on a regular-file payload -/
example :
    Spec.describedFiles RF.Ex.v1Meta false
      = some [([[97]], 3, none), ([[98]], 0, none), ([[100], [99]], 4, none)] ∧
    Spec.describedFiles RF.Ex.hybridMeta false
      = some [([[97]], 7, some [1, 2]), ([[98]], 0, none), ([[100], [99]], 3, some [8, 9])] ∧
    Spec.describedFiles RF.Ex.singleMeta true = some [([], 7, some [1, 2])] ∧
    Impl.checkPaths [(K.fileTree, .dict [([110], RF.Ex.leaf 7 (some [1, 2]))]),
        (K.metaVersion, .int 2), (K.name, .str [110]), (K.pieceLength, .int 4)] [110] 2 true
      = .ok ([([], 7, some [1, 2])], 7) := by
  decide

/-- COUNTEREXAMPLE to the file-map statement without `hne` (the real `Checker` agrees with
    the model: `KeyError: 'pieces root'`).  A v2 (or hybrid) metafile that describes one
    single empty file — well-formed per BEP 52, which gives an empty file no `pieces root` —
    makes `check_paths` fail: the single-file branch reads `["pieces root"]` unconditionally
    (the multi-file branch does not, for empty files).  The total payload of such a torrent
    is 0 bytes, which property C05 excludes. -/
theorem emptySingleV2_keyError :
    ∃ mf info name, mf.get? K.info = some (.dict info) ∧ dictGet info K.name = some (.str name) ∧
      Spec.describedFiles mf true = some [([], 0, none)] ∧ Spec.EmptySingleV2 mf true ∧
      Impl.checkPaths info name (Impl.metaVersion info) true = .error .keyError := by
  refine ⟨RF.Ex.emptySingleMeta, _, [110], rfl, rfl, by decide, ⟨by decide, _, rfl, by decide⟩,
    by decide⟩

example : Impl.recheckMeta RF.Ex.h1 toyH 2 2 RF.Ex.emptySingleMeta [110] (some (.file []))
    = .error .keyError := by decide

open RF in
/-- Root or parent.  Let the payload be stored under the torrent's name in a directory
    (`child (.dir parent) name = some payload`; other entries may be there too).  If that
    directory is NOT itself named like the torrent (`pname ≠ name` — the precise side
    condition), `find_root` resolves "the parent directory" and "the payload root" (passed
    under its own name) to the same node, so the file map and the whole result — verdict
    stream, matched, consumed, or the error — are the same for both content arguments. -/
theorem root_or_parent (H1 H : Bytes → Bytes) (B hs : Nat) (mf : BVal) (payload : Disk)
    (parent : List (Bytes × Node)) (pname : Bytes)
    (hstored : child (.dir parent) (Impl.nameOf mf) = some payload)
    (hside : pname ≠ Impl.nameOf mf) :
    Impl.findRoot (Impl.nameOf mf) pname (some (.dir parent))
      = Impl.findRoot (Impl.nameOf mf) (Impl.nameOf mf) (some payload) ∧
    Impl.recheckMeta H1 H B hs mf pname (some (.dir parent))
      = Impl.recheckMeta H1 H B hs mf (Impl.nameOf mf) (some payload) := by
  have h : Impl.findRoot (Impl.nameOf mf) pname (some (.dir parent))
      = Impl.findRoot (Impl.nameOf mf) (Impl.nameOf mf) (some payload) := by
    rw [Spec.findRoot_parent _ pname parent payload hside hstored, Spec.findRoot_root]
  exact ⟨h, Spec.recheckMeta_congr H1 H B hs mf _ _ _ _ h⟩

/-- the hybrid payload `n` next to another entry inside a directory `h` -/
example :
    Impl.recheckMeta RF.Ex.h1 toyH 2 2 RF.Ex.hybridMeta [104]
        (some (.dir [([120], .file [9]), ([110], RF.Ex.v2Disk)]))
      = Impl.recheckMeta RF.Ex.h1 toyH 2 2 RF.Ex.hybridMeta [110] (some RF.Ex.v2Disk) :=
  (root_or_parent RF.Ex.h1 toyH 2 2 RF.Ex.hybridMeta RF.Ex.v2Disk
    [([120], .file [9]), ([110], RF.Ex.v2Disk)] [104] rfl (by decide)).2

open RF in
/-- The same at the level of the whole `Checker` on the metafile bytes: content argument =
    payload root (named like the torrent) and content argument = parent directory (any other
    name) give the same result. -/
theorem root_or_parent_arg (H1 H : Bytes → Bytes) (B hs : Nat) (metafile : Bytes) (mf : BVal)
    (disk : Disk) (pname : Bytes) (hmf : Impl.loads metafile = some mf)
    (hside : pname ≠ Impl.nameOf mf) :
    Impl.recheck H1 H B hs metafile ⟨.parent, pname⟩ disk
      = Impl.recheck H1 H B hs metafile ⟨.root, Impl.nameOf mf⟩ disk := by
  simp only [Impl.recheck, hmf, ContentArg.place]
  exact (root_or_parent H1 H B hs mf disk [(Impl.nameOf mf, disk)] pname
    (by simp [child]) hside).2

example : Impl.recheck RF.Ex.h1 toyH 2 2 (Impl.encode RF.Ex.v1Meta) ⟨.parent, [104]⟩ RF.Ex.v1Disk
    = .ok ([(true, 4), (true, 3)], 7, 7) := by decide +kernel

/-- WITNESS that the side condition is needed (the real `Checker` agrees): the v2 torrent `n`
    (a directory), intact, stored as `n/n`.  The parent directory is named like the torrent,
    so `find_root` takes the parent itself for the payload; every file is looked up one level
    too high, is absent, and is read as zeros: nothing verifies (0 of 10 bytes), whereas the
    payload root gives 10 of 10. -/
theorem root_or_parent_needs_side_condition :
    ∃ (mf : BVal) (payload : RF.Disk) (parent : List (Bytes × Node)),
      RF.child (.dir parent) (Impl.nameOf mf) = some payload ∧
      Impl.recheckMeta RF.Ex.h1 toyH 2 2 mf (Impl.nameOf mf) (some (.dir parent))
        = .ok ([(false, 4), (false, 3), (false, 3)], 0, 10) ∧
      Impl.recheckMeta RF.Ex.h1 toyH 2 2 mf (Impl.nameOf mf) (some payload)
        = .ok ([(true, 4), (true, 3), (true, 3)], 10, 10) :=
  ⟨RF.Ex.v2Meta, RF.Ex.v2Disk, [([110], RF.Ex.v2Disk)], rfl, by decide +kernel,
    by decide +kernel⟩

/-- the same witness for the hybrid metafile -/
example :
    Impl.recheckMeta RF.Ex.h1 toyH 2 2 RF.Ex.hybridMeta [110] (some (.dir [([110], RF.Ex.v2Disk)]))
      = .ok ([(false, 4), (false, 3), (false, 3)], 0, 10) := by decide +kernel

open RF in
/-- Intact content, whole `Checker`, all three versions.  Let the metafile be well-formed
    (`Spec.plan` defined: v1 → `Plan.v1`, v2 and hybrid → `Plan.v2`) for the payload on disk,
    let its recorded hashes be the hashes of the disk contents (`Plan.Intact`: every
    described file present with its recorded length; v1 `pieces` = BEP 3 digests of the
    concatenated files; v2 / hybrid `pieces root` and piece layers = what `FileHasher`
    computes, i.e. BEP 52), the payload not empty, and let `find_root` resolve the content
    argument to the payload (root or parent, see `root_or_parent`).  Then the run succeeds,
    every piece verifies, and `(matched, consumed) = (total, total)` with `total > 0`:
    exactly 100 %.  `H1`, `H` are arbitrary functions with 20- and `hs`-byte digests. -/
theorem intact_full (H1 H : Bytes → Bytes) (B hs : Nat) (hhs : 0 < hs)
    (hH1 : ∀ b, (H1 b).length = 20) (hH : ∀ b, (H b).length = hs) (mf : BVal) (disk : Disk)
    (p : Spec.Plan) (argName : Bytes) (here : Option Node)
    (hplan : Spec.plan B mf disk = some p) (hintact : p.Intact H1 H B hs)
    (htotal : 0 < p.total)
    (hroot : Impl.findRoot (Impl.nameOf mf) argName here = .ok disk) :
    Impl.recheckMeta H1 H B hs mf argName here
      = .ok (p.verdicts H1 H B hs, p.total, p.total) ∧
    (∀ v ∈ p.verdicts H1 H B hs, v.1 = true) ∧ 0 < p.total :=
  ⟨Spec.recheckMeta_intact H1 H B hs hhs hH1 hH mf disk p argName here hplan hintact htotal hroot,
    Spec.intact_all_true H1 H B hs hH1 hH mf disk p hplan hintact, htotal⟩

/-- v1 (via the parent directory `h`), v2 and hybrid (via the root), v2 single file without
    `info.length`: all pieces verify -/
example :
    Impl.recheckMeta RF.Ex.h1 toyH 2 2 RF.Ex.v1Meta [104] (some (.dir [([110], RF.Ex.v1Disk)]))
      = .ok ([(true, 4), (true, 3)], 7, 7) ∧
    Impl.recheckMeta RF.Ex.h1 toyH 2 2 RF.Ex.v2Meta [110] (some RF.Ex.v2Disk)
      = .ok ([(true, 4), (true, 3), (true, 3)], 10, 10) ∧
    Impl.recheckMeta RF.Ex.h1 toyH 2 2 RF.Ex.hybridMeta [110] (some RF.Ex.v2Disk)
      = .ok ([(true, 4), (true, 3), (true, 3)], 10, 10) ∧
    Impl.recheckMeta RF.Ex.h1 toyH 2 2 RF.Ex.singleMeta [110] (some RF.Ex.singleDisk)
      = .ok ([(true, 4), (true, 3)], 7, 7) := by
  decide +kernel

/-- the hypotheses of `intact_full` hold for the v2 example (plan, intact, total) -/
example : ∃ p, Spec.plan 2 RF.Ex.v2Meta RF.Ex.v2Disk = some p ∧ p.Intact RF.Ex.h1 toyH 2 2 ∧
    0 < p.total := by
  refine ⟨.v2 2 [(7, [1, 2], [1, 2, 5, 6], some [1, 2, 3, 4, 5, 6, 7]), (0, [], [], some []),
    (3, [8, 9], [], some [8, 9, 10])], rfl, ?_, by decide⟩
  intro f hf
  simp only [List.mem_cons, List.not_mem_nil, or_false] at hf
  rcases hf with rfl | rfl | rfl
  · exact ⟨_, rfl, rfl, fun _ => by decide +kernel, fun _ => by decide +kernel⟩
  · exact ⟨_, rfl, rfl, fun h => absurd rfl h, fun h => by simp at h⟩
  · exact ⟨_, rfl, rfl, fun _ => by decide +kernel, fun h => by simp at h⟩

open RF in
/-- The same for the whole `Impl.recheck` on the metafile BYTES: the bytes decode
    (`pyben.load`) to `mf`, and the content argument is the payload root (named like the
    torrent) or its parent directory (not named like the torrent) — `ContentArg.Resolves`.
    Intact, non-empty content gives `(total, total)` either way. -/
theorem intact_full_arg (H1 H : Bytes → Bytes) (B hs : Nat) (hhs : 0 < hs)
    (hH1 : ∀ b, (H1 b).length = 20) (hH : ∀ b, (H b).length = hs) (metafile : Bytes) (mf : BVal)
    (arg : ContentArg) (disk : Disk) (p : Spec.Plan) (hmf : Impl.loads metafile = some mf)
    (harg : arg.Resolves (Impl.nameOf mf)) (hplan : Spec.plan B mf disk = some p)
    (hintact : p.Intact H1 H B hs) (htotal : 0 < p.total) :
    Impl.recheck H1 H B hs metafile arg disk = .ok (p.verdicts H1 H B hs, p.total, p.total) ∧
    0 < p.total := by
  simp only [Impl.recheck, hmf]
  exact ⟨(intact_full H1 H B hs hhs hH1 hH mf disk p arg.argName _ hplan hintact htotal
    (Spec.findRoot_place arg _ disk harg)).1, htotal⟩

/-- the bytes of the hybrid example metafile, root (named `n`) and parent (named `h`) -/
example :
    Impl.recheck RF.Ex.h1 toyH 2 2 (Impl.encode RF.Ex.hybridMeta) ⟨.root, [110]⟩ RF.Ex.v2Disk
      = .ok ([(true, 4), (true, 3), (true, 3)], 10, 10) ∧
    Impl.recheck RF.Ex.h1 toyH 2 2 (Impl.encode RF.Ex.hybridMeta) ⟨.parent, [104]⟩ RF.Ex.v2Disk
      = .ok ([(true, 4), (true, 3), (true, 3)], 10, 10) := by
  decide +kernel

end TorrentVerif.Props.C05

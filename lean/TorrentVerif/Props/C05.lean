import TorrentVerif.Proofs.Recheck
/-
  C05 — recheck reports exactly 100 % for intact content of any well-formed metafile.
  Property theorems only; helper lemmas live in `Proofs/Recheck.lean`.
  The reported number is `(matched / consumed) * 100`; the model returns `(matched, consumed)`,
  so "exactly 100 %" is `matched = consumed > 0`.
-/
namespace TorrentVerif.Props.C05
open TorrentVerif

/-- v1, intact content.  Let the metafile record, for the files `data` in listed order, their
    exact lengths and as `pieces` the concatenated digests of the piece-length slices of the
    concatenated files (BEP 3; any encoder).  If every file on disk is exactly its data and the
    payload is not empty, then every piece verifies: matched = consumed = total payload
    length > 0, i.e. exactly 100 %.  Files may be empty, end on piece boundaries or share
    pieces.  `H1` is any function with 20-byte digests. -/
theorem intact_full_v1 (H1 : Bytes → Bytes) (hH : ∀ b, (H1 b).length = 20) (pl : Nat)
    (hpl : 0 < pl) (data : List Bytes) (htotal : 0 < data.flatten.length) :
    Impl.iterHashes (Impl.feedCheck H1 pl ((chunks pl data.flatten).map H1).flatten
        (data.map (fun d => (d.length, some d))))
      = (data.flatten.length, data.flatten.length) ∧ 0 < data.flatten.length := by
  refine ⟨?_, htotal⟩
  have hd : ∀ e ∈ data.map (fun d => (d.length, some d)), ∀ d, e.2 = some d → d.length ≤ e.1 := by
    intro e he d hed
    obtain ⟨x, _, rfl⟩ := List.mem_map.mp he
    simp only [Option.some.injEq] at hed
    subst hed; exact Nat.le_refl _
  have hs := Spec.flatMap_zeroFill_intact data
  rw [Impl.iterHashes_eq_ratio, Impl.feedCheck_eq_v1Check H1 pl hpl _ _ hd]
  have hall : ∀ v ∈ Spec.v1Check H1 pl ((chunks pl data.flatten).map H1).flatten
      (data.map (fun d => (d.length, some d))), v.1 = true := by
    intro v hv
    unfold Spec.v1Check at hv
    rw [hs] at hv
    obtain ⟨ci, hci, rfl⟩ := List.mem_map.mp hv
    have hget := List.mem_zipIdx_iff_getElem?.mp hci
    simp only [decide_eq_true_eq]
    symm
    apply digestSlice_flatten 20 _ _ ci.2 (H1 ci.1)
    · rw [List.getElem?_map, hget]; rfl
    · intro x hx
      obtain ⟨c, _, rfl⟩ := List.mem_map.mp hx
      exact hH c
  rw [Spec.ratio_all _ hall]
  have hsum := Spec.v1Check_sizes H1 pl hpl ((chunks pl data.flatten).map H1).flatten
    (data.map (fun d => (d.length, some d)))
  rw [hs] at hsum
  rw [hsum]

/-- toy digest (first byte of the piece, 20 times); three files, the middle one empty, the
    first ending inside piece 0: both pieces verify, 7 of 7 bytes -/
example :
    Impl.iterHashes (Impl.feedCheck (fun b => List.replicate 20 (b.headD 0)) 4
      (List.replicate 20 1 ++ List.replicate 20 5)
      ([[1,2,3],[],[4,5,6,7]].map (fun d => (d.length, some d)))) = (7, 7) := by
  decide

/-- v2 / hybrid, intact content.  For each file `d` the metafile records its exact length and
    the `pieces root` and piece layer that `FileHasher` computes for `d` (this is the
    well-formedness hypothesis: recorded values = `Impl.fileHasher` output; that this output
    is the BEP 52 root / layer is property C02).  If every file on disk is exactly its data
    and the payload is not empty, every piece of every file verifies: matched = consumed =
    total length > 0, exactly 100 %.  Files may be empty (they contribute nothing), shorter
    than a piece (compared with the root) or end on piece boundaries.  `H` is any function
    with `hs`-byte digests; `H1` is irrelevant (`hybrid=False`). -/
theorem intact_full_v2 (H H1 : Bytes → Bytes) (B hs bpp : Nat) (hB : 0 < B) (hbpp : 0 < bpp)
    (hhs : 0 < hs) (hH : ∀ b, (H b).length = hs) (data : List Bytes)
    (htotal : 0 < data.flatten.length) :
    Impl.iterHashes (Impl.hashCheck H B hs bpp (data.map (fun d =>
        (d.length, (Impl.fileHasher H H1 B hs bpp false d).1,
          (Impl.fileHasher H H1 B hs bpp false d).2.1, some d))))
      = (data.flatten.length, data.flatten.length) ∧ 0 < data.flatten.length := by
  refine ⟨?_, htotal⟩
  have hok : ∀ f ∈ data.map (Impl.intactFile H H1 B hs bpp), Impl.FileOK hs (bpp * B) f := by
    intro f hf
    obtain ⟨d, _, rfl⟩ := List.mem_map.mp hf
    exact (Impl.intactFile_ok H H1 B hs bpp hB hbpp hH d).1
  show Impl.iterHashes (Impl.hashCheck H B hs bpp (data.map (Impl.intactFile H H1 B hs bpp))) = _
  rw [Impl.iterHashes_eq_ratio, Impl.hashCheck_eq_v2Check H B hs bpp hB hbpp hhs _ hok,
    Spec.ratio_all _ (Impl.v2Check_intact_all H H1 B hs bpp hB hbpp hH data),
    Impl.v2Check_sizes H B hs bpp (Nat.mul_pos hbpp hB)]
  have : (data.map (Impl.intactFile H H1 B hs bpp)).map (·.1) = data.map List.length := by
    simp [List.map_map, Function.comp_def, Impl.intactFile]
  rw [this, List.length_flatten]

/-- toy digest, 4-byte pieces: a 7-byte file (two pieces, compared with its layer), an empty
    file, a 3-byte file (compared with its root): 10 of 10 bytes -/
example :
    Impl.iterHashes (Impl.hashCheck toyH 2 2 2 ([[1,2,3,4,5,6,7], [], [8,9,10]].map (fun d =>
        (d.length, (Impl.fileHasher toyH toyH 2 2 2 false d).1,
          (Impl.fileHasher toyH toyH 2 2 2 false d).2.1, some d)))) = (10, 10) := by
  decide +kernel

end TorrentVerif.Props.C05

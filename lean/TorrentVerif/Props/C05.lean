import TorrentVerif.Proofs.Recheck
import TorrentVerif.Proofs.RecheckFull
import TorrentVerif.Model.ExceptEq
import TorrentVerif.Proofs.EndToEndV2
import TorrentVerif.Proofs.EndToEndEdit
import TorrentVerif.Proofs.RecheckSiblings
/-
  C05 — recheck reports exactly 100 % for intact content of any well-formed metafile.
  Property theorems only; helper lemmas live in `Proofs/Recheck.lean`.
  The reported number is `(matched / consumed) * 100`; the model returns `(matched, consumed)`,
  so "exactly 100 %" is `matched = consumed > 0`.
-/
namespace TorrentVerif.Props.C05
open TorrentVerif

/-- v1, intact content.  Let the metafile record, for the files `data` in listed order, their
    exact lengths and as `pieces` the concatenated digests of the piece-length slices of the
    concatenated files (BEP 3; any encoder).  If every file on disk is exactly its data and the
    payload is not empty, then every piece verifies: matched = consumed = total payload
    length > 0, i.e. exactly 100 %.  Files may be empty, end on piece boundaries or share
    pieces.  `H1` is any function with 20-byte digests. -/
theorem intact_full_v1 (H1 : Bytes → Bytes) (hH : ∀ b, (H1 b).length = 20) (pl : Nat)
    (hpl : 0 < pl) (data : List Bytes) (htotal : 0 < data.flatten.length) :
    Impl.iterHashes (Impl.feedCheck H1 pl ((chunks pl data.flatten).map H1).flatten
        (data.map (fun d => (d.length, some d))))
      = (data.flatten.length, data.flatten.length) ∧ 0 < data.flatten.length := by
  refine ⟨?_, htotal⟩
  have hd : ∀ e ∈ data.map (fun d => (d.length, some d)), ∀ d, e.2 = some d → d.length ≤ e.1 := by
    intro e he d hed
    obtain ⟨x, _, rfl⟩ := List.mem_map.mp he
    simp only [Option.some.injEq] at hed
    subst hed; exact Nat.le_refl _
  have hs := Spec.flatMap_zeroFill_intact data
  rw [Impl.iterHashes_eq_ratio, Impl.feedCheck_eq_v1Check H1 pl hpl _ _ hd]
  have hall : ∀ v ∈ Spec.v1Check H1 pl ((chunks pl data.flatten).map H1).flatten
      (data.map (fun d => (d.length, some d))), v.1 = true := by
    intro v hv
    unfold Spec.v1Check at hv
    rw [hs] at hv
    obtain ⟨ci, hci, rfl⟩ := List.mem_map.mp hv
    have hget := List.mem_zipIdx_iff_getElem?.mp hci
    simp only [decide_eq_true_eq]
    symm
    apply digestSlice_flatten 20 _ _ ci.2 (H1 ci.1)
    · rw [List.getElem?_map, hget]; rfl
    · intro x hx
      obtain ⟨c, _, rfl⟩ := List.mem_map.mp hx
      exact hH c
  rw [Spec.ratio_all _ hall]
  have hsum := Spec.v1Check_sizes H1 pl hpl ((chunks pl data.flatten).map H1).flatten
    (data.map (fun d => (d.length, some d)))
  rw [hs] at hsum
  rw [hsum]

/-- toy digest (first byte of the piece, 20 times); three files, the middle one empty, the
    first ending inside piece 0: both pieces verify, 7 of 7 bytes -/
example :
    Impl.iterHashes (Impl.feedCheck (fun b => List.replicate 20 (b.headD 0)) 4
      (List.replicate 20 1 ++ List.replicate 20 5)
      ([[1,2,3],[],[4,5,6,7]].map (fun d => (d.length, some d)))) = (7, 7) := by
  decide

/-- v2 / hybrid, intact content.  For each file `d` the metafile records its exact length and
    the `pieces root` and piece layer that `FileHasher` computes for `d` (this is the
    well-formedness hypothesis: recorded values = `Impl.fileHasher` output; that this output
    is the BEP 52 root / layer is property C02).  If every file on disk is exactly its data
    and the payload is not empty, every piece of every file verifies: matched = consumed =
    total length > 0, exactly 100 %.  Files may be empty (they contribute nothing), shorter
    than a piece (compared with the root) or end on piece boundaries.  `H` is any function
    with `hs`-byte digests; `H1` is irrelevant (`hybrid=False`). -/
theorem intact_full_v2 (H H1 : Bytes → Bytes) (B hs bpp : Nat) (hB : 0 < B) (hbpp : 0 < bpp)
    (hhs : 0 < hs) (hH : ∀ b, (H b).length = hs) (data : List Bytes)
    (htotal : 0 < data.flatten.length) :
    Impl.iterHashes (Impl.hashCheck H B hs bpp (data.map (fun d =>
        (d.length, (Impl.fileHasher H H1 B hs bpp false d).1,
          (Impl.fileHasher H H1 B hs bpp false d).2.1, some d))))
      = (data.flatten.length, data.flatten.length) ∧ 0 < data.flatten.length := by
  refine ⟨?_, htotal⟩
  have hok : ∀ f ∈ data.map (Impl.intactFile H H1 B hs bpp), Impl.FileOK hs (bpp * B) f := by
    intro f hf
    obtain ⟨d, _, rfl⟩ := List.mem_map.mp hf
    exact (Impl.intactFile_ok H H1 B hs bpp hB hbpp hH d).1
  show Impl.iterHashes (Impl.hashCheck H B hs bpp (data.map (Impl.intactFile H H1 B hs bpp))) = _
  rw [Impl.iterHashes_eq_ratio, Impl.hashCheck_eq_v2Check H B hs bpp hB hbpp hhs _ hok,
    Spec.ratio_all _ (Impl.v2Check_intact_all H H1 B hs bpp hB hbpp hH data),
    Impl.v2Check_sizes H B hs bpp (Nat.mul_pos hbpp hB)]
  have : (data.map (Impl.intactFile H H1 B hs bpp)).map (·.1) = data.map List.length := by
    simp [List.map_map, Function.comp_def, Impl.intactFile]
  rw [this, List.length_flatten]

/-- toy digest, 4-byte pieces: a 7-byte file (two pieces, compared with its layer), an empty
    file, a 3-byte file (compared with its root): 10 of 10 bytes -/
example :
    Impl.iterHashes (Impl.hashCheck toyH 2 2 2 ([[1,2,3,4,5,6,7], [], [8,9,10]].map (fun d =>
        (d.length, (Impl.fileHasher toyH toyH 2 2 2 false d).1,
          (Impl.fileHasher toyH toyH 2 2 2 false d).2.1, some d)))) = (10, 10) := by
  decide +kernel

/-! ### the whole `Checker` (`Model/RecheckFull`): metafile → file map → verdicts → result -/

open RF in
/-- The file map.  For every well-formed v1, v2 or hybrid metafile — `Spec.describedFiles` is
    defined: its dictionaries may list their keys in any order, own or foreign encoder — the
    `paths` / `fileinfo` that `Checker.check_paths` / `walk_file_tree` build (path below the
    payload root, recorded length, pieces root; and `total`) are exactly the files the
    metafile describes per BEP 3 / BEP 52: v1 the `files` list in order, or the single file —
    and the code now agrees with the specification on BEP 47 padding entries: an entry whose
    `attr` contains `p` is marked as padding (`fileinfo[i]["pad"]`, `RF.padMark` in both), it
    contributes its length in zeros and is never looked up on disk (`pad_entry_never_read`);
    v2 / hybrid the leaves of the file tree, or the single file
    (`length` present, or tree `{name: file}` on a regular-file payload — the repaired D11
    rule).  The one exception is excluded by `hne` and exhibited in
    `emptySingleV2_keyError`. -/
theorem checkPaths_eq_described (mf : BVal) (info : Dict) (name : Bytes) (rootIsFile : Bool)
    (recs : List FileRec) (hinfo : mf.get? K.info = some (.dict info))
    (hname : dictGet info K.name = some (.str name))
    (hd : Spec.describedFiles mf rootIsFile = some recs)
    (hne : ¬ Spec.EmptySingleV2 mf rootIsFile) :
    Impl.checkPaths info name (Impl.metaVersion info) rootIsFile = .ok (recs, totalOf recs) :=
  Spec.checkPaths_of_described mf info name rootIsFile recs hinfo hname hd
    (fun hv he => hne ⟨by rw [hd, he], info, hinfo, hv⟩)

/-- a v1 directory (keys unsorted, an empty file, a nested file); a hybrid tree; a v2 single
    file without `info.length` on a regular-file payload -/
example :
    Spec.describedFiles RF.Ex.v1Meta false
      = some [([[97]], 3, none), ([[98]], 0, none), ([[100], [99]], 4, none)] ∧
    Spec.describedFiles RF.Ex.hybridMeta false
      = some [([[97]], 7, some [1, 2]), ([[98]], 0, none), ([[100], [99]], 3, some [8, 9])] ∧
    Spec.describedFiles RF.Ex.singleMeta true = some [([], 7, some [1, 2])] ∧
    Impl.checkPaths [(K.fileTree, .dict [([110], RF.Ex.leaf 7 (some [1, 2]))]),
        (K.metaVersion, .int 2), (K.name, .str [110]), (K.pieceLength, .int 4)] [110] 2 true
      = .ok ([([], 7, some [1, 2])], 7) := by
  decide

open RF in
/-- A v1 padding entry is never read: whatever the disk holds at its path — nothing, a real
    file, a directory — `FeedChecker` gets "absent" for it (zeros of the recorded length), as
    the specification says (`Spec.v1Disk`). -/
theorem pad_entry_never_read (root : Node) (r : FileRec) (rs : List FileRec)
    (h : isPadRec r = true) :
    Impl.rcV1Entries root (r :: rs) = (Impl.rcV1Entries root rs).map ((r.2.1, none) :: ·) ∧
    Spec.v1Disk root r = none :=
  ⟨Spec.rcV1Entries_pad root r rs h, by simp [Spec.v1Disk, h]⟩

/-- `attr` = `p`, `xp`: the entry `.pad/2` is marked and the real file `.pad/2` = 9 9 on disk is
    not read — 8 of 8; `attr` = `x` or empty: an ordinary file, its bytes 9 9 are read and
    piece 1 fails.  (Substring test: `x` does not count, `xp` does.) -/
example :
    Spec.describedFiles (RF.Ex.v1PadMeta [112]) false
      = some [([[97]], 4, none), ([[46, 112, 97, 100], [50]], 2, RF.padMark), ([[98]], 2, none)] := by
  decide +kernel

example :
    Impl.recheckMeta RF.Ex.h1 toyH 2 2 (RF.Ex.v1PadMeta [112]) [110] (some RF.Ex.v1PadDisk)
      = .ok ([(true, 4), (true, 4)], 8, 8) ∧
    Impl.recheckMeta RF.Ex.h1 toyH 2 2 (RF.Ex.v1PadMeta [120, 112]) [110] (some RF.Ex.v1PadDisk)
      = .ok ([(true, 4), (true, 4)], 8, 8) ∧
    Impl.recheckMeta RF.Ex.h1 toyH 2 2 (RF.Ex.v1PadMeta [120]) [110] (some RF.Ex.v1PadDisk)
      = .ok ([(true, 4), (false, 4)], 4, 8) ∧
    Impl.recheckMeta RF.Ex.h1 toyH 2 2 (RF.Ex.v1PadMeta []) [110] (some RF.Ex.v1PadDisk)
      = .ok ([(true, 4), (false, 4)], 4, 8) := by
  decide +kernel

/-- a padding entry does not count among the described top-level names of `_is_parent` -/
example :
    Impl.topsOf (Impl.infoOf (RF.Ex.v1PadMeta [112])) [110] = .ok (some [[97], [98]]) ∧
    Impl.topsOf (Impl.infoOf (RF.Ex.v1PadMeta [120])) [110]
      = .ok (some [[97], [46, 112, 97, 100], [98]]) := by
  decide +kernel

/-- COUNTEREXAMPLE to the file-map statement without `hne` (the real `Checker` agrees with
    the model: `KeyError: 'pieces root'`).  A v2 (or hybrid) metafile that describes one
    single empty file — well-formed per BEP 52, which gives an empty file no `pieces root` —
    makes `check_paths` fail: the single-file branch reads `["pieces root"]` unconditionally
    (the multi-file branch does not, for empty files).  The total payload of such a torrent
    is 0 bytes, which property C05 excludes. -/
theorem emptySingleV2_keyError :
    ∃ mf info name, mf.get? K.info = some (.dict info) ∧ dictGet info K.name = some (.str name) ∧
      Spec.describedFiles mf true = some [([], 0, none)] ∧ Spec.EmptySingleV2 mf true ∧
      Impl.checkPaths info name (Impl.metaVersion info) true = .error .keyError := by
  refine ⟨RF.Ex.emptySingleMeta, _, [110], rfl, rfl, by decide, ⟨by decide, _, rfl, by decide⟩,
    by decide⟩

example : Impl.recheckMeta RF.Ex.h1 toyH 2 2 RF.Ex.emptySingleMeta [110] (some (.file []))
    = .error .keyError := by decide

open RF in
/-- Root or parent (after the repair of `find_root`, which tells the content from its parent
    when both carry the torrent's name).  Let the payload be stored under the torrent's name
    in a directory (`child (.dir parent) name = some payload`; other entries may be there
    too).  The two content arguments "parent directory" (named `pname`) and "payload root"
    (passed under its own name) both resolve to the payload, and therefore give the same
    file map and the same whole result, under exactly these two side conditions, both
    decidable on the metafile and the disk:

    `hparent`: the parent is not named like the torrent, OR `_is_parent` tells the payload
    from it — for a single-file torrent the payload is a regular file; otherwise strictly
    more of the described top-level entries (`Impl.topsOf`) exist below the payload than
    directly in the parent: `countTops parent tops < countTops payload tops`.

    `hroot` (`Impl.descends … payload = .ok false`): the payload is a file, or has no entry
    named like the torrent, or that entry does not hold more of the described top-level
    entries than the payload itself.

    Both are needed: `root_or_parent_needs_side_condition`, `root_side_condition_needed`. -/
theorem root_or_parent (H1 H : Bytes → Bytes) (B hs : Nat) (mf : BVal) (payload : Disk)
    (parent : List (Bytes × Node)) (pname : Bytes)
    (hstored : child (.dir parent) (Impl.nameOf mf) = some payload)
    (hparent : pname ≠ Impl.nameOf mf ∨
      Impl.isParent (Impl.infoOf mf) (Impl.nameOf mf) (.dir parent) payload = .ok true)
    (hroot : Impl.descends (Impl.infoOf mf) (Impl.nameOf mf) payload = .ok false) :
    Impl.findRoot (Impl.infoOf mf) (Impl.nameOf mf) pname (some (.dir parent)) = .ok payload ∧
    Impl.findRoot (Impl.infoOf mf) (Impl.nameOf mf) (Impl.nameOf mf) (some payload) = .ok payload ∧
    Impl.recheckMeta H1 H B hs mf pname (some (.dir parent))
      = Impl.recheckMeta H1 H B hs mf (Impl.nameOf mf) (some payload) := by
  have h1 := Spec.findRoot_parent_any _ _ pname parent payload hstored hparent
  have h2 := Spec.findRoot_root (Impl.infoOf mf) (Impl.nameOf mf) payload hroot
  exact ⟨h1, h2, Spec.recheckMeta_congr H1 H B hs mf _ _ _ _ (h1.trans h2.symm)⟩

/-- the hybrid payload `n` next to another entry inside a directory `h` -/
example :
    Impl.recheckMeta RF.Ex.h1 toyH 2 2 RF.Ex.hybridMeta [104]
        (some (.dir [([120], .file [9]), ([110], RF.Ex.v2Disk)]))
      = Impl.recheckMeta RF.Ex.h1 toyH 2 2 RF.Ex.hybridMeta [110] (some RF.Ex.v2Disk) :=
  (root_or_parent RF.Ex.h1 toyH 2 2 RF.Ex.hybridMeta RF.Ex.v2Disk
    [([120], .file [9]), ([110], RF.Ex.v2Disk)] [104] rfl (Or.inl (by decide)) (by decide)).2.2

open RF in
/-- The side condition `hparent` in terms of the disk, for a torrent that is not a single
    file: with `tops` the described top-level entries, `_is_parent` says "parent" exactly
    when fewer of them are found directly in the outer directory than below the inner one.
    In particular, for an intact payload, it is enough that one described top-level entry
    is NOT also found directly in the parent.  For a single-file torrent (`topsOf = none`)
    it says "parent" exactly when the inner entry is a regular file. -/
theorem isParent_by_tops (info : Dict) (name : Bytes) (outer inner : Node) :
    (∀ tops, Impl.topsOf info name = .ok (some tops) →
      Impl.isParent info name outer inner
        = .ok (decide (Impl.countTops outer tops < Impl.countTops inner tops))) ∧
    (Impl.topsOf info name = .ok none →
      Impl.isParent info name outer inner = .ok (isFile inner)) :=
  ⟨fun tops h => Spec.isParent_tops info name tops outer inner h,
    Spec.isParent_single info name outer inner⟩

/-- `a`, `b`, `d` are described; all three are below the payload, none directly in a parent
    that holds just the payload -/
example : Impl.topsOf (Impl.infoOf RF.Ex.v2Meta) [110] = .ok (some [[97], [98], [100]]) ∧
    Impl.countTops (.dir [([110], RF.Ex.v2Disk)]) [[97], [98], [100]] = 0 ∧
    Impl.countTops RF.Ex.v2Disk [[97], [98], [100]] = 3 ∧
    Impl.topsOf (Impl.infoOf RF.Ex.singleMeta) [110] = .ok none := by decide

/-- The old ambiguity is resolved (the real `Checker` agrees): the v2 torrent `n` (a
    directory), intact, stored as `n/n`, and the content argument is the outer `n`, named like
    the torrent.  Before the repair `find_root` took the outer directory for the payload and
    nothing verified (0 of 10); now `_is_parent` finds `a`, `b`, `d` below the inner `n` and
    not in the outer one, goes on to the inner one, and all 10 bytes verify — the same as for
    the payload root.  Likewise for the single-file torrent `n` stored as `n/n`. -/
theorem parent_named_like_torrent_resolves :
    Impl.recheckMeta RF.Ex.h1 toyH 2 2 RF.Ex.v2Meta [110] (some (.dir [([110], RF.Ex.v2Disk)]))
      = .ok ([(true, 4), (true, 3), (true, 3)], 10, 10) ∧
    Impl.recheckMeta RF.Ex.h1 toyH 2 2 RF.Ex.v2Meta [110] (some RF.Ex.v2Disk)
      = .ok ([(true, 4), (true, 3), (true, 3)], 10, 10) ∧
    Impl.recheckMeta RF.Ex.h1 toyH 2 2 RF.Ex.singleMeta [110]
        (some (.dir [([110], RF.Ex.singleDisk)]))
      = .ok ([(true, 4), (true, 3)], 7, 7) := by
  decide +kernel

/-- the same for the v1 and the hybrid example -/
example :
    Impl.recheckMeta RF.Ex.h1 toyH 2 2 RF.Ex.v1Meta [110] (some (.dir [([110], RF.Ex.v1Disk)]))
      = .ok ([(true, 4), (true, 3)], 7, 7) ∧
    Impl.recheckMeta RF.Ex.h1 toyH 2 2 RF.Ex.hybridMeta [110] (some (.dir [([110], RF.Ex.v2Disk)]))
      = .ok ([(true, 4), (true, 3), (true, 3)], 10, 10) := by
  decide +kernel

/-- WITNESS that `hparent` is still needed (the real `Checker` agrees): the v2 torrent `n`,
    intact, stored in a directory that is also named `n` and that holds, next to the payload,
    entries named like all three described top-level entries (`a` with other content).  As
    many of them are found directly in the parent as below the payload, `_is_parent` says
    "not the parent", the outer directory is checked and nothing verifies (0 of 10), whereas
    the payload root — and the same directory under any other name — gives 10 of 10. -/
theorem root_or_parent_needs_side_condition :
    ∃ (mf : BVal) (payload : RF.Disk) (parent : List (Bytes × Node)),
      RF.child (.dir parent) (Impl.nameOf mf) = some payload ∧
      Impl.descends (Impl.infoOf mf) (Impl.nameOf mf) payload = .ok false ∧
      Impl.isParent (Impl.infoOf mf) (Impl.nameOf mf) (.dir parent) payload = .ok false ∧
      Impl.recheckMeta RF.Ex.h1 toyH 2 2 mf (Impl.nameOf mf) (some (.dir parent))
        = .ok ([(false, 4), (false, 3), (false, 3)], 0, 10) ∧
      Impl.recheckMeta RF.Ex.h1 toyH 2 2 mf (Impl.nameOf mf) (some payload)
        = .ok ([(true, 4), (true, 3), (true, 3)], 10, 10) :=
  ⟨RF.Ex.v2Meta, RF.Ex.v2Disk, RF.Ex.v2Crowded, rfl, by decide, by decide, by decide +kernel,
    by decide +kernel⟩

/-- the same directory under another name (`h`) resolves to the payload -/
example : Impl.recheckMeta RF.Ex.h1 toyH 2 2 RF.Ex.v2Meta [104] (some (.dir RF.Ex.v2Crowded))
    = .ok ([(true, 4), (true, 3), (true, 3)], 10, 10) := by decide +kernel

/-- WITNESS that `hroot` is needed (the real `Checker` behaves the same): a damaged payload
    directory `n` that has none of the described entries but a stray directory `n` holding `a`
    and `b`.  Passed as the payload root, `find_root` goes on into the stray directory (more
    described entries there) and reports 7 of 10; passed through its parent `h` the payload
    itself is checked: 0 of 10. -/
theorem root_side_condition_needed :
    ∃ (mf : BVal) (payload : RF.Disk),
      Impl.descends (Impl.infoOf mf) (Impl.nameOf mf) payload = .ok true ∧
      Impl.recheckMeta RF.Ex.h1 toyH 2 2 mf (Impl.nameOf mf) (some payload)
        = .ok ([(true, 4), (true, 3), (false, 3)], 7, 10) ∧
      Impl.recheckMeta RF.Ex.h1 toyH 2 2 mf [104] (some (.dir [(Impl.nameOf mf, payload)]))
        = .ok ([(false, 4), (false, 3), (false, 3)], 0, 10) :=
  ⟨RF.Ex.v2Meta, RF.Ex.v2Stray, by decide, by decide +kernel, by decide +kernel⟩

example : RF.child RF.Ex.v2Stray [110]
    = some (.dir [([97], .file [1, 2, 3, 4, 5, 6, 7]), ([98], .file [])]) := rfl

open RF in
/-- The same at the level of the whole `Checker` on the metafile bytes: content argument =
    payload root and content argument = parent directory (holding just the payload) give the
    same result when both resolve (`ContentArg.Resolves`). -/
theorem root_or_parent_arg (H1 H : Bytes → Bytes) (B hs : Nat) (metafile : Bytes) (mf : BVal)
    (disk : Disk) (pname : Bytes) (hmf : Impl.loads metafile = some mf)
    (hparent : (⟨.parent, pname⟩ : ContentArg).Resolves (Impl.infoOf mf) (Impl.nameOf mf) disk)
    (hroot : (⟨.root, Impl.nameOf mf⟩ : ContentArg).Resolves (Impl.infoOf mf) (Impl.nameOf mf) disk) :
    Impl.recheck H1 H B hs metafile ⟨.parent, pname⟩ disk
      = Impl.recheck H1 H B hs metafile ⟨.root, Impl.nameOf mf⟩ disk := by
  simp only [Impl.recheck, hmf, ContentArg.place]
  exact (root_or_parent H1 H B hs mf disk [(Impl.nameOf mf, disk)] pname
    (by simp [child]) hparent hroot.2).2.2

/-- parent `h`, and parent named like the torrent (`n`): both as the root -/
example :
    Impl.recheck RF.Ex.h1 toyH 2 2 (Impl.encode RF.Ex.v1Meta) ⟨.parent, [104]⟩ RF.Ex.v1Disk
      = .ok ([(true, 4), (true, 3)], 7, 7) ∧
    Impl.recheck RF.Ex.h1 toyH 2 2 (Impl.encode RF.Ex.v1Meta) ⟨.parent, [110]⟩ RF.Ex.v1Disk
      = .ok ([(true, 4), (true, 3)], 7, 7) ∧
    Impl.recheck RF.Ex.h1 toyH 2 2 (Impl.encode RF.Ex.v1Meta) ⟨.root, [110]⟩ RF.Ex.v1Disk
      = .ok ([(true, 4), (true, 3)], 7, 7) := by decide +kernel

open RF in
/-- Intact content, whole `Checker`, all three versions.  Let the metafile be well-formed
    (`Spec.plan` defined: v1 → `Plan.v1`, v2 and hybrid → `Plan.v2`) for the payload on disk,
    let its recorded hashes be the hashes of the disk contents (`Plan.Intact`: every
    described file present with its recorded length; v1 `pieces` = BEP 3 digests of the
    concatenated files; v2 / hybrid `pieces root` and piece layers = what `FileHasher`
    computes, i.e. BEP 52), the payload not empty, and let `find_root` resolve the content
    argument to the payload (root or parent, see `root_or_parent`).  Then the run succeeds,
    every piece verifies, and `(matched, consumed) = (total, total)` with `total > 0`:
    exactly 100 %.  `H1`, `H` are arbitrary functions with 20- and `hs`-byte digests. -/
theorem intact_full (H1 H : Bytes → Bytes) (B hs : Nat) (hhs : 0 < hs)
    (hH1 : ∀ b, (H1 b).length = 20) (hH : ∀ b, (H b).length = hs) (mf : BVal) (disk : Disk)
    (p : Spec.Plan) (argName : Bytes) (here : Option Node)
    (hplan : Spec.plan B mf disk = some p) (hintact : p.Intact H1 H B hs)
    (htotal : 0 < p.total)
    (hroot : Impl.findRoot (Impl.infoOf mf) (Impl.nameOf mf) argName here = .ok disk) :
    Impl.recheckMeta H1 H B hs mf argName here
      = .ok (p.verdicts H1 H B hs, p.total, p.total) ∧
    (∀ v ∈ p.verdicts H1 H B hs, v.1 = true) ∧ 0 < p.total :=
  ⟨Spec.recheckMeta_intact H1 H B hs hhs hH1 hH mf disk p argName here hplan hintact htotal hroot,
    Spec.intact_all_true H1 H B hs hH1 hH mf disk p hplan hintact, htotal⟩

/-- v1 (via the parent directory `h`), v2 and hybrid (via the root), v2 single file without
    `info.length`: all pieces verify -/
example :
    Impl.recheckMeta RF.Ex.h1 toyH 2 2 RF.Ex.v1Meta [104] (some (.dir [([110], RF.Ex.v1Disk)]))
      = .ok ([(true, 4), (true, 3)], 7, 7) ∧
    Impl.recheckMeta RF.Ex.h1 toyH 2 2 RF.Ex.v2Meta [110] (some RF.Ex.v2Disk)
      = .ok ([(true, 4), (true, 3), (true, 3)], 10, 10) ∧
    Impl.recheckMeta RF.Ex.h1 toyH 2 2 RF.Ex.hybridMeta [110] (some RF.Ex.v2Disk)
      = .ok ([(true, 4), (true, 3), (true, 3)], 10, 10) ∧
    Impl.recheckMeta RF.Ex.h1 toyH 2 2 RF.Ex.singleMeta [110] (some RF.Ex.singleDisk)
      = .ok ([(true, 4), (true, 3)], 7, 7) := by
  decide +kernel

/-- the hypotheses of `intact_full` hold for the v2 example (plan, intact, total) -/
example : ∃ p, Spec.plan 2 RF.Ex.v2Meta RF.Ex.v2Disk = some p ∧ p.Intact RF.Ex.h1 toyH 2 2 ∧
    0 < p.total := by
  refine ⟨.v2 2 [(7, [1, 2], [1, 2, 5, 6], some [1, 2, 3, 4, 5, 6, 7]), (0, [], [], some []),
    (3, [8, 9], [], some [8, 9, 10])], rfl, ?_, by decide⟩
  intro f hf
  simp only [List.mem_cons, List.not_mem_nil, or_false] at hf
  rcases hf with rfl | rfl | rfl
  · exact ⟨_, rfl, rfl, fun _ => by decide +kernel, fun _ => by decide +kernel⟩
  · exact ⟨_, rfl, rfl, fun h => absurd rfl h, fun h => by simp at h⟩
  · exact ⟨_, rfl, rfl, fun _ => by decide +kernel, fun h => by simp at h⟩

open RF in
/-- The same for the whole `Impl.recheck` on the metafile BYTES: the bytes decode
    (`pyben.load`) to `mf`, and the content argument is the payload root or its parent
    directory and resolves to the payload (`ContentArg.Resolves`, see `root_or_parent`).
    Intact, non-empty content gives `(total, total)` either way. -/
theorem intact_full_arg (H1 H : Bytes → Bytes) (B hs : Nat) (hhs : 0 < hs)
    (hH1 : ∀ b, (H1 b).length = 20) (hH : ∀ b, (H b).length = hs) (metafile : Bytes) (mf : BVal)
    (arg : ContentArg) (disk : Disk) (p : Spec.Plan) (hmf : Impl.loads metafile = some mf)
    (harg : arg.Resolves (Impl.infoOf mf) (Impl.nameOf mf) disk)
    (hplan : Spec.plan B mf disk = some p)
    (hintact : p.Intact H1 H B hs) (htotal : 0 < p.total) :
    Impl.recheck H1 H B hs metafile arg disk = .ok (p.verdicts H1 H B hs, p.total, p.total) ∧
    0 < p.total := by
  simp only [Impl.recheck, hmf]
  exact ⟨(intact_full H1 H B hs hhs hH1 hH mf disk p arg.argName _ hplan hintact htotal
    (Spec.findRoot_place arg _ _ disk harg)).1, htotal⟩

/-- the bytes of the hybrid example metafile, root (named `n`) and parent (named `h`) -/
example :
    Impl.recheck RF.Ex.h1 toyH 2 2 (Impl.encode RF.Ex.hybridMeta) ⟨.root, [110]⟩ RF.Ex.v2Disk
      = .ok ([(true, 4), (true, 3), (true, 3)], 10, 10) ∧
    Impl.recheck RF.Ex.h1 toyH 2 2 (Impl.encode RF.Ex.hybridMeta) ⟨.parent, [104]⟩ RF.Ex.v2Disk
      = .ok ([(true, 4), (true, 3), (true, 3)], 10, 10) := by
  decide +kernel

end TorrentVerif.Props.C05

/-! ### end to end: a metafile created from a tree, rechecked against that same tree

  `Impl.createV1` / `createV2Class` / `createHybridClass` / `createAsm` (`Model/Creators`) write
  the bytes; `Impl.recheck` (`Model/RecheckFull`) reads them back with the tree itself as disk.
  `E2E.treeBytes t` is the number of payload bytes in the tree, `E2E.PlainNamed t` says that no
  entry is named `.` or `..` (nor empty, nor contains `/`): what every directory listing
  satisfies.  The content argument is the payload root, passed under the torrent's name
  (`⟨.root, o.name⟩`), or a parent directory named `pname ≠ o.name` that holds the payload under
  the torrent's name (`⟨.parent, pname⟩`). -/
namespace TorrentVerif.Props.C05
open TorrentVerif TorrentVerif.E2E TorrentVerif.Ex.G7

/-- v1 (`TorrentFile`, plain or `align`), directory or single file.  For every content tree
    with distinct, proper entry names and at least one byte, every piece length `> 0`, every
    option record, root path and enumeration order, and any `H1` with 20-byte digests: the
    creator succeeds, and the whole `Checker` on the written bytes, with the tree itself as
    disk, succeeds with every verdict positive and `matched = consumed = total > 0` — exactly
    100 % — for the root argument and for every differently named parent.
    `total` is the number of bytes of the tree; with `align` on a directory it is the length
    of the piece-aligned stream (every file followed by its padding), which the padding
    entries of `files` add to the payload.
    Nothing is assumed about entries literally named `.pad` (the directory the padding entries
    `.pad/<n>` of an aligned metafile point into): since the repairs d2b4fef / 65351cc of
    `recheck.py` a padding entry is never looked up on disk — it is zeros whatever sits at its
    path — and does not count among the described top-level names, so a tree that really
    contains `.pad/<n>` files, at the top or below an entry named like the torrent, is
    rechecked like any other (see `pad_dir_is_never_read`, `pad_in_namesake_resolves` for the
    two trees that failed before the repairs). -/
theorem recheck_of_created_v1 (o : CreateOpts) (align : Bool) (H1 H : Bytes → Bytes) (B hs : Nat)
    (hhs : 0 < hs) (hH1 : ∀ x, (H1 x).length = 20)
    (enum : List (List (Bytes × Bytes)) → List (List (Bytes × Bytes)))
    (henum : ∀ l, (enum l).Perm l) (pre : Bytes) (t : Node)
    (hwn : Spec.WellNamed t) (hplain : PlainNamed t) (hpl : 0 < o.pieceLength)
    (hbytes : 0 < treeBytes t) :
    ∃ r b total, Impl.createV1 o align H1 enum pre t = some (r, b) ∧
      0 < total ∧ treeBytes t ≤ total ∧
      (align = false ∨ (∃ d, t = .file d) → total = treeBytes t) ∧
      (∀ es, t = .dir es → align = true → total = (Spec.alignedStream o.pieceLength
          ((Spec.sortedFiles pre t).map (·.2))).length) ∧
      (∃ vs, Impl.recheck H1 H B hs b ⟨.root, o.name⟩ t = .ok (vs, total, total) ∧
        ∀ v ∈ vs, v.1 = true) ∧
      (∀ pname, pname ≠ o.name →
        ∃ vs, Impl.recheck H1 H B hs b ⟨.parent, pname⟩ t = .ok (vs, total, total) ∧
          ∀ v ∈ vs, v.1 = true) := by
  cases t with
  | file d =>
    obtain ⟨r, b, h0⟩ := written_v1_some o (.single d.length)
      ((chunks o.pieceLength d).map H1).flatten
    have h : Impl.createV1 o align H1 enum pre (.file d) = some (r, b) := by
      rw [createV1_file o align H1 enum pre d hpl]; exact h0
    rw [treeBytes_file] at hbytes
    refine ⟨r, b, d.length, h, hbytes, by rw [treeBytes_file]; exact Nat.le_refl _,
      fun _ => (treeBytes_file d).symm, fun es e => (by cases e), ?_, ?_⟩
    · exact recheck_created_v1_file o align H1 H B hs hhs hH1 enum pre d hpl r b h _
        (Or.inl ⟨rfl, rfl⟩)
    · intro pname hp
      exact recheck_created_v1_file o align H1 H B hs hhs hH1 enum pre d hpl r b h _
        (Or.inr ⟨rfl, hp⟩)
  | dir es =>
    obtain ⟨r, b, h⟩ := createV1_dir_some o align H1 enum henum pre es hwn
      (sortedFiles_ne_nil pre _ hbytes)
    have hge := v1Stream_length_ge align o.pieceLength pre (.dir es)
    refine ⟨r, b, _, h, Nat.lt_of_lt_of_le hbytes hge, hge, ?_, ?_, ?_, ?_⟩
    · intro hc
      rcases hc with rfl | ⟨d, e⟩
      · exact v1Stream_length_plain o.pieceLength pre (.dir es)
      · cases e
    · intro es' _ hal; rw [hal]; rfl
    · exact recheck_created_v1_dir o align H1 H B hs hhs hH1 enum henum pre es hwn hplain hpl
        r b h _ (Or.inl ⟨rfl, rfl⟩)
    · intro pname hp
      exact recheck_created_v1_dir o align H1 H B hs hhs hH1 enum henum pre es hwn hplain hpl
        r b h _ (Or.inr ⟨rfl, hp⟩)

/-- met by: the example tree `r` (nested, stored unsorted, an empty file, an empty directory,
    15 bytes, piece length 4), rooted at `/d`, enumerated backwards, toy SHA-1 with 20-byte
    digests: 15 of 15 bytes, via the root `r` and via a parent named `h` -/
example : ∃ r b, Impl.createV1 exOpts false Toy.toyH20 List.reverse [100] exTree = some (r, b) ∧
    (∃ vs, Impl.recheck Toy.toyH20 Toy.toyH 2 1 b ⟨.root, [114]⟩ exTree = .ok (vs, 15, 15) ∧
      ∀ v ∈ vs, v.1 = true) ∧
    (∃ vs, Impl.recheck Toy.toyH20 Toy.toyH 2 1 b ⟨.parent, [104]⟩ exTree = .ok (vs, 15, 15) ∧
      ∀ v ∈ vs, v.1 = true) := by
  obtain ⟨r, b, total, h, _, _, htot, _, hroot, hpar⟩ := recheck_of_created_v1 exOpts false
    Toy.toyH20 Toy.toyH 2 1 (by decide) (by intro x; simp [Toy.toyH20]) List.reverse
    List.reverse_perm [100] exTree exTree_wellNamed exTree_plainNamed (by decide)
    (by rw [exTree_bytes]; decide)
  have ht : total = 15 := by rw [htot (Or.inl rfl), exTree_bytes]
  subst ht
  exact ⟨r, b, h, hroot, hpar [104] (by decide)⟩

/-- the same tree piece-aligned: the payload grows to the 20 bytes of the aligned stream, all of
    which verify; and a single file of 9 bytes with `align` requested: 9 of 9 -/
example : (∃ r b total, Impl.createV1 exOpts true Toy.toyH20 id [100] exTree = some (r, b) ∧
      15 ≤ total ∧
      ∃ vs, Impl.recheck Toy.toyH20 Toy.toyH 2 1 b ⟨.root, [114]⟩ exTree = .ok (vs, total, total) ∧
        ∀ v ∈ vs, v.1 = true) ∧
    (∃ r b, Impl.createV1 exOpts true Toy.toyH20 id [100] exFile = some (r, b) ∧
      ∃ vs, Impl.recheck Toy.toyH20 Toy.toyH 2 1 b ⟨.root, [114]⟩ exFile = .ok (vs, 9, 9) ∧
        ∀ v ∈ vs, v.1 = true) := by
  constructor
  · obtain ⟨r, b, total, h, _, hge, _, _, hroot, _⟩ := recheck_of_created_v1 exOpts true
      Toy.toyH20 Toy.toyH 2 1 (by decide) (by intro x; simp [Toy.toyH20]) id (fun _ => .refl _)
      [100] exTree exTree_wellNamed exTree_plainNamed (by decide) (by rw [exTree_bytes]; decide)
    rw [exTree_bytes] at hge
    exact ⟨r, b, total, h, hge, hroot⟩
  · obtain ⟨r, b, total, h, _, _, htot, _, hroot, _⟩ := recheck_of_created_v1 exOpts true
      Toy.toyH20 Toy.toyH 2 1 (by decide) (by intro x; simp [Toy.toyH20]) id (fun _ => .refl _)
      [100] exFile trivial trivial (by decide) (by decide)
    have ht : total = 9 := by rw [htot (Or.inr ⟨_, rfl⟩)]; decide
    subst ht
    exact ⟨r, b, h, hroot⟩

/-- met by trees that really contain `.pad` entries, piece-aligned, piece length 4:
    `r/{.pad/1 (one byte), a (three bytes)}` — the padding entry written after `a` is `.pad/1`,
    the path of the real file — gives 8 of 8 bytes (4 payload + 4 padding) through the root and
    through a parent `h`; `r/{a, r/{.pad, a, r}}` — an entry named like the torrent that holds a
    `.pad` of its own — gives all of its aligned stream through the root -/
example : (∃ r b, Impl.createV1 Ex.plainOpts true Toy.toyH20 id [114] Ex.padTree = some (r, b) ∧
      (∃ vs, Impl.recheck Toy.toyH20 Toy.toyH 2 1 b ⟨.root, [114]⟩ Ex.padTree = .ok (vs, 8, 8) ∧
        ∀ v ∈ vs, v.1 = true) ∧
      (∃ vs, Impl.recheck Toy.toyH20 Toy.toyH 2 1 b ⟨.parent, [104]⟩ Ex.padTree = .ok (vs, 8, 8) ∧
        ∀ v ∈ vs, v.1 = true)) ∧
    (∃ r b total, Impl.createV1 Ex.plainOpts true Toy.toyH20 id [114] Ex.innerTree = some (r, b) ∧
      8 ≤ total ∧
      ∃ vs, Impl.recheck Toy.toyH20 Toy.toyH 2 1 b ⟨.root, [114]⟩ Ex.innerTree
          = .ok (vs, total, total) ∧ ∀ v ∈ vs, v.1 = true) := by
  constructor
  · obtain ⟨r, b, total, h, _, _, _, htot, hroot, hpar⟩ := recheck_of_created_v1 Ex.plainOpts true
      Toy.toyH20 Toy.toyH 2 1 (by decide) (by intro x; simp [Toy.toyH20]) id (fun _ => .refl _)
      [114] Ex.padTree Ex.padTree_wellNamed Ex.padTree_plainNamed (by decide) (by decide)
    have hs : Spec.sortedFiles [114] Ex.padTree = Spec.allFiles [114] Ex.padTree := by
      unfold Spec.sortedFiles; exact List.mergeSort_of_pairwise (by decide)
    have ht : total = 8 := by rw [htot _ rfl rfl, hs]; decide
    subst ht
    exact ⟨r, b, h, hroot, hpar [104] (by decide)⟩
  · obtain ⟨r, b, total, h, _, hge, _, _, hroot, _⟩ := recheck_of_created_v1 Ex.plainOpts true
      Toy.toyH20 Toy.toyH 2 1 (by decide) (by intro x; simp [Toy.toyH20]) id (fun _ => .refl _)
      [114] Ex.innerTree Ex.innerTree_wellNamed Ex.innerTree_plainNamed (by decide) (by decide)
    have hb : treeBytes Ex.innerTree = 8 := by decide
    rw [hb] at hge
    exact ⟨r, b, total, h, hge, hroot⟩

/-- The former witness for a side condition `hpad` ("no top-level `.pad`") is resolved (repair d2b4fef: a padding entry is never read
    from disk; the real `TorrentFile(align=True)` + `Checker` agree: 100 %).  The tree `r` holds
    `.pad/1` (one byte) and `a` (three bytes), piece length 4.  The padding entry written after
    `a` is `.pad/1` — the path of the real file.  Before the repair the checker read that file's
    byte where the hasher put a zero (4 of 8 bytes); now the padding entry is zeros whatever
    sits at its path, the real file `.pad/1` is still read for its own entry, and all 8 bytes
    verify.  (`recheck_of_created_v1` no longer assumes anything about `.pad`.) -/
theorem pad_dir_is_never_read :
    ∃ (o : CreateOpts) (t : Node) (r : BVal) (b : Bytes),
      Spec.WellNamed t ∧ PlainNamed t ∧ 0 < o.pieceLength ∧ 0 < treeBytes t ∧
      (RF.child t Impl.sPad).isSome = true ∧ (RF.child t o.name).isNone = true ∧
      Impl.createV1 o true Toy.toyH20 id [114] t = some (r, b) ∧
      Impl.recheck Toy.toyH20 Toy.toyH 2 1 b ⟨.root, o.name⟩ t
        = .ok ([(true, 4), (true, 4)], 8, 8) :=
  ⟨Ex.plainOpts, Ex.padTree, _, _, Ex.padTree_wellNamed, Ex.padTree_plainNamed, by decide, by decide,
    by decide, by decide, Ex.padTree_created, by decide +kernel⟩

/-- the padding entry after `a` (3 of 4 bytes) is `.pad/1`, and `.pad/1` is a real file; as a
    padding entry it is nevertheless absent for the checker -/
example : Spec.fileBytes Ex.padTree [Impl.sPad, natDec (gap 4 3)] = some [7] ∧
    Spec.v1Disk Ex.padTree ([Impl.sPad, natDec (gap 4 3)], 1, RF.padMark) = none := by
  decide +kernel

/-- The former witness for a side condition `hpadInner` ("no `.pad` below the entry named like
    the torrent") is resolved (repair 65351cc: padding entries do not count
    among the described top-level names; the real tool agrees: 100 %).  The tree `r` holds `a`
    and a directory `r` with `.pad`, `a`, `r`; piece-aligned.  The described top-level names
    are now `a` and `r` only: both exist in the payload and in its entry `r` — a tie — so
    `find_root` stays at the payload: 16 of 16 bytes through the root, as through a parent
    named `h`.  (Before: `.pad` counted, three names in `r/r` against two, 4 of 16.) -/
theorem pad_in_namesake_resolves :
    ∃ (o : CreateOpts) (t : Node) (r : BVal) (b : Bytes),
      Spec.WellNamed t ∧ PlainNamed t ∧ 0 < o.pieceLength ∧ 0 < treeBytes t ∧
      (RF.child t Impl.sPad).isNone = true ∧
      ((RF.child t o.name).bind (RF.child · Impl.sPad)).isSome = true ∧
      Impl.createV1 o true Toy.toyH20 id [114] t = some (r, b) ∧
      Impl.recheck Toy.toyH20 Toy.toyH 2 1 b ⟨.root, o.name⟩ t
        = .ok ([(true, 4), (true, 4), (true, 4), (true, 4)], 16, 16) ∧
      Impl.recheck Toy.toyH20 Toy.toyH 2 1 b ⟨.parent, [104]⟩ t
        = .ok ([(true, 4), (true, 4), (true, 4), (true, 4)], 16, 16) :=
  ⟨Ex.plainOpts, Ex.innerTree, _, _, Ex.innerTree_wellNamed, Ex.innerTree_plainNamed, by decide,
    by decide, by decide, by decide, Ex.innerTree_created, by decide +kernel, by decide +kernel⟩

/-- the described top-level names `a`, `r` are found twice in `r/r` and twice in `r`: no more
    in the entry than in the payload -/
example : (RF.child Ex.innerTree [114]).map (fun n => Impl.countTops n [[97], [114]]) = some 2 ∧
    Impl.countTops Ex.innerTree [[97], [114]] = 2 := by decide

/-- v2 (`TorrentFileV2`, and `TorrentAssembler` with `meta_version="2"`), directory or single
    file.  Block size `B > 0`, piece length `2^j · B`, any `H` with `hs`-byte digests
    (`hs > 0`; 32 for SHA-256), any `H1`.  For every content tree with distinct, proper entry
    names and at least one byte, any options and enumeration order: both creators succeed and
    write the same bytes, and the whole `Checker` on these bytes with the tree itself as disk
    reports every piece as verifying, `matched = consumed =` number of bytes of the tree `> 0`
    — exactly 100 % — for the root argument and for every differently named parent.
    `hname`: for a single file the torrent's name (the file's own name) is a proper file name.
    `hcoll`: two files of more than one piece with the same BEP 52 root have the same piece
    layer — true unless `H` collides; needed because `piece layers` is keyed by root. -/
theorem recheck_of_created_v2 (o : CreateOpts) (H1 H : Bytes → Bytes) (B hs j : Nat)
    (hhs : 0 < hs) (hH : ∀ x, (H x).length = hs) (hB : 0 < B) (hpl : o.pieceLength = 2 ^ j * B)
    (enum : List (Bytes × Impl.FTree) → List (Bytes × Impl.FTree)) (henum : ∀ l, (enum l).Perm l)
    (t : Node) (hwn : Spec.WellNamed t) (hplain : PlainNamed t)
    (hname : ∀ d, t = .file d → Spec.plainName o.name = true)
    (hcoll : ∀ x ∈ Spec.allFiles [] t, ∀ y ∈ Spec.allFiles [] t,
      2 ^ j * B < x.2.length → 2 ^ j * B < y.2.length →
      Spec.root H B hs x.2 = Spec.root H B hs y.2 →
      (Spec.pieceLayer H B hs j x.2).flatten = (Spec.pieceLayer H B hs j y.2).flatten)
    (hbytes : 0 < treeBytes t) :
    ∃ r b, Impl.createV2Class o H B hs enum t = some (r, b) ∧
      Impl.createAsm false o H H1 B hs enum t = some (r, b) ∧
      (∃ vs, Impl.recheck H1 H B hs b ⟨.root, o.name⟩ t = .ok (vs, treeBytes t, treeBytes t) ∧
        ∀ v ∈ vs, v.1 = true) ∧
      (∀ pname, pname ≠ o.name →
        ∃ vs, Impl.recheck H1 H B hs b ⟨.parent, pname⟩ t = .ok (vs, treeBytes t, treeBytes t) ∧
          ∀ v ∈ vs, v.1 = true) := by
  obtain ⟨r, b, h⟩ := createV2Class_some o H B hs enum t
  have hc := hcoll_of_spec H B hs j hB enum henum t hcoll
  refine ⟨r, b, h, ?_, ?_, ?_⟩
  · rw [createAsm_false_eq o H H1 B hs (2 ^ j) hB (Nat.two_pow_pos j) hpl]; exact h
  · exact recheck_created_v2class o H1 H B hs (2 ^ j) hhs hH hB (Nat.two_pow_pos j) hpl enum henum t
      hwn hplain hname hc hbytes r b h _ (Or.inl ⟨rfl, rfl⟩)
  · intro pname hp
    exact recheck_created_v2class o H1 H B hs (2 ^ j) hhs hH hB (Nat.two_pow_pos j) hpl enum henum t
      hwn hplain hname hc hbytes r b h _ (Or.inr ⟨rfl, hp⟩)

/-- met by: the example tree, blocks of 2 bytes, 2 blocks per piece (`j = 1`), toy SHA-256 with
    1-byte digests, enumerated backwards; and a single file `r` of 9 bytes -/
example : (∃ r b, Impl.createV2Class exOpts Toy.toyH 2 1 List.reverse exTree = some (r, b) ∧
      Impl.createAsm false exOpts Toy.toyH Toy.toyH1 2 1 List.reverse exTree = some (r, b) ∧
      (∃ vs, Impl.recheck Toy.toyH1 Toy.toyH 2 1 b ⟨.root, [114]⟩ exTree = .ok (vs, 15, 15) ∧
        ∀ v ∈ vs, v.1 = true) ∧
      (∃ vs, Impl.recheck Toy.toyH1 Toy.toyH 2 1 b ⟨.parent, [104]⟩ exTree = .ok (vs, 15, 15) ∧
        ∀ v ∈ vs, v.1 = true)) ∧
    (∃ r b, Impl.createV2Class exOpts Toy.toyH 2 1 id exFile = some (r, b) ∧
      ∃ vs, Impl.recheck Toy.toyH1 Toy.toyH 2 1 b ⟨.root, [114]⟩ exFile = .ok (vs, 9, 9) ∧
        ∀ v ∈ vs, v.1 = true) := by
  constructor
  · obtain ⟨r, b, h1, h2, hroot, hpar⟩ := recheck_of_created_v2 exOpts Toy.toyH1 Toy.toyH 2 1 1
      (by decide) (by intro x; simp [Toy.toyH]) (by decide) rfl List.reverse List.reverse_perm
      exTree exTree_wellNamed exTree_plainNamed (fun d e => by cases e)
      (exTree_hcoll Toy.toyH 2 1 1) (by rw [exTree_bytes]; decide)
    rw [exTree_bytes] at hroot hpar
    exact ⟨r, b, h1, h2, hroot, hpar [104] (by decide)⟩
  · obtain ⟨r, b, h1, _, hroot, _⟩ := recheck_of_created_v2 exOpts Toy.toyH1 Toy.toyH 2 1 1
      (by decide) (by intro x; simp [Toy.toyH]) (by decide) rfl id (fun _ => .refl _)
      exFile trivial trivial (fun _ _ => by decide)
      (by intro x hx y hy _ _ _
          simp only [exFile, Spec.allFiles, List.mem_singleton] at hx hy
          rw [hx, hy])
      (by decide)
    have hb : treeBytes exFile = 9 := by decide
    rw [hb] at hroot
    exact ⟨r, b, h1, hroot⟩

/-- hybrid (`TorrentFileHybrid`, and `TorrentAssembler` with `meta_version="3"` when `H1` has
    20-byte digests), directory or single file: the same statement — a hybrid metafile is
    rechecked through its v2 part, so `total` is the number of bytes of the tree (the padding
    entries of `files` do not count).
    Nothing is assumed about entries named `.pad`: since repair 65351cc `_is_parent` does not
    count the padding entries of `files` among the described top-level names, so an entry of
    the tree named like the torrent may hold a `.pad` of its own (the tree of
    `pad_in_namesake_resolves`; before the repair the root argument gave 3 of 8 bytes on it). -/
theorem recheck_of_created_hybrid (o : CreateOpts) (H1 H : Bytes → Bytes) (B hs j : Nat)
    (hhs : 0 < hs) (hH : ∀ x, (H x).length = hs) (hB : 0 < B) (hpl : o.pieceLength = 2 ^ j * B)
    (enum : List (Bytes × Impl.FTree) → List (Bytes × Impl.FTree)) (henum : ∀ l, (enum l).Perm l)
    (t : Node) (hwn : Spec.WellNamed t) (hplain : PlainNamed t)
    (hname : ∀ d, t = .file d → Spec.plainName o.name = true)
    (hcoll : ∀ x ∈ Spec.allFiles [] t, ∀ y ∈ Spec.allFiles [] t,
      2 ^ j * B < x.2.length → 2 ^ j * B < y.2.length →
      Spec.root H B hs x.2 = Spec.root H B hs y.2 →
      (Spec.pieceLayer H B hs j x.2).flatten = (Spec.pieceLayer H B hs j y.2).flatten)
    (hbytes : 0 < treeBytes t) :
    ∃ r b, Impl.createHybridClass o H H1 B hs enum t = some (r, b) ∧
      ((∀ x, (H1 x).length = 20) → Impl.createAsm true o H H1 B hs enum t = some (r, b)) ∧
      (∃ vs, Impl.recheck H1 H B hs b ⟨.root, o.name⟩ t = .ok (vs, treeBytes t, treeBytes t) ∧
        ∀ v ∈ vs, v.1 = true) ∧
      (∀ pname, pname ≠ o.name →
        ∃ vs, Impl.recheck H1 H B hs b ⟨.parent, pname⟩ t = .ok (vs, treeBytes t, treeBytes t) ∧
          ∀ v ∈ vs, v.1 = true) := by
  obtain ⟨r, b, h⟩ := createHybridClass_some o H H1 B hs (2 ^ j) hB (Nat.two_pow_pos j) hpl enum t
  have hc := hcoll_of_spec H B hs j hB enum henum t hcoll
  refine ⟨r, b, h, ?_, ?_, ?_⟩
  · intro h20
    rw [createAsm_true_eq o H H1 B hs (2 ^ j) hB (Nat.two_pow_pos j) hpl h20]; exact h
  · exact recheck_created_hybrid o H1 H B hs (2 ^ j) hhs hH hB (Nat.two_pow_pos j) hpl enum henum t
      hwn hplain hname hc hbytes r b h _ (Or.inl ⟨rfl, rfl⟩)
  · intro pname hp
    exact recheck_created_hybrid o H1 H B hs (2 ^ j) hhs hH hB (Nat.two_pow_pos j) hpl enum henum t
      hwn hplain hname hc hbytes r b h _ (Or.inr ⟨rfl, hp⟩)

/-- met by: the example tree, both hybrid creators, toy hashes with
    1- and 20-byte digests: 15 of 15 bytes (the 5 padding bytes of the v1 part do not count) -/
example : ∃ r b, Impl.createHybridClass exOpts Toy.toyH Toy.toyH20 2 1 id exTree = some (r, b) ∧
    Impl.createAsm true exOpts Toy.toyH Toy.toyH20 2 1 id exTree = some (r, b) ∧
    (∃ vs, Impl.recheck Toy.toyH20 Toy.toyH 2 1 b ⟨.root, [114]⟩ exTree = .ok (vs, 15, 15) ∧
      ∀ v ∈ vs, v.1 = true) ∧
    (∃ vs, Impl.recheck Toy.toyH20 Toy.toyH 2 1 b ⟨.parent, [104]⟩ exTree = .ok (vs, 15, 15) ∧
      ∀ v ∈ vs, v.1 = true) := by
  obtain ⟨r, b, h1, h2, hroot, hpar⟩ := recheck_of_created_hybrid exOpts Toy.toyH20 Toy.toyH 2 1 1
    (by decide) (by intro x; simp [Toy.toyH]) (by decide) rfl id (fun _ => .refl _)
    exTree exTree_wellNamed exTree_plainNamed (fun d e => by cases e)
    (exTree_hcoll Toy.toyH 2 1 1) (by rw [exTree_bytes]; decide)
  rw [exTree_bytes] at hroot hpar
  exact ⟨r, b, h1, h2 (by intro x; simp [Toy.toyH20]), hroot, hpar [104] (by decide)⟩

/-- met by the tree `r/{a, r/{.pad, a, r}}` — an entry named like the torrent holding a `.pad`
    of its own (no file has more than one piece, so `hcoll` is vacuous): 8 of 8 bytes through
    the root -/
example : ∃ r b, Impl.createHybridClass Ex.plainOpts Toy.toyH Toy.toyH20 2 1 id Ex.innerTree
      = some (r, b) ∧
    ∃ vs, Impl.recheck Toy.toyH20 Toy.toyH 2 1 b ⟨.root, [114]⟩ Ex.innerTree = .ok (vs, 8, 8) ∧
      ∀ v ∈ vs, v.1 = true := by
  obtain ⟨r, b, h1, _, hroot, _⟩ := recheck_of_created_hybrid Ex.plainOpts Toy.toyH20 Toy.toyH 2 1 1
    (by decide) (by intro x; simp [Toy.toyH]) (by decide) rfl id (fun _ => .refl _)
    Ex.innerTree Ex.innerTree_wellNamed Ex.innerTree_plainNamed (fun d e => by cases e)
    (by intro x hx y hy hxl _ _
        simp only [Ex.innerTree, Spec.allFiles, Spec.allFilesList, List.append_nil, List.mem_cons,
          List.mem_append, List.not_mem_nil, or_false] at hx
        rcases hx with rfl | rfl | rfl | rfl <;> simp at hxl)
    (by decide)
  have hb : treeBytes Ex.innerTree = 8 := by decide
  rw [hb] at hroot
  exact ⟨r, b, h1, hroot⟩

/-- An edit never changes what recheck reports.  For EVERY byte string `b` that pyben decodes
    (own or foreign encoder, any key order, any version, intact or damaged content, well-formed
    or not) and every edit request that `edit_torrent` accepts, the whole `Checker` on the
    rewritten file (`pyben.dump` of the edited value) gives exactly what it gives on `b`, for
    every content argument and disk: the same verdicts and counters — or the same error.  In
    particular a result `.ok res` stays `.ok res`.  (The `Checker` reads `name`,
    `piece length`, `meta version`, `pieces`, `files`, `length`, `file tree` and
    `piece layers` only; property C07 says the edit leaves them alone; decoded dictionaries
    have unique keys and the edit keeps them unique, so the rewritten bytes decode to the
    edited value.) -/
theorem recheck_after_edit (H1 H : Bytes → Bytes) (B hs : Nat) (b : Bytes) (mf mf' : BVal)
    (hb : Impl.loads b = some mf) (req : EditReq) (he : Impl.editTorrent mf req = .ok mf')
    (arg : RF.ContentArg) (disk : RF.Disk) :
    Impl.recheck H1 H B hs (Impl.encode mf') arg disk = Impl.recheck H1 H B hs b arg disk ∧
    ∀ res, Impl.recheck H1 H B hs b arg disk = .ok res →
      Impl.recheck H1 H B hs (Impl.encode mf') arg disk = .ok res := by
  have h := recheck_edit_eq H1 H B hs b mf mf' hb req he arg disk
  exact ⟨h, fun res hr => by rw [h, hr]⟩

/-- met by: the bytes of the v1 example metafile; the comment is set, the trackers replaced and
    the web seeds cleared: still 7 of 7 bytes via the parent `h` -/
example : ∃ mf', Impl.editTorrent RF.Ex.v1Meta
      { comment := .str [99], announce := .list [[120], [121]], urlList := .cleared } = .ok mf' ∧
    Impl.recheck RF.Ex.h1 toyH 2 2 (Impl.encode mf') ⟨.parent, [104]⟩ RF.Ex.v1Disk
      = .ok ([(true, 4), (true, 3)], 7, 7) := by
  obtain ⟨mf', h⟩ : ∃ mf', Impl.editTorrent RF.Ex.v1Meta
      { comment := .str [99], announce := .list [[120], [121]], urlList := .cleared } = .ok mf' :=
    ⟨_, rfl⟩
  refine ⟨mf', h, ?_⟩
  exact (recheck_after_edit RF.Ex.h1 toyH 2 2 (Impl.encode RF.Ex.v1Meta) RF.Ex.v1Meta mf'
    (loads_encode_uniq _ (by decide)) _ h ⟨.parent, [104]⟩ RF.Ex.v1Disk).2 _ (by decide +kernel)

end TorrentVerif.Props.C05

/-! ### the content path is a parent directory with further entries ("siblings")

  What is at the content path is a `Node`; a parent directory is `.dir parent` with
  `parent : List (Bytes × Node)`, the listing of that directory with everything below it — the same
  type `root_or_parent` uses.  (`Impl.recheck` with `⟨.parent, pname⟩` places the payload in a parent
  that holds nothing else; `Impl.recheckMeta` takes any directory.) -/
namespace TorrentVerif.Props.C05
open TorrentVerif

open RF in
/-- Recheck ignores the siblings of the content.  Let the content path be a directory (named
    `pname`).  The result of the whole `Checker` — verdict list, matched, consumed, or the error —
    depends only on the entry of that directory whose name is EXACTLY `info.name`, byte for byte
    (`child (.dir p) name`: `name in os.listdir(root)`, then `root / name`): for any two
    directories `p1`, `p2` that hold the same thing under that name — or both nothing — the
    results are equal, whatever else they contain: an intact copy whose name differs in letter
    case only, entries whose names match the torrent's name as a glob pattern, entries in any
    order, or none.  In particular a damaged `album` next to an intact `Album` is reported as
    damaged, and when no entry has the exact name the answer is `notFound` in both.

    Side condition (`hside`), the one of `root_or_parent` and no other: the directory itself is
    not named like the torrent; or it is, and `_is_parent` recognises the entry as the content in
    both (`Impl.isParent … = .ok true`: strictly more of the described top-level names below the
    entry than directly in the directory; a regular file for a single-file torrent).  It is
    needed: `siblings_matter_in_a_namesake_parent`. -/
theorem recheck_ignores_siblings (H1 H : Bytes → Bytes) (B hs : Nat) (mf : BVal) (pname : Bytes)
    (p1 p2 : List (Bytes × Node))
    (hsame : child (.dir p1) (Impl.nameOf mf) = child (.dir p2) (Impl.nameOf mf))
    (hside : pname ≠ Impl.nameOf mf ∨ ∃ payload, child (.dir p1) (Impl.nameOf mf) = some payload ∧
      Impl.isParent (Impl.infoOf mf) (Impl.nameOf mf) (.dir p1) payload = .ok true ∧
      Impl.isParent (Impl.infoOf mf) (Impl.nameOf mf) (.dir p2) payload = .ok true) :
    Impl.recheckMeta H1 H B hs mf pname (some (.dir p1))
      = Impl.recheckMeta H1 H B hs mf pname (some (.dir p2)) :=
  Spec.recheckMeta_congr H1 H B hs mf _ _ _ _
    (Spec.findRoot_only_entry (Impl.infoOf mf) (Impl.nameOf mf) pname p1 p2 hsame hside)

/-- the v2 torrent `album`; the directory `h` holds a DAMAGED `album` (`a` truncated, `d/c`
    missing) between intact copies named `Album`, `albu?` and `*`: the result is that of a
    directory holding the damaged `album` alone — piece 0 of `a` verifies, the rest does not,
    4 of 10 bytes — not the 10 of 10 of the copies -/
example :
    Impl.recheckMeta RF.Ex.h1 toyH 2 2 RF.Ex.albumMeta [104] (some (.dir RF.Ex.albumCrowd))
      = Impl.recheckMeta RF.Ex.h1 toyH 2 2 RF.Ex.albumMeta [104]
          (some (.dir [(RF.Ex.sAlbum, RF.Ex.v2Damaged)])) ∧
    Impl.recheckMeta RF.Ex.h1 toyH 2 2 RF.Ex.albumMeta [104] (some (.dir RF.Ex.albumCrowd))
      = .ok ([(true, 4), (false, 3), (false, 3)], 4, 10) ∧
    Impl.recheckMeta RF.Ex.h1 toyH 2 2 RF.Ex.albumMeta [104]
        (some (.dir [(RF.Ex.sAlbumCap, RF.Ex.v2Disk)]))
      = .error .notFound :=
  ⟨recheck_ignores_siblings RF.Ex.h1 toyH 2 2 RF.Ex.albumMeta [104] RF.Ex.albumCrowd
      [(RF.Ex.sAlbum, RF.Ex.v2Damaged)] rfl (Or.inl (by decide)),
    by decide +kernel, by decide +kernel⟩

/-- only intact copies under other names (`Album`, `albu?`, `*`), nothing named exactly `album`:
    as for an empty directory, the content is not found; and the second disjunct of `hside`: the
    directory is itself named `album`, `_is_parent` finds `a`, `b` below the damaged entry and
    none of the described names directly in the directory -/
example :
    Impl.recheckMeta RF.Ex.h1 toyH 2 2 RF.Ex.albumMeta [104] (some (.dir RF.Ex.albumAbsent))
      = Impl.recheckMeta RF.Ex.h1 toyH 2 2 RF.Ex.albumMeta [104] (some (.dir [])) ∧
    Impl.recheckMeta RF.Ex.h1 toyH 2 2 RF.Ex.albumMeta [104] (some (.dir RF.Ex.albumAbsent))
      = .error .notFound ∧
    Impl.recheckMeta RF.Ex.h1 toyH 2 2 RF.Ex.albumMeta RF.Ex.sAlbum (some (.dir RF.Ex.albumCrowd))
      = Impl.recheckMeta RF.Ex.h1 toyH 2 2 RF.Ex.albumMeta RF.Ex.sAlbum
          (some (.dir [(RF.Ex.sAlbum, RF.Ex.v2Damaged)])) :=
  ⟨recheck_ignores_siblings RF.Ex.h1 toyH 2 2 RF.Ex.albumMeta [104] RF.Ex.albumAbsent []
      rfl (Or.inl (by decide)),
    by decide +kernel,
    recheck_ignores_siblings RF.Ex.h1 toyH 2 2 RF.Ex.albumMeta RF.Ex.sAlbum RF.Ex.albumCrowd
      [(RF.Ex.sAlbum, RF.Ex.v2Damaged)] rfl
      (Or.inr ⟨RF.Ex.v2Damaged, rfl, by decide, by decide⟩)⟩

open RF in
/-- The same for the whole `Impl.recheck` on the metafile BYTES: a parent directory that holds
    the payload under the torrent's exact name, and anything else besides, gives what
    `Impl.recheck` gives for the content argument "parent" (a parent holding the payload alone).
    `hparent` is the hypothesis of `root_or_parent` for the crowded directory, `hplace` is
    `ContentArg.Resolves` for the directory holding the payload alone. -/
theorem recheck_ignores_siblings_arg (H1 H : Bytes → Bytes) (B hs : Nat) (metafile : Bytes)
    (mf : BVal) (payload : Disk) (parent : List (Bytes × Node)) (pname : Bytes)
    (hmf : Impl.loads metafile = some mf)
    (hstored : child (.dir parent) (Impl.nameOf mf) = some payload)
    (hparent : pname ≠ Impl.nameOf mf ∨
      Impl.isParent (Impl.infoOf mf) (Impl.nameOf mf) (.dir parent) payload = .ok true)
    (hplace : (⟨.parent, pname⟩ : ContentArg).Resolves (Impl.infoOf mf) (Impl.nameOf mf) payload) :
    Impl.recheckMeta H1 H B hs mf pname (some (.dir parent))
      = Impl.recheck H1 H B hs metafile ⟨.parent, pname⟩ payload := by
  simp only [Impl.recheck, hmf, ContentArg.place]
  have hc : child (.dir [(Impl.nameOf mf, payload)]) (Impl.nameOf mf) = some payload := by
    simp [child]
  refine recheck_ignores_siblings H1 H B hs mf pname parent _ (hstored.trans hc.symm) ?_
  by_cases hn : pname = Impl.nameOf mf
  · refine Or.inr ⟨payload, hstored, ?_, ?_⟩
    · exact hparent.resolve_left (fun h => h hn)
    · exact (show pname ≠ Impl.nameOf mf ∨ _ from hplace).resolve_left (fun h => h hn)
  · exact Or.inl hn

/-- the bytes of the `album` metafile, the crowded directory `h`: as `Impl.recheck` with the
    content argument "parent `h`" on the damaged payload -/
example :
    Impl.recheckMeta RF.Ex.h1 toyH 2 2 RF.Ex.albumMeta [104] (some (.dir RF.Ex.albumCrowd))
      = Impl.recheck RF.Ex.h1 toyH 2 2 (Impl.encode RF.Ex.albumMeta) ⟨.parent, [104]⟩
          RF.Ex.v2Damaged :=
  recheck_ignores_siblings_arg RF.Ex.h1 toyH 2 2 (Impl.encode RF.Ex.albumMeta) RF.Ex.albumMeta
    RF.Ex.v2Damaged RF.Ex.albumCrowd [104] (E2E.loads_encode_uniq _ (by decide)) rfl
    (Or.inl (by decide)) (Or.inl (by decide))

/-- WITNESS that `hside` is needed (= `root_or_parent_needs_side_condition`, read for siblings;
    the real `Checker` agrees): two directories, both NAMED like the torrent `n`, both holding
    the same intact payload under the name `n`.  The one that also has entries `a`, `b`, `d` of
    its own (as many described top-level names as the payload has) is taken for the content
    itself and nothing verifies; the other one resolves to the payload.  Under any other name
    (`h`) the two agree. -/
theorem siblings_matter_in_a_namesake_parent :
    ∃ (mf : BVal) (p1 p2 : List (Bytes × Node)),
      RF.child (.dir p1) (Impl.nameOf mf) = RF.child (.dir p2) (Impl.nameOf mf) ∧
      Impl.recheckMeta RF.Ex.h1 toyH 2 2 mf (Impl.nameOf mf) (some (.dir p1))
        = .ok ([(false, 4), (false, 3), (false, 3)], 0, 10) ∧
      Impl.recheckMeta RF.Ex.h1 toyH 2 2 mf (Impl.nameOf mf) (some (.dir p2))
        = .ok ([(true, 4), (true, 3), (true, 3)], 10, 10) ∧
      Impl.recheckMeta RF.Ex.h1 toyH 2 2 mf [104] (some (.dir p1))
        = Impl.recheckMeta RF.Ex.h1 toyH 2 2 mf [104] (some (.dir p2)) :=
  ⟨RF.Ex.v2Meta, RF.Ex.v2Crowded, [([110], RF.Ex.v2Disk)], rfl, by decide +kernel,
    by decide +kernel,
    recheck_ignores_siblings RF.Ex.h1 toyH 2 2 RF.Ex.v2Meta [104] RF.Ex.v2Crowded
      [([110], RF.Ex.v2Disk)] rfl (Or.inl (by decide))⟩

end TorrentVerif.Props.C05

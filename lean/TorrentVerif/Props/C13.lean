import TorrentVerif.Proofs.RbEx
import TorrentVerif.Proofs.RbMetaEx
import TorrentVerif.Props.C19
/-
  C13 — rebuild restores the complete torrent when intact copies are available.
  Property theorems only; helper lemmas live in `Proofs/`.

  `files : List Bytes` / `orig` are the original contents of the torrent's files in metafile order;
  the v1 byte stream is their concatenation and piece i is `(chunks pl files.flatten)[i]`
  (`Spec.pieceOf`).  `Spec.FilemapOK`: the filemap lists regular files of the recorded size that
  lie outside the destination.  `Spec.DestReady`: the destination directory exists.
-/
namespace TorrentVerif.Props.C13
open TorrentVerif Rebuild PosixPath Spec Impl
open TorrentVerif.Props.C19 (safeJoin_within_dest)

/-- `_map_pieces` is right: for every piece length > 0 and every list of files (any sizes, empty
    files, files ending exactly on a piece boundary, many files per piece), with the number of
    pieces ⌈total/pl⌉: reading the path nodes of piece i from the original files (range
    `[start, stop)` or to the end of the file) and concatenating gives exactly slice i of the
    stream; and if there is at least one byte, every file – empty ones included – has a node in
    some piece. -/
theorem mapPieces_covers (pl : Nat) (hpl : 0 < pl) (files : List Bytes) (n : Nat)
    (hn : n = cdiv files.flatten.length pl) :
    (mapPieces pl n (files.map List.length)).map (fun nodes => (nodes.map (readNode files)).flatten)
      = chunks pl files.flatten ∧
    (∀ i, ((mapPieces pl n (files.map List.length))[i]?).map
        (fun nodes => (nodes.map (readNode files)).flatten) = pieceOf pl files i) ∧
    (files.flatten ≠ [] → ∀ i, i < files.length →
      ∃ p ∈ mapPieces pl n (files.map List.length), ∃ nd ∈ p, nd.1 = i) := by
  have hn' : n = (chunks pl files.flatten).length := by rw [hn, chunks_length pl hpl]
  have h1 := mapPieces_read pl hpl files n hn'
  refine ⟨h1, ?_, fun hne => mapPieces_all_files pl hpl files n hn' hne⟩
  intro i
  unfold pieceOf
  rw [← h1, List.getElem?_map]
  rfl

/-- three files of 3, 0 and 6 bytes, piece length 4: the nodes of the three pieces and what they
    read -/
example : mapPieces 4 3 [3, 0, 6] = [[(0, 0, none), (1, 0, none), (2, 0, some 1)],
      [(2, 1, some 5)], [(2, 5, none)]] ∧
    (mapPieces 4 3 [3, 0, 6]).map (fun nodes => (nodes.map (readNode [[1,2,3],[],[4,5,6,7,8,9]])).flatten)
      = [[1,2,3,4],[5,6,7,8],[9]] := by decide
/-- a file ending exactly on the piece boundary followed by a trailing empty file -/
example : mapPieces 2 2 [2, 2, 0] = [[(0, 0, some 2)], [(1, 0, some 2), (2, 0, none)]] := by decide

/-- Every node produced by `_map_pieces` – for ANY piece length, number of pieces and list of
    lengths, also inconsistent ones – addresses an existing file and a range inside it
    (`start ≤ stop ≤ length`), so `get_part` never reads with a negative count. -/
theorem mapPieces_wf (pl n : Nat) (lengths : List Nat) :
    ∀ p ∈ mapPieces pl n lengths, ∀ nd ∈ p, ∃ len, lengths[nd.1]? = some len ∧ nd.2.1 ≤ len ∧
      ∀ e, nd.2.2 = some e → nd.2.1 ≤ e ∧ e ≤ len := by
  intro p hp nd hnd
  have hmap : (lengths.map zeros).map List.length = lengths := by
    rw [List.map_map]; conv => rhs; rw [← List.map_id lengths]
    apply List.map_congr_left; intro a _; simp
  have := mapPieces_nodeOK pl n (lengths.map zeros)
  rw [hmap] at this
  obtain ⟨f, hf, h1, h2⟩ := this p hp nd hnd
  rw [List.getElem?_map] at hf
  cases hl : lengths[nd.1]? with
  | none => rw [hl] at hf; cases hf
  | some len =>
    rw [hl] at hf
    simp at hf
    subst hf
    exact ⟨len, rfl, by simpa using h1, fun e he => by simpa using h2 e he⟩

example : mapPieces 4 5 [3, 0, 6] = [[(0, 0, none), (1, 0, none), (2, 0, some 1)],
      [(2, 1, some 5)], [(2, 5, none)], [], []] := by decide

/-- v2 / hybrid completeness.  If the filemap describes the search directories, the destination
    exists, and for every file record an intact same-name candidate exists (recorded length; its
    contents have the recorded merkle root, unless the file is empty), then for every record whose
    path `safe_join` accepts as `dp`: the file is counted, and `copypath(src, dp)` was called with
    a candidate `src` of the recorded name and length whose contents `d` have the recorded root
    (or the file is empty) – i.e. `shutil.copy(src, dp)` is in the trace, or at that point of the
    trace `dp` already existed with at least the recorded length. -/
theorem rebuild_v2_complete (rootOf : Bytes → Bytes) (ds : Nat) (fs : FS) (filemap : FileMap)
    (dest : Path) (files : List FileRec) (hd : CleanPath dest) (hr : DestReady fs dest)
    (hok : FilemapOK fs dest filemap) (hint : ∀ r ∈ files, IntactV2 rootOf fs filemap r)
    (r : FileRec) (hmem : r ∈ files) (dp : Path) (hsj : safeJoin dest r.full = some dp) :
    let res := matchV2 rootOf ds filemap dest fs files
    r.full ∈ res.2 ∧
    ∃ src cands d, filemap.lookup r.filename = some cands ∧ (src, r.length) ∈ cands ∧
      fs.readFile? src = some d ∧ d.length = r.length ∧ (r.length = 0 ∨ r.root = some (rootOf d)) ∧
      ∃ pre, pre <+: res.1 ∧ (Op.copy src dp ∈ res.1 ∨
        ((applyOps fs pre).ex dp = true ∧ r.length ≤ (applyOps fs pre).size ds dp)) := by
  intro res
  obtain ⟨h1, src, cands, d, h2, h3, h4, h5, h6, pre, h7, h8⟩ :=
    matchV2_complete_aux rootOf ds fs filemap dest hd hok files fs hr (fun _ _ => rfl) hint r hmem dp hsj
  refine ⟨h1, src, cands, d, h2, h3, h4, h5, h6, pre, h7, ?_⟩
  rcases h8 with h8 | ⟨h8, h9⟩
  · exact Or.inl h8
  · refine Or.inr ⟨h8, h9 ?_⟩
    obtain ⟨ext, hne, rfl⟩ := (safeJoin_within_dest dest hd _ _ hsj).1
    simp [hne]

/-- the hypotheses hold in the example world for the record `n/f` (3 bytes, root of 1 2 3) -/
example : CleanPath [[100]] ∧ DestReady Ex.fs [[100]] ∧ FilemapOK Ex.fs [[100]] Ex.fmap ∧
    (∀ r ∈ [(⟨[110,47,102], [102], 3, some [1,2,3], false⟩ : FileRec)], IntactV2 id Ex.fs Ex.fmap r) := by
  refine ⟨by decide, by decide, Ex.filemapOK, ?_⟩
  intro r hr
  simp at hr
  subst hr
  exact ⟨[([[115],[102]], 3)], [[115],[102]], [1,2,3], by decide, by decide, by decide, fun _ => rfl⟩

/-- `_find_matches` finds a match whenever one exists: if for every path node of a piece that is
    not a padding node there is a readable same-name candidate of the recorded length with
    contents `contents pn` (e.g. an intact copy), and the recorded digest is the SHA-1 of the
    concatenation of what the nodes stand for – the node's range of these contents, and
    `stop - start` zero bytes for a padding node (`nodePart`) – then the search returns `True`, no
    matter how many other same-name same-size candidates are enumerated before.  Padding nodes
    need no candidate. -/
theorem findMatches_complete (H1 : Bytes → Bytes) (fs : FS) (filemap : FileMap) (dest : Path)
    (piece : Bytes) (paths : List PathNode) (contents : PathNode → Bytes)
    (hc : ∀ pn ∈ paths, pn.file.pad = false → ∃ cands loc, filemap.lookup pn.file.filename = some cands ∧
      (loc, pn.file.length) ∈ cands ∧ fs.readFile? loc = some (contents pn))
    (hp : piece = H1 ((paths.map (fun pn => nodePart pn (contents pn))).flatten)) :
    (findMatches H1 fs filemap dest piece paths []).isSome := by
  have : ∃ choice, Combo fs filemap paths choice ∧
      comboData paths choice = (paths.map (fun pn => nodePart pn (contents pn))).flatten := by
    clear hp
    induction paths with
    | nil => exact ⟨[], trivial, rfl⟩
    | cons pn ps ih =>
      obtain ⟨choice, h1, h2⟩ := ih (fun x hx => hc x (List.mem_cons_of_mem _ hx))
      cases hpad : pn.file.pad with
      | true =>
        exact ⟨([], contents pn) :: choice,
          ⟨fun hf => absurd (hpad.symm.trans hf) (by decide), h1⟩, by simp [comboData, h2]⟩
      | false =>
        obtain ⟨cands, loc, hl, hm, hread⟩ := hc pn List.mem_cons_self hpad
        exact ⟨(loc, contents pn) :: choice, ⟨fun _ => ⟨cands, _, hl, hm, rfl, hread⟩, h1⟩,
          by simp [comboData, h2]⟩
  obtain ⟨choice, h1, h2⟩ := this
  exact findMatches_complete_combo H1 fs filemap dest piece paths choice [] h1 (by simp [h2, hp])

/-- in the decoy world the second half `[3,4]` of `f` is found although the decoy `1 2 9 9` is
    tried first -/
example : findMatches id Ex.fs2 Ex.fmap2 [[100]] [3,4] [⟨0, 2, none, ⟨[102], [102], 4, none, false⟩⟩] []
    = some [([[115],[102]], [[100],[102]])] := by decide

/-- v1 completeness (partial, see the note below).  Let `orig` be the original contents of the
    entries of `info["files"]` – a padding entry (`attr = "p"`, BEP 47) standing for zero bytes
    (`PadsAreZeros`) –, the metafile record their lengths and the SHA-1 (`H1`) of the successive
    `pl`-slices of their concatenation (at least one byte), the filemap describe the search
    directories, the destination exist, and an intact same-name copy of every file that is not a
    padding entry be among the candidates (`IntactV1`; nothing is required for padding entries).
    Then
    (1) every non-padding file record whose path `safe_join` accepts is counted and its destination path
        exists after the rebuild – whatever decoys there are; and
    (2) PROVIDED the digest is collision free (`hinj`) and there is no partial decoy (`hnd`: a
        same-name same-size candidate that agrees with the original on the range of the file
        covered by some piece is identical to the original), every copy that is made takes a file
        with exactly the original contents of the file it is placed as.
    Without `hnd` (2) is false: `v1_decoy_witness` (known finding KF-C13-1).
    This version makes no assumption about what the destination already contains or about the
    file paths; `rebuild_v1_complete` below proves the full statement (weakest decoy hypothesis,
    final contents) for a fresh destination. -/
theorem rebuild_v1_complete_partial (H1 : Bytes → Bytes) (ds : Nat) (fs : FS) (filemap : FileMap)
    (dest : Path) (pl : Nat) (hpl : 0 < pl) (files : List FileRec) (orig : List Bytes)
    (hd : CleanPath dest) (hr : DestReady fs dest) (hok : FilemapOK fs dest filemap)
    (hlens : files.map (·.length) = orig.map List.length) (hne : orig.flatten ≠ [])
    (hint : IntactV1 fs filemap files orig) (hpads : PadsAreZeros files orig) :
    let pieces := (chunks pl orig.flatten).map H1
    let res := matchV1 H1 ds fs filemap dest pl pieces files
    (∀ r ∈ files, r.pad = false → ∀ dp, safeJoin dest r.full = some dp →
      r.full ∈ res.2 ∧ ((applyOps fs res.1) dp).isSome) ∧
    ((∀ a b, H1 a = H1 b → a = b) → NoPartialDecoy fs filemap (v1PieceNodes pl pieces files) orig →
      ∀ src dst, Op.copy src dst ∈ res.1 →
        ∃ r ∈ files, ∃ (i : Nat) (o : Bytes), files[i]? = some r ∧ r.pad = false ∧
          safeJoin dest r.full = some dst ∧ orig[i]? = some o ∧ fs.readFile? src = some o) := by
  intro pieces res
  constructor
  · intro r hrm hrp dp hsj
    have hc := matchV1_complete H1 ds fs filemap dest pl hpl files orig hd hr hok hlens hne hint hpads r hrm
      hrp (by rw [hsj]; rfl)
    refine ⟨hc, ?_⟩
    obtain ⟨dp', h1, h2⟩ := matchV1Loop_present H1 ds filemap dest _ fs []
      (destReady_ex_prefix hr List.nil_prefix) r.full hc
    rw [hsj] at h1
    injection h1 with h1
    subst h1
    exact h2
  · intro hinj hnd src dst h
    exact matchV1_copies_correct H1 hinj ds fs filemap dest pl hpl files orig hd hr hok hlens hint hpads hnd
      src dst h

/-- all hypotheses, the no-decoy one included, hold in the example world (`/s/f` = 1 2 3 is the only
    candidate) for the single-file torrent `n/f`, piece length 4, `H1` = identity -/
example : IntactV1 Ex.fs Ex.fmap [⟨[110,47,102], [102], 3, none, false⟩] [[1,2,3]] ∧
    NoPartialDecoy Ex.fs Ex.fmap (v1PieceNodes 4 [[1,2,3]] [⟨[110,47,102], [102], 3, none, false⟩]) [[1,2,3]] := by
  constructor
  · intro i r h _
    cases i with
    | zero =>
      simp at h; subst h
      exact ⟨[([[115],[102]], 3)], [[115],[102]], [1,2,3], by decide, by decide, by decide, by decide⟩
    | succ i => simp at h
  · have hv : v1PieceNodes 4 [[1,2,3]] [⟨[110,47,102], [102], 3, none, false⟩]
        = [([1,2,3], [⟨0, 0, none, ⟨[110,47,102], [102], 3, none, false⟩⟩])] := by decide
    rw [hv]
    intro pp hpp pn hpn _ cands loc d o hl hm hread ho _
    simp at hpp; subst hpp
    simp at hpn; subst hpn
    obtain ⟨_, rfl⟩ := Ex.lookup_single hl
    simp at hm; subst hm
    simp at ho; subst ho
    have : Ex.fs.readFile? [[115],[102]] = some [1,2,3] := by decide
    rw [this] at hread
    injection hread with hread

/-- KF-C13-1, concretely.  In the decoy world (`/s/k/f` = 1 2 9 9 enumerated before the intact
    `/s/f` = 1 2 3 4; single-file torrent `f`, piece length 2, `H1` = identity – collision free)
    all hypotheses of `rebuild_v1_complete_partial` except the no-decoy one hold, yet the rebuild
    copies the DECOY to `/d/f`, counts the file, and never looks at the second piece: the
    destination ends up holding 1 2 9 9. -/
theorem v1_decoy_witness :
    CleanPath [[100]] ∧ DestReady Ex.fs2 [[100]] ∧ FilemapOK Ex.fs2 [[100]] Ex.fmap2 ∧
    IntactV1 Ex.fs2 Ex.fmap2 [⟨[102], [102], 4, none, false⟩] [[1,2,3,4]] ∧
    (chunks 2 ([[1,2,3,4]] : List Bytes).flatten).map id = [[1,2],[3,4]] ∧
    matchV1 id 4096 Ex.fs2 Ex.fmap2 [[100]] 2 [[1,2],[3,4]] [⟨[102], [102], 4, none, false⟩]
      = ([Op.copy [[115],[107],[102]] [[100],[102]]], [[102]]) ∧
    applyOps Ex.fs2 [Op.copy [[115],[107],[102]] [[100],[102]]] [[100],[102]] = some (.file [1,2,9,9]) := by
  refine ⟨by decide, by decide, Ex.filemapOK2, Ex.intactV1_2, ?_, by decide, by decide⟩
  simp [Ex.chunks_2]

/-- the hypothesis that fails in the decoy world is exactly the no-decoy one: the decoy agrees with
    the original on the range `[0, 2)` covered by the first piece -/
example : ¬ NoPartialDecoy Ex.fs2 Ex.fmap2
    (v1PieceNodes 2 [[1,2],[3,4]] [⟨[102], [102], 4, none, false⟩]) [[1,2,3,4]] := by
  intro h
  have := h ([1,2], [⟨0, 0, some 2, ⟨[102], [102], 4, none, false⟩⟩]) (by decide)
    ⟨0, 0, some 2, ⟨[102], [102], 4, none, false⟩⟩ (by decide) rfl
    [([[115], [107], [102]], 4), ([[115], [102]], 4)] [[115],[107],[102]] [1,2,9,9] [1,2,3,4]
    (by decide) (by decide) (by decide) (by decide) (by decide)
  exact absurd this (by decide)

/-- … and so does the weaker hypothesis of `rebuild_v1_complete`: the decoy is enumerated before
    the intact copy and agrees with it on the first piece -/
example : ¬ NoFirstPieceDecoy Ex.fs2 Ex.fmap2
    (v1PieceNodes 2 [[1,2],[3,4]] [⟨[102], [102], 4, none, false⟩]) [[1,2,3,4]] := by
  intro h
  have := h [] ([1,2], [⟨0, 0, some 2, ⟨[102], [102], 4, none, false⟩⟩])
    [([3,4], [⟨0, 2, some 4, ⟨[102], [102], 4, none, false⟩⟩])] (by decide)
    ⟨0, 0, some 2, ⟨[102], [102], 4, none, false⟩⟩ (by decide) rfl (by simp)
    [([[115], [107], [102]], 4), ([[115], [102]], 4)] [([[115], [107], [102]], 4)] ([[115], [102]], 4) []
    [1,2,3,4] (by decide) (by decide) (by decide) (by decide) (by decide)
    ([[115], [107], [102]], 4) (by decide) (by decide) [1,2,9,9] (by decide) (by decide)
  exact absurd this (by decide)

/-- v1 completeness, full statement with the exact hypothesis of KF-C13-1.  Let `orig` be the
    original contents (padding entries standing for zeros, `PadsAreZeros`; "file" below means an
    entry that is not a padding entry – nothing is required of or done for padding entries), the
    metafile honest (recorded lengths; `H1` of the successive `pl`-slices,
    at least one byte), `H1` collision free, the filemap describe the search directories, an intact
    same-name copy of every file be among the candidates, the destination exist, nothing exist yet
    at the accepted destination paths (`DestFresh`), and the accepted paths of different records
    be different and not nested (`DestsSeparate`).  Assume further (`NoFirstPieceDecoy`) that for
    the FIRST piece covering a file no same-name same-size candidate ENUMERATED BEFORE an intact
    copy agrees with the original on the range of the file that this piece covers (unless it is
    identical to the original).  Then
    (1) after the rebuild every accepted file is a regular file at its assigned path with exactly
        its original contents, and it is counted;
    (2) every `shutil.copy` that is executed copies a file with the original contents of the file
        it is placed as (later pieces may select a decoy again, but that call is skipped because
        the destination already has the full length). -/
theorem rebuild_v1_complete (H1 : Bytes → Bytes) (hinj : ∀ a b, H1 a = H1 b → a = b) (ds : Nat) (fs : FS)
    (filemap : FileMap) (dest : Path) (pl : Nat) (hpl : 0 < pl) (files : List FileRec) (orig : List Bytes)
    (hd : CleanPath dest) (hr : DestReady fs dest) (hok : FilemapOK fs dest filemap)
    (hlens : files.map (·.length) = orig.map List.length) (hne : orig.flatten ≠ [])
    (hint : IntactV1 fs filemap files orig) (hpads : PadsAreZeros files orig)
    (hsep : DestsSeparate dest files) (hfresh : DestFresh fs dest files)
    (hF : NoFirstPieceDecoy fs filemap (v1PieceNodes pl ((chunks pl orig.flatten).map H1) files) orig) :
    let res := matchV1 H1 ds fs filemap dest pl ((chunks pl orig.flatten).map H1) files
    (∀ (i : Nat) (r : FileRec) (dp : Path), files[i]? = some r → r.pad = false →
      safeJoin dest r.full = some dp →
      ∃ o, orig[i]? = some o ∧ applyOps fs res.1 dp = some (.file o) ∧ r.full ∈ res.2) ∧
    (∀ src dst, Op.copy src dst ∈ res.1 →
      ∃ r ∈ files, ∃ (i : Nat) (o : Bytes), files[i]? = some r ∧ r.pad = false ∧
        safeJoin dest r.full = some dst ∧ orig[i]? = some o ∧ fs.readFile? src = some o) := by
  intro res
  obtain ⟨h1, h2⟩ := matchV1_restores H1 hinj ds fs filemap dest pl hpl files orig hd hr hok hlens hne
    hint hpads hsep hfresh hF
  refine ⟨?_, h2⟩
  intro i r dp hfi hrp hsj
  obtain ⟨o, ho, hfin⟩ := h1 i r dp hfi hrp hsj
  exact ⟨o, ho, hfin, matchV1_complete H1 ds fs filemap dest pl hpl files orig hd hr hok hlens hne hint hpads r
    (List.mem_of_getElem? hfi) hrp (by rw [hsj]; rfl)⟩

/-- all hypotheses hold in the decoy world when the original `/s/f` is enumerated BEFORE the decoy
    `/s/k/f` (`Ex.fmap3`) – although the decoy agrees with the original on the first piece; the
    original is placed: `/d/f` = 1 2 3 4 -/
example : CleanPath [[100]] ∧ DestReady Ex.fs2 [[100]] ∧ FilemapOK Ex.fs2 [[100]] Ex.fmap3 ∧
    IntactV1 Ex.fs2 Ex.fmap3 [⟨[102], [102], 4, none, false⟩] [[1,2,3,4]] ∧
    DestsSeparate [[100]] [⟨[102], [102], 4, none, false⟩] ∧ DestFresh Ex.fs2 [[100]] [⟨[102], [102], 4, none, false⟩] ∧
    NoFirstPieceDecoy Ex.fs2 Ex.fmap3 (v1PieceNodes 2 [[1,2],[3,4]] [⟨[102], [102], 4, none, false⟩]) [[1,2,3,4]] ∧
    (let res := matchV1 id 4096 Ex.fs2 Ex.fmap3 [[100]] 2 [[1,2],[3,4]] [⟨[102], [102], 4, none, false⟩]
     res = ([Op.copy [[115],[102]] [[100],[102]]], [[102]]) ∧
     applyOps Ex.fs2 res.1 [[100],[102]] = some (.file [1,2,3,4])) :=
  ⟨by decide, by decide, Ex.filemapOK3, Ex.intactV1_3, Ex.destsSeparate_single _ _, Ex.destFresh_2,
    Ex.noFirstPieceDecoy_3, by decide⟩

/-- a metafile with a padding entry (`Rebuild.Ex.filesP`: `T/a` = 1 2 3, the padding entry
    `T/.pad/1` of 1 byte, `T/b` = 5 6; piece length 4, so the pieces are 1 2 3 0 | 5 6): the
    hypotheses about the payload hold – no candidate exists or is needed for the padding entry – and
    the rebuild restores `T/a` and `T/b` with their original contents; nothing is created for the
    padding entry and it is not counted -/
example : FilemapOK Ex.fsP [[100]] Ex.fmapP ∧ IntactV1 Ex.fsP Ex.fmapP Ex.filesP Ex.origP ∧
    PadsAreZeros Ex.filesP Ex.origP ∧ Ex.filesP.map (·.length) = Ex.origP.map List.length ∧
    (chunks 4 Ex.origP.flatten).map id = [[1,2,3,0],[5,6]] ∧
    (let res := matchV1 id 4096 Ex.fsP Ex.fmapP [[100]] 4 [[1,2,3,0],[5,6]] Ex.filesP
     res = ([Op.mkdir [[100],[84]], Op.copy [[115],[97]] [[100],[84],[97]],
             Op.copy [[115],[98]] [[100],[84],[98]]], [[84,47,97], [84,47,98]]) ∧
     applyOps Ex.fsP res.1 [[100],[84],[97]] = some (.file [1,2,3]) ∧
     applyOps Ex.fsP res.1 [[100],[84],[98]] = some (.file [5,6]) ∧
     applyOps Ex.fsP res.1 [[100],[84],[46,112,97,100]] = none) :=
  ⟨Ex.filemapOKP, Ex.intactV1_P, Ex.padsAreZeros_P, by decide, by simp [Ex.chunks_P], by decide⟩

/-- v1: every file that is counted is a non-padding record with an accepted destination path
    strictly below the destination directory, and that path exists when the rebuild is over. -/
theorem counted_are_present_v1 (H1 : Bytes → Bytes) (ds : Nat) (fs : FS) (filemap : FileMap)
    (dest : Path) (pl : Nat) (pieces : List Bytes) (files : List FileRec)
    (hd : CleanPath dest) (hroot : (fs []).isSome = true) :
    let res := matchV1 H1 ds fs filemap dest pl pieces files
    ∀ f ∈ res.2, ∃ r ∈ files, r.pad = false ∧ f = r.full ∧ ∃ dp, safeJoin dest r.full = some dp ∧
      StrictlyBelow dest dp ∧ ((applyOps fs res.1) dp).isSome := by
  intro res f hf
  obtain ⟨r, hr, hfr, _, hpad⟩ := matchV1_counted H1 ds fs filemap dest pl pieces files f hf
  obtain ⟨dp, h1, h2⟩ := matchV1Loop_present H1 ds filemap dest _ fs [] hroot f hf
  exact ⟨r, hr, hpad, hfr, dp, hfr ▸ h1, (safeJoin_within_dest dest hd _ _ h1).1, h2⟩

/-- the file counted in the v1 example is present afterwards -/
example : let res := matchV1 id 4096 Ex.fs Ex.fmap [[100]] 4 [[1,2,3]] [⟨[110,47,102], [102], 3, none, false⟩]
    res.2 = [[110,47,102]] ∧ (applyOps Ex.fs res.1) [[100],[110],[102]] = some (.file [1,2,3]) := by decide

/-- v2 / hybrid: the same, assuming every filemap candidate is (still) a regular file – an empty
    v2 file is matched by name and size without being opened. -/
theorem counted_are_present_v2 (rootOf : Bytes → Bytes) (ds : Nat) (fs : FS) (filemap : FileMap)
    (dest : Path) (files : List FileRec) (hd : CleanPath dest) (hroot : (fs []).isSome = true)
    (hfiles : ∀ name cands, filemap.lookup name = some cands → ∀ c ∈ cands, (fs.readFile? c.1).isSome) :
    let res := matchV2 rootOf ds filemap dest fs files
    ∀ f ∈ res.2, ∃ r ∈ files, f = r.full ∧ ∃ dp, safeJoin dest r.full = some dp ∧
      StrictlyBelow dest dp ∧ ((applyOps fs res.1) dp).isSome := by
  intro res f hf
  obtain ⟨r, hr, hfr, dp, h1, h2⟩ := matchV2_present rootOf ds filemap dest files fs hroot hfiles f hf
  exact ⟨r, hr, hfr, dp, h1, (safeJoin_within_dest dest hd _ _ h1).1, h2⟩

/-- the file counted in the example world is present afterwards -/
example : let res := matchV2 id 4096 Ex.fmap [[100]] Ex.fs [⟨[110,47,102], [102], 3, some [1,2,3], false⟩]
    res.2 = [[110,47,102]] ∧ (applyOps Ex.fs res.1) [[100],[110],[102]] = some (.file [1,2,3]) := by decide


/-! ### end to end: a metafile CREATED by the tool, read by `Metadata.extract`, rebuilt, rechecked

  `Impl.extractMeta` / `Impl.rebuildFromBytes` (`Model/RebuildMeta`) are `Metadata(path)` and
  `Metadata.rebuild(filemap, dest)` on the bytes of a metafile; the creators are those of
  `Model/Creators`; `Impl.recheck` is the whole `Checker` (`Model/RecheckFull`).

  Vocabulary.  `t` is the content tree (`Spec.WellNamed`, `E2E.PlainNamed`: what every directory
  listing satisfies), `o.name` the torrent's name (a proper file name: `hname`).
  `Spec.fileAt t cs = some d`: the regular file at the relative path `cs` (components; `[]` when `t`
  is a single file) has the bytes `d`.  `Spec.fileRecOf name cs len root` is the record
  `full = name/c₁/…/cₙ`, `filename` = last component (the name itself for a single file), `len`,
  `root`, not a padding record; `Spec.padRecOf name n` the flagged record `name/.pad/<n>`.
  `RbMeta.fileNameOf name cs` is that file name.  Filesystem side as above (`CleanPath`,
  `DestReady`, `FilemapOK`); the destination is fresh: nothing exists at or below `dest/<name>`.
  `Spec.ViewOf fs p disk`: the tree `disk` is exactly what `fs` shows at and below `p`. -/
section EndToEnd
open TorrentVerif.E2E TorrentVerif.RbMeta

/-- v1 (`TorrentFile`, plain or `align`; directory or single file): the written bytes decode, and
    `Metadata.extract` yields name, piece length, meta version 1, the written piece string (the
    `H1` digests of the piece-length slices of the stream the records stand for), and exactly one
    record per regular file of the tree — relative path under the torrent's name, file name, exact
    length — in listed order (`Spec.v1Listing`: sorted by full path string; the listing contains
    every file of the tree, each once); in a piece-aligned directory torrent every file whose
    length is not a multiple of the piece length is followed by the FLAGGED padding record
    `name/.pad/<gap>` of the gap (`Spec.v1RecsOf`).  `filenames` are the file names of the records
    that are not padding records. -/
theorem extract_of_created_v1 (o : CreateOpts) (align : Bool) (H1 : Bytes → Bytes)
    (enum : List (List (Bytes × Bytes)) → List (List (Bytes × Bytes)))
    (henum : ∀ l, (enum l).Perm l) (pre : Bytes) (t : Node) (hwn : Spec.WellNamed t)
    (hplain : PlainNamed t) (hname : Spec.plainName o.name = true) (hpl : 0 < o.pieceLength)
    (r : BVal) (b : Bytes) (h : Impl.createV1 o align H1 enum pre t = some (r, b)) :
    ∃ m, (Impl.loads b).map Impl.extractMeta = some (.ok m) ∧
      m.name = o.name ∧ m.pieceLength = o.pieceLength ∧ m.metaVersion = some 1 ∧
      m.pieces = ((chunks o.pieceLength (Spec.v1OrigsOf (alignOf align t) o.pieceLength
        ((Spec.v1Listing pre t).map (·.2))).flatten).map H1).flatten ∧
      m.files = Spec.v1RecsOf o.name (alignOf align t) o.pieceLength
        ((Spec.v1Listing pre t).map fun x => (x.1, x.2.length)) ∧
      m.filenames = Impl.nameSet (Impl.v1Filenames m.files) ∧
      (∀ x ∈ Spec.v1Listing pre t, Spec.fileAt t x.1 = some x.2) ∧
      (∀ cs d, Spec.fileAt t cs = some d → (cs, d) ∈ Spec.v1Listing pre t) ∧
      ((Spec.v1Listing pre t).map (·.1)).Nodup := by
  obtain ⟨hload, hex⟩ := extract_created_v1 o align H1 enum henum pre t hwn hplain hname hpl r b h
  obtain ⟨h1, h2, h3⟩ := v1Listing_facts pre t hwn hplain
  refine ⟨⟨o.name, o.pieceLength, some 1, _, _,
    Impl.nameSet (Impl.v1Filenames (Spec.v1RecsOf o.name (alignOf align t) o.pieceLength
      ((Spec.v1Listing pre t).map fun x => (x.1, x.2.length))))⟩,
    ?_, rfl, rfl, rfl, rfl, rfl, rfl, h1, h2, h3⟩
  rw [hload, Option.map_some, hex]

/-- met by the example torrent `T` of `{a: 1 2 3, b: 5 6}`, piece length 4, piece-aligned,
    enumerated backwards, toy SHA-1: the creator succeeds and the records are `T/a` (3 bytes), the
    flagged `T/.pad/1`, `T/b` (2 bytes), the flagged `T/.pad/2` -/
example : ∃ r b m, Impl.createV1 ExW.opts true Toy.toyH20 List.reverse [120] ExW.tree = some (r, b) ∧
    (Impl.loads b).map Impl.extractMeta = some (.ok m) ∧ m.metaVersion = some 1 ∧
    m.files = Spec.v1RecsOf [84] true 4 ((Spec.v1Listing [120] ExW.tree).map fun x => (x.1, x.2.length)) := by
  obtain ⟨r, b, h⟩ := createV1_dir_some ExW.opts true Toy.toyH20 List.reverse List.reverse_perm [120] _
    ExW.tree_wellNamed (sortedFiles_ne_nil [120] ExW.tree (by rw [ExW.tree_bytes]; decide))
  obtain ⟨m, h1, _, _, h2, _, h3, _⟩ := extract_of_created_v1 ExW.opts true Toy.toyH20 List.reverse
    List.reverse_perm [120] ExW.tree ExW.tree_wellNamed ExW.tree_plainNamed (by decide) (by decide) r b h
  exact ⟨r, b, m, h, h1, h2, h3⟩

/-- what `v1RecsOf` gives for the files `a` (3 bytes) and `b` (2 bytes), piece length 4, aligned:
    `T/a`, the flagged `T/.pad/1`, `T/b`, the flagged `T/.pad/2` (`natDec n` is `str(n)`) -/
example : Spec.v1RecsOf [84] true 4 [([[97]], 3), ([[98]], 2)]
    = [⟨[84,47,97], [97], 3, none, false⟩,
       ⟨[84,47,46,112,97,100,47] ++ natDec 1, natDec 1, 1, none, true⟩,
       ⟨[84,47,98], [98], 2, none, false⟩,
       ⟨[84,47,46,112,97,100,47] ++ natDec 2, natDec 2, 2, none, true⟩] := by
  simp [Spec.v1RecsOf, Spec.fileRecOf, Spec.padRecOf, PosixPath.joinSep, gap, Impl.sPad]

/-- v2 (`TorrentFileV2`, `TorrentAssembler` with `meta_version="2"`): the written bytes decode, and
    `Metadata.extract` yields name, piece length, meta version 2 and exactly one record per regular
    file of the tree — relative path under the torrent's name (the name itself for a single file),
    file name, exact length, and as `root` the BEP 52 merkle root (`Spec.root`) of the file, `None`
    for an empty file — in listed order (`_traverse`: names sorted per directory; the listing
    contains every file of the tree, each once).  No record is a padding record.
    `hns` excludes the one tree for which this is FALSE for a pure v2 metafile: a directory whose
    only entry is a regular file named like the torrent (see `namesake_directory_is_flattened`; the
    hybrid creators need no such exclusion, see `extract_of_created_hybrid`). -/
theorem extract_of_created_v2 (o : CreateOpts) (H H1 : Bytes → Bytes) (B hs j : Nat) (hB : 0 < B)
    (hpl : o.pieceLength = 2 ^ j * B)
    (enum : List (Bytes × Impl.FTree) → List (Bytes × Impl.FTree)) (henum : ∀ l, (enum l).Perm l)
    (t : Node) (hwn : Spec.WellNamed t) (hplain : PlainNamed t)
    (hname : Spec.plainName o.name = true) (hns : ∀ d, t ≠ .dir [(o.name, .file d)])
    (r : BVal) (b : Bytes)
    (hc : Impl.createV2Class o H B hs enum t = some (r, b) ∨
          Impl.createAsm false o H H1 B hs enum t = some (r, b)) :
    ∃ m, (Impl.loads b).map Impl.extractMeta = some (.ok m) ∧
      m.name = o.name ∧ m.pieceLength = o.pieceLength ∧ m.metaVersion = some 2 ∧
      m.files = (Impl.ftreeFiles [] (Impl.traverse enum t)).map (fun x =>
        Spec.fileRecOf o.name x.1 x.2.length (if x.2 = [] then none else some (Spec.root H B hs x.2))) ∧
      m.filenames = Impl.nameSet (m.files.map (·.filename)) ∧
      (∀ x ∈ Impl.ftreeFiles [] (Impl.traverse enum t), Spec.fileAt t x.1 = some x.2) ∧
      (∀ cs d, Spec.fileAt t cs = some d → (cs, d) ∈ Impl.ftreeFiles [] (Impl.traverse enum t)) ∧
      ((Impl.ftreeFiles [] (Impl.traverse enum t)).map (·.1)).Nodup :=
  extract_v2cap o H H1 B hs j hB hpl enum henum t hwn hplain hname r b
    (hc.elim Or.inl (fun h => Or.inr (Or.inl h))) (fun _ _ _ => hns)

/-- met by the example torrent (blocks of 2 bytes, 2 blocks per piece, toy SHA-256), and by a
    single file `T` of 9 bytes: one record `T` -/
example : (∃ r b m, Impl.createV2Class ExW.opts Toy.toyH 2 1 List.reverse ExW.tree = some (r, b) ∧
      (Impl.loads b).map Impl.extractMeta = some (.ok m) ∧ m.metaVersion = some 2 ∧
      m.files.length = (Impl.ftreeFiles [] (Impl.traverse List.reverse ExW.tree)).length) ∧
    (∃ r b m, Impl.createV2Class ExW.opts Toy.toyH 2 1 id Ex.G7.exFile = some (r, b) ∧
      (Impl.loads b).map Impl.extractMeta = some (.ok m) ∧
      m.files = [Spec.fileRecOf [84] [] 9 (some (Spec.root Toy.toyH 2 1 [1,2,3,4,5,6,7,8,9]))]) := by
  constructor
  · obtain ⟨r, b, h⟩ := createV2Class_some ExW.opts Toy.toyH 2 1 List.reverse ExW.tree
    obtain ⟨m, h1, _, _, h2, h3, _⟩ := extract_of_created_v2 ExW.opts Toy.toyH Toy.toyH1 2 1 1 (by decide)
      rfl List.reverse List.reverse_perm ExW.tree ExW.tree_wellNamed ExW.tree_plainNamed (by decide)
      ExW.tree_not_namesake r b (Or.inl h)
    exact ⟨r, b, m, h, h1, h2, by rw [h3]; simp⟩
  · obtain ⟨r, b, h⟩ := createV2Class_some ExW.opts Toy.toyH 2 1 id Ex.G7.exFile
    obtain ⟨m, h1, _, _, _, h3, _⟩ := extract_of_created_v2 ExW.opts Toy.toyH Toy.toyH1 2 1 1 (by decide)
      rfl id (fun _ => .refl _) Ex.G7.exFile trivial trivial (by decide)
      (by intro d h; simp [Ex.G7.exFile] at h) r b (Or.inl h)
    refine ⟨r, b, m, h, h1, ?_⟩
    rw [h3]; simp [Ex.G7.exFile, Impl.traverse, Impl.ftreeFiles, ExW.opts]

/-- hybrid (`TorrentFileHybrid`; `TorrentAssembler` with `meta_version="3"` when `H1` has 20-byte
    digests): a hybrid metafile carries `meta version` 2, so `Metadata.extract` reads its file tree:
    the same statement as for v2 — one record per regular file with the BEP 52 root, no padding
    records (the padding entries of the v1 `files` list are not looked at) — for EVERY tree, the
    directory `name/{name: file}` included: a hybrid metafile of a directory carries a `files`
    list, and since commit 777cf99 `extract` applies the single-file rule only when `info` has no
    `files` key (before, that directory was flattened to `dest/name` as it still is for pure v2). -/
theorem extract_of_created_hybrid (o : CreateOpts) (H H1 : Bytes → Bytes) (B hs j : Nat) (hB : 0 < B)
    (hpl : o.pieceLength = 2 ^ j * B)
    (enum : List (Bytes × Impl.FTree) → List (Bytes × Impl.FTree)) (henum : ∀ l, (enum l).Perm l)
    (t : Node) (hwn : Spec.WellNamed t) (hplain : PlainNamed t)
    (hname : Spec.plainName o.name = true)
    (r : BVal) (b : Bytes)
    (hc : Impl.createHybridClass o H H1 B hs enum t = some (r, b) ∨
          ((∀ x, (H1 x).length = 20) ∧ Impl.createAsm true o H H1 B hs enum t = some (r, b))) :
    ∃ m, (Impl.loads b).map Impl.extractMeta = some (.ok m) ∧
      m.name = o.name ∧ m.pieceLength = o.pieceLength ∧ m.metaVersion = some 2 ∧
      m.files = (Impl.ftreeFiles [] (Impl.traverse enum t)).map (fun x =>
        Spec.fileRecOf o.name x.1 x.2.length (if x.2 = [] then none else some (Spec.root H B hs x.2))) ∧
      m.filenames = Impl.nameSet (m.files.map (·.filename)) ∧
      (∀ x ∈ Impl.ftreeFiles [] (Impl.traverse enum t), Spec.fileAt t x.1 = some x.2) ∧
      (∀ cs d, Spec.fileAt t cs = some d → (cs, d) ∈ Impl.ftreeFiles [] (Impl.traverse enum t)) ∧
      ((Impl.ftreeFiles [] (Impl.traverse enum t)).map (·.1)).Nodup :=
  extract_v2cap o H H1 B hs j hB hpl enum henum t hwn hplain hname r b
    (hc.elim (fun h => Or.inr (Or.inr (Or.inl h))) (fun h => Or.inr (Or.inr (Or.inr h))))
    (fun info hinfo hfalse d e => by
      obtain ⟨d', e'⟩ := hybrid_files_key o H H1 B hs j hB hpl enum henum t hwn r b hc info hinfo hfalse
      rw [e'] at e; cases e)

/-- met by the example torrent, hybrid, toy hashes -/
example : ∃ r b m, Impl.createHybridClass ExW.opts Toy.toyH Toy.toyH20 2 1 id ExW.tree = some (r, b) ∧
    (Impl.loads b).map Impl.extractMeta = some (.ok m) ∧ m.metaVersion = some 2 ∧
    ∀ f ∈ m.files, f.pad = false := by
  obtain ⟨r, b, h⟩ := createHybridClass_some ExW.opts Toy.toyH Toy.toyH20 2 1 2 (by decide) (by decide)
    rfl id ExW.tree
  obtain ⟨m, h1, _, _, h2, h3, _⟩ := extract_of_created_hybrid ExW.opts Toy.toyH Toy.toyH20 2 1 1
    (by decide) rfl id (fun _ => .refl _) ExW.tree ExW.tree_wellNamed ExW.tree_plainNamed (by decide)
    r b (Or.inl h)
  refine ⟨r, b, m, h, h1, h2, ?_⟩
  rw [h3]
  intro f hf
  obtain ⟨x, _, rfl⟩ := List.mem_map.mp hf
  rfl

/-- KF-G11-1 (the tree excluded by `hns` for PURE v2 metafiles).  BEP 52 does not tell a single-file
    torrent from a directory that holds one file named like the torrent: both have the file tree
    `{name: {"": …}}`.  `Metadata.extract` takes such a tree for a single file
    (`"files" not in info and list(tree) == [name] and "" in tree[name]`), also when a pure v2
    metafile was made from a DIRECTORY `T/` whose only entry is the regular file `T` (the creators
    write no `length` key then, which would tell the two apart).  The record is `full = "T"`, so
    the rebuild places the file AT `dest/T` instead of `dest/T/T`: the content is restored, the
    layout is not.  (Real tool: `TorrentFileV2` on `T/T`, `Assembler` → the destination holds the
    regular file `T`; `Checker` on it still reports 100 %, `find_root` accepts a file of that name.)
    For HYBRID metafiles this was repaired by commit 777cf99 (the `files` key decides), see
    `hybrid_namesake_directory_kept`; a pure v2 metafile stays ambiguous by format.
    Shown on the decoded value the v2 creators write for `T/{T: 1 byte}`. -/
theorem namesake_directory_is_flattened :
    ∃ m, Impl.extractMeta (.dict [(K.info, .dict [(K.fileTree, .dict [([84], .dict [([],
        .dict [(K.length, .int 1), (K.piecesRoot, .str [7])])])]),
        (K.metaVersion, .int 2), (K.name, .str [84]), (K.pieceLength, .int 4)])]) = .ok m ∧
      m.files = [⟨[84], [84], 1, some [7], false⟩] ∧
      safeJoin [[100]] [84] = some [[100], [84]] := by
  refine ⟨_, rfl, ?_, by decide⟩
  decide

/-- v2 and hybrid (all four v2-capable creators, `Impl.WrittenV2Capable`; they rebuild through
    `_match_v2`).  Let the metafile be created from `t`, the filemap describe the search
    directories (`FilemapOK`), the destination exist (`DestReady`) with nothing at or below
    `dest/<name>` (`hfresh`), and let the candidates contain, for every file of the tree, a regular
    file of the same file name with the same bytes (`hint`) — anywhere, next to arbitrary other
    files, same-name files of other sizes or other contents included.  `hnc` is the only hash
    assumption: a same-name same-size candidate whose BEP 52 root equals the root of a (non-empty)
    file of the tree has that file's bytes — no collision of `Spec.root` among the concrete
    candidates.  Then `rebuildFromBytes` succeeds, its counter is the number of files of the tree,
    every file of the tree is afterwards a regular file at `dest/<name>/<relative path>`
    (`dest/<name>` for a single file) with exactly its bytes, and — composition with
    `C05.recheck_of_created_v2 / _hybrid` — for hashes with `hs`-byte digests, at least one byte of
    payload and `hcoll` (files of more than one piece with equal roots have equal layers), the whole
    `Checker` on the SAME metafile bytes, with ANY tree `disk` that is a view of the rebuilt
    `dest/<name>` as content below a parent not named like the torrent, verifies every piece and
    reports `matched = consumed = total`: exactly 100 %.  Such a view exists whenever the tree has
    a file: `dest/<name>` shows exactly `RbMeta.pruneNode t`, the tree without the directories that
    hold no regular file (a rebuild creates directories only on the way to a file) — so the rebuilt
    destination itself rechecks at 100 %.
    `hns` is only asked of the pure v2 creators (`RbMeta.PureV2`: `TorrentFileV2`, assembler "2"),
    see `namesake_directory_is_flattened`; a hybrid metafile needs no exclusion (commit 777cf99). -/
theorem rebuild_of_created_v2 (o : CreateOpts) (H1 H : Bytes → Bytes) (B hs j : Nat) (hB : 0 < B)
    (hpl : o.pieceLength = 2 ^ j * B)
    (enum : List (Bytes × Impl.FTree) → List (Bytes × Impl.FTree)) (henum : ∀ l, (enum l).Perm l)
    (t : Node) (hwn : Spec.WellNamed t) (hplain : PlainNamed t)
    (hname : Spec.plainName o.name = true)
    (r : BVal) (b : Bytes) (hc : Impl.WrittenV2Capable o H H1 B hs enum t r b)
    (hns : PureV2 o H H1 B hs enum t r b → ∀ d, t ≠ .dir [(o.name, .file d)])
    (ds : Nat) (fs : FS) (filemap : FileMap) (dest : Path) (hd : CleanPath dest)
    (hr : DestReady fs dest) (hok : FilemapOK fs dest filemap)
    (hfresh : ∀ cs, fs (dest ++ o.name :: cs) = none)
    (hint : ∀ cs d, Spec.fileAt t cs = some d → ∃ cands p,
      filemap.lookup (fileNameOf o.name cs) = some cands ∧ (p, d.length) ∈ cands ∧
      fs.readFile? p = some d)
    (hnc : ∀ cs d, Spec.fileAt t cs = some d → d ≠ [] → ∀ cands c d',
      filemap.lookup (fileNameOf o.name cs) = some cands → c ∈ cands → c.2 = d.length →
      fs.readFile? c.1 = some d' → Spec.root H B hs d' = Spec.root H B hs d → d' = d) :
    ∃ ops, Impl.rebuildFromBytes H1 H B hs ds fs filemap dest b
        = .ok (ops, (Spec.allFiles [] t).length) ∧
      (∀ cs d, Spec.fileAt t cs = some d →
        applyOps fs ops (dest ++ o.name :: cs) = some (.file d)) ∧
      ((∃ cs d, Spec.fileAt t cs = some d) →
        ViewOf (applyOps fs ops) (dest ++ [o.name]) (pruneNode t)) ∧
      (0 < hs → (∀ x, (H x).length = hs) → 0 < treeBytes t →
        (∀ x ∈ Spec.allFiles [] t, ∀ y ∈ Spec.allFiles [] t,
          2 ^ j * B < x.2.length → 2 ^ j * B < y.2.length →
          Spec.root H B hs x.2 = Spec.root H B hs y.2 →
          (Spec.pieceLayer H B hs j x.2).flatten = (Spec.pieceLayer H B hs j y.2).flatten) →
        ∀ disk pname, ViewOf (applyOps fs ops) (dest ++ [o.name]) disk → pname ≠ o.name →
          ∃ vs, Impl.recheck H1 H B hs b ⟨.parent, pname⟩ disk
              = .ok (vs, treeBytes t, treeBytes t) ∧ ∀ v ∈ vs, v.1 = true) := by
  obtain ⟨info, hw, hfk, hns'⟩ := written_of_v2capable o H H1 B hs j hB hpl enum henum t hwn r b hc
  obtain ⟨ops, h1, h2, h3⟩ := rebuild_v2_core o H1 H B hs j hB enum henum t hwn hplain hname r b info hw
    hfk (hns' hns) ds fs filemap dest hd hr hok hfresh hint hnc
  have hlen : (Impl.ftreeFiles [] (Impl.traverse enum t)).length = (Spec.allFiles [] t).length := by
    have := (ftreeFiles_traverse_perm enum henum [] t []).length_eq
    simpa using this
  refine ⟨ops, by rw [h1, hlen], h2, h3, ?_⟩
  intro hhs hH hbytes hcoll disk pname hv hp
  have hdisk : ∀ cs d, Spec.fileAt t cs = some d → Spec.fileAt disk cs = some d := by
    intro cs d hf
    apply view_fileAt hv cs d
    rw [List.append_assoc]
    exact h2 cs d hf
  exact recheck_v2_view o H1 H B hs (2 ^ j) hhs hH hB (Nat.two_pow_pos j) enum henum t hwn hplain
    (fun _ _ => hname) (hcoll_of_spec H B hs j hB enum henum t hcoll) hbytes r b info hw disk hdisk
    pname hp

/-- met by the example world, v2 and hybrid: `/d` is empty, `/s` holds `a` = 1 2 3, `b` = 5 6, an
    unrelated `z` and a second `a` of another size; both files come back (counter 2), and the
    rebuilt `/d/T` (as the tree `pruneNode`) rechecks at 5 of 5 bytes below the parent `d` -/
example : (∃ r b ops, Impl.createV2Class ExW.opts Toy.toyH 2 1 List.reverse ExW.tree = some (r, b) ∧
      Impl.rebuildFromBytes Toy.toyH20 Toy.toyH 2 1 4096 ExW.fs ExW.fmap [[100]] b = .ok (ops, 2) ∧
      applyOps ExW.fs ops [[100], [84], [97]] = some (.file [1, 2, 3]) ∧
      applyOps ExW.fs ops [[100], [84], [98]] = some (.file [5, 6]) ∧
      ViewOf (applyOps ExW.fs ops) [[100], [84]] (pruneNode ExW.tree) ∧
      ∃ vs, Impl.recheck Toy.toyH20 Toy.toyH 2 1 b ⟨.parent, [100]⟩ (pruneNode ExW.tree)
        = .ok (vs, 5, 5) ∧ ∀ v ∈ vs, v.1 = true) ∧
    (∃ r b ops, Impl.createHybridClass ExW.opts Toy.toyH Toy.toyH20 2 1 id ExW.tree = some (r, b) ∧
      Impl.rebuildFromBytes Toy.toyH20 Toy.toyH 2 1 4096 ExW.fs ExW.fmap [[100]] b = .ok (ops, 2) ∧
      applyOps ExW.fs ops [[100], [84], [97]] = some (.file [1, 2, 3])) := by
  have hnc : ∀ cs d, Spec.fileAt ExW.tree cs = some d → d ≠ [] → ∀ cands c d',
      ExW.fmap.lookup (fileNameOf ExW.opts.name cs) = some cands → c ∈ cands → c.2 = d.length →
      ExW.fs.readFile? c.1 = some d' → Spec.root Toy.toyH 2 1 d' = Spec.root Toy.toyH 2 1 d → d' = d :=
    fun cs d hf _ cands c d' hl hc hsz hread _ => ExW.noDecoys cs d hf cands c d' hl hc hsz hread
  constructor
  · obtain ⟨r, b, h⟩ := createV2Class_some ExW.opts Toy.toyH 2 1 List.reverse ExW.tree
    obtain ⟨ops, h1, h2, h3, h4⟩ := rebuild_of_created_v2 ExW.opts Toy.toyH20 Toy.toyH 2 1 1 (by decide) rfl
      List.reverse List.reverse_perm ExW.tree ExW.tree_wellNamed ExW.tree_plainNamed (by decide)
      r b (Or.inl h) (fun _ => ExW.tree_not_namesake) 4096 ExW.fs ExW.fmap [[100]] (by decide) (by decide)
      ExW.filemapOK ExW.fresh ExW.intact hnc
    have hv := h3 ⟨[[97]], [1, 2, 3], rfl⟩
    have hre := h4 (by decide) (by intro x; simp [Toy.toyH]) (by rw [ExW.tree_bytes]; decide)
      (ExW.tree_hcoll Toy.toyH 2 1 1) (pruneNode ExW.tree) [100] hv (by decide)
    rw [ExW.tree_bytes] at hre
    exact ⟨r, b, ops, h, h1, h2 [[97]] [1, 2, 3] rfl, h2 [[98]] [5, 6] rfl, hv, hre⟩
  · obtain ⟨r, b, h⟩ := createHybridClass_some ExW.opts Toy.toyH Toy.toyH20 2 1 2 (by decide) (by decide)
      rfl id ExW.tree
    obtain ⟨ops, h1, h2, _⟩ := rebuild_of_created_v2 ExW.opts Toy.toyH20 Toy.toyH 2 1 1 (by decide) rfl
      id (fun _ => .refl _) ExW.tree ExW.tree_wellNamed ExW.tree_plainNamed (by decide)
      r b (Or.inr (Or.inr (Or.inl h))) (fun _ => ExW.tree_not_namesake) 4096 ExW.fs ExW.fmap [[100]]
      (by decide) (by decide) ExW.filemapOK ExW.fresh ExW.intact hnc
    exact ⟨r, b, ops, h, h1, h2 [[97]] [1, 2, 3] rfl⟩

/-- The repair of KF-G11-1 for hybrid metafiles (commit 777cf99), positively.  A HYBRID torrent of
    the directory `T/` whose only entry is the regular file `T` (bytes `d`): `Metadata.extract`
    yields the one record `T/T` (not `T`), and — an intact copy of the file being among the
    candidates, fresh destination, no root collision among the candidates — the rebuild creates
    the DIRECTORY `dest/T` and the file `dest/T/T` with exactly the bytes `d`; counter 1. -/
theorem hybrid_namesake_directory_kept (o : CreateOpts) (H1 H : Bytes → Bytes) (B hs j : Nat)
    (hB : 0 < B) (hpl : o.pieceLength = 2 ^ j * B)
    (enum : List (Bytes × Impl.FTree) → List (Bytes × Impl.FTree)) (henum : ∀ l, (enum l).Perm l)
    (d : Bytes) (hname : Spec.plainName o.name = true) (r : BVal) (b : Bytes)
    (hc : Impl.createHybridClass o H H1 B hs enum (.dir [(o.name, .file d)]) = some (r, b) ∨
          ((∀ x, (H1 x).length = 20) ∧
            Impl.createAsm true o H H1 B hs enum (.dir [(o.name, .file d)]) = some (r, b)))
    (ds : Nat) (fs : FS) (filemap : FileMap) (dest : Path) (hd : CleanPath dest)
    (hr : DestReady fs dest) (hok : FilemapOK fs dest filemap)
    (hfresh : ∀ cs, fs (dest ++ o.name :: cs) = none)
    (hint : ∃ cands p, filemap.lookup o.name = some cands ∧ (p, d.length) ∈ cands ∧
      fs.readFile? p = some d)
    (hnc : d ≠ [] → ∀ cands c d', filemap.lookup o.name = some cands → c ∈ cands → c.2 = d.length →
      fs.readFile? c.1 = some d' → Spec.root H B hs d' = Spec.root H B hs d → d' = d) :
    (∃ m, (Impl.loads b).map Impl.extractMeta = some (.ok m) ∧
      m.files = [Spec.fileRecOf o.name [o.name] d.length
        (if d = [] then none else some (Spec.root H B hs d))]) ∧
    ∃ ops, Impl.rebuildFromBytes H1 H B hs ds fs filemap dest b = .ok (ops, 1) ∧
      applyOps fs ops (dest ++ [o.name]) = some .dir ∧
      applyOps fs ops (dest ++ [o.name, o.name]) = some (.file d) := by
  obtain ⟨hn1, _, _, hn4⟩ := plainName_parts o.name hname
  have hwn : Spec.WellNamed (.dir [(o.name, .file d)]) := by
    simp [Spec.WellNamed, Spec.WellNamedList, hn1, hn4]
  have hplain : PlainNamed (.dir [(o.name, .file d)]) := by
    simp [PlainNamed, PlainNamedList, hname]
  have hfiles : ∀ cs d', Spec.fileAt (.dir [(o.name, .file d)]) cs = some d' → cs = [o.name] ∧ d' = d := by
    intro cs d' h
    cases cs with
    | nil => simp [Spec.fileAt] at h
    | cons c q =>
      have h' : Spec.fileAtList [(o.name, Node.file d)] c q = some d' := h
      simp only [Spec.fileAtList] at h'
      by_cases e : o.name = c
      · subst e
        simp only [if_true] at h'
        cases q with
        | nil => simp only [Spec.fileAt, Option.some.injEq] at h'; exact ⟨rfl, h'.symm⟩
        | cons c' q' => simp [Spec.fileAt] at h'
      · simp [e] at h'
  have hfn : fileNameOf o.name [o.name] = o.name := rfl
  constructor
  · obtain ⟨m, h1, _, _, _, h2, _⟩ := extract_of_created_hybrid o H H1 B hs j hB hpl enum henum _ hwn hplain
      hname r b hc
    exact ⟨m, h1, by rw [h2, traverse_namesake enum henum]; rfl⟩
  · have hcap : Impl.WrittenV2Capable o H H1 B hs enum (.dir [(o.name, .file d)]) r b :=
      hc.elim (fun h => Or.inr (Or.inr (Or.inl h))) (fun h => Or.inr (Or.inr (Or.inr h)))
    obtain ⟨ops, h1, h2, h3, _⟩ := rebuild_of_created_v2 o H1 H B hs j hB hpl enum henum _ hwn hplain hname
      r b hcap
      (fun hp => absurd hp (not_pureV2_of_hybrid_dir o H H1 B hs j hB hpl enum henum _ hwn r b hc))
      ds fs filemap dest hd hr hok hfresh
      (by intro cs d' hf
          obtain ⟨rfl, rfl⟩ := hfiles cs d' hf
          rw [hfn]; exact hint)
      (by intro cs d' hf hne
          obtain ⟨rfl, rfl⟩ := hfiles cs d' hf
          rw [hfn]; exact hnc hne)
    refine ⟨ops, by rw [h1]; rfl, ?_, ?_⟩
    · have := h3 ⟨[o.name], d, by simp [Spec.fileAt, Spec.fileAtList]⟩ []
      simpa [RF.lookup, pruneNode, Spec.objOf] using this
    · have := h2 [o.name] d (by simp [Spec.fileAt, Spec.fileAtList])
      simpa using this

/-- met by: the hybrid torrent `T` of the directory `{T: 1 2 3}`, the search directory of the
    example world with the candidate map `{"T": [("/s/a", 3)]}` (`/s/a` = 1 2 3) -/
example : ∃ r b ops, Impl.createHybridClass ExW.opts Toy.toyH Toy.toyH20 2 1 id
      (.dir [([84], .file [1, 2, 3])]) = some (r, b) ∧
    Impl.rebuildFromBytes Toy.toyH20 Toy.toyH 2 1 4096 ExW.fs [([84], [([[115], [97]], 3)])] [[100]] b
      = .ok (ops, 1) ∧
    applyOps ExW.fs ops [[100], [84]] = some .dir ∧
    applyOps ExW.fs ops [[100], [84], [84]] = some (.file [1, 2, 3]) := by
  obtain ⟨r, b, h⟩ := createHybridClass_some ExW.opts Toy.toyH Toy.toyH20 2 1 2 (by decide) (by decide)
    rfl id (.dir [([84], .file [1, 2, 3])])
  have hok : FilemapOK ExW.fs [[100]] [([84], [([[115], [97]], 3)])] := by
    intro name cands hl c hc
    obtain ⟨_, rfl⟩ := Ex.lookup_single hl
    simp at hc; subst hc
    exact ⟨by decide, [1, 2, 3], by decide, rfl⟩
  obtain ⟨_, ops, h1, h2, h3⟩ := hybrid_namesake_directory_kept ExW.opts Toy.toyH20 Toy.toyH 2 1 1
    (by decide) rfl id (fun _ => .refl _) [1, 2, 3] (by decide) r b (Or.inl h) 4096 ExW.fs
    [([84], [([[115], [97]], 3)])] [[100]] (by decide) (by decide) hok ExW.fresh
    ⟨[([[115], [97]], 3)], [[115], [97]], by decide, by decide, by decide⟩
    (by intro _ cands c d' hl hc _ hread _
        have : cands = [([[115], [97]], 3)] := by
          have hh : List.lookup ExW.opts.name ([([84], [([[115], [97]], 3)])] : FileMap)
              = some [([[115], [97]], 3)] := by
            decide
          exact Option.some.inj (hl.symm.trans hh)
        subst this
        simp at hc; subst hc
        have hh : ExW.fs.readFile? [[115], [97]] = some [1, 2, 3] := by decide
        rw [hh] at hread; injection hread with hread; exact hread.symm)
  exact ⟨r, b, ops, h, h1, h2, h3⟩

/-- v1 (`TorrentFile`, plain and piece-aligned, directory or single file; rebuilt through
    `_match_v1`).  Same setting as `rebuild_of_created_v2`; `H1` has 20-byte digests (the piece
    string is cut into 20-byte digests) and the payload has at least one byte.  The statement holds
    under EXACTLY the decoy hypothesis of `rebuild_v1_complete` (KF-C13-1), `NoFirstPieceDecoy` on
    the piece nodes of the extracted records (`Spec.v1RecsOf`) and the contents they stand for
    (`Spec.v1OrigsOf`: the files' bytes, zeros for padding records) — and, in place of the global
    injectivity of `H1` assumed there (which no function with 20-byte values has),
    `Impl.NoPieceCollision`: two combinations of concrete candidates for the nodes of a piece whose
    data both hash to the recorded digest carry the same data.  Then `rebuildFromBytes` succeeds,
    its counter is the number of files of the tree (padding records are neither looked up, created
    nor counted), every file of the tree is afterwards a regular file at
    `dest/<name>/<relative path>` (`dest/<name>` for a single file) with exactly its bytes, and
    (composition with `C05.recheck_of_created_v1`) the whole `Checker` on the same bytes with any
    view `disk` of the rebuilt `dest/<name>` as content verifies every piece:
    `matched = consumed = total`, where `total` is the length of the described stream — the bytes
    of the tree, plus the padding in a piece-aligned directory torrent.  Such a view exists:
    `dest/<name>` shows exactly `RbMeta.pruneNode t` (the tree without file-less directories; in
    particular no `.pad` directory is created). -/
theorem rebuild_of_created_v1 (o : CreateOpts) (align : Bool) (H1 H : Bytes → Bytes) (B hs : Nat)
    (hH1 : ∀ x, (H1 x).length = 20)
    (enum : List (List (Bytes × Bytes)) → List (List (Bytes × Bytes)))
    (henum : ∀ l, (enum l).Perm l) (pre : Bytes) (t : Node) (hwn : Spec.WellNamed t)
    (hplain : PlainNamed t) (hname : Spec.plainName o.name = true) (hpl : 0 < o.pieceLength)
    (hbytes : 0 < treeBytes t)
    (r : BVal) (b : Bytes) (h : Impl.createV1 o align H1 enum pre t = some (r, b))
    (ds : Nat) (fs : FS) (filemap : FileMap) (dest : Path) (hd : CleanPath dest)
    (hr : DestReady fs dest) (hok : FilemapOK fs dest filemap)
    (hfresh : ∀ cs, fs (dest ++ o.name :: cs) = none)
    (hint : ∀ cs d, Spec.fileAt t cs = some d → ∃ cands p,
      filemap.lookup (fileNameOf o.name cs) = some cands ∧ (p, d.length) ∈ cands ∧
      fs.readFile? p = some d)
    (hF : NoFirstPieceDecoy fs filemap (v1PieceNodes o.pieceLength
      ((chunks o.pieceLength (Spec.v1OrigsOf (alignOf align t) o.pieceLength
        ((Spec.v1Listing pre t).map (·.2))).flatten).map H1)
      (Spec.v1RecsOf o.name (alignOf align t) o.pieceLength
        ((Spec.v1Listing pre t).map fun x => (x.1, x.2.length))))
      (Spec.v1OrigsOf (alignOf align t) o.pieceLength ((Spec.v1Listing pre t).map (·.2))))
    (hnc : Impl.NoPieceCollision H1 fs filemap (v1PieceNodes o.pieceLength
      ((chunks o.pieceLength (Spec.v1OrigsOf (alignOf align t) o.pieceLength
        ((Spec.v1Listing pre t).map (·.2))).flatten).map H1)
      (Spec.v1RecsOf o.name (alignOf align t) o.pieceLength
        ((Spec.v1Listing pre t).map fun x => (x.1, x.2.length))))) :
    ∃ ops, Impl.rebuildFromBytes H1 H B hs ds fs filemap dest b
        = .ok (ops, (Spec.allFiles [] t).length) ∧
      (∀ cs d, Spec.fileAt t cs = some d →
        applyOps fs ops (dest ++ o.name :: cs) = some (.file d)) ∧
      ViewOf (applyOps fs ops) (dest ++ [o.name]) (pruneNode t) ∧
      ∃ total, treeBytes t ≤ total ∧ (alignOf align t = false → total = treeBytes t) ∧
        (0 < hs → ∀ disk pname, ViewOf (applyOps fs ops) (dest ++ [o.name]) disk → pname ≠ o.name →
          ∃ vs, Impl.recheck H1 H B hs b ⟨.parent, pname⟩ disk = .ok (vs, total, total) ∧
            ∀ v ∈ vs, v.1 = true) := by
  obtain ⟨hload, hex⟩ := extract_created_v1 o align H1 enum henum pre t hwn hplain hname hpl r b h
  obtain ⟨hL1, hL2, hL3⟩ := v1Listing_facts pre t hwn hplain
  obtain ⟨htot1, htot2⟩ := v1Total_facts align o.pieceLength pre t
  have hne : (Spec.v1OrigsOf (alignOf align t) o.pieceLength
      ((Spec.v1Listing pre t).map (·.2))).flatten ≠ [] := by
    intro e
    have : v1Total align o.pieceLength pre t = 0 := by unfold v1Total; rw [e]; rfl
    omega
  obtain ⟨ops, h1, h2, h3⟩ := rebuild_v1_core o.name hname (alignOf align t) o.pieceLength hpl H1 H hH1 B hs
    t hplain (Spec.v1Listing pre t) hL1 hL2 hL3 r b hload _ hex hne ds fs filemap dest hd hr hok hfresh
    hint hF hnc
  refine ⟨ops, by rw [h1, v1Listing_length], h2, h3 hwn, v1Total align o.pieceLength pre t, htot1, htot2, ?_⟩
  intro hhs disk pname hv hp
  have hdisk : ∀ cs d, Spec.fileAt t cs = some d → Spec.fileAt disk cs = some d := by
    intro cs d hf
    apply view_fileAt hv cs d
    rw [List.append_assoc]
    exact h2 cs d hf
  exact recheck_v1_view o align H1 H B hs hhs hH1 enum henum pre t hwn hplain hpl r b h disk hdisk
    pname hp

/-- v1 without decoys: when every readable same-name same-size candidate of a file of the tree
    has exactly that file's bytes (`RbMeta.NoDecoys` — e.g. the search directories hold the
    content once, next to files of other names or sizes), both `NoFirstPieceDecoy` and
    `NoPieceCollision` hold whatever `H1` is, and the conclusion of `rebuild_of_created_v1` follows
    with no assumption on the hash beyond its 20-byte digests. -/
theorem rebuild_of_created_v1_no_decoys (o : CreateOpts) (align : Bool) (H1 H : Bytes → Bytes)
    (B hs : Nat) (hH1 : ∀ x, (H1 x).length = 20)
    (enum : List (List (Bytes × Bytes)) → List (List (Bytes × Bytes)))
    (henum : ∀ l, (enum l).Perm l) (pre : Bytes) (t : Node) (hwn : Spec.WellNamed t)
    (hplain : PlainNamed t) (hname : Spec.plainName o.name = true) (hpl : 0 < o.pieceLength)
    (hbytes : 0 < treeBytes t)
    (r : BVal) (b : Bytes) (h : Impl.createV1 o align H1 enum pre t = some (r, b))
    (ds : Nat) (fs : FS) (filemap : FileMap) (dest : Path) (hd : CleanPath dest)
    (hr : DestReady fs dest) (hok : FilemapOK fs dest filemap)
    (hfresh : ∀ cs, fs (dest ++ o.name :: cs) = none)
    (hint : ∀ cs d, Spec.fileAt t cs = some d → ∃ cands p,
      filemap.lookup (fileNameOf o.name cs) = some cands ∧ (p, d.length) ∈ cands ∧
      fs.readFile? p = some d)
    (hnd : NoDecoys o.name t fs filemap) :
    ∃ ops, Impl.rebuildFromBytes H1 H B hs ds fs filemap dest b
        = .ok (ops, (Spec.allFiles [] t).length) ∧
      (∀ cs d, Spec.fileAt t cs = some d →
        applyOps fs ops (dest ++ o.name :: cs) = some (.file d)) ∧
      ViewOf (applyOps fs ops) (dest ++ [o.name]) (pruneNode t) ∧
      ∃ total, treeBytes t ≤ total ∧ (alignOf align t = false → total = treeBytes t) ∧
        (0 < hs → ∀ disk pname, ViewOf (applyOps fs ops) (dest ++ [o.name]) disk → pname ≠ o.name →
          ∃ vs, Impl.recheck H1 H B hs b ⟨.parent, pname⟩ disk = .ok (vs, total, total) ∧
            ∀ v ∈ vs, v.1 = true) := by
  obtain ⟨hL1, _, _⟩ := v1Listing_facts pre t hwn hplain
  obtain ⟨hF, hnc⟩ := v1_hyps_of_noDecoys o.name (alignOf align t) o.pieceLength H1 t
    (Spec.v1Listing pre t) hL1 fs filemap hnd
    ((chunks o.pieceLength (Spec.v1OrigsOf (alignOf align t) o.pieceLength
      ((Spec.v1Listing pre t).map (·.2))).flatten).map H1)
  exact rebuild_of_created_v1 o align H1 H B hs hH1 enum henum pre t hwn hplain hname hpl hbytes r b h
    ds fs filemap dest hd hr hok hfresh hint hF hnc

/-- met by the example world, piece-aligned (records `T/a`, pad, `T/b`, pad; pieces 1 2 3 0 |
    5 6 0 0): both files come back, the counter is 2, no `.pad` directory appears, and the rebuilt
    `/d/T` rechecks completely (`total` ≥ the 5 bytes of the tree: the aligned stream) -/
example : ∃ r b ops total, Impl.createV1 ExW.opts true Toy.toyH20 List.reverse [120] ExW.tree = some (r, b) ∧
    Impl.rebuildFromBytes Toy.toyH20 Toy.toyH 2 1 4096 ExW.fs ExW.fmap [[100]] b = .ok (ops, 2) ∧
    applyOps ExW.fs ops [[100], [84], [97]] = some (.file [1, 2, 3]) ∧
    applyOps ExW.fs ops [[100], [84], [98]] = some (.file [5, 6]) ∧
    applyOps ExW.fs ops [[100], [84], [46, 112, 97, 100]] = none ∧ 5 ≤ total ∧
    ∃ vs, Impl.recheck Toy.toyH20 Toy.toyH 2 1 b ⟨.parent, [100]⟩ (pruneNode ExW.tree)
      = .ok (vs, total, total) ∧ ∀ v ∈ vs, v.1 = true := by
  obtain ⟨r, b, h⟩ := createV1_dir_some ExW.opts true Toy.toyH20 List.reverse List.reverse_perm [120] _
    ExW.tree_wellNamed (sortedFiles_ne_nil [120] ExW.tree (by rw [ExW.tree_bytes]; decide))
  obtain ⟨ops, h1, h2, h3, total, h4, _, h5⟩ := rebuild_of_created_v1_no_decoys ExW.opts true Toy.toyH20
    Toy.toyH 2 1 (by intro x; simp [Toy.toyH20]) List.reverse List.reverse_perm [120] ExW.tree
    ExW.tree_wellNamed ExW.tree_plainNamed (by decide) (by decide) (by rw [ExW.tree_bytes]; decide) r b h
    4096 ExW.fs ExW.fmap [[100]] (by decide) (by decide) ExW.filemapOK ExW.fresh ExW.intact ExW.noDecoys
  rw [ExW.tree_bytes] at h4
  refine ⟨r, b, ops, total, h, h1, h2 [[97]] [1, 2, 3] rfl, h2 [[98]] [5, 6] rfl, ?_, h4,
    h5 (by decide) (pruneNode ExW.tree) [100] h3 (by decide)⟩
  have hl : RF.lookup (pruneNode ExW.tree) [[46, 112, 97, 100]] = none := by decide
  have := h3 [[46, 112, 97, 100]]
  rw [hl] at this
  simpa [ExW.opts] using this

/-- the two hypotheses of `rebuild_of_created_v1` themselves hold in the example world (plain v1) -/
example (pieces : List Bytes) :
    NoFirstPieceDecoy ExW.fs ExW.fmap (v1PieceNodes 4 pieces
      (Spec.v1RecsOf [84] false 4 ((Spec.v1Listing [120] ExW.tree).map fun x => (x.1, x.2.length))))
      (Spec.v1OrigsOf false 4 ((Spec.v1Listing [120] ExW.tree).map (·.2))) ∧
    Impl.NoPieceCollision Toy.toyH20 ExW.fs ExW.fmap (v1PieceNodes 4 pieces
      (Spec.v1RecsOf [84] false 4 ((Spec.v1Listing [120] ExW.tree).map fun x => (x.1, x.2.length)))) :=
  v1_hyps_of_noDecoys [84] false 4 Toy.toyH20 ExW.tree _
    (v1Listing_facts [120] ExW.tree ExW.tree_wellNamed ExW.tree_plainNamed).1 ExW.fs ExW.fmap ExW.noDecoys pieces

end EndToEnd

end TorrentVerif.Props.C13

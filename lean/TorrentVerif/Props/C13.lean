import TorrentVerif.Proofs.RbEx
import TorrentVerif.Props.C19
/-
  C13 — rebuild restores the complete torrent when intact copies are available.
  Property theorems only; helper lemmas live in `Proofs/`.

  `files : List Bytes` / `orig` are the original contents of the torrent's files in metafile order;
  the v1 byte stream is their concatenation and piece i is `(chunks pl files.flatten)[i]`
  (`Spec.pieceOf`).  `Spec.FilemapOK`: the filemap lists regular files of the recorded size that
  lie outside the destination.  `Spec.DestReady`: the destination directory exists.
-/
namespace TorrentVerif.Props.C13
open TorrentVerif Rebuild PosixPath Spec Impl
open TorrentVerif.Props.C19 (safeJoin_within_dest)

/-- `_map_pieces` is right: for every piece length > 0 and every list of files (any sizes, empty
    files, files ending exactly on a piece boundary, many files per piece), with the number of
    pieces ⌈total/pl⌉: reading the path nodes of piece i from the original files (range
    `[start, stop)` or to the end of the file) and concatenating gives exactly slice i of the
    stream; and if there is at least one byte, every file – empty ones included – has a node in
    some piece. -/
theorem mapPieces_covers (pl : Nat) (hpl : 0 < pl) (files : List Bytes) (n : Nat)
    (hn : n = cdiv files.flatten.length pl) :
    (mapPieces pl n (files.map List.length)).map (fun nodes => (nodes.map (readNode files)).flatten)
      = chunks pl files.flatten ∧
    (∀ i, ((mapPieces pl n (files.map List.length))[i]?).map
        (fun nodes => (nodes.map (readNode files)).flatten) = pieceOf pl files i) ∧
    (files.flatten ≠ [] → ∀ i, i < files.length →
      ∃ p ∈ mapPieces pl n (files.map List.length), ∃ nd ∈ p, nd.1 = i) := by
  have hn' : n = (chunks pl files.flatten).length := by rw [hn, chunks_length pl hpl]
  have h1 := mapPieces_read pl hpl files n hn'
  refine ⟨h1, ?_, fun hne => mapPieces_all_files pl hpl files n hn' hne⟩
  intro i
  unfold pieceOf
  rw [← h1, List.getElem?_map]
  rfl

/-- three files of 3, 0 and 6 bytes, piece length 4: the nodes of the three pieces and what they
    read -/
example : mapPieces 4 3 [3, 0, 6] = [[(0, 0, none), (1, 0, none), (2, 0, some 1)],
      [(2, 1, some 5)], [(2, 5, none)]] ∧
    (mapPieces 4 3 [3, 0, 6]).map (fun nodes => (nodes.map (readNode [[1,2,3],[],[4,5,6,7,8,9]])).flatten)
      = [[1,2,3,4],[5,6,7,8],[9]] := by decide
/-- a file ending exactly on the piece boundary followed by a trailing empty file -/
example : mapPieces 2 2 [2, 2, 0] = [[(0, 0, some 2)], [(1, 0, some 2), (2, 0, none)]] := by decide

/-- Every node produced by `_map_pieces` – for ANY piece length, number of pieces and list of
    lengths, also inconsistent ones – addresses an existing file and a range inside it
    (`start ≤ stop ≤ length`), so `get_part` never reads with a negative count. -/
theorem mapPieces_wf (pl n : Nat) (lengths : List Nat) :
    ∀ p ∈ mapPieces pl n lengths, ∀ nd ∈ p, ∃ len, lengths[nd.1]? = some len ∧ nd.2.1 ≤ len ∧
      ∀ e, nd.2.2 = some e → nd.2.1 ≤ e ∧ e ≤ len := by
  intro p hp nd hnd
  have hmap : (lengths.map zeros).map List.length = lengths := by
    rw [List.map_map]; conv => rhs; rw [← List.map_id lengths]
    apply List.map_congr_left; intro a _; simp
  have := mapPieces_nodeOK pl n (lengths.map zeros)
  rw [hmap] at this
  obtain ⟨f, hf, h1, h2⟩ := this p hp nd hnd
  rw [List.getElem?_map] at hf
  cases hl : lengths[nd.1]? with
  | none => rw [hl] at hf; cases hf
  | some len =>
    rw [hl] at hf
    simp at hf
    subst hf
    exact ⟨len, rfl, by simpa using h1, fun e he => by simpa using h2 e he⟩

example : mapPieces 4 5 [3, 0, 6] = [[(0, 0, none), (1, 0, none), (2, 0, some 1)],
      [(2, 1, some 5)], [(2, 5, none)], [], []] := by decide

/-- v2 / hybrid completeness.  If the filemap describes the search directories, the destination
    exists, and for every file record an intact same-name candidate exists (recorded length; its
    contents have the recorded merkle root, unless the file is empty), then for every record whose
    path `safe_join` accepts as `dp`: the file is counted, and `copypath(src, dp)` was called with
    a candidate `src` of the recorded name and length whose contents `d` have the recorded root
    (or the file is empty) – i.e. `shutil.copy(src, dp)` is in the trace, or at that point of the
    trace `dp` already existed with at least the recorded length. -/
theorem rebuild_v2_complete (rootOf : Bytes → Bytes) (ds : Nat) (fs : FS) (filemap : FileMap)
    (dest : Path) (files : List FileRec) (hd : CleanPath dest) (hr : DestReady fs dest)
    (hok : FilemapOK fs dest filemap) (hint : ∀ r ∈ files, IntactV2 rootOf fs filemap r)
    (r : FileRec) (hmem : r ∈ files) (dp : Path) (hsj : safeJoin dest r.full = some dp) :
    let res := matchV2 rootOf ds filemap dest fs files
    r.full ∈ res.2 ∧
    ∃ src cands d, filemap.lookup r.filename = some cands ∧ (src, r.length) ∈ cands ∧
      fs.readFile? src = some d ∧ d.length = r.length ∧ (r.length = 0 ∨ r.root = some (rootOf d)) ∧
      ∃ pre, pre <+: res.1 ∧ (Op.copy src dp ∈ res.1 ∨
        ((applyOps fs pre).ex dp = true ∧ r.length ≤ (applyOps fs pre).size ds dp)) := by
  intro res
  obtain ⟨h1, src, cands, d, h2, h3, h4, h5, h6, pre, h7, h8⟩ :=
    matchV2_complete_aux rootOf ds fs filemap dest hd hok files fs hr (fun _ _ => rfl) hint r hmem dp hsj
  refine ⟨h1, src, cands, d, h2, h3, h4, h5, h6, pre, h7, ?_⟩
  rcases h8 with h8 | ⟨h8, h9⟩
  · exact Or.inl h8
  · refine Or.inr ⟨h8, h9 ?_⟩
    obtain ⟨ext, hne, rfl⟩ := (safeJoin_within_dest dest hd _ _ hsj).1
    simp [hne]

/-- the hypotheses hold in the example world for the record `n/f` (3 bytes, root of 1 2 3) -/
example : CleanPath [[100]] ∧ DestReady Ex.fs [[100]] ∧ FilemapOK Ex.fs [[100]] Ex.fmap ∧
    (∀ r ∈ [(⟨[110,47,102], [102], 3, some [1,2,3], false⟩ : FileRec)], IntactV2 id Ex.fs Ex.fmap r) := by
  refine ⟨by decide, by decide, Ex.filemapOK, ?_⟩
  intro r hr
  simp at hr
  subst hr
  exact ⟨[([[115],[102]], 3)], [[115],[102]], [1,2,3], by decide, by decide, by decide, fun _ => rfl⟩

/-- `_find_matches` finds a match whenever one exists: if for every path node of a piece that is
    not a padding node there is a readable same-name candidate of the recorded length with
    contents `contents pn` (e.g. an intact copy), and the recorded digest is the SHA-1 of the
    concatenation of what the nodes stand for – the node's range of these contents, and
    `stop - start` zero bytes for a padding node (`nodePart`) – then the search returns `True`, no
    matter how many other same-name same-size candidates are enumerated before.  Padding nodes
    need no candidate. -/
theorem findMatches_complete (H1 : Bytes → Bytes) (fs : FS) (filemap : FileMap) (dest : Path)
    (piece : Bytes) (paths : List PathNode) (contents : PathNode → Bytes)
    (hc : ∀ pn ∈ paths, pn.file.pad = false → ∃ cands loc, filemap.lookup pn.file.filename = some cands ∧
      (loc, pn.file.length) ∈ cands ∧ fs.readFile? loc = some (contents pn))
    (hp : piece = H1 ((paths.map (fun pn => nodePart pn (contents pn))).flatten)) :
    (findMatches H1 fs filemap dest piece paths []).isSome := by
  have : ∃ choice, Combo fs filemap paths choice ∧
      comboData paths choice = (paths.map (fun pn => nodePart pn (contents pn))).flatten := by
    clear hp
    induction paths with
    | nil => exact ⟨[], trivial, rfl⟩
    | cons pn ps ih =>
      obtain ⟨choice, h1, h2⟩ := ih (fun x hx => hc x (List.mem_cons_of_mem _ hx))
      cases hpad : pn.file.pad with
      | true =>
        exact ⟨([], contents pn) :: choice,
          ⟨fun hf => absurd (hpad.symm.trans hf) (by decide), h1⟩, by simp [comboData, h2]⟩
      | false =>
        obtain ⟨cands, loc, hl, hm, hread⟩ := hc pn List.mem_cons_self hpad
        exact ⟨(loc, contents pn) :: choice, ⟨fun _ => ⟨cands, _, hl, hm, rfl, hread⟩, h1⟩,
          by simp [comboData, h2]⟩
  obtain ⟨choice, h1, h2⟩ := this
  exact findMatches_complete_combo H1 fs filemap dest piece paths choice [] h1 (by simp [h2, hp])

/-- in the decoy world the second half `[3,4]` of `f` is found although the decoy `1 2 9 9` is
    tried first -/
example : findMatches id Ex.fs2 Ex.fmap2 [[100]] [3,4] [⟨0, 2, none, ⟨[102], [102], 4, none, false⟩⟩] []
    = some [([[115],[102]], [[100],[102]])] := by decide

/-- v1 completeness (partial, see the note below).  Let `orig` be the original contents of the
    entries of `info["files"]` – a padding entry (`attr = "p"`, BEP 47) standing for zero bytes
    (`PadsAreZeros`) –, the metafile record their lengths and the SHA-1 (`H1`) of the successive
    `pl`-slices of their concatenation (at least one byte), the filemap describe the search
    directories, the destination exist, and an intact same-name copy of every file that is not a
    padding entry be among the candidates (`IntactV1`; nothing is required for padding entries).
    Then
    (1) every non-padding file record whose path `safe_join` accepts is counted and its destination path
        exists after the rebuild – whatever decoys there are; and
    (2) PROVIDED the digest is collision free (`hinj`) and there is no partial decoy (`hnd`: a
        same-name same-size candidate that agrees with the original on the range of the file
        covered by some piece is identical to the original), every copy that is made takes a file
        with exactly the original contents of the file it is placed as.
    Without `hnd` (2) is false: `v1_decoy_witness` (known finding KF-C13-1).
    This version makes no assumption about what the destination already contains or about the
    file paths; `rebuild_v1_complete` below proves the full statement (weakest decoy hypothesis,
    final contents) for a fresh destination. -/
theorem rebuild_v1_complete_partial (H1 : Bytes → Bytes) (ds : Nat) (fs : FS) (filemap : FileMap)
    (dest : Path) (pl : Nat) (hpl : 0 < pl) (files : List FileRec) (orig : List Bytes)
    (hd : CleanPath dest) (hr : DestReady fs dest) (hok : FilemapOK fs dest filemap)
    (hlens : files.map (·.length) = orig.map List.length) (hne : orig.flatten ≠ [])
    (hint : IntactV1 fs filemap files orig) (hpads : PadsAreZeros files orig) :
    let pieces := (chunks pl orig.flatten).map H1
    let res := matchV1 H1 ds fs filemap dest pl pieces files
    (∀ r ∈ files, r.pad = false → ∀ dp, safeJoin dest r.full = some dp →
      r.full ∈ res.2 ∧ ((applyOps fs res.1) dp).isSome) ∧
    ((∀ a b, H1 a = H1 b → a = b) → NoPartialDecoy fs filemap (v1PieceNodes pl pieces files) orig →
      ∀ src dst, Op.copy src dst ∈ res.1 →
        ∃ r ∈ files, ∃ (i : Nat) (o : Bytes), files[i]? = some r ∧ r.pad = false ∧
          safeJoin dest r.full = some dst ∧ orig[i]? = some o ∧ fs.readFile? src = some o) := by
  intro pieces res
  constructor
  · intro r hrm hrp dp hsj
    have hc := matchV1_complete H1 ds fs filemap dest pl hpl files orig hd hr hok hlens hne hint hpads r hrm
      hrp (by rw [hsj]; rfl)
    refine ⟨hc, ?_⟩
    obtain ⟨dp', h1, h2⟩ := matchV1Loop_present H1 ds filemap dest _ fs []
      (destReady_ex_prefix hr List.nil_prefix) r.full hc
    rw [hsj] at h1
    injection h1 with h1
    subst h1
    exact h2
  · intro hinj hnd src dst h
    exact matchV1_copies_correct H1 hinj ds fs filemap dest pl hpl files orig hd hr hok hlens hint hpads hnd
      src dst h

/-- all hypotheses, the no-decoy one included, hold in the example world (`/s/f` = 1 2 3 is the only
    candidate) for the single-file torrent `n/f`, piece length 4, `H1` = identity -/
example : IntactV1 Ex.fs Ex.fmap [⟨[110,47,102], [102], 3, none, false⟩] [[1,2,3]] ∧
    NoPartialDecoy Ex.fs Ex.fmap (v1PieceNodes 4 [[1,2,3]] [⟨[110,47,102], [102], 3, none, false⟩]) [[1,2,3]] := by
  constructor
  · intro i r h _
    cases i with
    | zero =>
      simp at h; subst h
      exact ⟨[([[115],[102]], 3)], [[115],[102]], [1,2,3], by decide, by decide, by decide, by decide⟩
    | succ i => simp at h
  · have hv : v1PieceNodes 4 [[1,2,3]] [⟨[110,47,102], [102], 3, none, false⟩]
        = [([1,2,3], [⟨0, 0, none, ⟨[110,47,102], [102], 3, none, false⟩⟩])] := by decide
    rw [hv]
    intro pp hpp pn hpn _ cands loc d o hl hm hread ho _
    simp at hpp; subst hpp
    simp at hpn; subst hpn
    obtain ⟨_, rfl⟩ := Ex.lookup_single hl
    simp at hm; subst hm
    simp at ho; subst ho
    have : Ex.fs.readFile? [[115],[102]] = some [1,2,3] := by decide
    rw [this] at hread
    injection hread with hread

/-- KF-C13-1, concretely.  In the decoy world (`/s/k/f` = 1 2 9 9 enumerated before the intact
    `/s/f` = 1 2 3 4; single-file torrent `f`, piece length 2, `H1` = identity – collision free)
    all hypotheses of `rebuild_v1_complete_partial` except the no-decoy one hold, yet the rebuild
    copies the DECOY to `/d/f`, counts the file, and never looks at the second piece: the
    destination ends up holding 1 2 9 9. -/
theorem v1_decoy_witness :
    CleanPath [[100]] ∧ DestReady Ex.fs2 [[100]] ∧ FilemapOK Ex.fs2 [[100]] Ex.fmap2 ∧
    IntactV1 Ex.fs2 Ex.fmap2 [⟨[102], [102], 4, none, false⟩] [[1,2,3,4]] ∧
    (chunks 2 ([[1,2,3,4]] : List Bytes).flatten).map id = [[1,2],[3,4]] ∧
    matchV1 id 4096 Ex.fs2 Ex.fmap2 [[100]] 2 [[1,2],[3,4]] [⟨[102], [102], 4, none, false⟩]
      = ([Op.copy [[115],[107],[102]] [[100],[102]]], [[102]]) ∧
    applyOps Ex.fs2 [Op.copy [[115],[107],[102]] [[100],[102]]] [[100],[102]] = some (.file [1,2,9,9]) := by
  refine ⟨by decide, by decide, Ex.filemapOK2, Ex.intactV1_2, ?_, by decide, by decide⟩
  simp [Ex.chunks_2]

/-- the hypothesis that fails in the decoy world is exactly the no-decoy one: the decoy agrees with
    the original on the range `[0, 2)` covered by the first piece -/
example : ¬ NoPartialDecoy Ex.fs2 Ex.fmap2
    (v1PieceNodes 2 [[1,2],[3,4]] [⟨[102], [102], 4, none, false⟩]) [[1,2,3,4]] := by
  intro h
  have := h ([1,2], [⟨0, 0, some 2, ⟨[102], [102], 4, none, false⟩⟩]) (by decide)
    ⟨0, 0, some 2, ⟨[102], [102], 4, none, false⟩⟩ (by decide) rfl
    [([[115], [107], [102]], 4), ([[115], [102]], 4)] [[115],[107],[102]] [1,2,9,9] [1,2,3,4]
    (by decide) (by decide) (by decide) (by decide) (by decide)
  exact absurd this (by decide)

/-- … and so does the weaker hypothesis of `rebuild_v1_complete`: the decoy is enumerated before
    the intact copy and agrees with it on the first piece -/
example : ¬ NoFirstPieceDecoy Ex.fs2 Ex.fmap2
    (v1PieceNodes 2 [[1,2],[3,4]] [⟨[102], [102], 4, none, false⟩]) [[1,2,3,4]] := by
  intro h
  have := h [] ([1,2], [⟨0, 0, some 2, ⟨[102], [102], 4, none, false⟩⟩])
    [([3,4], [⟨0, 2, some 4, ⟨[102], [102], 4, none, false⟩⟩])] (by decide)
    ⟨0, 0, some 2, ⟨[102], [102], 4, none, false⟩⟩ (by decide) rfl (by simp)
    [([[115], [107], [102]], 4), ([[115], [102]], 4)] [([[115], [107], [102]], 4)] ([[115], [102]], 4) []
    [1,2,3,4] (by decide) (by decide) (by decide) (by decide) (by decide)
    ([[115], [107], [102]], 4) (by decide) (by decide) [1,2,9,9] (by decide) (by decide)
  exact absurd this (by decide)

/-- v1 completeness, full statement with the exact hypothesis of KF-C13-1.  Let `orig` be the
    original contents (padding entries standing for zeros, `PadsAreZeros`; "file" below means an
    entry that is not a padding entry – nothing is required of or done for padding entries), the
    metafile honest (recorded lengths; `H1` of the successive `pl`-slices,
    at least one byte), `H1` collision free, the filemap describe the search directories, an intact
    same-name copy of every file be among the candidates, the destination exist, nothing exist yet
    at the accepted destination paths (`DestFresh`), and the accepted paths of different records
    be different and not nested (`DestsSeparate`).  Assume further (`NoFirstPieceDecoy`) that for
    the FIRST piece covering a file no same-name same-size candidate ENUMERATED BEFORE an intact
    copy agrees with the original on the range of the file that this piece covers (unless it is
    identical to the original).  Then
    (1) after the rebuild every accepted file is a regular file at its assigned path with exactly
        its original contents, and it is counted;
    (2) every `shutil.copy` that is executed copies a file with the original contents of the file
        it is placed as (later pieces may select a decoy again, but that call is skipped because
        the destination already has the full length). -/
theorem rebuild_v1_complete (H1 : Bytes → Bytes) (hinj : ∀ a b, H1 a = H1 b → a = b) (ds : Nat) (fs : FS)
    (filemap : FileMap) (dest : Path) (pl : Nat) (hpl : 0 < pl) (files : List FileRec) (orig : List Bytes)
    (hd : CleanPath dest) (hr : DestReady fs dest) (hok : FilemapOK fs dest filemap)
    (hlens : files.map (·.length) = orig.map List.length) (hne : orig.flatten ≠ [])
    (hint : IntactV1 fs filemap files orig) (hpads : PadsAreZeros files orig)
    (hsep : DestsSeparate dest files) (hfresh : DestFresh fs dest files)
    (hF : NoFirstPieceDecoy fs filemap (v1PieceNodes pl ((chunks pl orig.flatten).map H1) files) orig) :
    let res := matchV1 H1 ds fs filemap dest pl ((chunks pl orig.flatten).map H1) files
    (∀ (i : Nat) (r : FileRec) (dp : Path), files[i]? = some r → r.pad = false →
      safeJoin dest r.full = some dp →
      ∃ o, orig[i]? = some o ∧ applyOps fs res.1 dp = some (.file o) ∧ r.full ∈ res.2) ∧
    (∀ src dst, Op.copy src dst ∈ res.1 →
      ∃ r ∈ files, ∃ (i : Nat) (o : Bytes), files[i]? = some r ∧ r.pad = false ∧
        safeJoin dest r.full = some dst ∧ orig[i]? = some o ∧ fs.readFile? src = some o) := by
  intro res
  obtain ⟨h1, h2⟩ := matchV1_restores H1 hinj ds fs filemap dest pl hpl files orig hd hr hok hlens hne
    hint hpads hsep hfresh hF
  refine ⟨?_, h2⟩
  intro i r dp hfi hrp hsj
  obtain ⟨o, ho, hfin⟩ := h1 i r dp hfi hrp hsj
  exact ⟨o, ho, hfin, matchV1_complete H1 ds fs filemap dest pl hpl files orig hd hr hok hlens hne hint hpads r
    (List.mem_of_getElem? hfi) hrp (by rw [hsj]; rfl)⟩

/-- all hypotheses hold in the decoy world when the original `/s/f` is enumerated BEFORE the decoy
    `/s/k/f` (`Ex.fmap3`) – although the decoy agrees with the original on the first piece; the
    original is placed: `/d/f` = 1 2 3 4 -/
example : CleanPath [[100]] ∧ DestReady Ex.fs2 [[100]] ∧ FilemapOK Ex.fs2 [[100]] Ex.fmap3 ∧
    IntactV1 Ex.fs2 Ex.fmap3 [⟨[102], [102], 4, none, false⟩] [[1,2,3,4]] ∧
    DestsSeparate [[100]] [⟨[102], [102], 4, none, false⟩] ∧ DestFresh Ex.fs2 [[100]] [⟨[102], [102], 4, none, false⟩] ∧
    NoFirstPieceDecoy Ex.fs2 Ex.fmap3 (v1PieceNodes 2 [[1,2],[3,4]] [⟨[102], [102], 4, none, false⟩]) [[1,2,3,4]] ∧
    (let res := matchV1 id 4096 Ex.fs2 Ex.fmap3 [[100]] 2 [[1,2],[3,4]] [⟨[102], [102], 4, none, false⟩]
     res = ([Op.copy [[115],[102]] [[100],[102]]], [[102]]) ∧
     applyOps Ex.fs2 res.1 [[100],[102]] = some (.file [1,2,3,4])) :=
  ⟨by decide, by decide, Ex.filemapOK3, Ex.intactV1_3, Ex.destsSeparate_single _ _, Ex.destFresh_2,
    Ex.noFirstPieceDecoy_3, by decide⟩

/-- a metafile with a padding entry (`Rebuild.Ex.filesP`: `T/a` = 1 2 3, the padding entry
    `T/.pad/1` of 1 byte, `T/b` = 5 6; piece length 4, so the pieces are 1 2 3 0 | 5 6): the
    hypotheses about the payload hold – no candidate exists or is needed for the padding entry – and
    the rebuild restores `T/a` and `T/b` with their original contents; nothing is created for the
    padding entry and it is not counted -/
example : FilemapOK Ex.fsP [[100]] Ex.fmapP ∧ IntactV1 Ex.fsP Ex.fmapP Ex.filesP Ex.origP ∧
    PadsAreZeros Ex.filesP Ex.origP ∧ Ex.filesP.map (·.length) = Ex.origP.map List.length ∧
    (chunks 4 Ex.origP.flatten).map id = [[1,2,3,0],[5,6]] ∧
    (let res := matchV1 id 4096 Ex.fsP Ex.fmapP [[100]] 4 [[1,2,3,0],[5,6]] Ex.filesP
     res = ([Op.mkdir [[100],[84]], Op.copy [[115],[97]] [[100],[84],[97]],
             Op.copy [[115],[98]] [[100],[84],[98]]], [[84,47,97], [84,47,98]]) ∧
     applyOps Ex.fsP res.1 [[100],[84],[97]] = some (.file [1,2,3]) ∧
     applyOps Ex.fsP res.1 [[100],[84],[98]] = some (.file [5,6]) ∧
     applyOps Ex.fsP res.1 [[100],[84],[46,112,97,100]] = none) :=
  ⟨Ex.filemapOKP, Ex.intactV1_P, Ex.padsAreZeros_P, by decide, by simp [Ex.chunks_P], by decide⟩

/-- v1: every file that is counted is a non-padding record with an accepted destination path
    strictly below the destination directory, and that path exists when the rebuild is over. -/
theorem counted_are_present_v1 (H1 : Bytes → Bytes) (ds : Nat) (fs : FS) (filemap : FileMap)
    (dest : Path) (pl : Nat) (pieces : List Bytes) (files : List FileRec)
    (hd : CleanPath dest) (hroot : (fs []).isSome = true) :
    let res := matchV1 H1 ds fs filemap dest pl pieces files
    ∀ f ∈ res.2, ∃ r ∈ files, r.pad = false ∧ f = r.full ∧ ∃ dp, safeJoin dest r.full = some dp ∧
      StrictlyBelow dest dp ∧ ((applyOps fs res.1) dp).isSome := by
  intro res f hf
  obtain ⟨r, hr, hfr, _, hpad⟩ := matchV1_counted H1 ds fs filemap dest pl pieces files f hf
  obtain ⟨dp, h1, h2⟩ := matchV1Loop_present H1 ds filemap dest _ fs [] hroot f hf
  exact ⟨r, hr, hpad, hfr, dp, hfr ▸ h1, (safeJoin_within_dest dest hd _ _ h1).1, h2⟩

/-- the file counted in the v1 example is present afterwards -/
example : let res := matchV1 id 4096 Ex.fs Ex.fmap [[100]] 4 [[1,2,3]] [⟨[110,47,102], [102], 3, none, false⟩]
    res.2 = [[110,47,102]] ∧ (applyOps Ex.fs res.1) [[100],[110],[102]] = some (.file [1,2,3]) := by decide

/-- v2 / hybrid: the same, assuming every filemap candidate is (still) a regular file – an empty
    v2 file is matched by name and size without being opened. -/
theorem counted_are_present_v2 (rootOf : Bytes → Bytes) (ds : Nat) (fs : FS) (filemap : FileMap)
    (dest : Path) (files : List FileRec) (hd : CleanPath dest) (hroot : (fs []).isSome = true)
    (hfiles : ∀ name cands, filemap.lookup name = some cands → ∀ c ∈ cands, (fs.readFile? c.1).isSome) :
    let res := matchV2 rootOf ds filemap dest fs files
    ∀ f ∈ res.2, ∃ r ∈ files, f = r.full ∧ ∃ dp, safeJoin dest r.full = some dp ∧
      StrictlyBelow dest dp ∧ ((applyOps fs res.1) dp).isSome := by
  intro res f hf
  obtain ⟨r, hr, hfr, dp, h1, h2⟩ := matchV2_present rootOf ds filemap dest files fs hroot hfiles f hf
  exact ⟨r, hr, hfr, dp, h1, (safeJoin_within_dest dest hd _ _ h1).1, h2⟩

/-- the file counted in the example world is present afterwards -/
example : let res := matchV2 id 4096 Ex.fmap [[100]] Ex.fs [⟨[110,47,102], [102], 3, some [1,2,3], false⟩]
    res.2 = [[110,47,102]] ∧ (applyOps Ex.fs res.1) [[100],[110],[102]] = some (.file [1,2,3]) := by decide

end TorrentVerif.Props.C13

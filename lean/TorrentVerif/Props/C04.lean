import TorrentVerif.Proofs.Recheck
import TorrentVerif.Proofs.RecheckFull
import TorrentVerif.Model.ExceptEq
/-
  C04 — recheck never reports 100 % for damaged or incomplete content.
  Property theorems only; helper lemmas live in `Proofs/Recheck.lean`.

  The reported number is `(matched / consumed) * 100`; the model returns `(matched, consumed)`,
  "strictly less than 100 %" is `matched < consumed`.
  The chain is: damage (flip / truncate / remove, in a region whose described bytes are not all
  zero) ⇒ the zero-filled DATA of some piece differs from the described data
  (`flip_changes_chunk`, `truncate_changes_chunk`, `remove_changes_chunk`: pure list facts,
  proved) ⇒ the DIGEST of that piece differs from the recorded one (collision resistance of
  SHA-1 / SHA-256: NOT provable for an arbitrary function, it is the explicit hypothesis
  `hbad` / `hcr` below) ⇒ `matched < consumed` (`damage_noticed_*`, proved).
-/
namespace TorrentVerif.Props.C04
open TorrentVerif

/-- v1: if for some piece `i` of the payload the digest of the zero-filled on-disk bytes in
    that piece's range differs from the `i`-th recorded digest, then `matched < consumed`: the
    reported percentage is strictly below 100, wherever the piece lies (first, middle, final
    short piece, after empty files, shared by several files). -/
theorem damage_noticed_v1 (H1 : Bytes → Bytes) (pl : Nat) (hpl : 0 < pl) (recorded : Bytes)
    (entries : List (Nat × Option Bytes)) (hd : Spec.NotLonger entries) (i : Nat)
    (hi : i * pl < (entries.flatMap Spec.zeroFill).length)
    (hbad : H1 (pieceBytes pl (entries.flatMap Spec.zeroFill) i) ≠ digestSlice 20 recorded i) :
    (Impl.iterHashes (Impl.feedCheck H1 pl recorded entries)).1
      < (Impl.iterHashes (Impl.feedCheck H1 pl recorded entries)).2 := by
  rw [Impl.iterHashes_eq_ratio, Impl.feedCheck_eq_v1Check H1 pl hpl recorded entries hd]
  have hget := Impl.v1Check_getElem? H1 pl hpl recorded entries i
  rw [if_pos hi] at hget
  have hmem := List.mem_of_getElem? hget
  apply Spec.ratio_lt _ _ hmem
  · simpa using hbad
  · simp only; omega

/-- toy digest; the last file (the final short piece) is missing and described as non-zero:
    piece 1 fails, 4 of 5 bytes match -/
example :
    Impl.iterHashes (Impl.feedCheck (fun b => List.replicate 20 (b.headD 0)) 4
      (List.replicate 20 1 ++ List.replicate 20 5) [(4, some [1,2,3,4]), (0, none), (1, none)]) = (4, 5) := by
  decide

/-- Flipped bytes: replacing the content `d` of one file by a different content `d'` of the
    same length (any number of flipped bytes at any offsets), all other files as they are,
    changes the zero-filled data of at least one piece.  Pure list fact. -/
theorem flip_changes_chunk (pl : Nat) (hpl : 0 < pl) (pre post : List (Nat × Option Bytes))
    (len : Nat) (d d' : Bytes) (hl : d.length ≤ len) (hs : d'.length = d.length) (hne : d' ≠ d) :
    ∃ i, i * pl < ((pre ++ (len, some d') :: post).flatMap Spec.zeroFill).length ∧
      pieceBytes pl ((pre ++ (len, some d') :: post).flatMap Spec.zeroFill) i
        ≠ pieceBytes pl ((pre ++ (len, some d) :: post).flatMap Spec.zeroFill) i := by
  obtain ⟨h1, h2⟩ := Spec.stream_replace pre post len (some d') (some d)
    (Spec.zeroFill_flip_ne len d d' hl hs hne)
  exact exists_piece_ne pl hpl _ _ h1 h2

/-- last byte of the middle file flipped, between a two-byte file and an absent one -/
example : ∃ i, i * 4 < ([(2, some [9,9]), (3, some [1,2,7]), (1, none)].flatMap Spec.zeroFill).length ∧
    pieceBytes 4 ([(2, some [9,9]), (3, some [1,2,7]), (1, none)].flatMap Spec.zeroFill) i
      ≠ pieceBytes 4 ([(2, some [9,9]), (3, some [1,2,3]), (1, none)].flatMap Spec.zeroFill) i :=
  flip_changes_chunk 4 (by decide) [(2, some [9,9])] [(1, none)] 3 [1,2,3] [1,2,7]
    (by decide) (by decide) (by decide)

/-- Truncation: cutting one file from `d` down to its first `n` bytes, where the part cut off
    is not all zero (some byte `b ≠ 0` at an offset `k ≥ n`), changes the zero-filled data of
    at least one piece.  (If the cut-off part is all zero the zero-filled data is unchanged —
    by design an absent all-zero region is indistinguishable.)  Pure list fact. -/
theorem truncate_changes_chunk (pl : Nat) (hpl : 0 < pl) (pre post : List (Nat × Option Bytes))
    (len : Nat) (d : Bytes) (n k : Nat) (b : UInt8) (hl : d.length ≤ len) (hnk : n ≤ k)
    (hk : d[k]? = some b) (hb : b ≠ 0) :
    ∃ i, i * pl < ((pre ++ (len, some (d.take n)) :: post).flatMap Spec.zeroFill).length ∧
      pieceBytes pl ((pre ++ (len, some (d.take n)) :: post).flatMap Spec.zeroFill) i
        ≠ pieceBytes pl ((pre ++ (len, some d) :: post).flatMap Spec.zeroFill) i := by
  obtain ⟨h1, h2⟩ := Spec.stream_replace pre post len (some (d.take n)) (some d)
    (Spec.zeroFill_truncate_ne len d n k b hl hnk hk hb)
  exact exists_piece_ne pl hpl _ _ h1 h2

/-- [1,0,3] cut to its first byte: the cut-off part [0,3] is not all zero -/
example : ∃ i, i * 4 < ([(2, some [9,9]), (3, some ([1,0,3].take 1))].flatMap Spec.zeroFill).length ∧
    pieceBytes 4 ([(2, some [9,9]), (3, some ([1,0,3].take 1))].flatMap Spec.zeroFill) i
      ≠ pieceBytes 4 ([(2, some [9,9]), (3, some [1,0,3])].flatMap Spec.zeroFill) i :=
  truncate_changes_chunk 4 (by decide) [(2, some [9,9])] [] 3 [1,0,3] 1 2 3
    (by decide) (by decide) (by decide) (by decide)

/-- Removal: deleting one file whose described content is not all zero (some byte `b ≠ 0`)
    changes the zero-filled data of at least one piece.  Pure list fact. -/
theorem remove_changes_chunk (pl : Nat) (hpl : 0 < pl) (pre post : List (Nat × Option Bytes))
    (len : Nat) (d : Bytes) (k : Nat) (b : UInt8) (hl : d.length ≤ len)
    (hk : d[k]? = some b) (hb : b ≠ 0) :
    ∃ i, i * pl < ((pre ++ (len, none) :: post).flatMap Spec.zeroFill).length ∧
      pieceBytes pl ((pre ++ (len, none) :: post).flatMap Spec.zeroFill) i
        ≠ pieceBytes pl ((pre ++ (len, some d) :: post).flatMap Spec.zeroFill) i := by
  obtain ⟨h1, h2⟩ := Spec.stream_replace pre post len none (some d)
    (Spec.zeroFill_remove_ne len d k b hl hk hb)
  exact exists_piece_ne pl hpl _ _ h1 h2

/-- the first file [0,7] removed -/
example : ∃ i, i * 4 < ([(2, none), (3, some [1,2,3])].flatMap Spec.zeroFill).length ∧
    pieceBytes 4 ([(2, none), (3, some [1,2,3])].flatMap Spec.zeroFill) i
      ≠ pieceBytes 4 ([(2, some [0,7]), (3, some [1,2,3])].flatMap Spec.zeroFill) i :=
  remove_changes_chunk 4 (by decide) [] [(3, some [1,2,3])] 2 [0,7] 1 7
    (by decide) (by decide) (by decide)

/-- End to end, v1.  A well-formed metafile describes the files `data` (exact lengths, `pieces`
    = digests of the slices of the concatenated files).  The disk holds any damaged state
    with the same file list (files flipped, truncated, removed — any number of damages at
    once) whose zero-filled stream differs from the described payload.  Provided the digest
    does not collide on a damaged piece (`hcr`: wherever the data of a piece differs from the
    described data, so does its digest — collision resistance, an explicit hypothesis), the
    result is `matched < consumed`: strictly less than 100 %. -/
theorem damaged_payload_noticed_v1 (H1 : Bytes → Bytes) (hH : ∀ b, (H1 b).length = 20) (pl : Nat)
    (hpl : 0 < pl) (data : List Bytes) (entries : List (Nat × Option Bytes))
    (hd : Spec.NotLonger entries) (hlen : entries.map (·.1) = data.map List.length)
    (hdamaged : entries.flatMap Spec.zeroFill ≠ data.flatten)
    (hcr : ∀ i, pieceBytes pl (entries.flatMap Spec.zeroFill) i ≠ pieceBytes pl data.flatten i →
      H1 (pieceBytes pl (entries.flatMap Spec.zeroFill) i) ≠ H1 (pieceBytes pl data.flatten i)) :
    (Impl.iterHashes (Impl.feedCheck H1 pl ((chunks pl data.flatten).map H1).flatten entries)).1
      < (Impl.iterHashes (Impl.feedCheck H1 pl ((chunks pl data.flatten).map H1).flatten entries)).2 := by
  have hl : (entries.flatMap Spec.zeroFill).length = data.flatten.length := by
    rw [Spec.flatMap_zeroFill_length, hlen, List.length_flatten]
  obtain ⟨i, hi, hne⟩ := exists_piece_ne pl hpl _ _ hl hdamaged
  apply damage_noticed_v1 H1 pl hpl _ entries hd i hi
  have hrec : digestSlice 20 ((chunks pl data.flatten).map H1).flatten i
      = H1 (pieceBytes pl data.flatten i) := by
    apply digestSlice_flatten 20 _ _ i
    · rw [List.getElem?_map, chunks_getElem?_piece pl hpl, if_pos (by omega)]; rfl
    · intro x hx
      obtain ⟨c, _, rfl⟩ := List.mem_map.mp hx
      exact hH c
  rw [hrec]
  exact hcr i hne

/-- toy digest = the piece itself zero-extended to 20 bytes (injective on pieces of ≤ 20
    bytes, so `hcr` holds): second file truncated from [4,5,6] to [4]: 4 of 6 bytes match -/
example :
    Impl.iterHashes (Impl.feedCheck (fun b => (b ++ zeros 20).take 20) 4
      ((chunks 4 [1,2,3,4,5,6]).map (fun b => (b ++ zeros 20).take 20)).flatten
      [(3, some [1,2,3]), (3, some [4])]) = (4, 6) := by
  simp [chunks]; decide

/-- v2 / hybrid: if for some piece `k` of some file `f` the computed digest (merkle hash of
    the on-disk bytes of that piece, or the `Padder` digest where the disk data does not reach)
    differs from the `k`-th recorded digest of that file — i.e. the reference verdict is
    negative — then `matched < consumed`: strictly less than 100 %, wherever the file and the
    piece lie (after empty files, last file, last piece). -/
theorem damage_noticed_v2 (H : Bytes → Bytes) (B hs bpp : Nat) (hB : 0 < B) (hbpp : 0 < bpp)
    (hhs : 0 < hs) (pre post : List Impl.V2File) (f : Impl.V2File)
    (hok : ∀ g ∈ pre ++ f :: post, Impl.FileOK hs (bpp * B) g) (k : Nat)
    (hk : k < cdiv f.1 (bpp * B)) (hbad : (Spec.v2Verdict H B hs bpp f k).1 = false) :
    (Impl.iterHashes (Impl.hashCheck H B hs bpp (pre ++ f :: post))).1
      < (Impl.iterHashes (Impl.hashCheck H B hs bpp (pre ++ f :: post))).2 := by
  have hpl : 0 < bpp * B := Nat.mul_pos hbpp hB
  rw [Impl.iterHashes_eq_ratio, Impl.hashCheck_eq_v2Check H B hs bpp hB hbpp hhs _ hok]
  have hmem := List.mem_of_getElem? (Impl.v2Check_getElem? H B hs bpp pre post f k hk)
  apply Spec.ratio_lt _ _ hmem hbad
  have := (Impl.lt_cdiv_iff k f.1 _ hpl).mp hk
  simp only [Spec.v2Verdict]
  omega

/-- the last file (one piece, compared with its root [9,9]) is absent: its verdict is negative,
    6 of 9 bytes match -/
example :
    (Spec.v2Verdict toyH 2 2 2 (3, [9,9], [], none) 0).1 = false ∧
    Impl.iterHashes (Impl.hashCheck toyH 2 2 2
      ([(6, [1,2], [1,2,5,6], some [1,2,3,4,5,6]), (0, [], [], some [])] ++ (3, [9,9], [], none) :: []))
      = (6, 9) := by
  decide +kernel

/-- v2 / hybrid, the data step.  Within one file, flipping bytes (same length), truncating
    (`d' = d.take n`) or removing it (`d' = []`, absent) in a way that changes the on-disk
    bytes at all changes the on-disk bytes of some piece of that file.  Pure list fact; from
    there to a different digest is collision resistance of the merkle / padder hash
    (hypothesis `hbad` of `damage_noticed_v2`). -/
theorem damage_changes_piece_v2 (pl : Nat) (hpl : 0 < pl) (d d' : Bytes) (hne : d' ≠ d) :
    ∃ k, pieceBytes pl d' k ≠ pieceBytes pl d k := by
  apply Classical.byContradiction
  intro hno
  apply hne
  rw [← chunks_flatten pl hpl d, ← chunks_flatten pl hpl d']
  congr 1
  apply List.ext_getElem?
  intro i
  have hi : pieceBytes pl d' i = pieceBytes pl d i := by
    apply Classical.byContradiction; intro h; exact hno ⟨i, h⟩
  rw [chunks_getElem?_piece pl hpl, chunks_getElem?_piece pl hpl, hi]
  have := pieceBytes_length pl d i
  have := pieceBytes_length pl d' i
  by_cases h1 : i * pl < d.length <;> by_cases h2 : i * pl < d'.length
  · rw [if_pos h1, if_pos h2]
  · rw [hi] at this; omega
  · rw [hi] at this; omega
  · rw [if_neg h1, if_neg h2]

example : ∃ k, pieceBytes 4 ([1,2,3,4,5,6,7].take 5) k ≠ pieceBytes 4 [1,2,3,4,5,6,7] k :=
  damage_changes_piece_v2 4 (by decide) _ _ (by decide)

/-- End to end, v2 / hybrid.  One file is described as `d` (length, root and layer as
    `FileHasher` records them for `d`); on disk it is flipped, truncated (`some d'`, not
    longer than `d`) or removed (`none`) so that its on-disk bytes differ from `d`; the other
    files are in scope but otherwise arbitrary (intact or damaged, any number of damages at
    once).  Provided the digest does not collide on a damaged piece (`hcr`: wherever the
    on-disk bytes of a piece differ from the described bytes, the computed digest — merkle
    hash of the on-disk bytes, or `Padder` digest where nothing is on disk — differs from the
    described piece's merkle hash: collision resistance, an explicit hypothesis; note that
    a removed or cut-off region that is all zero still differs here, the merkle hash of zero
    bytes not being the padder hash), the result is `matched < consumed`: less than 100 %. -/
theorem damaged_file_noticed_v2 (H H1 : Bytes → Bytes) (B hs bpp : Nat) (hB : 0 < B)
    (hbpp : 0 < bpp) (hhs : 0 < hs) (hH : ∀ b, (H b).length = hs)
    (pre post : List Impl.V2File) (d : Bytes) (disk : Option Bytes)
    (hlen : (disk.getD []).length ≤ d.length) (hdamaged : disk.getD [] ≠ d)
    (hok : ∀ g ∈ pre ++ post, Impl.FileOK hs (bpp * B) g)
    (hcr : ∀ k, pieceBytes (bpp * B) (disk.getD []) k ≠ pieceBytes (bpp * B) d k →
      (if k * (bpp * B) < (disk.getD []).length
        then Spec.pieceHash H B hs bpp (k == 0) (pieceBytes (bpp * B) (disk.getD []) k)
        else H (zeros (min (bpp * B) (d.length - k * (bpp * B)))))
        ≠ Spec.pieceHash H B hs bpp (k == 0) (pieceBytes (bpp * B) d k)) :
    (Impl.iterHashes (Impl.hashCheck H B hs bpp
        (pre ++ Impl.damagedFile H H1 B hs bpp d disk :: post))).1
      < (Impl.iterHashes (Impl.hashCheck H B hs bpp
        (pre ++ Impl.damagedFile H H1 B hs bpp d disk :: post))).2 := by
  have hpl : 0 < bpp * B := Nat.mul_pos hbpp hB
  obtain ⟨fok, hverdict⟩ := Impl.damagedFile_verdict H H1 B hs bpp hB hbpp hH d disk hlen
  obtain ⟨k, hk⟩ := damage_changes_piece_v2 (bpp * B) hpl d (disk.getD []) hdamaged
  have hkn : k < cdiv d.length (bpp * B) := by
    apply (Impl.lt_cdiv_iff k d.length _ hpl).mpr
    apply Classical.byContradiction; intro hge
    have e1 := (Impl.pieceBytes_eq_nil_iff _ hpl d k).mpr (by omega)
    have e2 := (Impl.pieceBytes_eq_nil_iff _ hpl (disk.getD []) k).mpr (by omega)
    exact hk (e2.trans e1.symm)
  apply damage_noticed_v2 H B hs bpp hB hbpp hhs pre post _ _ k hkn (hverdict k hkn (hcr k hk))
  intro g hg
  simp only [List.mem_append, List.mem_cons] at hg
  rcases hg with h | rfl | h
  · exact hok g (by simp [h])
  · exact fok
  · exact hok g (by simp [h])

/-- toy digest; [1,2,3,4,5,6,7] truncated to [1,2,3,4,5]: piece 1 differs, and its toy digest
    differs from the described one, so `hcr` holds there: 4 of 7 bytes match -/
example :
    Impl.iterHashes (Impl.hashCheck toyH 2 2 2
      ([] ++ Impl.damagedFile toyH toyH 2 2 2 [1,2,3,4,5,6,7] (some [1,2,3,4,5]) :: [])) = (4, 7) := by
  decide +kernel

/-! ### the whole `Checker` (`Model/RecheckFull`): metafile → file map → verdicts → result -/

open RF in
/-- Whole `Checker`, v1, v2 and hybrid.  Well-formed metafile (`Spec.plan` defined), disk in
    scope (nothing longer than recorded, a recorded digest per piece, no directory where a
    file is described), content argument resolved by `find_root` (root or parent), not the
    empty-single-file case.  If ANY piece verdict of the reference is negative — the digest
    of the zero-filled on-disk bytes of some piece of the stream (v1), or the merkle / padder
    digest of some piece of some file (v2, hybrid), differs from the recorded one — then the
    run succeeds with `matched < consumed`: strictly less than 100 %.  (From "bytes differ"
    to "digest differs" is collision resistance: `flip/truncate/remove_changes_chunk`,
    `damage_changes_piece_v2` above give the data step.) -/
theorem damage_noticed (H1 H : Bytes → Bytes) (B hs : Nat) (hhs : 0 < hs) (mf : BVal)
    (disk : Disk) (p : Spec.Plan) (argName : Bytes) (here : Option Node)
    (hplan : Spec.plan B mf disk = some p) (hscope : p.InScope B hs)
    (hroot : Impl.findRoot (Impl.infoOf mf) (Impl.nameOf mf) argName here = .ok disk)
    (hnodir : Spec.NoDirAtFile mf disk) (hne : ¬ Spec.EmptySingleV2 mf (isFile disk))
    (v : Bool × Nat) (hv : v ∈ p.verdicts H1 H B hs) (hneg : v.1 = false) :
    ∃ vs matched consumed,
      Impl.recheckMeta H1 H B hs mf argName here = .ok (vs, matched, consumed) ∧
      matched < consumed :=
  ⟨_, _, _,
    Spec.recheckMeta_of_plan H1 H B hs hhs mf disk p argName here hplan hscope hroot hnodir hne,
    Spec.ratio_lt _ v hv hneg (Spec.verdicts_size_pos H1 H B hs mf disk p hplan v hv)⟩

/-- hybrid metafile, last file `d/c` removed (content argument = root): its piece fails,
    7 of 10 bytes match; v1 metafile, last byte of the last file flipped (content argument =
    parent `h`): the final short piece fails, 4 of 7 -/
example :
    Impl.recheckMeta RF.Ex.h1 toyH 2 2 RF.Ex.hybridMeta [110]
        (some (.dir [([97], .file [1, 2, 3, 4, 5, 6, 7]), ([98], .file [])]))
      = .ok ([(true, 4), (true, 3), (false, 3)], 7, 10) ∧
    Impl.recheckMeta RF.Ex.h1 toyH 2 2 RF.Ex.v1Meta [104]
        (some (.dir [([110], .dir [([97], .file [1, 2, 3]), ([98], .file []),
          ([100], .dir [([99], .file [4, 9, 6, 7])])])]))
      = .ok ([(true, 4), (false, 3)], 4, 7) := by
  decide +kernel

end TorrentVerif.Props.C04

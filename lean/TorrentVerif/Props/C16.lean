import TorrentVerif.Proofs.Recheck
import TorrentVerif.Proofs.RecheckFull
import TorrentVerif.Model.ExceptEq
/-
  C16 — the percentage recheck reports is the exact share of bytes in verifying pieces;
  damage confined to one piece never changes the verdict on another piece.
  Property theorems only; helper lemmas live in `Proofs/Recheck.lean`.

  Scope (from the property): the on-disk data of a file is never longer than its recorded
  length (`Spec.NotLonger`); recorded digests are arbitrary byte strings; `H1` is arbitrary.
  The reported number is `(matched / consumed) * 100`; the model returns `(matched, consumed)`.
-/
namespace TorrentVerif.Props.C16
open TorrentVerif

/-- THE v1 refinement.  For every piece length > 0 and every list of files (recorded length,
    on-disk bytes or absent) — empty files anywhere, absent files, truncated files, files
    ending exactly on a piece boundary, many files inside one piece — the byte strings
    `FeedChecker.iter_pieces` hashes are exactly the successive piece-length slices of the
    concatenation of the files with absent data read as zeros: every piece once, in order,
    only the last one short, none empty. -/
theorem feed_eq_chunks (pl : Nat) (hpl : 0 < pl) (entries : List (Nat × Option Bytes))
    (hd : Spec.NotLonger entries) :
    Impl.feedPieces pl entries = chunks pl (entries.flatMap Spec.zeroFill) :=
  Impl.feedPieces_eq_chunks pl hpl entries hd

/-- a piece straddling three files (one empty, one absent, one truncated), a file ending on a
    piece boundary followed by an absent file, and a trailing short piece -/
example : Spec.NotLonger [(3, some [1,2,3]), (0, some []), (1, none), (4, some [4,5]), (2, none), (3, some [6,7,8])]
    ∧ Impl.feedPieces 4 [(3, some [1,2,3]), (0, some []), (1, none), (4, some [4,5]), (2, none), (3, some [6,7,8])]
      = [[1,2,3,0],[4,5,0,0],[0,0,6,7],[8]] := by
  constructor
  · simp [Spec.NotLonger]
  · decide

/-- The `(verifies?, size)` stream the v1 checker feeds into `Checker.iter_hashes` is the
    reference stream: piece `i` of the zero-filled concatenated payload against the `i`-th
    recorded 20-byte digest; and the pair `(matched, consumed)` from which the percentage is
    computed is (bytes in verifying pieces, bytes in all pieces) of that reference. -/
theorem recheck_ratio_v1 (H1 : Bytes → Bytes) (pl : Nat) (hpl : 0 < pl) (recorded : Bytes)
    (entries : List (Nat × Option Bytes)) (hd : Spec.NotLonger entries) :
    Impl.feedCheck H1 pl recorded entries = Spec.v1Check H1 pl recorded entries ∧
    Impl.iterHashes (Impl.feedCheck H1 pl recorded entries)
      = Spec.ratio (Spec.v1Check H1 pl recorded entries) := by
  have h := Impl.feedCheck_eq_v1Check H1 pl hpl recorded entries hd
  exact ⟨h, by rw [Impl.iterHashes_eq_ratio, h]⟩

/-- with a toy digest (first byte repeated 20 times): piece 0 verifies, piece 1 (zero-filled
    absent data) does not, so 4 of 6 bytes are matched -/
example :
    Impl.iterHashes (Impl.feedCheck (fun b => List.replicate 20 (b.headD 0)) 4
      (List.replicate 20 1 ++ List.replicate 20 5) [(3, some [1,2,3]), (3, none)]) = (4, 6) := by
  decide

/-- `consumed` is always the total recorded payload length: every byte is accounted for
    exactly once, whatever is on disk. -/
theorem consumed_total_v1 (H1 : Bytes → Bytes) (pl : Nat) (hpl : 0 < pl) (recorded : Bytes)
    (entries : List (Nat × Option Bytes)) (hd : Spec.NotLonger entries) :
    (Impl.iterHashes (Impl.feedCheck H1 pl recorded entries)).2 = (entries.map (·.1)).sum := by
  rw [(recheck_ratio_v1 H1 pl hpl recorded entries hd).2]
  simp only [Spec.ratio]
  rw [Spec.v1Check_sizes H1 pl hpl, Spec.flatMap_zeroFill_length]

example : (Impl.iterHashes (Impl.feedCheck (fun b => b) 4 [] [(3, some [1]), (0, none), (6, none)])).2 = 9 := by
  decide

/-- The verdict on piece `i`, explicitly: the checker produces a verdict for piece `i` exactly
    when `i * pl` lies inside the payload; its size is what is left of the payload, at most
    `pl`; it verifies iff the digest of bytes `[i*pl, (i+1)*pl)` of the zero-filled payload is
    the `i`-th recorded digest.  Nothing outside that byte range enters. -/
theorem verdict_explicit_v1 (H1 : Bytes → Bytes) (pl : Nat) (hpl : 0 < pl) (recorded : Bytes)
    (entries : List (Nat × Option Bytes)) (hd : Spec.NotLonger entries) (i : Nat) :
    (Impl.feedCheck H1 pl recorded entries)[i]? =
      if i * pl < (entries.flatMap Spec.zeroFill).length then
        some (decide (H1 (pieceBytes pl (entries.flatMap Spec.zeroFill) i)
                = digestSlice 20 recorded i),
              min pl ((entries.flatMap Spec.zeroFill).length - i * pl))
      else none := by
  rw [Impl.feedCheck_eq_v1Check H1 pl hpl recorded entries hd]
  exact Impl.v1Check_getElem? H1 pl hpl recorded entries i

example : (Impl.feedCheck (fun b => b) 4 [9] [(3, some [1]), (0, none), (6, none)])[2]? = some (false, 1) := by
  decide

/-- Locality: take two states of the disk for the same metafile (same recorded lengths and
    digests).  If the zero-filled bytes in the range of piece `i` are the same in both, then
    the verdict (and size) of piece `i` is the same in both — whatever was flipped, truncated
    or removed elsewhere.  So damage confined to one piece never changes another's verdict. -/
theorem verdict_local_v1 (H1 : Bytes → Bytes) (pl : Nat) (hpl : 0 < pl) (recorded : Bytes)
    (entries entries' : List (Nat × Option Bytes))
    (hd : Spec.NotLonger entries) (hd' : Spec.NotLonger entries')
    (hlen : entries.map (·.1) = entries'.map (·.1)) (i : Nat)
    (hsame : pieceBytes pl (entries.flatMap Spec.zeroFill) i
      = pieceBytes pl (entries'.flatMap Spec.zeroFill) i) :
    (Impl.feedCheck H1 pl recorded entries)[i]? = (Impl.feedCheck H1 pl recorded entries')[i]? := by
  rw [verdict_explicit_v1 H1 pl hpl recorded entries hd,
    verdict_explicit_v1 H1 pl hpl recorded entries' hd', hsame,
    Spec.flatMap_zeroFill_length, Spec.flatMap_zeroFill_length, hlen]

/-- second file removed: piece 0 (bytes 0..3) is untouched, its verdict is unchanged -/
example : pieceBytes 4 ([(4, some [1,2,3,4]), (3, some [5,6,7])].flatMap Spec.zeroFill) 0
    = pieceBytes 4 ([(4, some [1,2,3,4]), (3, none)].flatMap Spec.zeroFill) 0 := by
  decide

/-! ### v2 and hybrid (`HashChecker`; a hybrid metafile is rechecked through its v2 part) -/

/-- THE v2 / hybrid refinement.  `B` block size, `bpp` blocks per piece, `hs` digest size, all
    positive.  Scope (`Impl.FileOK`): no file on disk is longer than recorded, and the recorded
    piece string of a file (piece layer, or root for a file of at most one piece) has an entry
    for each of its pieces; its content is arbitrary.  Then for any list of files — empty
    files anywhere, absent, truncated, intact — the `(verifies?, size)` stream of
    `HashChecker` is the reference stream: file by file, one verdict per piece of the recorded
    length, sized `min pl (len − k·pl)`; the computed digest is the merkle hash of the on-disk
    bytes of that piece where the disk data reaches it and the `Padder` digest beyond. -/
theorem hashCheck_eq_spec (H : Bytes → Bytes) (B hs bpp : Nat) (hB : 0 < B) (hbpp : 0 < bpp)
    (hhs : 0 < hs) (files : List Impl.V2File)
    (hok : ∀ f ∈ files, Impl.FileOK hs (bpp * B) f) :
    Impl.hashCheck H B hs bpp files = Spec.v2Check H B hs bpp files :=
  Impl.hashCheck_eq_v2Check H B hs bpp hB hbpp hhs files hok

/-- a truncated two-piece file, an empty file, an absent one-piece file: in scope, and the
    model run gives one intact piece, one padded piece, nothing, one padded piece -/
example :
    (∀ f ∈ [(7, [1,2], [1,2,5,6], some [1,2,3,4,5]), (0, [], [], some []), (3, [9,9], [], none)],
      Impl.FileOK 2 (2 * 2) f) ∧
    Impl.hashCheck toyH 2 2 2
      [(7, [1,2], [1,2,5,6], some [1,2,3,4,5]), (0, [], [], some []), (3, [9,9], [], none)]
      = [(true, 4), (false, 3), (false, 3)] := by
  constructor
  · intro f hf
    simp only [List.mem_cons, List.not_mem_nil, or_false] at hf
    rcases hf with rfl | rfl | rfl <;> exact ⟨by decide, by decide⟩
  · decide +kernel

/-- v2 / hybrid: the pair `(matched, consumed)` behind the reported percentage is (bytes in
    verifying pieces, bytes in all pieces) of the reference stream. -/
theorem recheck_ratio_v2 (H : Bytes → Bytes) (B hs bpp : Nat) (hB : 0 < B) (hbpp : 0 < bpp)
    (hhs : 0 < hs) (files : List Impl.V2File)
    (hok : ∀ f ∈ files, Impl.FileOK hs (bpp * B) f) :
    Impl.iterHashes (Impl.hashCheck H B hs bpp files)
      = Spec.ratio (Spec.v2Check H B hs bpp files) := by
  rw [Impl.iterHashes_eq_ratio, hashCheck_eq_spec H B hs bpp hB hbpp hhs files hok]

example : Impl.iterHashes (Impl.hashCheck toyH 2 2 2
    [(7, [1,2], [1,2,5,6], some [1,2,3,4,5]), (0, [], [], some []), (3, [9,9], [], none)]) = (4, 10) := by
  decide +kernel

/-- v2 / hybrid: `consumed` is the total recorded length — every byte of every file is
    accounted for exactly once, whatever is on disk. -/
theorem consumed_total_v2 (H : Bytes → Bytes) (B hs bpp : Nat) (hB : 0 < B) (hbpp : 0 < bpp)
    (hhs : 0 < hs) (files : List Impl.V2File)
    (hok : ∀ f ∈ files, Impl.FileOK hs (bpp * B) f) :
    (Impl.iterHashes (Impl.hashCheck H B hs bpp files)).2 = (files.map (·.1)).sum := by
  rw [recheck_ratio_v2 H B hs bpp hB hbpp hhs files hok]
  simp only [Spec.ratio]
  exact Impl.v2Check_sizes H B hs bpp (Nat.mul_pos hbpp hB) files

example : (Impl.iterHashes (Impl.hashCheck toyH 2 2 2
    [(7, [1,2], [1,2,5,6], none), (3, [9,9], [], some [1])])).2 = 10 := by
  decide +kernel

/-- v2 / hybrid, the verdict on piece `k` of a file `f` explicitly: it is the entry number
    (pieces of all earlier files) + `k` of the stream, and it is `Spec.v2Verdict … f k`, which
    mentions `f` only — no other file — and of `f`'s disk data only the bytes
    `[k·pl, (k+1)·pl)`. -/
theorem verdict_explicit_v2 (H : Bytes → Bytes) (B hs bpp : Nat) (hB : 0 < B) (hbpp : 0 < bpp)
    (hhs : 0 < hs) (pre post : List Impl.V2File) (f : Impl.V2File)
    (hok : ∀ g ∈ pre ++ f :: post, Impl.FileOK hs (bpp * B) g) (k : Nat)
    (hk : k < cdiv f.1 (bpp * B)) :
    (Impl.hashCheck H B hs bpp (pre ++ f :: post))[(pre.map (fun g => cdiv g.1 (bpp * B))).sum + k]?
      = some (Spec.v2Verdict H B hs bpp f k) := by
  rw [hashCheck_eq_spec H B hs bpp hB hbpp hhs _ hok]
  exact Impl.v2Check_getElem? H B hs bpp pre post f k hk

example : (Impl.hashCheck toyH 2 2 2
    ([(7, [1,2], [1,2,5,6], some [1,2,3,4,5])] ++ (3, [9,9], [], none) :: []))[2 + 0]?
      = some (Spec.v2Verdict toyH 2 2 2 (3, [9,9], [], none) 0) := by
  decide +kernel

/-- Locality, v2 / hybrid.  Two states of the disk for the same metafile: the files before
    have the same recorded lengths, the file itself the same recorded length, root and layer.
    If the on-disk bytes of this file in the range of its piece `k` are the same in both
    states, the verdict (and size) of that piece is the same in both — whatever was flipped,
    truncated or removed in other pieces of the file or in any other file. -/
theorem verdict_local_v2 (H : Bytes → Bytes) (B hs bpp : Nat) (hB : 0 < B) (hbpp : 0 < bpp)
    (hhs : 0 < hs) (pre post pre' post' : List Impl.V2File) (f f' : Impl.V2File)
    (hok : ∀ g ∈ pre ++ f :: post, Impl.FileOK hs (bpp * B) g)
    (hok' : ∀ g ∈ pre' ++ f' :: post', Impl.FileOK hs (bpp * B) g)
    (hpre : pre.map (·.1) = pre'.map (·.1))
    (h1 : f.1 = f'.1) (h2 : f.2.1 = f'.2.1) (h3 : f.2.2.1 = f'.2.2.1)
    (k : Nat) (hk : k < cdiv f.1 (bpp * B))
    (hsame : pieceBytes (bpp * B) (Impl.fDisk f) k = pieceBytes (bpp * B) (Impl.fDisk f') k) :
    (Impl.hashCheck H B hs bpp (pre ++ f :: post))[(pre.map (fun g => cdiv g.1 (bpp * B))).sum + k]?
      = (Impl.hashCheck H B hs bpp (pre' ++ f' :: post'))[(pre.map (fun g => cdiv g.1 (bpp * B))).sum + k]? := by
  have hoff : (pre.map (fun g => cdiv g.1 (bpp * B))).sum
      = (pre'.map (fun g => cdiv g.1 (bpp * B))).sum := by
    have : pre.map (fun g => cdiv g.1 (bpp * B)) = (pre.map (·.1)).map (fun n => cdiv n (bpp * B)) := by
      simp [List.map_map, Function.comp_def]
    rw [this, hpre]; simp [List.map_map, Function.comp_def]
  rw [verdict_explicit_v2 H B hs bpp hB hbpp hhs pre post f hok k hk, hoff,
    verdict_explicit_v2 H B hs bpp hB hbpp hhs pre' post' f' hok' k (h1 ▸ hk),
    Impl.v2Verdict_local H B hs bpp (Nat.mul_pos hbpp hB) f f' k h1 h2 h3 hsame]

/-- the tail of a two-piece file cut off: the bytes of piece 0 are unchanged -/
example : pieceBytes (2 * 2) (Impl.fDisk (7, [1,2], [1,2,5,6], some [1,2,3,4,5,6,7])) 0
    = pieceBytes (2 * 2) (Impl.fDisk (7, [1,2], [1,2,5,6], some [1,2,3,4])) 0 := by decide

/-! ### the whole `Checker` (`Model/RecheckFull`): metafile → file map → verdicts → result -/

open RF in
/-- THE whole-`Checker` refinement (decoded metafile, any content argument).  Let the metafile
    be well-formed for the payload `disk` (`Spec.plan` defined: v1 → one zero-filled stream,
    v2 / hybrid → file by file) and the disk in scope (`Plan.InScope`: nothing longer than
    recorded, a recorded digest per piece; `NoDirAtFile`: no directory where a file is
    described), let `find_root` resolve the content argument to the payload (root or parent,
    `C05.root_or_parent`), and the metafile not be the empty-single-file case of
    `C05.emptySingleV2_keyError`.  Then `Checker(metafile, path)` + `iter_hashes()` succeed,
    and the verdict stream, `matched` and `consumed` are those of the reference
    `Spec.recheck`: piece by piece, bytes in verifying pieces, bytes in all pieces. -/
theorem recheckMeta_eq_spec (H1 H : Bytes → Bytes) (B hs : Nat) (hhs : 0 < hs) (mf : BVal)
    (disk : Disk) (p : Spec.Plan) (argName : Bytes) (here : Option Node)
    (hplan : Spec.plan B mf disk = some p) (hscope : p.InScope B hs)
    (hroot : Impl.findRoot (Impl.infoOf mf) (Impl.nameOf mf) argName here = .ok disk)
    (hnodir : Spec.NoDirAtFile mf disk) (hne : ¬ Spec.EmptySingleV2 mf (isFile disk)) :
    Impl.recheckMeta H1 H B hs mf argName here
      = .ok (p.verdicts H1 H B hs, Spec.ratio (p.verdicts H1 H B hs)) ∧
    Spec.recheck H1 H B hs mf disk
      = some (p.verdicts H1 H B hs, Spec.ratio (p.verdicts H1 H B hs)) :=
  ⟨Spec.recheckMeta_of_plan H1 H B hs hhs mf disk p argName here hplan hscope hroot hnodir hne,
    by simp [Spec.recheck, hplan]⟩

/-- damaged v2 tree (`a` truncated to 5 of 7 bytes, `d/c` removed) through the parent
    directory: implementation and reference give 4 of 10 bytes -/
example :
    Impl.recheckMeta RF.Ex.h1 toyH 2 2 RF.Ex.v2Meta [104] (some (.dir [([110], RF.Ex.v2Damaged)]))
      = .ok ([(true, 4), (false, 3), (false, 3)], 4, 10) ∧
    Spec.recheck RF.Ex.h1 toyH 2 2 RF.Ex.v2Meta RF.Ex.v2Damaged
      = some ([(true, 4), (false, 3), (false, 3)], 4, 10) := by
  decide +kernel

open RF in
/-- The same for the whole `Impl.recheck` on the metafile BYTES with a `ContentArg`: when the
    bytes decode (`pyben.load`) to `mf` and the content argument resolves
    to the payload (`ContentArg.Resolves`: a payload root is named like the torrent and
    `find_root` does not go on into an entry of the same name; a parent directory is not named
    like the torrent, or `_is_parent` tells the payload from it — `C05.root_or_parent`),
    `Impl.recheck = Spec.recheck`. -/
theorem recheck_eq_spec (H1 H : Bytes → Bytes) (B hs : Nat) (hhs : 0 < hs) (metafile : Bytes)
    (mf : BVal) (arg : ContentArg) (disk : Disk) (p : Spec.Plan)
    (hmf : Impl.loads metafile = some mf) (harg : arg.Resolves (Impl.infoOf mf) (Impl.nameOf mf) disk)
    (hplan : Spec.plan B mf disk = some p) (hscope : p.InScope B hs)
    (hnodir : Spec.NoDirAtFile mf disk) (hne : ¬ Spec.EmptySingleV2 mf (isFile disk)) :
    (Impl.recheck H1 H B hs metafile arg disk).toOption = Spec.recheck H1 H B hs mf disk ∧
    Impl.recheck H1 H B hs metafile arg disk
      = .ok (p.verdicts H1 H B hs, Spec.ratio (p.verdicts H1 H B hs)) := by
  have h := recheckMeta_eq_spec H1 H B hs hhs mf disk p arg.argName
    (some (arg.place (Impl.nameOf mf) disk)) hplan hscope
    (Spec.findRoot_place arg _ _ disk harg) hnodir hne
  simp only [Impl.recheck, hmf]
  exact ⟨by rw [h.1, h.2]; rfl, h.1⟩

/-- the bytes of the v1 example metafile, content argument = parent `h`; one file removed -/
example :
    Impl.recheck RF.Ex.h1 toyH 2 2 (Impl.encode RF.Ex.v1Meta) ⟨.parent, [104]⟩
        (.dir [([97], .file [1, 2, 3]), ([98], .file [])])
      = .ok ([(true, 4), (false, 3)], 4, 7) := by
  decide +kernel

open RF in
/-- `consumed` is the total payload length the metafile records (the sum of the lengths of
    the described files, padding entries of a v1 list included) — every byte is accounted
    for exactly once, whatever is on disk — and never less than `matched`. -/
theorem consumed_is_total (H1 H : Bytes → Bytes) (B hs : Nat) (hhs : 0 < hs) (mf : BVal)
    (disk : Disk) (p : Spec.Plan) (recs : List FileRec) (argName : Bytes) (here : Option Node)
    (hplan : Spec.plan B mf disk = some p) (hscope : p.InScope B hs)
    (hroot : Impl.findRoot (Impl.infoOf mf) (Impl.nameOf mf) argName here = .ok disk)
    (hnodir : Spec.NoDirAtFile mf disk) (hne : ¬ Spec.EmptySingleV2 mf (isFile disk))
    (hrecs : Spec.describedFiles mf (isFile disk) = some recs) :
    ∃ vs matched, Impl.recheckMeta H1 H B hs mf argName here = .ok (vs, matched, totalOf recs) ∧
      matched ≤ totalOf recs := by
  have h := (recheckMeta_eq_spec H1 H B hs hhs mf disk p argName here hplan hscope hroot hnodir
    hne).1
  have hs2 := Spec.verdicts_sizes H1 H B hs mf disk p hplan
  have ht := Spec.plan_total B mf disk p recs hplan hrecs
  refine ⟨p.verdicts H1 H B hs, (Spec.ratio (p.verdicts H1 H B hs)).1, ?_, ?_⟩
  · rw [h, ← ht, ← hs2]
  · rw [← ht, ← hs2]; exact Spec.ratio_le _

/-- everything removed: consumed is still 3 + 0 + 4 -/
example : Impl.recheckMeta RF.Ex.h1 toyH 2 2 RF.Ex.v1Meta [110] (some (.dir []))
    = .ok ([(false, 4), (false, 3)], 0, 7) := by decide +kernel

end TorrentVerif.Props.C16

import TorrentVerif.Proofs.Merkle
import TorrentVerif.Proofs.CreatorsV2
/-
  C02 — pieces root and piece layer of a file follow BEP 52 exactly (file-level part).
  Property theorems only; helper lemmas live in `Proofs/Merkle.lean`.
  `H` = block/node hash (arbitrary), `B` = block size, `hs` = hash size,
  `2^j` = blocks per piece, piece length = `2^j * B`.
-/
namespace TorrentVerif.Props.C02
open TorrentVerif TorrentVerif.Toy


/-- For every non-empty file, every block size, every power-of-two number of blocks per
    piece and every hash function, the root computed by `HasherV2` is the BEP 52 pieces
    root: the root of the balanced binary tree over the block hashes of the file, padded
    with all-zero hashes to the next power of two. -/
theorem hasherV2_root (H : Bytes → Bytes) (B hs j : Nat) (d : Bytes)
    (hB : 0 < B) (hd : d ≠ []) :
    (Impl.hasherV2 H B hs (2 ^ j) d).1 = Spec.root H B hs d := by
  rw [hasherV2_closed H B hs (2 ^ j) hB (Nat.two_pow_pos j) d]
  exact calcRoot_layers H B hs hB j d hd

/-- 9 bytes, blocks of 2 bytes, 2 blocks per piece: 5 leaves, 3 pieces, tree of depth 3 -/
example : (Impl.hasherV2 toyH 2 1 (2 ^ 1) [1,2,3,4,5,6,7,8,9]).1 = [54] := by
  rw [hasherV2_root toyH 2 1 1 [1,2,3,4,5,6,7,8,9] (by decide) (by decide)]
  simp [Spec.root, Spec.leaves, Spec.padTo, chunks, show lg 5 = 3 by decide, tree, toyH, zeros]

/-- For a file longer than one piece, the piece layer recorded by `HasherV2` is the
    concatenation of the hashes of the BEP 52 tree layer in which one hash covers one piece
    (`2^j` leaves), restricted to the hashes that cover at least one byte of the file. -/
theorem hasherV2_layer (H : Bytes → Bytes) (B hs j : Nat) (d : Bytes)
    (hB : 0 < B) (hlen : 2 ^ j * B < d.length) :
    (Impl.hasherV2 H B hs (2 ^ j) d).2 = (Spec.pieceLayer H B hs j d).flatten := by
  rw [hasherV2_closed H B hs (2 ^ j) hB (Nat.two_pow_pos j) d]
  show (layersFrom H B hs (2 ^ j) true (chunks (2 ^ j * B) d)).flatten = _
  rw [layers_multi H B hs hB j d hlen]

/-- same file: three piece hashes (the third covers one real leaf and one zero hash) -/
example : (Impl.hasherV2 toyH 2 1 (2 ^ 1) [1,2,3,4,5,6,7,8,9]).2 = [107, 171, 160] := by
  rw [hasherV2_layer toyH 2 1 1 [1,2,3,4,5,6,7,8,9] (by decide) (by decide)]
  simp [Spec.pieceLayer, Spec.leaves, Spec.padTo, chunks, show lg 5 = 3 by decide, tree, toyH,
    zeros, cdiv]

/-- For a non-empty file of at most one piece, `HasherV2` collects a single layer hash and
    it is the pieces root itself (the tree is only as deep as the file needs, not as deep as
    a piece). The creators do not record a piece layer for such files (`size > piece_length`
    is required), so this value never reaches a metafile. -/
theorem hasherV2_layer_small (H : Bytes → Bytes) (B hs j : Nat) (d : Bytes)
    (hB : 0 < B) (hd : d ≠ []) (hlen : d.length ≤ 2 ^ j * B) :
    (Impl.hasherV2 H B hs (2 ^ j) d).2 = Spec.root H B hs d := by
  rw [hasherV2_closed H B hs (2 ^ j) hB (Nat.two_pow_pos j) d]
  show (layersFrom H B hs (2 ^ j) true (chunks (2 ^ j * B) d)).flatten = _
  rw [layers_single H B hs j d hd hlen]
  simp

/-- 5 bytes in a piece of 8 blocks of 2 bytes: 3 leaves, tree of depth 2 (not 3) -/
example : (Impl.hasherV2 toyH 2 1 (2 ^ 3) [1,2,3,4,5]).2 = [24] := by
  rw [hasherV2_layer_small toyH 2 1 3 [1,2,3,4,5] (by decide) (by decide) (by decide)]
  simp [Spec.root, Spec.leaves, Spec.padTo, chunks, show lg 3 = 2 by decide, tree, toyH, zeros]

/-- The specified piece layer has exactly ⌈file length / piece length⌉ entries: one per
    piece that contains at least one byte of the file; hashes that would cover only
    padding are omitted. -/
theorem pieceLayer_count (H : Bytes → Bytes) (B hs j : Nat) (d : Bytes) (hB : 0 < B) :
    (Spec.pieceLayer H B hs j d).length = cdiv d.length (2 ^ j * B) := by
  have hj : 0 < 2 ^ j := Nat.two_pow_pos j
  unfold Spec.pieceLayer
  simp only [List.length_take, List.length_map, chunks_length _ hj, Spec.padTo,
    List.length_append, List.length_replicate]
  rw [leaves_length H B hB, cdiv_cdiv _ _ _ hB hj]
  apply Nat.min_eq_left
  rw [← cdiv_cdiv _ _ _ hB hj, cdiv_le_iff _ _ _ hj]
  have h1 := le_cdiv_mul (cdiv d.length B + (2 ^ max (lg (cdiv d.length B)) j - cdiv d.length B))
    (2 ^ j) hj
  omega

/-- 9 bytes, piece length 4: three entries although the full tree layer has four -/
example : (Spec.pieceLayer toyH 2 1 1 [1,2,3,4,5,6,7,8,9]).length = 3 := by
  rw [pieceLayer_count toyH 2 1 1 _ (by decide)]; decide

/-- "Piecewise = flat": for a file longer than one piece, the pieces root is the root of the
    balanced tree over the piece-layer hashes, padded up to the next power of two of the
    piece count with the hash of an all-padding piece (the depth-`j` tree over `2^j`
    all-zero hashes). So the piece layer really is a layer of the tree whose root is the
    pieces root, which is what lets a client verify pieces against the root. -/
theorem spec_root_from_layer (H : Bytes → Bytes) (B hs j : Nat) (d : Bytes)
    (hB : 0 < B) (hlen : 2 ^ j * B < d.length) :
    Spec.root H B hs d
      = tree H (lg (Spec.pieceLayer H B hs j d).length)
          (Spec.pieceLayer H B hs j d
            ++ List.replicate
                (2 ^ lg (Spec.pieceLayer H B hs j d).length - (Spec.pieceLayer H B hs j d).length)
                (tree H j (List.replicate (2 ^ j) (zeros hs)))) := by
  obtain ⟨_, h2, _, h4⟩ := spec_multi H B hs hB j d hlen
  rw [h2]; exact h4

example : Spec.root toyH 2 1 [1,2,3,4,5,6,7,8,9]
    = tree toyH 2 (Spec.pieceLayer toyH 2 1 1 [1,2,3,4,5,6,7,8,9]
        ++ [tree toyH 1 [[0], [0]]]) := by
  have h := spec_root_from_layer toyH 2 1 1 [1,2,3,4,5,6,7,8,9] (by decide) (by decide)
  have hc : (Spec.pieceLayer toyH 2 1 1 [1,2,3,4,5,6,7,8,9]).length = 3 := by
    rw [pieceLayer_count toyH 2 1 1 _ (by decide)]; decide
  rw [hc, show lg 3 = 2 by decide] at h
  exact h

end TorrentVerif.Props.C02

/-! ### whole metafiles (creators of `Model/Creators.lean`)

  `r` is the value handed to `pyben.dump` by any of the four v2-capable creators
  (`Impl.WrittenV2Capable`: `TorrentFileV2`, `TorrentAssembler` v2, `TorrentFileHybrid`,
  `TorrentAssembler` hybrid), for a content tree `t` (single file or directory) whose entry names
  are non-empty, `/`-free and distinct among siblings, under any enumeration order. `pre` is any
  path string for the directory the top-level names of the file tree live in (`treeBase`: the
  content directory itself, or the parent directory of a single file `pre/name`); paths of
  `Spec.allFiles` are full path strings below it. Piece length = `2^j · B`. -/
namespace TorrentVerif.Props.C02
open TorrentVerif TorrentVerif.Toy TorrentVerif.Ex.G7

/-- The written file tree mirrors the content directory: its leaves (the entries keyed by the
    empty string), read back with the path components leading to them, are exactly the regular
    files of the content tree — each once, same relative path (nested dictionary by dictionary
    as the directories are), same length. Empty directories contribute no leaf. -/
theorem tree_mirrors_dir (o : CreateOpts) (H H1 : Bytes → Bytes) (B hs j : Nat)
    (hB : 0 < B) (hpl : o.pieceLength = 2 ^ j * B) (hname : o.name ≠ [])
    (enum : List (Bytes × Impl.FTree) → List (Bytes × Impl.FTree)) (henum : ∀ l, (enum l).Perm l)
    (t : Node) (hwn : Spec.WellNamed t) (pre : Bytes) (r : BVal) (b : Bytes)
    (hc : Impl.WrittenV2Capable o H H1 B hs enum t r b) :
    ∃ tree, r.infoGet? K.fileTree = some tree ∧
      ((Spec.treeLeaves [] tree).map (fun x => (x.1.foldl Listing.join pre, Spec.entryLength x.2))).Perm
        ((Spec.allFiles (Spec.treeBase pre o.name t) t).map (fun x => (x.1, some x.2.length))) := by
  obtain ⟨_, hft, _⟩ := v2cap_keys o H H1 B hs (2 ^ j) hB (Nat.two_pow_pos j) hpl enum t r b hc
  refine ⟨_, hft, ?_⟩
  have := (leaves_perm (Impl.fhV2 H B hs (2 ^ j)) enum henum t hwn o.name hname pre).map
    (fun y : Bytes × BVal => (y.1, Spec.entryLength y.2))
  simpa [List.map_map, Function.comp_def, entryLength_leafProps] using this

/-- met by: the example tree (nested, unsorted, an empty file, an empty directory), all four
    creators succeed on it; shown for two of them -/
example : (∃ r b, Impl.createV2Class exOpts toyH 2 1 List.reverse exTree = some (r, b) ∧
    ∃ tree, r.infoGet? K.fileTree = some tree ∧
      ((Spec.treeLeaves [] tree).map (fun x => (x.1.foldl Listing.join [100], Spec.entryLength x.2))).Perm
        ((Spec.allFiles [100] exTree).map (fun x => (x.1, some x.2.length)))) ∧
    (∃ r b, Impl.createAsm true exOpts toyH toyH20 2 1 id exFile = some (r, b) ∧
    ∃ tree, r.infoGet? K.fileTree = some tree ∧
      ((Spec.treeLeaves [] tree).map (fun x => (x.1.foldl Listing.join [100], Spec.entryLength x.2))).Perm
        ((Spec.allFiles (Listing.join [100] [114]) exFile).map (fun x => (x.1, some x.2.length)))) := by
  constructor
  · obtain ⟨r, b, h⟩ := createV2Class_some exOpts toyH 2 1 List.reverse exTree
    exact ⟨r, b, h, tree_mirrors_dir exOpts toyH toyH1 2 1 1 (by decide) rfl (by decide)
      List.reverse List.reverse_perm exTree exTree_wellNamed [100] r b (Or.inl h)⟩
  · have h20 : ∀ x, (toyH20 x).length = 20 := by intro x; simp [toyH20]
    obtain ⟨r, b, h⟩ := createAsm_true_some exOpts toyH toyH20 2 1 2 (by decide) (by decide) rfl h20 id exFile
    exact ⟨r, b, h, tree_mirrors_dir exOpts toyH toyH20 2 1 1 (by decide) rfl (by decide)
      id (fun _ => .refl _) exFile trivial [100] r b (Or.inr (Or.inr (Or.inr ⟨h20, h⟩)))⟩

/-- A leaf of length 0 is exactly `{"length": 0}`: an empty file carries no pieces root (and no
    other key). -/
theorem empty_has_no_root (o : CreateOpts) (H H1 : Bytes → Bytes) (B hs j : Nat)
    (hB : 0 < B) (hpl : o.pieceLength = 2 ^ j * B) (hname : o.name ≠ [])
    (enum : List (Bytes × Impl.FTree) → List (Bytes × Impl.FTree)) (henum : ∀ l, (enum l).Perm l)
    (t : Node) (hwn : Spec.WellNamed t) (r : BVal) (b : Bytes)
    (hc : Impl.WrittenV2Capable o H H1 B hs enum t r b) :
    ∃ tree, r.infoGet? K.fileTree = some tree ∧
      ∀ x ∈ Spec.treeLeaves [] tree, Spec.entryLength x.2 = some 0 →
        x.2 = .dict [(K.length, .int 0)] ∧ x.2.get? K.piecesRoot = none := by
  obtain ⟨_, hft, _⟩ := v2cap_keys o H H1 B hs (2 ^ j) hB (Nat.two_pow_pos j) hpl enum t r b hc
  refine ⟨_, hft, ?_⟩
  intro x hx hlen
  have hp := leaves_perm (Impl.fhV2 H B hs (2 ^ j)) enum henum t hwn o.name hname []
  have hm := hp.subset (List.mem_map_of_mem (f := fun x => (x.1.foldl Listing.join [], x.2)) hx)
  obtain ⟨y, _, hy⟩ := List.mem_map.mp hm
  have e : x.2 = leafProps (Impl.fhV2 H B hs (2 ^ j)) y.2 := by
    have := congrArg Prod.snd hy; simpa using this.symm
  rw [e, entryLength_leafProps] at hlen
  have h0 : y.2.length = 0 := by simpa using hlen
  rw [e]
  simp [leafProps, h0, BVal.get?, dictGet, K.length, K.piecesRoot]

example : ∃ r b, Impl.createHybridClass exOpts toyH toyH1 2 1 id exTree = some (r, b) ∧
    ∃ tree, r.infoGet? K.fileTree = some tree ∧
      ∀ x ∈ Spec.treeLeaves [] tree, Spec.entryLength x.2 = some 0 →
        x.2 = .dict [(K.length, .int 0)] ∧ x.2.get? K.piecesRoot = none := by
  obtain ⟨r, b, h⟩ := createHybridClass_some exOpts toyH toyH1 2 1 2 (by decide) (by decide) rfl id exTree
  exact ⟨r, b, h, empty_has_no_root exOpts toyH toyH1 2 1 1 (by decide) rfl (by decide)
    id (fun _ => .refl _) exTree exTree_wellNamed r b (Or.inr (Or.inr (Or.inl h)))⟩

/-- Every leaf is exactly what BEP 52 prescribes for its file: `{"length": n, "pieces root":
    root}` with `root` the BEP 52 merkle root (`Spec.root`) of the file's bytes for a non-empty
    file, `{"length": 0}` for an empty one — and there is one such leaf per file of the content
    tree, at that file's path. -/
theorem nonempty_root_is_spec (o : CreateOpts) (H H1 : Bytes → Bytes) (B hs j : Nat)
    (hB : 0 < B) (hpl : o.pieceLength = 2 ^ j * B) (hname : o.name ≠ [])
    (enum : List (Bytes × Impl.FTree) → List (Bytes × Impl.FTree)) (henum : ∀ l, (enum l).Perm l)
    (t : Node) (hwn : Spec.WellNamed t) (pre : Bytes) (r : BVal) (b : Bytes)
    (hc : Impl.WrittenV2Capable o H H1 B hs enum t r b) :
    ∃ tree, r.infoGet? K.fileTree = some tree ∧
      ((Spec.treeLeaves [] tree).map (fun x => (x.1.foldl Listing.join pre, x.2))).Perm
        ((Spec.allFiles (Spec.treeBase pre o.name t) t).map (fun x => (x.1,
          if x.2.length = 0 then BVal.dict [(K.length, .int 0)]
          else .dict [(K.length, .int x.2.length), (K.piecesRoot, .str (Spec.root H B hs x.2))]))) := by
  obtain ⟨_, hft, _⟩ := v2cap_keys o H H1 B hs (2 ^ j) hB (Nat.two_pow_pos j) hpl enum t r b hc
  refine ⟨_, hft, ?_⟩
  have hp := leaves_perm (Impl.fhV2 H B hs (2 ^ j)) enum henum t hwn o.name hname pre
  have e : (fun x : Bytes × Bytes => (x.1, leafProps (Impl.fhV2 H B hs (2 ^ j)) x.2))
      = (fun x => (x.1, if x.2.length = 0 then BVal.dict [(K.length, .int 0)]
          else .dict [(K.length, .int x.2.length), (K.piecesRoot, .str (Spec.root H B hs x.2))])) := by
    funext x; rw [leafProps_spec H B hs j hB]
  rw [e] at hp
  exact hp

example : ∃ r b, Impl.createAsm false exOpts toyH toyH1 2 1 id exTree = some (r, b) ∧
    ∃ tree, r.infoGet? K.fileTree = some tree ∧
      ((Spec.treeLeaves [] tree).map (fun x => (x.1.foldl Listing.join [100], x.2))).Perm
        ((Spec.allFiles [100] exTree).map (fun x => (x.1,
          if x.2.length = 0 then BVal.dict [(K.length, .int 0)]
          else .dict [(K.length, .int x.2.length), (K.piecesRoot, .str (Spec.root toyH 2 1 x.2))]))) := by
  obtain ⟨r, b, h⟩ := createAsm_false_some exOpts toyH toyH1 2 1 2 (by decide) (by decide) rfl id exTree
  exact ⟨r, b, h, nonempty_root_is_spec exOpts toyH toyH1 2 1 1 (by decide) rfl (by decide)
    id (fun _ => .refl _) exTree exTree_wellNamed [100] r b (Or.inr (Or.inl h))⟩

/-- The written `piece layers` dictionary has its keys strictly ascending and contains exactly
    one entry per pieces root of a file longer than the piece length, mapped to the
    concatenated BEP 52 piece layer of that file (`Spec.pieceLayer`), and nothing else: no entry
    for files of at most one piece, none for empty files. Two files with equal roots share one
    entry (dictionary semantics); the hypothesis `hcoll` says that files with equal roots have
    equal piece layers, which holds unless the hash collides. -/
theorem piece_layers_exact (o : CreateOpts) (H H1 : Bytes → Bytes) (B hs j : Nat)
    (hB : 0 < B) (hpl : o.pieceLength = 2 ^ j * B)
    (enum : List (Bytes × Impl.FTree) → List (Bytes × Impl.FTree)) (henum : ∀ l, (enum l).Perm l)
    (t : Node) (pre : Bytes) (r : BVal) (b : Bytes)
    (hcoll : ∀ x ∈ Spec.allFiles pre t, ∀ y ∈ Spec.allFiles pre t,
      o.pieceLength < x.2.length → o.pieceLength < y.2.length →
      Spec.root H B hs x.2 = Spec.root H B hs y.2 →
      (Spec.pieceLayer H B hs j x.2).flatten = (Spec.pieceLayer H B hs j y.2).flatten)
    (hc : Impl.WrittenV2Capable o H H1 B hs enum t r b) :
    ∃ L, r.get? K.pieceLayers = some (.dict L) ∧ strictAsc (keys L) = true ∧
      ∀ k v, dictGet L k = some v ↔
        ∃ x ∈ Spec.allFiles pre t, o.pieceLength < x.2.length ∧ k = Spec.root H B hs x.2 ∧
          v = .str (Spec.pieceLayer H B hs j x.2).flatten := by
  obtain ⟨_, _, hly, _⟩ := v2cap_keys o H H1 B hs (2 ^ j) hB (Nat.two_pow_pos j) hpl enum t r b hc
  refine ⟨_, hly, strictAsc_sortDict _ (layersDict_good _).nodup, ?_⟩
  intro k v
  rw [dictGet_sortDict']
  -- the assignments, in terms of the specification
  have hitem : ∀ a, a ∈ Impl.layerItems (Impl.fhV2 H B hs (2 ^ j)) o.pieceLength
        (Impl.ftreeFiles [] (Impl.traverse enum t)) ↔
      ∃ y ∈ Impl.ftreeFiles [] (Impl.traverse enum t), o.pieceLength < y.2.length ∧
        a = (Spec.root H B hs y.2, (Spec.pieceLayer H B hs j y.2).flatten) := by
    intro a
    unfold Impl.layerItems
    rw [List.mem_filterMap]
    constructor
    · intro ⟨y, hy, he⟩
      by_cases hlt : o.pieceLength < y.2.length
      · simp only [hlt, if_true, Option.some.injEq] at he
        have hd : y.2 ≠ [] := by intro e; rw [e] at hlt; simp at hlt
        rw [fhV2_root_spec H B hs j hB y.2 hd,
          fhV2_layer_spec H B hs j hB y.2 (by rw [← hpl]; exact hlt)] at he
        exact ⟨y, hy, hlt, he.symm⟩
      · simp [hlt] at he
    · intro ⟨y, hy, hlt, he⟩
      have hd : y.2 ≠ [] := by intro e; rw [e] at hlt; simp at hlt
      refine ⟨y, hy, ?_⟩
      simp only [hlt, if_true]
      rw [fhV2_root_spec H B hs j hB y.2 hd,
        fhV2_layer_spec H B hs j hB y.2 (by rw [← hpl]; exact hlt), he]
  have hdata := fun P => allFiles_data_iff enum henum pre t P
  have hcons : ∀ a ∈ Impl.layerItems (Impl.fhV2 H B hs (2 ^ j)) o.pieceLength
        (Impl.ftreeFiles [] (Impl.traverse enum t)),
      ∀ c ∈ Impl.layerItems (Impl.fhV2 H B hs (2 ^ j)) o.pieceLength
        (Impl.ftreeFiles [] (Impl.traverse enum t)), a.1 = c.1 → a.2 = c.2 := by
    intro a ha c hc' hac
    obtain ⟨y, hy, hyl, rfl⟩ := (hitem a).mp ha
    obtain ⟨z, hz, hzl, rfl⟩ := (hitem c).mp hc'
    have hp := ftreeFiles_traverse_perm enum henum pre t []
    simp only [List.foldl_nil] at hp
    exact hcoll _ (hp.subset (List.mem_map_of_mem hy)) _ (hp.subset (List.mem_map_of_mem hz))
      hyl hzl hac
  rw [dictGet_layersDict _ hcons k v]
  rw [hdata (fun d => o.pieceLength < d.length ∧ k = Spec.root H B hs d ∧
    v = .str (Spec.pieceLayer H B hs j d).flatten)]
  constructor
  · intro ⟨a, ha, hk, hv⟩
    obtain ⟨y, hy, hyl, rfl⟩ := (hitem a).mp ha
    exact ⟨y, hy, hyl, hk.symm, hv⟩
  · intro ⟨y, hy, hyl, hk, hv⟩
    exact ⟨_, (hitem _).mpr ⟨y, hy, hyl, rfl⟩, hk.symm, hv⟩

/-- met by: the example tree — only `b` (9 bytes, piece length 4) is longer than a piece, so no
    two listed files can collide -/
example : ∃ r b, Impl.createV2Class exOpts toyH 2 1 id exTree = some (r, b) ∧
    ∃ L, r.get? K.pieceLayers = some (.dict L) ∧ strictAsc (keys L) = true ∧
      ∀ k v, dictGet L k = some v ↔
        ∃ x ∈ Spec.allFiles [100] exTree, exOpts.pieceLength < x.2.length ∧
          k = Spec.root toyH 2 1 x.2 ∧ v = .str (Spec.pieceLayer toyH 2 1 1 x.2).flatten := by
  obtain ⟨r, b, h⟩ := createV2Class_some exOpts toyH 2 1 id exTree
  refine ⟨r, b, h, piece_layers_exact exOpts toyH toyH1 2 1 1 (by decide) rfl id (fun _ => .refl _)
    exTree [100] r b ?_ (Or.inl h)⟩
  intro x hx y hy hxl hyl _
  simp only [exTree, Spec.allFiles, Spec.allFilesList, List.append_nil, List.mem_cons, List.mem_append,
    List.not_mem_nil, or_false] at hx hy
  simp only [exOpts] at hxl hyl
  rcases hx with rfl | (rfl | rfl) | rfl <;> simp at hxl
  rcases hy with rfl | (rfl | rfl) | rfl <;> simp at hyl
  rfl

end TorrentVerif.Props.C02

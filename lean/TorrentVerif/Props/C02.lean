import TorrentVerif.Proofs.Merkle
/-
  C02 — pieces root and piece layer of a file follow BEP 52 exactly (file-level part).
  Property theorems only; helper lemmas live in `Proofs/Merkle.lean`.
  `H` = block/node hash (arbitrary), `B` = block size, `hs` = hash size,
  `2^j` = blocks per piece, piece length = `2^j * B`.
-/
namespace TorrentVerif.Props.C02
open TorrentVerif TorrentVerif.Toy


/-- For every non-empty file, every block size, every power-of-two number of blocks per
    piece and every hash function, the root computed by `HasherV2` is the BEP 52 pieces
    root: the root of the balanced binary tree over the block hashes of the file, padded
    with all-zero hashes to the next power of two. -/
theorem hasherV2_root (H : Bytes → Bytes) (B hs j : Nat) (d : Bytes)
    (hB : 0 < B) (hd : d ≠ []) :
    (Impl.hasherV2 H B hs (2 ^ j) d).1 = Spec.root H B hs d := by
  rw [hasherV2_closed H B hs (2 ^ j) hB (Nat.two_pow_pos j) d]
  exact calcRoot_layers H B hs hB j d hd

/-- 9 bytes, blocks of 2 bytes, 2 blocks per piece: 5 leaves, 3 pieces, tree of depth 3 -/
example : (Impl.hasherV2 toyH 2 1 (2 ^ 1) [1,2,3,4,5,6,7,8,9]).1 = [54] := by
  rw [hasherV2_root toyH 2 1 1 [1,2,3,4,5,6,7,8,9] (by decide) (by decide)]
  simp [Spec.root, Spec.leaves, Spec.padTo, chunks, show lg 5 = 3 by decide, tree, toyH, zeros]

/-- For a file longer than one piece, the piece layer recorded by `HasherV2` is the
    concatenation of the hashes of the BEP 52 tree layer in which one hash covers one piece
    (`2^j` leaves), restricted to the hashes that cover at least one byte of the file. -/
theorem hasherV2_layer (H : Bytes → Bytes) (B hs j : Nat) (d : Bytes)
    (hB : 0 < B) (hlen : 2 ^ j * B < d.length) :
    (Impl.hasherV2 H B hs (2 ^ j) d).2 = (Spec.pieceLayer H B hs j d).flatten := by
  rw [hasherV2_closed H B hs (2 ^ j) hB (Nat.two_pow_pos j) d]
  show (layersFrom H B hs (2 ^ j) true (chunks (2 ^ j * B) d)).flatten = _
  rw [layers_multi H B hs hB j d hlen]

/-- same file: three piece hashes (the third covers one real leaf and one zero hash) -/
example : (Impl.hasherV2 toyH 2 1 (2 ^ 1) [1,2,3,4,5,6,7,8,9]).2 = [107, 171, 160] := by
  rw [hasherV2_layer toyH 2 1 1 [1,2,3,4,5,6,7,8,9] (by decide) (by decide)]
  simp [Spec.pieceLayer, Spec.leaves, Spec.padTo, chunks, show lg 5 = 3 by decide, tree, toyH,
    zeros, cdiv]

/-- For a non-empty file of at most one piece, `HasherV2` collects a single layer hash and
    it is the pieces root itself (the tree is only as deep as the file needs, not as deep as
    a piece). The creators do not record a piece layer for such files (`size > piece_length`
    is required), so this value never reaches a metafile. -/
theorem hasherV2_layer_small (H : Bytes → Bytes) (B hs j : Nat) (d : Bytes)
    (hB : 0 < B) (hd : d ≠ []) (hlen : d.length ≤ 2 ^ j * B) :
    (Impl.hasherV2 H B hs (2 ^ j) d).2 = Spec.root H B hs d := by
  rw [hasherV2_closed H B hs (2 ^ j) hB (Nat.two_pow_pos j) d]
  show (layersFrom H B hs (2 ^ j) true (chunks (2 ^ j * B) d)).flatten = _
  rw [layers_single H B hs j d hd hlen]
  simp

/-- 5 bytes in a piece of 8 blocks of 2 bytes: 3 leaves, tree of depth 2 (not 3) -/
example : (Impl.hasherV2 toyH 2 1 (2 ^ 3) [1,2,3,4,5]).2 = [24] := by
  rw [hasherV2_layer_small toyH 2 1 3 [1,2,3,4,5] (by decide) (by decide) (by decide)]
  simp [Spec.root, Spec.leaves, Spec.padTo, chunks, show lg 3 = 2 by decide, tree, toyH, zeros]

/-- The specified piece layer has exactly ⌈file length / piece length⌉ entries: one per
    piece that contains at least one byte of the file; hashes that would cover only
    padding are omitted. -/
theorem pieceLayer_count (H : Bytes → Bytes) (B hs j : Nat) (d : Bytes) (hB : 0 < B) :
    (Spec.pieceLayer H B hs j d).length = cdiv d.length (2 ^ j * B) := by
  have hj : 0 < 2 ^ j := Nat.two_pow_pos j
  unfold Spec.pieceLayer
  simp only [List.length_take, List.length_map, chunks_length _ hj, Spec.padTo,
    List.length_append, List.length_replicate]
  rw [leaves_length H B hB, cdiv_cdiv _ _ _ hB hj]
  apply Nat.min_eq_left
  rw [← cdiv_cdiv _ _ _ hB hj, cdiv_le_iff _ _ _ hj]
  have h1 := le_cdiv_mul (cdiv d.length B + (2 ^ max (lg (cdiv d.length B)) j - cdiv d.length B))
    (2 ^ j) hj
  omega

/-- 9 bytes, piece length 4: three entries although the full tree layer has four -/
example : (Spec.pieceLayer toyH 2 1 1 [1,2,3,4,5,6,7,8,9]).length = 3 := by
  rw [pieceLayer_count toyH 2 1 1 _ (by decide)]; decide

/-- "Piecewise = flat": for a file longer than one piece, the pieces root is the root of the
    balanced tree over the piece-layer hashes, padded up to the next power of two of the
    piece count with the hash of an all-padding piece (the depth-`j` tree over `2^j`
    all-zero hashes). So the piece layer really is a layer of the tree whose root is the
    pieces root, which is what lets a client verify pieces against the root. -/
theorem spec_root_from_layer (H : Bytes → Bytes) (B hs j : Nat) (d : Bytes)
    (hB : 0 < B) (hlen : 2 ^ j * B < d.length) :
    Spec.root H B hs d
      = tree H (lg (Spec.pieceLayer H B hs j d).length)
          (Spec.pieceLayer H B hs j d
            ++ List.replicate
                (2 ^ lg (Spec.pieceLayer H B hs j d).length - (Spec.pieceLayer H B hs j d).length)
                (tree H j (List.replicate (2 ^ j) (zeros hs)))) := by
  obtain ⟨_, h2, _, h4⟩ := spec_multi H B hs hB j d hlen
  rw [h2]; exact h4

example : Spec.root toyH 2 1 [1,2,3,4,5,6,7,8,9]
    = tree toyH 2 (Spec.pieceLayer toyH 2 1 1 [1,2,3,4,5,6,7,8,9]
        ++ [tree toyH 1 [[0], [0]]]) := by
  have h := spec_root_from_layer toyH 2 1 1 [1,2,3,4,5,6,7,8,9] (by decide) (by decide)
  have hc : (Spec.pieceLayer toyH 2 1 1 [1,2,3,4,5,6,7,8,9]).length = 3 := by
    rw [pieceLayer_count toyH 2 1 1 _ (by decide)]; decide
  rw [hc, show lg 3 = 2 by decide] at h
  exact h

end TorrentVerif.Props.C02

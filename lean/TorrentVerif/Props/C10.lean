import TorrentVerif.Proofs.Merkle
import TorrentVerif.Proofs.CreatorsAgree
/-
  C10 — all hashers agree (file-level part).
  `HasherV2`, `HasherHybrid` and `FileHasher` (with and without the hybrid flag) are three
  separately written loops; the theorems say they compute the same values for the same file.
-/
namespace TorrentVerif.Props.C10
open TorrentVerif TorrentVerif.Toy


/-- For the same file, block size, blocks per piece and hash functions, `HasherHybrid`,
    `FileHasher(hybrid=False)` and `FileHasher(hybrid=True)` produce the same pieces root and
    the same piece-layer bytes as `HasherV2`; and `FileHasher(hybrid=True)` produces the same
    v1 piece digests and the same padding-file length (or absence of one) as `HasherHybrid`.
    Holds for every file (also the empty one), every `B > 0`, every `bpp > 0`, arbitrary
    hash functions. -/
theorem hashers_agree (H H1 : Bytes → Bytes) (B hs bpp : Nat) (d : Bytes)
    (hB : 0 < B) (hbpp : 0 < bpp) :
    -- roots
    ((Impl.hasherHybrid H H1 B hs bpp d).1 = (Impl.hasherV2 H B hs bpp d).1 ∧
     (Impl.fileHasher H H1 B hs bpp false d).1 = (Impl.hasherV2 H B hs bpp d).1 ∧
     (Impl.fileHasher H H1 B hs bpp true d).1 = (Impl.hasherV2 H B hs bpp d).1) ∧
    -- piece layers
    ((Impl.hasherHybrid H H1 B hs bpp d).2.1 = (Impl.hasherV2 H B hs bpp d).2 ∧
     (Impl.fileHasher H H1 B hs bpp false d).2.1 = (Impl.hasherV2 H B hs bpp d).2 ∧
     (Impl.fileHasher H H1 B hs bpp true d).2.1 = (Impl.hasherV2 H B hs bpp d).2) ∧
    -- v1 pieces and padding description of the two hybrid hashers
    (Impl.fileHasher H H1 B hs bpp true d).2.2.1 = (Impl.hasherHybrid H H1 B hs bpp d).2.2.1 ∧
    (Impl.fileHasher H H1 B hs bpp true d).2.2.2 = (Impl.hasherHybrid H H1 B hs bpp d).2.2.2 := by
  rw [hasherV2_closed H B hs bpp hB hbpp d, hasherHybrid_closed H H1 B hs bpp hB hbpp d,
    fileHasher_closed H H1 B hs bpp hB hbpp false d, fileHasher_closed H H1 B hs bpp hB hbpp true d]
  simp [Impl.calcRoot]

/-- 9 bytes, blocks of 2, pieces of 2 blocks: the hybrid hashers and the v2 hasher agree
    (instance of the theorem; the hypotheses are the two positivity facts) -/
example :
    (Impl.fileHasher toyH toyH1 2 1 2 true [1,2,3,4,5,6,7,8,9]).1
      = (Impl.hasherV2 toyH 2 1 2 [1,2,3,4,5,6,7,8,9]).1 ∧
    (Impl.fileHasher toyH toyH1 2 1 2 true [1,2,3,4,5,6,7,8,9]).2.2.1
      = (Impl.hasherHybrid toyH toyH1 2 1 2 [1,2,3,4,5,6,7,8,9]).2.2.1 :=
  have h := hashers_agree toyH toyH1 2 1 2 [1,2,3,4,5,6,7,8,9] (by decide) (by decide)
  ⟨h.1.2.2, h.2.2.1⟩

/-- `FileHasher(hybrid=False)` yields no v1 pieces and records no padding file. -/
theorem fileHasher_plain_has_no_v1 (H H1 : Bytes → Bytes) (B hs bpp : Nat) (d : Bytes)
    (hB : 0 < B) (hbpp : 0 < bpp) :
    (Impl.fileHasher H H1 B hs bpp false d).2.2.1 = [] ∧
    (Impl.fileHasher H H1 B hs bpp false d).2.2.2 = none := by
  rw [fileHasher_closed H H1 B hs bpp hB hbpp false d]
  simp

example : (Impl.fileHasher toyH toyH1 2 1 2 false [1,2,3,4,5,6,7,8,9]).2.2.1 = [] :=
  (fileHasher_plain_has_no_v1 toyH toyH1 2 1 2 [1,2,3,4,5,6,7,8,9] (by decide) (by decide)).1

/-- All four hashers meet the specification: for a non-empty file and `bpp = 2^j` every one
    of them returns the BEP 52 pieces root, and for files longer than one piece the BEP 52
    piece layer. -/
theorem hashers_meet_spec (H H1 : Bytes → Bytes) (B hs j : Nat) (d : Bytes)
    (hB : 0 < B) (hd : d ≠ []) :
    ((Impl.hasherV2 H B hs (2 ^ j) d).1 = Spec.root H B hs d ∧
     (Impl.hasherHybrid H H1 B hs (2 ^ j) d).1 = Spec.root H B hs d ∧
     (Impl.fileHasher H H1 B hs (2 ^ j) false d).1 = Spec.root H B hs d ∧
     (Impl.fileHasher H H1 B hs (2 ^ j) true d).1 = Spec.root H B hs d) ∧
    (2 ^ j * B < d.length →
     (Impl.hasherV2 H B hs (2 ^ j) d).2 = (Spec.pieceLayer H B hs j d).flatten ∧
     (Impl.hasherHybrid H H1 B hs (2 ^ j) d).2.1 = (Spec.pieceLayer H B hs j d).flatten ∧
     (Impl.fileHasher H H1 B hs (2 ^ j) false d).2.1 = (Spec.pieceLayer H B hs j d).flatten ∧
     (Impl.fileHasher H H1 B hs (2 ^ j) true d).2.1 = (Spec.pieceLayer H B hs j d).flatten) := by
  have hj : 0 < 2 ^ j := Nat.two_pow_pos j
  have hr := calcRoot_layers H B hs hB j d hd
  rw [hasherV2_closed H B hs _ hB hj d, hasherHybrid_closed H H1 B hs _ hB hj d,
    fileHasher_closed H H1 B hs _ hB hj false d, fileHasher_closed H H1 B hs _ hB hj true d]
  refine ⟨⟨hr, hr, hr, hr⟩, ?_⟩
  intro hlen
  have hl := layers_multi H B hs hB j d hlen
  simp [Impl.calcRoot, hl]

example : (Impl.fileHasher toyH toyH1 2 1 (2 ^ 1) false [1,2,3,4,5,6,7,8,9]).1 = [54] := by
  rw [(hashers_meet_spec toyH toyH1 2 1 1 [1,2,3,4,5,6,7,8,9] (by decide) (by decide)).1.2.2.1]
  simp [Spec.root, Spec.leaves, Spec.padTo, chunks, show lg 5 = 3 by decide, tree, toyH, zeros]

end TorrentVerif.Props.C10

/-! ### whole metafiles (creators of `Model/Creators.lean`) -/
namespace TorrentVerif.Props.C10
open TorrentVerif TorrentVerif.Toy TorrentVerif.Ex.G7

/-- For every content tree (single file or directory), every option record and every
    enumeration order, the command-line creator in v2 mode (`TorrentAssembler`,
    `meta_version="2"`) and the class-based v2 creator (`TorrentFileV2`) write the same metafile
    value and the same bytes — in particular the same `info` dictionary and the same
    `piece layers` — although they run different hashers (`FileHasher` / `HasherV2`) and fill
    `info` in a different order. Piece length = `bpp · B`, any `B > 0`, `bpp > 0`, any hashes. -/
theorem creators_agree_v2 (o : CreateOpts) (H H1 : Bytes → Bytes) (B hs bpp : Nat)
    (hB : 0 < B) (hbpp : 0 < bpp) (hpl : o.pieceLength = bpp * B)
    (enum : List (Bytes × Impl.FTree) → List (Bytes × Impl.FTree)) (t : Node) :
    Impl.createAsm false o H H1 B hs enum t = Impl.createV2Class o H B hs enum t ∧
    (Impl.createAsm false o H H1 B hs enum t).map (fun x => (x.1.get? K.info, x.1.get? K.pieceLayers))
      = (Impl.createV2Class o H B hs enum t).map (fun x => (x.1.get? K.info, x.1.get? K.pieceLayers)) := by
  have h := createAsm_false_eq o H H1 B hs bpp hB hbpp hpl enum t
  exact ⟨h, by rw [h]⟩

/-- met by: the example tree (nested, an empty file, a 3-piece file), blocks of 2 bytes,
    2 blocks per piece, enumerated backwards -/
example : Impl.createAsm false exOpts toyH toyH1 2 1 List.reverse exTree
    = Impl.createV2Class exOpts toyH 2 1 List.reverse exTree :=
  (creators_agree_v2 exOpts toyH toyH1 2 1 2 (by decide) (by decide) rfl List.reverse exTree).1

/-- The command-line creator in hybrid mode (`TorrentAssembler`, `meta_version="3"`) and the
    class-based hybrid creator (`TorrentFileHybrid`) write the same metafile value and the same
    bytes — same `info` (file tree, `files` with padding entries, `pieces`, or `length` for a
    single file) and same `piece layers`. The v1 hash must have 20-byte digests (SHA-1 has):
    for a single file the assembler patches the last 20 bytes of a byte string where the class
    patches the last element of a list. -/
theorem creators_agree_hybrid (o : CreateOpts) (H H1 : Bytes → Bytes) (B hs bpp : Nat)
    (hB : 0 < B) (hbpp : 0 < bpp) (hpl : o.pieceLength = bpp * B) (h20 : ∀ x, (H1 x).length = 20)
    (enum : List (Bytes × Impl.FTree) → List (Bytes × Impl.FTree)) (t : Node) :
    Impl.createAsm true o H H1 B hs enum t = Impl.createHybridClass o H H1 B hs enum t ∧
    (Impl.createAsm true o H H1 B hs enum t).map (fun x => (x.1.get? K.info, x.1.get? K.pieceLayers))
      = (Impl.createHybridClass o H H1 B hs enum t).map
          (fun x => (x.1.get? K.info, x.1.get? K.pieceLayers)) := by
  have h := createAsm_true_eq o H H1 B hs bpp hB hbpp hpl h20 enum t
  exact ⟨h, by rw [h]⟩

/-- met by: the example tree and a single file of 9 bytes (short last piece) -/
example : Impl.createAsm true exOpts toyH toyH20 2 1 id exTree
      = Impl.createHybridClass exOpts toyH toyH20 2 1 id exTree ∧
    Impl.createAsm true exOpts toyH toyH20 2 1 id exFile
      = Impl.createHybridClass exOpts toyH toyH20 2 1 id exFile :=
  ⟨(creators_agree_hybrid exOpts toyH toyH20 2 1 2 (by decide) (by decide) rfl
      (by intro x; simp [toyH20]) id exTree).1,
   (creators_agree_hybrid exOpts toyH toyH20 2 1 2 (by decide) (by decide) rfl
      (by intro x; simp [toyH20]) id exFile).1⟩

end TorrentVerif.Props.C10

import TorrentVerif.Proofs.RbMatch
/-
  C19 — rebuild never writes outside the destination, whatever the metafile says.
  Property theorems only; helper lemmas live in `Proofs/`.

  Paths are resolved absolute paths (lists of components); `Spec.CleanPath dest` says the
  destination is absolute and normalised; `Spec.DestReady fs dest` says it exists as a directory
  together with its ancestors (otherwise `copypath` would create the missing ancestors).
-/
namespace TorrentVerif.Props.C19
open TorrentVerif Rebuild PosixPath Spec Impl

/-- `safe_join` never leaves the destination: for EVERY destination (absolute, normalised) and
    EVERY string `rel` (absolute, empty, `.`, `..`, embedded separators, `..` chains of any depth,
    any number of leading slashes): if `safe_join(dest, rel)` returns a path `p`, then `p` lies
    strictly below `dest` (`dest` is a proper component-wise prefix of `p`) and `p` has no empty,
    `.` or `..` component. -/
theorem safeJoin_within_dest (dest : Path) (hd : CleanPath dest) (rel : Bytes) (p : Path)
    (h : safeJoin dest rel = some p) : StrictlyBelow dest p ∧ CleanPath p := by
  obtain ⟨h1, h2, h3⟩ := safeJoin_some dest hd rel p h
  exact ⟨strictlyBelow_of_prefix_ne h1 h3, h2⟩

/-- `dest = /tmp/d`, `rel = "x/../../d/./y//z"` is accepted as `/tmp/d/y/z` -/
example : safeJoin [[116,109,112],[100]] [120,47,46,46,47,46,46,47,100,47,46,47,121,47,47,122]
    = some [[116,109,112],[100],[121],[122]] := by decide
/-- `..`, `../x`, `/etc`, `` (empty), `.` and `a/../..` are rejected -/
example : safeJoin [[100]] [46,46] = none ∧ safeJoin [[100]] [46,46,47,120] = none ∧
    safeJoin [[100]] [47,101,116,99] = none ∧ safeJoin [[100]] [] = none ∧
    safeJoin [[100]] [46] = none ∧ safeJoin [[100]] [97,47,46,46,47,46,46] = none := by decide

/-- strings with two leading slashes: the destination itself is rejected, a path inside accepted -/
example : safeJoin [[100]] [47,47,100] = none ∧ safeJoin [] [47,47] = none ∧
    safeJoinStr [47,100] [47,47,100,47,120] = some [47,100,47,120] ∧
    safeJoin [[100]] [47,47,100,47,120] = some [[100],[120]] := by decide

/-- Why commit 27a1565 was needed: without the removal of a doubled leading slash,
    `safe_join("/d", "//d")` returned `"//d"` – the destination directory itself – and
    `safe_join("/", "//")` returned `"//"` (`safeJoinStrPreFix`/`safeJoinPreFix` model the code
    before the repair; Python 3.12 agreed: `safe_join('/d', '//d') == '//d'`). -/
theorem safeJoin_prefix_could_return_dest :
    safeJoinStrPreFix [47, 100] [47, 47, 100] = some [47, 47, 100] ∧
    safeJoinPreFix [[100]] [47, 47, 100] = some [[100]] ∧ safeJoinPreFix [] [47, 47] = some [] := by
  decide

/-- the repaired function rejects these inputs -/
example : safeJoinStr [47, 100] [47, 47, 100] = none ∧ safeJoinStr [47] [47, 47] = none := by decide

/-- v1 rebuild: every path created or overwritten (each directory of `copypath`'s mkdir chain,
    each copy target; a copy onto an existing directory lands inside it) lies strictly below the
    destination — for all metafile contents (`files` are arbitrary records: any `full` string
    built from any name and path elements), all filemaps, piece strings and filesystems in which
    the destination exists.  Each operation is judged in the state in which it is executed. -/
theorem writes_within_dest_v1 (H1 : Bytes → Bytes) (ds : Nat) (fs : FS) (filemap : FileMap)
    (dest : Path) (pl : Nat) (pieces : List Bytes) (files : List FileRec)
    (hd : CleanPath dest) (hr : DestReady fs dest) :
    TraceAll (fun fs op => StrictlyBelow dest (Op.writes fs op)) fs
      (matchV1 H1 ds fs filemap dest pl pieces files).1 := by
  have run := matchV1_run H1 ds fs filemap dest pl pieces files
  have hb := run.opsBelow (dest := dest) (fun _ _ _ g => by
    obtain ⟨r, _, hsj, _⟩ := GoodV1.file g
    exact (safeJoin_some dest hd _ _ hsj).1) hr
  exact (trace_below dest _ fs hr hb).1

/-- a v1 single-file metafile `n/f` (piece length 4, `H1` = identity) in the example world
    (`Rebuild.Ex`: `/d`, `/s` exist, `/s/f` = 1 2 3): `/d/n` is created, `/s/f` copied to `/d/n/f` -/
example : CleanPath [[100]] ∧ DestReady Ex.fs [[100]] ∧
    matchV1 id 4096 Ex.fs Ex.fmap [[100]] 4 [[1,2,3]] [⟨[110,47,102], [102], 3, none, false⟩]
      = ([Op.mkdir [[100],[110]], Op.copy [[115],[102]] [[100],[110],[102]]], [[110,47,102]]) := by
  decide

/-- v2 / hybrid rebuild: same statement as `writes_within_dest_v1`. -/
theorem writes_within_dest_v2 (rootOf : Bytes → Bytes) (ds : Nat) (fs : FS) (filemap : FileMap)
    (dest : Path) (files : List FileRec) (hd : CleanPath dest) (hr : DestReady fs dest) :
    TraceAll (fun fs op => StrictlyBelow dest (Op.writes fs op)) fs
      (matchV2 rootOf ds filemap dest fs files).1 := by
  have run := matchV2_run rootOf ds filemap dest files files fs (fun _ h => h)
  have hb := run.opsBelow (dest := dest) (fun _ _ _ g => by
    obtain ⟨r, _, hsj, _⟩ := GoodV2.file g
    exact (safeJoin_some dest hd _ _ hsj).1) hr
  exact (trace_below dest _ fs hr hb).1

/-- the hypotheses hold in the example world (`Rebuild.Ex`: `/d`, `/s` exist, `/s/f` = 1 2 3), and a metafile naming `../f` and `n/f` makes the
    model create `/d/n` and copy `/s/f` to `/d/n/f` only (`rootOf` = identity) -/
example : CleanPath [[100]] ∧ DestReady Ex.fs [[100]] ∧
    matchV2 id 4096 Ex.fmap [[100]] Ex.fs
      [⟨[46,46,47,102], [102], 3, some [1,2,3], false⟩, ⟨[110,47,102], [102], 3, some [1,2,3], false⟩]
      = ([Op.mkdir [[100],[110]], Op.copy [[115],[102]] [[100],[110],[102]]], [[110,47,102]]) := by
  decide

/-- Stated without reference to filesystem states: every path handed to `os.mkdir` and every
    destination handed to `shutil.copy` by a v1 or v2 rebuild lies strictly below the destination
    directory (given that the destination and its ancestors exist). -/
theorem targets_within_dest (H1 rootOf : Bytes → Bytes) (ds : Nat) (fs : FS) (filemap : FileMap)
    (dest : Path) (pl : Nat) (pieces : List Bytes) (files : List FileRec)
    (hd : CleanPath dest) (hr : DestReady fs dest) :
    (∀ op ∈ (matchV1 H1 ds fs filemap dest pl pieces files).1, StrictlyBelow dest op.target) ∧
    (∀ op ∈ (matchV2 rootOf ds filemap dest fs files).1, StrictlyBelow dest op.target) := by
  constructor
  · intro op hop
    have run := matchV1_run H1 ds fs filemap dest pl pieces files
    cases op with
    | mkdir p =>
      exact run.opsBelow (dest := dest) (fun _ _ _ g => by
        obtain ⟨r, _, hsj, _⟩ := GoodV1.file g
        exact (safeJoin_some dest hd _ _ hsj).1) hr _ hop
    | copy src dst =>
      obtain ⟨_, _, g⟩ := run.copy_mem hop
      obtain ⟨r, _, hsj, _⟩ := GoodV1.file g
      exact (safeJoin_within_dest dest hd _ _ hsj).1
  · intro op hop
    have run := matchV2_run rootOf ds filemap dest files files fs (fun _ h => h)
    cases op with
    | mkdir p =>
      exact run.opsBelow (dest := dest) (fun _ _ _ g => by
        obtain ⟨r, _, hsj, _⟩ := GoodV2.file g
        exact (safeJoin_some dest hd _ _ hsj).1) hr _ hop
    | copy src dst =>
      obtain ⟨_, _, g⟩ := run.copy_mem hop
      obtain ⟨r, _, hsj, _⟩ := GoodV2.file g
      exact (safeJoin_within_dest dest hd _ _ hsj).1

/-- a metafile whose name is the destination spelled with two slashes (`//d`) gets nothing written:
    v1 single file and v2 -/
example : matchV1 id 4096 Ex.fs Ex.fmap [[100]] 4 [[1,2,3]] [⟨[47,47,100], [102], 3, none, false⟩] = ([], []) ∧
    matchV2 id 4096 Ex.fmap [[100]] Ex.fs [⟨[47,47,100], [102], 3, some [1,2,3], false⟩] = ([], []) := by decide

/-- When `safe_join` rejects a file's path nothing is written for it and it is not counted (v1):
    every counted file is a non-padding record with an accepted destination; every copy goes to the
    accepted destination of some non-padding file record; every created directory is a proper
    ancestor of such a destination (padding entries – `attr = "p"` – are never copy targets and
    never counted); and if all non-padding records are rejected the rebuild performs no operation
    at all and counts nothing. -/
theorem rejected_are_skipped_v1 (H1 : Bytes → Bytes) (ds : Nat) (fs : FS) (filemap : FileMap)
    (dest : Path) (pl : Nat) (pieces : List Bytes) (files : List FileRec) :
    let res := matchV1 H1 ds fs filemap dest pl pieces files
    (∀ f ∈ res.2, ∃ r ∈ files, f = r.full ∧ (safeJoin dest r.full).isSome ∧ r.pad = false) ∧
    (∀ src dst, Op.copy src dst ∈ res.1 → ∃ r ∈ files, r.pad = false ∧ safeJoin dest r.full = some dst) ∧
    (∀ p, Op.mkdir p ∈ res.1 → ∃ r ∈ files, r.pad = false ∧
      ∃ dst, safeJoin dest r.full = some dst ∧ p <+: dst ∧ p ≠ dst) ∧
    ((∀ r ∈ files, r.pad = false → safeJoin dest r.full = none) → res.1 = [] ∧ res.2 = []) := by
  intro res
  have run := matchV1_run H1 ds fs filemap dest pl pieces files
  have hc := matchV1_counted H1 ds fs filemap dest pl pieces files
  have h2 : ∀ src dst, Op.copy src dst ∈ res.1 →
      ∃ r ∈ files, r.pad = false ∧ safeJoin dest r.full = some dst := by
    intro src dst h
    obtain ⟨_, _, g⟩ := run.copy_mem h
    exact GoodV1.nonpad g
  have h3 : ∀ p, Op.mkdir p ∈ res.1 → ∃ r ∈ files, r.pad = false ∧
      ∃ dst, safeJoin dest r.full = some dst ∧ p <+: dst ∧ p ≠ dst := by
    intro p h
    obtain ⟨_, src, dst, _, g, hp1, hp2⟩ := run.mkdir_mem h
    obtain ⟨r, hr, hpad, hsj⟩ := GoodV1.nonpad g
    exact ⟨r, hr, hpad, dst, hsj, hp1, hp2⟩
  refine ⟨hc, h2, h3, ?_⟩
  intro hall
  constructor
  · apply List.eq_nil_iff_forall_not_mem.mpr
    intro op hop
    cases op with
    | mkdir p => obtain ⟨r, hr, hpad, dst, hsj, _⟩ := h3 p hop; rw [hall r hr hpad] at hsj; cases hsj
    | copy src dst => obtain ⟨r, hr, hpad, hsj⟩ := h2 src dst hop; rw [hall r hr hpad] at hsj; cases hsj
  · apply List.eq_nil_iff_forall_not_mem.mpr
    intro f hf
    obtain ⟨r, hr, _, hs, hpad⟩ := hc f hf
    rw [hall r hr hpad] at hs; cases hs

/-- a metafile with a padding entry (`Rebuild.Ex.filesP`: `T/a`, the padding entry `T/.pad/1`,
    `T/b`; piece length 4, pieces 1 2 3 0 | 5 6): the files are restored, nothing is created for the
    padding entry and it is not counted -/
example : matchV1 id 4096 Ex.fsP Ex.fmapP [[100]] 4 [[1,2,3,0],[5,6]] Ex.filesP
    = ([Op.mkdir [[100],[84]], Op.copy [[115],[97]] [[100],[84],[97]], Op.copy [[115],[98]] [[100],[84],[98]]],
       [[84,47,97], [84,47,98]]) := by decide

/-- a v1 single-file metafile named `../f` whose piece matches `/s/f`: nothing is written or
    counted (`H1` = identity, piece length 4) -/
example : matchV1 id 4096 Ex.fs Ex.fmap [[100]] 4 [[1,2,3]] [⟨[46,46,47,102], [102], 3, none, false⟩] = ([], []) := by
  decide

/-- When `safe_join` rejects a file's path nothing is written for it and it is not counted
    (v2 / hybrid); same four statements as `rejected_are_skipped_v1`. -/
theorem rejected_are_skipped_v2 (rootOf : Bytes → Bytes) (ds : Nat) (fs : FS) (filemap : FileMap)
    (dest : Path) (files : List FileRec) :
    let res := matchV2 rootOf ds filemap dest fs files
    (∀ f ∈ res.2, ∃ r ∈ files, f = r.full ∧ (safeJoin dest r.full).isSome) ∧
    (∀ src dst, Op.copy src dst ∈ res.1 → ∃ r ∈ files, safeJoin dest r.full = some dst) ∧
    (∀ p, Op.mkdir p ∈ res.1 → ∃ r ∈ files, ∃ dst, safeJoin dest r.full = some dst ∧ p <+: dst ∧ p ≠ dst) ∧
    ((∀ r ∈ files, safeJoin dest r.full = none) → res.1 = [] ∧ res.2 = []) := by
  intro res
  have run := matchV2_run rootOf ds filemap dest files files fs (fun _ h => h)
  have hc := matchV2_counted rootOf ds filemap dest files fs
  have h2 : ∀ src dst, Op.copy src dst ∈ res.1 → ∃ r ∈ files, safeJoin dest r.full = some dst := by
    intro src dst h
    obtain ⟨_, _, g⟩ := run.copy_mem h
    obtain ⟨r, hr, hsj, _⟩ := GoodV2.file g
    exact ⟨r, hr, hsj⟩
  have h3 : ∀ p, Op.mkdir p ∈ res.1 →
      ∃ r ∈ files, ∃ dst, safeJoin dest r.full = some dst ∧ p <+: dst ∧ p ≠ dst := by
    intro p h
    obtain ⟨_, src, dst, _, g, hp1, hp2⟩ := run.mkdir_mem h
    obtain ⟨r, hr, hsj, _⟩ := GoodV2.file g
    exact ⟨r, hr, dst, hsj, hp1, hp2⟩
  refine ⟨hc, h2, h3, ?_⟩
  intro hall
  constructor
  · apply List.eq_nil_iff_forall_not_mem.mpr
    intro op hop
    cases op with
    | mkdir p => obtain ⟨r, hr, dst, hsj, _⟩ := h3 p hop; rw [hall r hr] at hsj; cases hsj
    | copy src dst => obtain ⟨r, hr, hsj⟩ := h2 src dst hop; rw [hall r hr] at hsj; cases hsj
  · apply List.eq_nil_iff_forall_not_mem.mpr
    intro f hf
    obtain ⟨r, hr, _, hs⟩ := hc f hf
    rw [hall r hr] at hs; cases hs

/-- a v2 metafile with the absolute name `/s` and file `f`, whose root matches `/s/f`: rejected,
    nothing is written or counted -/
example : matchV2 id 4096 Ex.fmap [[100]] Ex.fs [⟨[47,115,47,102], [102], 3, some [1,2,3], false⟩] = ([], []) := by
  decide

end TorrentVerif.Props.C19

import TorrentVerif.Proofs.Effects
/-
  C17 — an interrupted or failed edit never loses or truncates the metafile.
  Theorems about the operation list of `edit_torrent` (`Impl.editOps`, `Impl.editFinally`)
  over the effects model.  Assumptions (atomic rename, failing operations have no effect except
  short writes, the `finally` clause does not fail, no power-loss durability) are listed in the
  header of `Model/Effects.lean`.
-/
namespace TorrentVerif.Props.C17
open TorrentVerif

/-- Crash safety.  Let the metafile hold `old` and let the edit produce the encoding `new`.
    Whatever the crash point — before any operation, between any two, after the last, or inside
    the write after any number `k` of bytes — the metafile path holds exactly `old` (as long as
    the replace has not happened, crash points 0..3) or exactly `new` (afterwards); it is never
    missing, empty or truncated.  No natural failure occurs on the way (the state exists), and
    no path other than the metafile and `<metafile>.part` is touched. -/
theorem edit_crash_safe (fs : FS) (mf : Path) (old new : Bytes) (hold : fs.get mf = some old)
    (c k : Nat) :
    ∃ s, crashState fs (Impl.editOps mf (some new)) c k = some s ∧
      (s.get mf = some old ∨ s.get mf = some new) ∧
      (c ≤ 3 → s.get mf = some old) ∧
      (4 ≤ c → s.get mf = some new) ∧
      (∀ q, q ≠ mf → q ≠ Impl.partPath mf → s.get q = fs.get q) := by
  have hne : Impl.partPath mf ≠ mf := partPath_ne mf
  have hne' : mf ≠ Impl.partPath mf := Ne.symm hne
  have hhas : fs.has mf = true := by simp [FS.has, hold]
  match c with
  | 0 =>
    refine ⟨fs, ?_, Or.inl hold, fun _ => hold, fun h => by omega, fun _ _ _ => rfl⟩
    simp [crashState, run, interrupted, Impl.editOps]
  | 1 =>
    refine ⟨fs, ?_, Or.inl hold, fun _ => hold, fun h => by omega, fun _ _ _ => rfl⟩
    simp [crashState, run, applyOp, interrupted, Impl.editOps, hhas]
  | 2 =>
    refine ⟨(fs.set (Impl.partPath mf) []).set (Impl.partPath mf) ([] ++ new.take k), ?_, ?_⟩
    · simp [crashState, run, applyOp, interrupted, Impl.editOps, hhas, FS.get_set_same]
    · have : ((fs.set (Impl.partPath mf) []).set (Impl.partPath mf) ([] ++ new.take k)).get mf
          = some old := by
        rw [FS.get_set_other _ _ _ _ hne', FS.get_set_other _ _ _ _ hne', hold]
      refine ⟨Or.inl this, fun _ => this, fun h => by omega, fun q _ h2 => ?_⟩
      rw [FS.get_set_other _ _ _ _ h2, FS.get_set_other _ _ _ _ h2]
  | 3 =>
    refine ⟨(fs.set (Impl.partPath mf) []).set (Impl.partPath mf) ([] ++ new), ?_, ?_⟩
    · simp [crashState, run, applyOp, interrupted, Impl.editOps, hhas, FS.get_set_same]
    · have : ((fs.set (Impl.partPath mf) []).set (Impl.partPath mf) ([] ++ new)).get mf
          = some old := by
        rw [FS.get_set_other _ _ _ _ hne', FS.get_set_other _ _ _ _ hne', hold]
      refine ⟨Or.inl this, fun _ => this, fun h => by omega, fun q _ h2 => ?_⟩
      rw [FS.get_set_other _ _ _ _ h2, FS.get_set_other _ _ _ _ h2]
  | n + 4 =>
    refine ⟨((((fs.set (Impl.partPath mf) []).set (Impl.partPath mf) ([] ++ new)).del
        (Impl.partPath mf)).set mf new), ?_, ?_⟩
    · simp [crashState, run, applyOp, interrupted, Impl.editOps, hhas, FS.get_set_same]
    · have : ((((fs.set (Impl.partPath mf) []).set (Impl.partPath mf) ([] ++ new)).del
          (Impl.partPath mf)).set mf new).get mf = some new := FS.get_set_same _ _ _
      refine ⟨Or.inr this, fun h => by omega, fun _ => this, fun q h1 h2 => ?_⟩
      rw [FS.get_set_other _ _ _ _ h1, FS.get_del_other _ _ _ h2,
        FS.get_set_other _ _ _ _ h2, FS.get_set_other _ _ _ _ h2]

/-- crash inside the write after 2 of 4 bytes: the metafile is still the complete old one -/
example : (crashState [("a.torrent", [1, 2, 3]), ("x", [9])]
    (Impl.editOps "a.torrent" (some [5, 6, 7, 8])) 2 2)
    = some [("a.torrent", [1, 2, 3]), ("x", [9]), ("a.torrent.part", [5, 6])] := by decide

/-- Error safety.  If operation number `i` (0 = load, 1 = open of the `.part` file, 2 = the
    write — after any number `k` of bytes —, 3 = the replace) raises an I/O error, then after
    the `finally` clause the metafile path holds the complete `old` file; when nothing raises
    (`i ≥ 4`: the replace has happened) it holds the complete `new` one.  In both cases the
    `.part` file is gone and no other path is touched. -/
theorem edit_error_safe (fs : FS) (mf : Path) (old new : Bytes) (hold : fs.get mf = some old)
    (i k : Nat) :
    ∃ s, errorState fs (Impl.editOps mf (some new)) (Impl.editFinally mf) i k = some s ∧
      (i ≤ 3 → s.get mf = some old) ∧
      (4 ≤ i → s.get mf = some new) ∧
      (1 ≤ i → s.get (Impl.partPath mf) = none) ∧
      (∀ q, q ≠ mf → q ≠ Impl.partPath mf → s.get q = fs.get q) := by
  have hne : Impl.partPath mf ≠ mf := partPath_ne mf
  have hne' : mf ≠ Impl.partPath mf := Ne.symm hne
  obtain ⟨s, hs, _, h3, h4, hfr⟩ := edit_crash_safe fs mf old new hold i k
  unfold errorState
  rw [hs]
  dsimp only
  unfold Impl.editFinally
  by_cases hp : s.has (Impl.partPath mf) = true
  · rw [if_pos hp]
    refine ⟨s.del (Impl.partPath mf), by simp [run, applyOp, hp], ?_, ?_, ?_, ?_⟩
    · intro h; rw [FS.get_del_other _ _ _ hne']; exact h3 h
    · intro h; rw [FS.get_del_other _ _ _ hne']; exact h4 h
    · intro _; exact FS.get_del_same _ _
    · intro q h1 h2; rw [FS.get_del_other _ _ _ h2]; exact hfr q h1 h2
  · rw [if_neg hp]
    refine ⟨s, rfl, h3, h4, fun _ => ?_, hfr⟩
    exact (FS.has_eq_false_iff _ _).mp (by simpa using hp)

/-- the write fails after 2 bytes (disk full): old metafile intact, `.part` cleaned up -/
example : (errorState [("a.torrent", [1, 2, 3]), ("x", [9])]
    (Impl.editOps "a.torrent" (some [5, 6, 7, 8])) (Impl.editFinally "a.torrent") 2 2)
    = some [("a.torrent", [1, 2, 3]), ("x", [9])] := by decide

/-- Encoding errors.  When the new dictionary cannot be encoded, `benencode` raises before any
    file is opened for writing: the only operation performed is the load, and after the
    `finally` clause the metafile still holds `old`; if no `<metafile>.part` was lying around
    the filesystem is literally unchanged. -/
theorem encode_error_safe (fs : FS) (mf : Path) (old : Bytes) (hold : fs.get mf = some old)
    (i k : Nat) :
    (∀ o ∈ Impl.editOps mf none, o.isRead = true) ∧
    ∃ s, errorState fs (Impl.editOps mf none) (Impl.editFinally mf) i k = some s ∧
      s.get mf = some old ∧
      (fs.get (Impl.partPath mf) = none → s = fs) := by
  have hne' : mf ≠ Impl.partPath mf := Ne.symm (partPath_ne mf)
  have hhas : fs.has mf = true := by simp [FS.has, hold]
  refine ⟨by simp [Impl.editOps, Op.isRead], ?_⟩
  have hcs : crashState fs (Impl.editOps mf none) i k = some fs := by
    match i with
    | 0 => simp [crashState, run, interrupted, Impl.editOps]
    | n + 1 => simp [crashState, run, applyOp, interrupted, Impl.editOps, hhas]
  unfold errorState
  rw [hcs]
  dsimp only
  unfold Impl.editFinally
  by_cases hp : fs.has (Impl.partPath mf) = true
  · rw [if_pos hp]
    refine ⟨fs.del (Impl.partPath mf), by simp [run, applyOp, hp], ?_, ?_⟩
    · rw [FS.get_del_other _ _ _ hne']; exact hold
    · intro h; exact FS.del_of_get_none _ _ h
  · rw [if_neg hp]
    exact ⟨fs, rfl, hold, fun _ => rfl⟩

example : errorState [("a.torrent", [1, 2, 3])] (Impl.editOps "a.torrent" none)
    (Impl.editFinally "a.torrent") 1 0 = some [("a.torrent", [1, 2, 3])] := by decide

/-- Crash safety when a `<metafile>.part` may be lying around (left by an edit that died).
    `Impl.editOpsFrom` removes such a leftover right after the load.  For every filesystem —
    with or without a leftover, whatever it holds — and every crash point and prefix length,
    the metafile path holds exactly `old` or exactly `new`, and no path other than the metafile
    and the `.part` file is touched.  With a leftover the crash points are shifted by one
    (0..4 old, from 5 on new). -/
theorem edit_crash_safe_leftover (fs : FS) (mf : Path) (old new : Bytes)
    (hold : fs.get mf = some old) (c k : Nat) :
    ∃ s, crashState fs (Impl.editOpsFrom fs mf (some new)) c k = some s ∧
      (s.get mf = some old ∨ s.get mf = some new) ∧
      (c ≤ 3 → s.get mf = some old) ∧
      (5 ≤ c → s.get mf = some new) ∧
      (∀ q, q ≠ mf → q ≠ Impl.partPath mf → s.get q = fs.get q) := by
  have hne : mf ≠ Impl.partPath mf := Ne.symm (partPath_ne mf)
  by_cases hp : fs.has (Impl.partPath mf) = true
  · have hold' : (fs.del (Impl.partPath mf)).get mf = some old := by
      rw [FS.get_del_other _ _ _ hne]; exact hold
    match c with
    | 0 =>
      refine ⟨fs, ?_, Or.inl hold, fun _ => hold, fun h => by omega, fun _ _ _ => rfl⟩
      simp [crashState, run, interrupted, editOpsFrom_leftover fs mf _ hp]
    | 1 =>
      refine ⟨fs, ?_, Or.inl hold, fun _ => hold, fun h => by omega, fun _ _ _ => rfl⟩
      have hhas : fs.has mf = true := by simp [FS.has, hold]
      simp [crashState, run, applyOp, interrupted, editOpsFrom_leftover fs mf _ hp, hhas]
    | c + 2 =>
      obtain ⟨s, hs, h1, h2, h3, h4⟩ :=
        edit_crash_safe (fs.del (Impl.partPath mf)) mf old new hold' (c + 1) k
      refine ⟨s, by rw [crash_leftover_shift fs mf old _ hold hp]; exact hs, h1,
        fun h => h2 (by omega), fun h => h3 (by omega), fun q hq1 hq2 => ?_⟩
      rw [h4 q hq1 hq2, FS.get_del_other _ _ _ hq2]
  · have hn : fs.get (Impl.partPath mf) = none := (FS.has_eq_false_iff _ _).mp (by simpa using hp)
    rw [editOpsFrom_eq fs mf _ hn]
    obtain ⟨s, hs, h1, h2, h3, h4⟩ := edit_crash_safe fs mf old new hold c k
    exact ⟨s, hs, h1, h2, fun h => h3 (by omega), h4⟩

/-- a leftover `.part` from an earlier crash; this edit dies inside its own write after 1 byte:
    the metafile is still the complete old one -/
example : (crashState [("a.torrent", [1, 2, 3]), ("a.torrent.part", [7, 7, 7, 7, 7])]
    (Impl.editOpsFrom [("a.torrent", [1, 2, 3]), ("a.torrent.part", [7, 7, 7, 7, 7])]
      "a.torrent" (some [5, 6, 7, 8])) 3 1)
    = some [("a.torrent", [1, 2, 3]), ("a.torrent.part", [5])] := by decide

/-- Error safety with a possible leftover (`Impl.editError`: the load is outside the `try`, so
    an error there skips the `finally` clause): whichever single operation raises (the load, the
    removal of the leftover, the open, the write after any prefix, the replace), afterwards
    the metafile holds the complete `old` file; when nothing raises (`i ≥ 5`
    covers both cases) it holds the complete `new` one.  No other path except `.part` is touched. -/
theorem edit_error_safe_leftover (fs : FS) (mf : Path) (old new : Bytes)
    (hold : fs.get mf = some old) (i k : Nat) :
    ∃ s, Impl.editError fs mf (some new) i k = some s ∧
      (s.get mf = some old ∨ s.get mf = some new) ∧
      (i ≤ 3 → s.get mf = some old) ∧
      (5 ≤ i → s.get mf = some new) ∧
      (∀ q, q ≠ mf → q ≠ Impl.partPath mf → s.get q = fs.get q) := by
  have hne : mf ≠ Impl.partPath mf := Ne.symm (partPath_ne mf)
  by_cases hp : fs.has (Impl.partPath mf) = true
  · have hold' : (fs.del (Impl.partPath mf)).get mf = some old := by
      rw [FS.get_del_other _ _ _ hne]; exact hold
    have hhas : fs.has mf = true := by simp [FS.has, hold]
    match i with
    | 0 =>
      refine ⟨fs, ?_, Or.inl hold, fun _ => hold, fun h => by omega, fun _ _ _ => rfl⟩
      simp [Impl.editError, crashState, run, interrupted, editOpsFrom_leftover fs mf _ hp]
    | 1 =>
      refine ⟨fs.del (Impl.partPath mf), ?_, Or.inl hold', fun _ => hold', fun h => by omega,
        fun q _ hq2 => FS.get_del_other _ _ _ hq2⟩
      simp [Impl.editError, errorState, crashState, run, applyOp, interrupted,
        editOpsFrom_leftover fs mf _ hp, Impl.editFinally, hp, hhas]
    | i + 2 =>
      obtain ⟨s, hs, h1, h2, _, h4⟩ :=
        edit_error_safe (fs.del (Impl.partPath mf)) mf old new hold' (i + 1) k
      have hor : s.get mf = some old ∨ s.get mf = some new := by
        by_cases hi : i + 1 ≤ 3
        · exact Or.inl (h1 hi)
        · exact Or.inr (h2 (by omega))
      refine ⟨s, by
          unfold Impl.editError
          rw [if_neg (by omega), error_leftover_shift fs mf old _ _ hold hp]; exact hs, hor,
        fun h => h1 (by omega), fun h => h2 (by omega), fun q hq1 hq2 => ?_⟩
      rw [h4 q hq1 hq2, FS.get_del_other _ _ _ hq2]
  · have hn : fs.get (Impl.partPath mf) = none := (FS.has_eq_false_iff _ _).mp (by simpa using hp)
    unfold Impl.editError
    rw [editOpsFrom_eq fs mf _ hn]
    by_cases hi0 : i = 0
    · subst hi0
      refine ⟨fs, ?_, Or.inl hold, fun _ => hold, fun h => by omega, fun _ _ _ => rfl⟩
      simp [crashState, run, interrupted, Impl.editOps]
    · rw [if_neg hi0]
      obtain ⟨s, hs, h1, h2, _, h4⟩ := edit_error_safe fs mf old new hold i k
      have hor : s.get mf = some old ∨ s.get mf = some new := by
        by_cases hi : i ≤ 3
        · exact Or.inl (h1 hi)
        · exact Or.inr (h2 (by omega))
      exact ⟨s, hs, hor, h1, fun h => h2 (by omega), h4⟩

/-- leftover present, the replace raises: old metafile intact, no `.part` left -/
example : Impl.editError [("a.torrent", [1, 2, 3]), ("a.torrent.part", [7, 7])] "a.torrent"
    (some [5, 6, 7, 8]) 4 0 = some [("a.torrent", [1, 2, 3])] := by decide

/-- Encoding error with a possible leftover.  If the load itself raises nothing is touched
    (not even the leftover).  Otherwise the leftover is removed — before the encoder runs, or by
    the `finally` clause if the removal raised — so when the encoder (or the removal) raises the
    resulting filesystem is exactly the old one without `<metafile>.part`: the metafile and
    every other path are as before. -/
theorem encode_error_safe_leftover (fs : FS) (mf : Path) (old : Bytes)
    (hold : fs.get mf = some old) (i k : Nat) :
    (i = 0 → Impl.editError fs mf none i k = some fs) ∧
    (1 ≤ i → Impl.editError fs mf none i k = some (fs.del (Impl.partPath mf))) ∧
    (fs.del (Impl.partPath mf)).get mf = some old := by
  have hne : mf ≠ Impl.partPath mf := Ne.symm (partPath_ne mf)
  refine ⟨?_, ?_, by rw [FS.get_del_other _ _ _ hne]; exact hold⟩
  · intro h; subst h
    simp [Impl.editError, crashState, run, interrupted, Impl.editOpsFrom]
  intro hi
  have hi0 : i ≠ 0 := by omega
  unfold Impl.editError
  rw [if_neg hi0]
  have hhas : fs.has mf = true := by simp [FS.has, hold]
  by_cases hp : fs.has (Impl.partPath mf) = true
  · have hdel : (fs.del (Impl.partPath mf)).has (Impl.partPath mf) = false := by
      simp [FS.has, FS.get_del_same]
    match i, hi with
    | 1, _ =>
      simp [errorState, crashState, run, applyOp, interrupted, editOpsFrom_leftover fs mf _ hp,
        Impl.editFinally, hp, hhas]
    | i + 2, _ =>
      simp [errorState, crashState, run, applyOp, interrupted, editOpsFrom_leftover fs mf _ hp,
        Impl.editFinally, hp, hhas, hdel, Impl.editOps]
  · have hn : fs.get (Impl.partPath mf) = none := (FS.has_eq_false_iff _ _).mp (by simpa using hp)
    rw [editOpsFrom_eq fs mf _ hn, FS.del_of_get_none _ _ hn]
    obtain ⟨_, s, hs, _, h2⟩ := encode_error_safe fs mf old hold i k
    rw [hs, h2 hn]

example : Impl.editError [("a.torrent", [1, 2, 3]), ("a.torrent.part", [7, 7]), ("x", [9])]
    "a.torrent" none 9 0 = some [("a.torrent", [1, 2, 3]), ("x", [9])] := by decide

/-- Why the fix was needed: with the order of operations before the fix
    (`os.remove(metafile)` first, then `open(metafile,'wb')` and the write) there are crash
    points at which the metafile is missing (after the remove), empty (after the open) or
    truncated (inside the write): neither the old nor the new file. -/
theorem old_order_unsafe
    : ∃ (fs : FS) (mf : Path) (old new : Bytes) (c k : Nat) (s : FS), fs.get mf = some old ∧
      crashState fs (Impl.editOpsOld mf new) c k = some s ∧
      s.get mf ≠ some old ∧ s.get mf ≠ some new :=
  ⟨[("a.torrent", [1, 2, 3])], "a.torrent", [1, 2, 3], [5, 6, 7, 8], 3, 2,
    [("a.torrent", [5, 6])], by decide, by decide, by decide, by decide⟩

/-- the three bad states of the old order: missing, empty, truncated -/
example :
    (crashState [("a.torrent", [1, 2, 3])] (Impl.editOpsOld "a.torrent" [5, 6, 7, 8]) 2 0
      = some []) ∧
    (crashState [("a.torrent", [1, 2, 3])] (Impl.editOpsOld "a.torrent" [5, 6, 7, 8]) 3 0
      = some [("a.torrent", [])]) ∧
    (crashState [("a.torrent", [1, 2, 3])] (Impl.editOpsOld "a.torrent" [5, 6, 7, 8]) 3 2
      = some [("a.torrent", [5, 6])]) := by decide

end TorrentVerif.Props.C17

import TorrentVerif.Proofs.EditCanon
/-
  C07 — edit changes only the named fields; hash-bearing data is untouched.
  Property theorems only; helper lemmas live in `Proofs/`.

  `Impl.editTorrent mf req` is `edit_torrent` on the decoded metafile `mf` (`.error` = Python
  raises, nothing is written). `mf.get? k` is the top-level value under `k`, `mf.infoGet? k`
  the value under `k` in `info`. `req.names` are the keys the request names (a field that is
  not `None`; `announce` brings `announce-list` with it).
-/
/-! example inputs used by the `example`s below -/
namespace TorrentVerif.Ex.C07
open TorrentVerif Impl Spec

/-- a v1 metafile with a foreign top-level key, keys not even sorted -/
def exMeta : BVal := .dict [(K.info, .dict [(K.pieces, .str (List.replicate 20 1)),
  (K.name, .str [110]), (K.pieceLength, .int 16384), (K.length, .int 5), (K.comment, .str [111])]),
  ([122], .int 1), (K.announce, .str [97]), (K.urlList, .list [.str [117]])]

/-- replace the comment, clear the web seeds -/
def exReq : EditReq := { comment := .str [99], urlList := .cleared }

/-- a request that names all six fields -/
def exReqAll : EditReq :=
  { comment := .cleared, source := .str [115], priv := .str [49], announce := .list [[120], [121]],
    urlList := .str [117, 32, 118], httpseeds := .cleared }

/-- new trackers, web seeds cleared, http seeds set -/
def exReqTr : EditReq :=
  { announce := .str [120, 32, 121], urlList := .cleared, httpseeds := .list [[104]] }

/-- original without the foreign key -/
def exMeta2 : BVal := .dict [(K.info, .dict [(K.pieces, .str (List.replicate 20 1)),
  (K.name, .str [110]), (K.pieceLength, .int 16384), (K.length, .int 5), (K.comment, .str [111])]),
  (K.announce, .str [97]), (K.urlList, .list [.str [117]])]

/-- comment set, then cleared; web seeds cleared, then set; source set twice -/
def exReqs : List EditReq :=
  [{ comment := .str [99], urlList := .cleared, source := .str [49] },
   { comment := .cleared, source := .str [50] },
   { urlList := .list [[119]] }]

/-- `comment` at the top level (foreign) and in `info` -/
def exForeign : BVal := .dict [(K.comment, .str [116]), (K.info, .dict [(K.comment, .str [105])])]

end TorrentVerif.Ex.C07

namespace TorrentVerif.Props.C07
open TorrentVerif Impl Spec TorrentVerif.Ex.C07

/-- Every key the request does not name keeps its value, at the top level and in `info`.
    No assumption on the metafile (any key order, foreign keys, any nesting). -/
theorem edit_frame (mf mf' : BVal) (req : EditReq) (h : editTorrent mf req = .ok mf')
    (k : Bytes) (hk : k ∉ req.names) :
    (k ≠ K.info → mf'.get? k = mf.get? k) ∧ mf'.infoGet? k = mf.infoGet? k := by
  obtain ⟨top, info, tr, hmf, _, _, _⟩ := edit_ok mf mf' req h
  constructor
  · intro hne
    rw [edit_top_get mf mf' req h k hne, topWriteG_keep req k hk]; rfl
  · rw [edit_info_get mf mf' req h top hmf k, infoWriteG_keep req top k hk]; rfl


example : ∃ mf', editTorrent exMeta exReq = .ok mf' ∧
    mf'.get? K.announce = some (.str [97]) ∧ mf'.get? [122] = some (.int 1) ∧
    mf'.infoGet? K.name = some (.str [110]) := by
  obtain ⟨mf', h⟩ : ∃ mf', editTorrent exMeta exReq = .ok mf' := ⟨_, rfl⟩
  refine ⟨mf', h, ?_, ?_, ?_⟩
  · exact ((edit_frame exMeta mf' exReq h K.announce (by decide)).1 (by decide)).trans rfl
  · exact ((edit_frame exMeta mf' exReq h [122] (by decide)).1 (by decide)).trans rfl
  · exact ((edit_frame exMeta mf' exReq h K.name (by decide)).2).trans rfl

/-- The hash-bearing data — `files`, `file tree`, `pieces`, `piece length`, `name`,
    `meta version`, `length` in `info`, and the top-level `piece layers` — is never changed
    by any request. -/
theorem edit_hash_bearing_untouched (mf mf' : BVal) (req : EditReq)
    (h : editTorrent mf req = .ok mf') :
    (∀ k ∈ [K.files, K.fileTree, K.pieces, K.pieceLength, K.name, K.metaVersion, K.length],
        mf'.infoGet? k = mf.infoGet? k) ∧
    mf'.get? K.pieceLayers = mf.get? K.pieceLayers := by
  obtain ⟨top, info, tr, hmf, _, _, _⟩ := edit_ok mf mf' req h
  constructor
  · intro k hk
    have hne : k ≠ K.comment ∧ k ≠ K.source ∧ k ≠ K.priv := by
      simp only [List.mem_cons, List.not_mem_nil, or_false] at hk
      rcases hk with e | e | e | e | e | e | e <;> subst e <;> decide
    rw [edit_info_get mf mf' req h top hmf k,
      infoWriteG_keep_other req top k hne.1 hne.2.1 hne.2.2]; rfl
  · rw [edit_top_get mf mf' req h K.pieceLayers (by decide)]; rfl


example : ∃ mf', editTorrent exMeta exReqAll = .ok mf' ∧
    mf'.infoGet? K.pieces = some (.str (List.replicate 20 1)) := by
  obtain ⟨mf', h⟩ : ∃ mf', editTorrent exMeta exReqAll = .ok mf' := ⟨_, rfl⟩
  exact ⟨mf', h, ((edit_hash_bearing_untouched exMeta mf' exReqAll h).1 K.pieces (by decide)).trans rfl⟩

/-- A request that names only trackers, web seeds or HTTP seeds leaves the `info` dictionary
    exactly as it was — same items in the same order — so its encoding, and therefore the
    info-hash under ANY hash function, is unchanged. Holds for every metafile. -/
theorem edit_info_bytes (mf mf' : BVal) (req : EditReq) (h : editTorrent mf req = .ok mf')
    (hn : ∀ k ∈ req.names, k ∈ [K.announce, K.announceList, K.urlList, K.httpseeds]) :
    mf'.get? K.info = mf.get? K.info ∧
    ∀ H : Bytes → Bytes, (mf'.get? K.info).map (fun i => H (encode i))
      = (mf.get? K.info).map (fun i => H (encode i)) := by
  have h1 : req.comment = .unnamed := by
    apply Classical.byContradiction; intro x
    have := hn K.comment (by simp [EditReq.names, x])
    revert this; decide
  have h2 : req.source = .unnamed := by
    apply Classical.byContradiction; intro x
    have := hn K.source (by simp [EditReq.names, x])
    revert this; decide
  have h3 : req.priv = .unnamed := by
    apply Classical.byContradiction; intro x
    have := hn K.priv (by simp [EditReq.names, x])
    revert this; decide
  have := edit_info_same mf mf' req h h1 h2 h3
  exact ⟨this, fun H => by rw [this]⟩


example : ∃ mf', editTorrent exMeta exReqTr = .ok mf' ∧ mf'.get? K.info = exMeta.get? K.info := by
  obtain ⟨mf', h⟩ : ∃ mf', editTorrent exMeta exReqTr = .ok mf' := ⟨_, rfl⟩
  exact ⟨mf', h, (edit_info_bytes exMeta mf' exReqTr h (by decide)).1⟩

/-- After any sequence of edits, every key holds what the last request that named it wrote
    (or is gone if that request cleared it); keys no request named are as in the original.
    `topWrite k r` / `infoWrite k r` are "what request `r` writes to key `k`": keep, remove, or
    put a value. For the tracker field: setting it writes `announce` (first URL) and
    `announce-list` (one tier with all URLs); clearing it removes `announce` and — this is what
    the code does; the property does not judge it — leaves `announce-list`.
    Assumption `Located`: the original has no top-level `comment`, `source` or `private` key
    (see `edits_foreign_comment` below for what happens otherwise). -/
theorem edits_last_write_wins (reqs : List EditReq) (mf mf' : BVal)
    (h : editMany mf reqs = .ok mf') (hl : Located mf = true) :
    (∀ k, k ≠ K.info → mf'.get? k = (lastWrite (reqs.map (topWrite k))).apply (mf.get? k)) ∧
    (∀ k, mf'.infoGet? k = (lastWrite (reqs.map (infoWrite k))).apply (mf.infoGet? k)) := by
  induction reqs generalizing mf with
  | nil =>
    simp only [editMany, Except.ok.injEq] at h; subst h
    exact ⟨fun _ _ => rfl, fun _ => rfl⟩
  | cons r rs ih =>
    obtain ⟨m1, h1, h2⟩ := editMany_cons mf mf' r rs h
    obtain ⟨l1, t1, i1⟩ := edit_step_located mf m1 r h1 hl
    obtain ⟨t2, i2⟩ := ih m1 h2 l1
    constructor
    · intro k hk
      rw [List.map_cons, lastWrite_cons_apply, ← t1 k hk]; exact t2 k hk
    · intro k
      rw [List.map_cons, lastWrite_cons_apply, ← i1 k]; exact i2 k


example : ∃ mf', editMany exMeta2 exReqs = .ok mf' ∧
    mf'.infoGet? K.comment = none ∧ mf'.infoGet? K.source = some (.str [50]) ∧
    mf'.get? K.urlList = some (.list [.str [119]]) ∧ mf'.get? K.announce = some (.str [97]) := by
  obtain ⟨mf', h⟩ : ∃ mf', editMany exMeta2 exReqs = .ok mf' :=
    editMany_total _ exMeta2 _ (rfl : exMeta2.get? K.info = some (.dict _)) (by
      intro r hr
      simp only [exReqs, List.mem_cons, List.not_mem_nil, or_false] at hr
      rcases hr with e | e | e <;> subst e <;> exact ⟨_, rfl⟩)
  have := edits_last_write_wins exReqs exMeta2 mf' h (by decide)
  refine ⟨mf', h, ?_, ?_, ?_, ?_⟩
  · rw [this.2 K.comment]; decide
  · rw [this.2 K.source]; decide
  · rw [this.1 K.urlList (by decide)]; decide
  · rw [this.1 K.announce (by decide)]; decide

/-- What `Located` excludes, stated positively (this is the code's behaviour, and Python's):
    when the metafile has a top-level key named like a cleared `info` field (`comment` from
    other tools, typically), clearing removes THAT key and leaves `info` alone. -/
theorem edits_foreign_comment (mf mf' : BVal) (req : EditReq) (v : BVal)
    (h : editTorrent mf req = .ok mf') (hc : req.comment = .cleared)
    (ht : mf.get? K.comment = some v) :
    mf'.get? K.comment = none ∧ mf'.infoGet? K.comment = mf.infoGet? K.comment := by
  obtain ⟨top, info, tr, hmf, _, _, _⟩ := edit_ok mf mf' req h
  subst hmf
  constructor
  · rw [edit_top_get _ mf' req h K.comment (by decide)]
    simp [topWriteG, hc, EVal.isDel, Write.apply]
  · rw [edit_info_get _ mf' req h top rfl K.comment]
    have : dictHas top K.comment = true := by
      simp only [BVal.get?] at ht; simp [dictHas, ht]
    simp [infoWriteG, hc, EVal.isDel, EVal.val, this, Write.apply]


example : ∃ mf', editTorrent exForeign { comment := .cleared } = .ok mf' ∧
    mf'.get? K.comment = none ∧ mf'.infoGet? K.comment = some (.str [105]) := by
  obtain ⟨mf', h⟩ : ∃ mf', editTorrent exForeign { comment := .cleared } = .ok mf' := ⟨_, rfl⟩
  have := edits_foreign_comment exForeign mf' { comment := .cleared } (.str [116]) h rfl rfl
  exact ⟨mf', h, this.1, this.2.trans rfl⟩

/-- The command line names exactly the flags that were given: an absent flag is an unnamed
    field, in particular `--private` absent means `private` is not named. -/
theorem cli_edit_eq_lib (a : EditArgs) :
    (cliEdit a).names = a.flagKeys ∧ (a.priv = false → (cliEdit a).priv = .unnamed) := by
  constructor
  · have hl : ∀ o : Option (List Bytes), (optList o = .unnamed) ↔ o.isSome = false := by
      intro o
      cases o with
      | none => simp [optList]
      | some l => by_cases e : l = [[]] <;> simp [optList, e]
    have hs : ∀ o : Option Bytes, (optStr o = .unnamed) ↔ o.isSome = false := by
      intro o
      cases o with
      | none => simp [optStr]
      | some l => by_cases e : l = [] <;> simp [optStr, e]
    have hp : ((if a.priv = true then EVal.str [49] else EVal.unnamed) = .unnamed) ↔ a.priv = false := by
      cases a.priv <;> simp
    unfold EditReq.names EditArgs.flagKeys cliEdit
    simp only [hl, hs, hp]
    cases a.comment.isSome <;> cases a.source.isSome <;> cases a.priv <;> cases a.announce.isSome <;>
      cases a.urlList.isSome <;> cases a.httpseeds.isSome <;> rfl
  · intro h; simp [cliEdit, h]

example : (cliEdit { announce := some [[120]], comment := some [] }).names
    = [K.comment, K.announce, K.announceList] := by decide

/-- Hence a command-line edit without `--private`, `--comment`, `--source` never changes the
    `info` dictionary (nor the info-hash), whatever tracker / seed flags it carries. -/
theorem cli_edit_info_bytes (mf mf' : BVal) (a : EditArgs) (hp : a.priv = false)
    (hc : a.comment = none) (hs : a.source = none)
    (h : editTorrent mf (cliEdit a) = .ok mf') : mf'.get? K.info = mf.get? K.info :=
  edit_info_same mf mf' (cliEdit a) h (by simp [cliEdit, hc, optStr]) (by simp [cliEdit, hs, optStr])
    (by simp [cliEdit, hp])

example : ∃ mf', editTorrent exMeta (cliEdit { announce := some [[120], [121]] }) = .ok mf' ∧
    mf'.get? K.info = exMeta.get? K.info := by
  obtain ⟨mf', h⟩ : ∃ mf', editTorrent exMeta (cliEdit { announce := some [[120], [121]] }) = .ok mf' :=
    ⟨_, rfl⟩
  exact ⟨mf', h, cli_edit_info_bytes exMeta mf' _ rfl rfl rfl h⟩

end TorrentVerif.Props.C07

import TorrentVerif.Proofs.Align
/-
  C15 — piece-aligned v1 metafiles: padding entries account exactly for the pieces.
  `Impl.alignedEntries` mirrors the `info["files"]` loop of `TorrentFile.assemble` with
  `align` (post-fix), `Impl.hasherV1 true` the hasher with `align`.
-/
namespace TorrentVerif.Props.C15
open TorrentVerif TorrentVerif.Impl

/-- A padding entry appears only directly after a payload file whose size is not a multiple
    of the piece length, and its length is exactly the gap to the next piece boundary. -/
theorem align_gap (pl : Nat) (sizes : List Nat) (pre suf : List FileEntry) (n : Nat)
    (h : alignedEntries pl sizes = pre ++ ⟨true, n⟩ :: suf) :
    ∃ pre' s, pre = pre' ++ [⟨false, s⟩] ∧ n = gap pl s ∧ n ≠ 0 :=
  alignedEntries_pad pl sizes pre suf n h

example : alignedEntries 4 [5, 8, 0, 3]
    = [⟨false, 5⟩, ⟨true, 3⟩, ⟨false, 8⟩, ⟨false, 0⟩, ⟨false, 3⟩, ⟨true, 1⟩] := by decide

/-- Every payload file starts on a piece boundary of the stream described by the listed
    lengths (everything listed before it adds up to a multiple of the piece length). -/
theorem align_starts (pl : Nat) (hpl : 0 < pl) (sizes : List Nat)
    (pre suf : List FileEntry) (s : Nat)
    (h : alignedEntries pl sizes = pre ++ ⟨false, s⟩ :: suf) :
    entriesLength pre % pl = 0 :=
  alignedEntries_starts pl hpl sizes pre suf s h

example : entriesLength ([⟨false, 5⟩, ⟨true, 3⟩, ⟨false, 8⟩] : List FileEntry) % 4 = 0 := by decide

/-- The stream a client reconstructs from the listed entries (padding = zero bytes) is every
    file followed by zeros up to the next piece boundary, and the piece string is the SHA-1
    piece hashing of exactly that stream. `H1` is arbitrary. -/
theorem align_pieces (H1 : Bytes → Bytes) (pl : Nat) (hpl : 0 < pl) (files : List Bytes)
    (hne : files ≠ []) :
    (hasherV1 true pl files).map H1
      = (chunks pl (entriesStream (alignedEntries pl (files.map List.length)) files)).map H1 := by
  rw [hasherV1_align_eq_chunks pl hpl files hne, entriesStream_aligned]

example : hasherV1 true 4 [[1,2,3,4,5],[],[6,7,8,9]] = [[1,2,3,4],[5,0,0,0],[6,7,8,9]] := by
  decide

/-- The listed lengths account for exactly the pieces recorded: their sum is the piece length
    times the number of pieces (every piece is full, the last one thanks to its padding). -/
theorem align_count (pl : Nat) (hpl : 0 < pl) (files : List Bytes) (hne : files ≠ []) :
    entriesLength (alignedEntries pl (files.map List.length))
      = pl * (hasherV1 true pl files).length := by
  rw [hasherV1_align_eq_chunks pl hpl files hne, chunks_length pl hpl, alignedStream_length]
  have hd := alignedEntries_length_dvd pl hpl (files.map List.length)
  generalize entriesLength (alignedEntries pl (files.map List.length)) = n at hd ⊢
  unfold cdiv
  have h1 : n = pl * (n / pl) := by
    have := Nat.div_add_mod n pl; omega
  have h2 : (n + pl - 1) / pl = n / pl := by
    apply Nat.div_eq_of_lt_le
    · have : n / pl * pl = n := by rw [Nat.mul_comm]; exact h1.symm
      omega
    · have : (n / pl + 1) * pl = n + pl := by rw [Nat.add_mul, Nat.mul_comm]; omega
      omega
  rw [h2]; exact h1

example : entriesLength (alignedEntries 4 [5, 0, 4]) = 4 * 3 := by decide

/-- Every piece of an aligned torrent is exactly one piece length long (no short last piece),
    so a v1 client sees whole pieces only. -/
theorem align_pieces_full (pl : Nat) (hpl : 0 < pl) (files : List Bytes) (hne : files ≠ []) :
    ∀ p ∈ hasherV1 true pl files, p.length = pl := by
  rw [hasherV1_align_eq_chunks pl hpl files hne]
  intro p hp
  have hstream : ∃ k, (Spec.alignedStream pl files).length = k * pl := by
    have hd := alignedEntries_length_dvd pl hpl (files.map List.length)
    rw [← alignedStream_length] at hd
    exact ⟨(Spec.alignedStream pl files).length / pl, by
      have := Nat.div_add_mod (Spec.alignedStream pl files).length pl
      rw [Nat.mul_comm]; omega⟩
  obtain ⟨k, hk⟩ := hstream
  generalize Spec.alignedStream pl files = st at hk hp
  induction k generalizing st with
  | zero =>
    have : st = [] := List.eq_nil_of_length_eq_zero (by simpa using hk)
    subst this; simp [chunks_nil] at hp
  | succ k ih =>
    have hlen : pl ≤ st.length := by rw [hk, Nat.succ_mul]; omega
    have hne' : st ≠ [] := by intro e; subst e; simp at hlen; omega
    rw [chunks_cons pl hpl st hne'] at hp
    cases hp with
    | head => simp [List.length_take]; omega
    | tail _ hp => exact ih (st.drop pl) (by rw [List.length_drop, hk, Nat.succ_mul]; omega) hp

/-- A single-file torrent is hashed as the file alone (post-fix: `align` is switched off when
    the content path is a file), i.e. plain BEP 3 pieces with a possibly short last piece. -/
theorem align_single (H1 : Bytes → Bytes) (pl : Nat) (hpl : 0 < pl) (f : Bytes) :
    (hasherV1 false pl [f]).map H1 = (chunks pl f).map H1 := by
  rw [hasherV1_eq_chunks pl hpl [f] (by simp)]; simp

end TorrentVerif.Props.C15

import TorrentVerif.Proofs.Align
import TorrentVerif.Proofs.CreatorsV1
/-
  C15 — piece-aligned v1 metafiles: padding entries account exactly for the pieces.
  `Impl.alignedEntries` mirrors the `info["files"]` loop of `TorrentFile.assemble` with
  `align` (post-fix), `Impl.hasherV1 true` the hasher with `align`.
-/
namespace TorrentVerif.Props.C15
open TorrentVerif TorrentVerif.Impl

/-- A padding entry appears only directly after a payload file whose size is not a multiple
    of the piece length, and its length is exactly the gap to the next piece boundary. -/
theorem align_gap (pl : Nat) (sizes : List Nat) (pre suf : List FileEntry) (n : Nat)
    (h : alignedEntries pl sizes = pre ++ ⟨true, n⟩ :: suf) :
    ∃ pre' s, pre = pre' ++ [⟨false, s⟩] ∧ n = gap pl s ∧ n ≠ 0 :=
  alignedEntries_pad pl sizes pre suf n h

example : alignedEntries 4 [5, 8, 0, 3]
    = [⟨false, 5⟩, ⟨true, 3⟩, ⟨false, 8⟩, ⟨false, 0⟩, ⟨false, 3⟩, ⟨true, 1⟩] := by decide

/-- Every payload file starts on a piece boundary of the stream described by the listed
    lengths (everything listed before it adds up to a multiple of the piece length). -/
theorem align_starts (pl : Nat) (hpl : 0 < pl) (sizes : List Nat)
    (pre suf : List FileEntry) (s : Nat)
    (h : alignedEntries pl sizes = pre ++ ⟨false, s⟩ :: suf) :
    entriesLength pre % pl = 0 :=
  alignedEntries_starts pl hpl sizes pre suf s h

example : entriesLength ([⟨false, 5⟩, ⟨true, 3⟩, ⟨false, 8⟩] : List FileEntry) % 4 = 0 := by decide

/-- The stream a client reconstructs from the listed entries (padding = zero bytes) is every
    file followed by zeros up to the next piece boundary, and the piece string is the SHA-1
    piece hashing of exactly that stream. `H1` is arbitrary. -/
theorem align_pieces (H1 : Bytes → Bytes) (pl : Nat) (hpl : 0 < pl) (files : List Bytes)
    (hne : files ≠ []) :
    (hasherV1 true pl files).map H1
      = (chunks pl (entriesStream (alignedEntries pl (files.map List.length)) files)).map H1 := by
  rw [hasherV1_align_eq_chunks pl hpl files hne, entriesStream_aligned]

example : hasherV1 true 4 [[1,2,3,4,5],[],[6,7,8,9]] = [[1,2,3,4],[5,0,0,0],[6,7,8,9]] := by
  decide

/-- The listed lengths account for exactly the pieces recorded: their sum is the piece length
    times the number of pieces (every piece is full, the last one thanks to its padding). -/
theorem align_count (pl : Nat) (hpl : 0 < pl) (files : List Bytes) (hne : files ≠ []) :
    entriesLength (alignedEntries pl (files.map List.length))
      = pl * (hasherV1 true pl files).length := by
  rw [hasherV1_align_eq_chunks pl hpl files hne, chunks_length pl hpl, alignedStream_length]
  have hd := alignedEntries_length_dvd pl hpl (files.map List.length)
  generalize entriesLength (alignedEntries pl (files.map List.length)) = n at hd ⊢
  unfold cdiv
  have h1 : n = pl * (n / pl) := by
    have := Nat.div_add_mod n pl; omega
  have h2 : (n + pl - 1) / pl = n / pl := by
    apply Nat.div_eq_of_lt_le
    · have : n / pl * pl = n := by rw [Nat.mul_comm]; exact h1.symm
      omega
    · have : (n / pl + 1) * pl = n + pl := by rw [Nat.add_mul, Nat.mul_comm]; omega
      omega
  rw [h2]; exact h1

example : entriesLength (alignedEntries 4 [5, 0, 4]) = 4 * 3 := by decide

/-- Every piece of an aligned torrent is exactly one piece length long (no short last piece),
    so a v1 client sees whole pieces only. -/
theorem align_pieces_full (pl : Nat) (hpl : 0 < pl) (files : List Bytes) (hne : files ≠ []) :
    ∀ p ∈ hasherV1 true pl files, p.length = pl := by
  rw [hasherV1_align_eq_chunks pl hpl files hne]
  intro p hp
  have hstream : ∃ k, (Spec.alignedStream pl files).length = k * pl := by
    have hd := alignedEntries_length_dvd pl hpl (files.map List.length)
    rw [← alignedStream_length] at hd
    exact ⟨(Spec.alignedStream pl files).length / pl, by
      have := Nat.div_add_mod (Spec.alignedStream pl files).length pl
      rw [Nat.mul_comm]; omega⟩
  obtain ⟨k, hk⟩ := hstream
  generalize Spec.alignedStream pl files = st at hk hp
  induction k generalizing st with
  | zero =>
    have : st = [] := List.eq_nil_of_length_eq_zero (by simpa using hk)
    subst this; simp [chunks_nil] at hp
  | succ k ih =>
    have hlen : pl ≤ st.length := by rw [hk, Nat.succ_mul]; omega
    have hne' : st ≠ [] := by intro e; subst e; simp at hlen; omega
    rw [chunks_cons pl hpl st hne'] at hp
    cases hp with
    | head => simp [List.length_take]; omega
    | tail _ hp => exact ih (st.drop pl) (by rw [List.length_drop, hk, Nat.succ_mul]; omega) hp

/-- A single-file torrent is hashed as the file alone (post-fix: `align` is switched off when
    the content path is a file), i.e. plain BEP 3 pieces with a possibly short last piece. -/
theorem align_single (H1 : Bytes → Bytes) (pl : Nat) (hpl : 0 < pl) (f : Bytes) :
    (hasherV1 false pl [f]).map H1 = (chunks pl f).map H1 := by
  rw [hasherV1_eq_chunks pl hpl [f] (by simp)]; simp

end TorrentVerif.Props.C15

/-! ### the whole piece-aligned v1 metafile (`Impl.createV1 … true` of `Model/Creators.lean`) -/
namespace TorrentVerif.Props.C15
open TorrentVerif TorrentVerif.Impl TorrentVerif.Toy TorrentVerif.Ex.G7

/-- The v1 metafile `TorrentFile(align=True)` writes for a directory (names non-empty, `/`-free,
    distinct; any root path, any enumeration order):
    * read entry by entry as (is padding, length), `info.files` is exactly the padding layout
      `alignedEntries` over the lengths of the sorted listing — so `align_gap`, `align_starts`,
      `align_count` above speak about the written list;
    * its non-padding entries are the sorted listing (`Spec.sortedFiles`), each `{"length",
      "path"}` with exact length and relative path;
    * every padding entry is literally `{"attr": "p", "length": n, "path": [".pad", str(n)]}`;
    * `info.pieces` is the v1 hashing of the piece slices of the aligned stream (every file
      followed by zero bytes up to the next piece boundary), and there is no `info.length`. -/
theorem create_v1_aligned_metafile (o : CreateOpts) (H1 : Bytes → Bytes)
    (enum : List (List (Bytes × Bytes)) → List (List (Bytes × Bytes)))
    (henum : ∀ l, (enum l).Perm l) (pre : Bytes) (es : List (Bytes × Node))
    (hwn : Spec.WellNamed (.dir es)) (hpl : 0 < o.pieceLength) (r : BVal) (b : Bytes)
    (h : createV1 o true H1 enum pre (.dir es) = some (r, b)) :
    ∃ fl, r.infoGet? K.files = some (.list fl) ∧
      fl.map (fun e => (Spec.isPadEntry e, Spec.entryLength e))
        = (alignedEntries o.pieceLength ((Spec.sortedFiles pre (.dir es)).map (·.2.length))).map
            (fun a => (a.pad, some a.length)) ∧
      fl.filter (fun e => !Spec.isPadEntry e)
        = (Spec.sortedFiles pre (.dir es)).map (fun x => .dict [(K.length, .int x.2.length),
            (K.path, strs (Spec.splitOn Listing.sep (x.1.drop (pre.length + 1))))]) ∧
      (∀ e ∈ fl, Spec.isPadEntry e = true → ∃ n : Nat, e = .dict [(K.attr, .str [112]), (K.length, .int n),
            (K.path, .list [.str [46, 112, 97, 100], .str (natDec n)])]) ∧
      r.infoGet? K.pieces = some (.str ((chunks o.pieceLength
        (Spec.alignedStream o.pieceLength ((Spec.sortedFiles pre (.dir es)).map (·.2)))).map H1).flatten) ∧
      r.infoGet? K.pieceLength = some (.int o.pieceLength) ∧ r.infoGet? K.length = none := by
  obtain ⟨_, _, hk⟩ := createV1_dir o true H1 enum henum pre es hwn hpl r b h
  refine ⟨_, hk.files, ?_, ?_, ?_, ?_, hk.pieceLength, hk.length⟩
  · rw [v1Entries_read_true, v1Listed_sizes]
  · rw [v1Entries_filter, v1Listed_entries]
  · intro e he hp
    rcases v1Entries_shape _ _ _ e he with ⟨p, s, rfl⟩ | ⟨n, rfl⟩
    · rw [isPad_fileEntry] at hp; cases hp
    · exact ⟨n, rfl⟩
  · simpa using hk.pieces

/-- met by: the example tree rooted at `r`, piece length 4 (`b` has 9 bytes, `a/y` 2, `a/x` 0,
    `a.b` exactly 4): the creator succeeds and the pieces are those of the aligned stream -/
example : ∃ r b, createV1 exOpts true toyH1 id [114] exTree = some (r, b) ∧
    r.infoGet? K.pieces = some (.str ((chunks 4
      (Spec.alignedStream 4 ((Spec.sortedFiles [114] exTree).map (·.2)))).map toyH1).flatten) := by
  have hne := exTree_sorted_ne [114]
  obtain ⟨r, b, h⟩ := createV1_dir_some exOpts true toyH1 id (fun _ => .refl _) [114] _
    exTree_wellNamed hne
  obtain ⟨fl, _, _, _, _, hp, _⟩ := create_v1_aligned_metafile exOpts toyH1 id (fun _ => .refl _)
    [114] _ exTree_wellNamed (by decide) r b h
  exact ⟨r, b, h, hp⟩

end TorrentVerif.Props.C15

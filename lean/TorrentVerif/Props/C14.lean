import TorrentVerif.Proofs.RbEx
import TorrentVerif.Proofs.ExtractPrune
/-
  C14 — rebuild only adds verified copies; it never damages sources or existing files.
  Property theorems only; helper lemmas live in `Proofs/`.

  A rebuild is the list of `os.mkdir` / `shutil.copy` calls it makes (`Op` has no constructor that
  removes, renames or truncates anything).  "In the state in which it is executed" is expressed by
  `Spec.TraceAll P fs ops`, or by a prefix `pre` of the trace and the state `applyOps fs pre`.
-/
namespace TorrentVerif.Props.C14
open TorrentVerif Rebuild PosixPath Spec Impl

/-- v1: after the rebuild every path that is not strictly below the destination (the destination
    directory itself, every search directory, every metafile) holds exactly what it held before. -/
theorem writes_only_under_dest_v1 (H1 : Bytes → Bytes) (ds : Nat) (fs : FS) (filemap : FileMap)
    (dest : Path) (pl : Nat) (pieces : List Bytes) (files : List FileRec)
    (hd : CleanPath dest) (hr : DestReady fs dest) (q : Path) (hq : ¬ StrictlyBelow dest q) :
    applyOps fs (matchV1 H1 ds fs filemap dest pl pieces files).1 q = fs q := by
  have run := matchV1_run H1 ds fs filemap dest pl pieces files
  have hb := run.opsBelow (dest := dest) (fun _ _ _ g => by
    obtain ⟨r, _, hsj, _⟩ := GoodV1.file g
    exact (safeJoin_some dest hd _ _ hsj).1) hr
  exact frame_of_trace dest _ fs (trace_below dest _ fs hr hb).1 q hq

/-- in the example world a v1 rebuild of the single file `n/f` leaves `/s/f` and `/d` as they were -/
example : let ops := (matchV1 id 4096 Ex.fs Ex.fmap [[100]] 4 [[1,2,3]] [⟨[110,47,102], [102], 3, none, false⟩]).1
    ops = [Op.mkdir [[100],[110]], Op.copy [[115],[102]] [[100],[110],[102]]] ∧
    applyOps Ex.fs ops [[115],[102]] = some (.file [1,2,3]) ∧ applyOps Ex.fs ops [[100]] = some .dir := by
  decide

/-- v2 / hybrid: same statement as `writes_only_under_dest_v1`. -/
theorem writes_only_under_dest_v2 (rootOf : Bytes → Bytes) (ds : Nat) (fs : FS) (filemap : FileMap)
    (dest : Path) (files : List FileRec) (hd : CleanPath dest) (hr : DestReady fs dest)
    (q : Path) (hq : ¬ StrictlyBelow dest q) :
    applyOps fs (matchV2 rootOf ds filemap dest fs files).1 q = fs q := by
  have run := matchV2_run rootOf ds filemap dest files files fs (fun _ h => h)
  have hb := run.opsBelow (dest := dest) (fun _ _ _ g => by
    obtain ⟨r, _, hsj, _⟩ := GoodV2.file g
    exact (safeJoin_some dest hd _ _ hsj).1) hr
  exact frame_of_trace dest _ fs (trace_below dest _ fs hr hb).1 q hq

/-- in the example world a v2 rebuild of `n/f` leaves `/s/f` and `/d` as they were -/
example : let ops := (matchV2 id 4096 Ex.fmap [[100]] Ex.fs [⟨[110,47,102], [102], 3, some [1,2,3], false⟩]).1
    ops = [Op.mkdir [[100],[110]], Op.copy [[115],[102]] [[100],[110],[102]]] ∧
    applyOps Ex.fs ops [[115],[102]] = some (.file [1,2,3]) ∧ applyOps Ex.fs ops [[100]] = some .dir ∧
    applyOps Ex.fs ops [[100],[110],[102]] = some (.file [1,2,3]) := by decide

/-- v1: every copy takes a search-directory file recorded in the filemap under the file name of
    some file record `r` of the metafile and with exactly the recorded length, and puts it at
    the path `safe_join(dest, r.full)` = `dest/name/path…` that the metafile assigns to `r`. -/
theorem written_is_candidate_copy_v1 (H1 : Bytes → Bytes) (ds : Nat) (fs : FS) (filemap : FileMap)
    (dest : Path) (pl : Nat) (pieces : List Bytes) (files : List FileRec) (src dst : Path)
    (h : Op.copy src dst ∈ (matchV1 H1 ds fs filemap dest pl pieces files).1) :
    ∃ r ∈ files, safeJoin dest r.full = some dst ∧
      ∃ cands sz, filemap.lookup r.filename = some cands ∧ (src, sz) ∈ cands ∧ sz = r.length := by
  obtain ⟨_, _, g⟩ := (matchV1_run H1 ds fs filemap dest pl pieces files).copy_mem h
  exact GoodV1.file g

/-- the one copy of the v1 example takes the candidate `("/s/f", 3)` of the record `n/f` (length 3)
    to `safe_join("/d", "n/f")` -/
example : (matchV1 id 4096 Ex.fs Ex.fmap [[100]] 4 [[1,2,3]] [⟨[110,47,102], [102], 3, none, false⟩]).1.filter (fun op => match op with | .copy _ _ => true | _ => false)
      = [Op.copy [[115],[102]] [[100],[110],[102]]] ∧
    Ex.fmap.lookup [102] = some [([[115],[102]], 3)] ∧
    safeJoin [[100]] [110,47,102] = some [[100],[110],[102]] := by decide

/-- v2 / hybrid: same statement as `written_is_candidate_copy_v1`. -/
theorem written_is_candidate_copy_v2 (rootOf : Bytes → Bytes) (ds : Nat) (fs : FS) (filemap : FileMap)
    (dest : Path) (files : List FileRec) (src dst : Path)
    (h : Op.copy src dst ∈ (matchV2 rootOf ds filemap dest fs files).1) :
    ∃ r ∈ files, safeJoin dest r.full = some dst ∧
      ∃ cands sz, filemap.lookup r.filename = some cands ∧ (src, sz) ∈ cands ∧ sz = r.length := by
  obtain ⟨_, _, g⟩ := (matchV2_run rootOf ds filemap dest files files fs (fun _ h => h)).copy_mem h
  exact GoodV2.file g

/-- `v1` `full` is `os.path.join(name, *path)`: for name `T` and path `["a","f"]` the copy target is
    `dest/T/a/f` -/
example : (extractV1Multi [84] [([[97],[102]], 3, false)]).map (·.map (·.full)) = some [[84,47,97,47,102]] ∧
    safeJoin [[100]] [84,47,97,47,102] = some [[100],[84],[97],[102]] := by decide

/-- v1: a file is only copied after a piece verified.  For every copy there is a point of the
    trace (`pre`) and a piece of the metafile such that, in the state at that point, one readable
    same-name same-size candidate per path node of the piece had been assembled (`Combo`), the
    SHA-1 (`H1`) of the assembled bytes equals the recorded digest of the piece, and the copied
    source is the candidate used for one of the nodes – not a padding node; a padding node
    (`attr = "p"`) contributes `stop - start` zero bytes to the assembled piece and has a
    placeholder instead of a candidate – copied to that node's assigned path.
    (Only that one piece is verified – see `C13.v1_decoy_witness`.) -/
theorem verified_before_copy_v1 (H1 : Bytes → Bytes) (ds : Nat) (fs : FS) (filemap : FileMap)
    (dest : Path) (pl : Nat) (pieces : List Bytes) (files : List FileRec) (src dst : Path)
    (h : Op.copy src dst ∈ (matchV1 H1 ds fs filemap dest pl pieces files).1) :
    ∃ pre, pre <+: (matchV1 H1 ds fs filemap dest pl pieces files).1 ∧
      ∃ pp ∈ v1PieceNodes pl pieces files, ∃ choice,
        Combo (applyOps fs pre) filemap pp.2 choice ∧ H1 (comboData pp.2 choice) = pp.1 ∧
        ∃ pc ∈ List.zip pp.2 choice, pc.2.1 = src ∧ safeJoin dest pc.1.file.full = some dst ∧
          pc.1.file.pad = false :=
  (matchV1_run H1 ds fs filemap dest pl pieces files).copy_mem h

/-- a same-named same-sized file none of whose pieces verifies is not placed (v1): with the
    recorded piece 9 9 9 and the candidate `/s/f` = 1 2 3 nothing is copied or counted -/
example : matchV1 id 4096 Ex.fs Ex.fmap [[100]] 4 [[9,9,9]] [⟨[110,47,102], [102], 3, none, false⟩] = ([], []) := by
  decide

/-- v2 / hybrid: a file is only copied after its merkle root verified.  For every copy there is a
    point of the trace and a file record `r` such that the source is a same-name candidate of the
    recorded length and, in the state at that point, either `r` is empty or the source's contents
    have the recorded `pieces root`; the copy goes to `r`'s assigned path. -/
theorem verified_before_copy_v2 (rootOf : Bytes → Bytes) (ds : Nat) (fs : FS) (filemap : FileMap)
    (dest : Path) (files : List FileRec) (src dst : Path)
    (h : Op.copy src dst ∈ (matchV2 rootOf ds filemap dest fs files).1) :
    ∃ pre, pre <+: (matchV2 rootOf ds filemap dest fs files).1 ∧
      ∃ r ∈ files, ∃ cands sz, filemap.lookup r.filename = some cands ∧ (src, sz) ∈ cands ∧
        sz = r.length ∧
        (r.length = 0 ∨ ∃ d, (applyOps fs pre).readFile? src = some d ∧ r.root = some (rootOf d)) ∧
        safeJoin dest r.full = some dst :=
  (matchV2_run rootOf ds filemap dest files files fs (fun _ h => h)).copy_mem h

/-- a same-named same-sized file whose root differs is not placed: with the decoy `/s/f` = 1 2 3
    and recorded root 9 9 9 nothing is copied -/
example : matchV2 id 4096 Ex.fmap [[100]] Ex.fs [⟨[110,47,102], [102], 3, some [9,9,9], false⟩] = ([], []) := by
  decide

/-- v1: `shutil.copy(src, dst)` is executed only in a state in which the source exists and the
    destination path does not exist or is smaller than the source (`copypath`'s guard still holds
    after the directories have been created) … -/
theorem full_length_dest_untouched_v1 (H1 : Bytes → Bytes) (ds : Nat) (fs : FS) (filemap : FileMap)
    (dest : Path) (pl : Nat) (pieces : List Bytes) (files : List FileRec) :
    TraceAll (fun fs op => ∀ src dst, op = Op.copy src dst →
        fs.ex src = true ∧ ¬ (fs.ex dst = true ∧ fs.size ds src ≤ fs.size ds dst)) fs
      (matchV1 H1 ds fs filemap dest pl pieces files).1 :=
  (matchV1_run H1 ds fs filemap dest pl pieces files).guard

/-- v1, `/d/n/f` already present with 3 bytes (other contents): no operation, the file is counted -/
example : matchV1 id 4096
      (FS.ofList [([], .dir), ([[100]], .dir), ([[100],[110]], .dir), ([[100],[110],[102]], .file [7,7,7]),
        ([[115]], .dir), ([[115],[102]], .file [1,2,3])])
      Ex.fmap [[100]] 4 [[1,2,3]] [⟨[110,47,102], [102], 3, none, false⟩] = ([], [[110,47,102]]) := by decide

/-- … v2 / hybrid likewise. -/
theorem full_length_dest_untouched_v2 (rootOf : Bytes → Bytes) (ds : Nat) (fs : FS) (filemap : FileMap)
    (dest : Path) (files : List FileRec) :
    TraceAll (fun fs op => ∀ src dst, op = Op.copy src dst →
        fs.ex src = true ∧ ¬ (fs.ex dst = true ∧ fs.size ds src ≤ fs.size ds dst)) fs
      (matchV2 rootOf ds filemap dest fs files).1 :=
  (matchV2_run rootOf ds filemap dest files files fs (fun _ h => h)).guard

/-- v2, `/d/n/f` present but one byte short: it is overwritten by the verified candidate -/
example : matchV2 id 4096 Ex.fmap [[100]]
      (FS.ofList [([], .dir), ([[100]], .dir), ([[100],[110]], .dir), ([[100],[110],[102]], .file [1,2]),
        ([[115]], .dir), ([[115],[102]], .file [1,2,3])])
      [⟨[110,47,102], [102], 3, some [1,2,3], false⟩]
    = ([Op.copy [[115],[102]] [[100],[110],[102]]], [[110,47,102]]) := by decide

/-- Consequence for destination files that already have their full recorded length: when the
    filemap describes the search directories (`FilemapOK`: candidates are regular files of the
    recorded size outside the destination), every copy (v1) goes to the assigned path of a file
    record `r`, and in the state in which it is executed that path does not exist or has fewer
    than `r.length` bytes.  A destination file of at least the recorded length is never written. -/
theorem full_length_dest_untouched_v1' (H1 : Bytes → Bytes) (ds : Nat) (fs : FS) (filemap : FileMap)
    (dest : Path) (pl : Nat) (pieces : List Bytes) (files : List FileRec)
    (hd : CleanPath dest) (hr : DestReady fs dest) (hok : FilemapOK fs dest filemap) :
    TraceAll (fun fs' op => ∀ src dst, op = Op.copy src dst →
        ∃ r ∈ files, safeJoin dest r.full = some dst ∧
          ¬ (fs'.ex dst = true ∧ r.length ≤ fs'.size ds dst)) fs
      (matchV1 H1 ds fs filemap dest pl pieces files).1 := by
  have run := matchV1_run H1 ds fs filemap dest pl pieces files
  have hb := run.opsBelow (dest := dest) (fun _ _ _ g => by
    obtain ⟨r, _, hsj, _⟩ := GoodV1.file g
    exact (safeJoin_some dest hd _ _ hsj).1) hr
  have h1 := traceAll_agree dest fs _ fs (fun _ _ => rfl) (trace_below dest _ fs hr hb).1
  have h2 := run.guard
  have h3 := TraceAll_of_mem (Q := fun op => ∀ src dst, op = Op.copy src dst →
      ∃ r ∈ files, safeJoin dest r.full = some dst ∧
        ∃ cands sz, filemap.lookup r.filename = some cands ∧ (src, sz) ∈ cands ∧ sz = r.length) _
    (fun op hop src dst e => written_is_candidate_copy_v1 H1 ds fs filemap dest pl pieces files src dst (e ▸ hop)) fs
  refine TraceAll_mono ?_ _ fs (TraceAll_and _ fs (TraceAll_and _ fs h1 h2) h3)
  rintro fs' op ⟨⟨ha, hg⟩, hq⟩ src dst e
  obtain ⟨r, hrm, hsj, cands, sz, hl, hm, hsz⟩ := hq src dst e
  refine ⟨r, hrm, hsj, ?_⟩
  obtain ⟨hnp, d, hread, hlen⟩ := hok _ _ hl _ hm
  have hsize : fs'.size ds src = r.length := by
    have := ha src (not_below_of_not_prefix hnp)
    unfold FS.size
    rw [this]
    unfold FS.readFile? at hread
    split at hread
    · rename_i d' hd'; injection hread with e'; subst e'; rw [hd']; simp [hlen, hsz]
    · cases hread
  have := (hg src dst e).2
  rwa [hsize] at this

/-- the hypotheses of the primed theorems hold in the example world -/
example : CleanPath [[100]] ∧ DestReady Ex.fs [[100]] ∧ FilemapOK Ex.fs [[100]] Ex.fmap :=
  ⟨by decide, by decide, Ex.filemapOK⟩

/-- the same consequence for v2 / hybrid. -/
theorem full_length_dest_untouched_v2' (rootOf : Bytes → Bytes) (ds : Nat) (fs : FS) (filemap : FileMap)
    (dest : Path) (files : List FileRec)
    (hd : CleanPath dest) (hr : DestReady fs dest) (hok : FilemapOK fs dest filemap) :
    TraceAll (fun fs' op => ∀ src dst, op = Op.copy src dst →
        ∃ r ∈ files, safeJoin dest r.full = some dst ∧
          ¬ (fs'.ex dst = true ∧ r.length ≤ fs'.size ds dst)) fs
      (matchV2 rootOf ds filemap dest fs files).1 := by
  have run := matchV2_run rootOf ds filemap dest files files fs (fun _ h => h)
  have hb := run.opsBelow (dest := dest) (fun _ _ _ g => by
    obtain ⟨r, _, hsj, _⟩ := GoodV2.file g
    exact (safeJoin_some dest hd _ _ hsj).1) hr
  have h1 := traceAll_agree dest fs _ fs (fun _ _ => rfl) (trace_below dest _ fs hr hb).1
  have h2 := run.guard
  have h3 := TraceAll_of_mem (Q := fun op => ∀ src dst, op = Op.copy src dst →
      ∃ r ∈ files, safeJoin dest r.full = some dst ∧
        ∃ cands sz, filemap.lookup r.filename = some cands ∧ (src, sz) ∈ cands ∧ sz = r.length) _
    (fun op hop src dst e => written_is_candidate_copy_v2 rootOf ds fs filemap dest files src dst (e ▸ hop)) fs
  refine TraceAll_mono ?_ _ fs (TraceAll_and _ fs (TraceAll_and _ fs h1 h2) h3)
  rintro fs' op ⟨⟨ha, hg⟩, hq⟩ src dst e
  obtain ⟨r, hrm, hsj, cands, sz, hl, hm, hsz⟩ := hq src dst e
  refine ⟨r, hrm, hsj, ?_⟩
  obtain ⟨hnp, d, hread, hlen⟩ := hok _ _ hl _ hm
  have hsize : fs'.size ds src = r.length := by
    have := ha src (not_below_of_not_prefix hnp)
    unfold FS.size
    rw [this]
    unfold FS.readFile? at hread
    split at hread
    · rename_i d' hd'; injection hread with e'; subst e'; rw [hd']; simp [hlen, hsz]
    · cases hread
  have := (hg src dst e).2
  rwa [hsize] at this

/-- `FilemapOK` holds in the example world; with `/d/n/f` already present at full length (3 bytes,
    different contents) the rebuild performs no operation but still counts the file -/
example : FilemapOK Ex.fs [[100]] Ex.fmap ∧
    matchV2 id 4096 Ex.fmap [[100]]
      (FS.ofList [([], .dir), ([[100]], .dir), ([[100],[110]], .dir), ([[100],[110],[102]], .file [7,7,7]),
        ([[115]], .dir), ([[115],[102]], .file [1,2,3])])
      [⟨[110,47,102], [102], 3, some [1,2,3], false⟩] = ([], [[110,47,102]]) :=
  ⟨Ex.filemapOK, by decide⟩

/-- v1: nothing outside the destination is ever written – at every point of the rebuild and at
    its end, any path `q` that does not lie in the destination (every file of a search directory
    that is disjoint from the destination, every metafile) holds what it held at the start. -/
theorem sources_untouched_v1 (H1 : Bytes → Bytes) (ds : Nat) (fs : FS) (filemap : FileMap)
    (dest : Path) (pl : Nat) (pieces : List Bytes) (files : List FileRec)
    (hd : CleanPath dest) (hr : DestReady fs dest) (q : Path) (hq : ¬ dest <+: q) :
    TraceAll (fun fs' op => fs' q = fs q ∧ Op.writes fs' op ≠ q) fs
      (matchV1 H1 ds fs filemap dest pl pieces files).1 ∧
    applyOps fs (matchV1 H1 ds fs filemap dest pl pieces files).1 q = fs q := by
  have run := matchV1_run H1 ds fs filemap dest pl pieces files
  have hb := run.opsBelow (dest := dest) (fun _ _ _ g => by
    obtain ⟨r, _, hsj, _⟩ := GoodV1.file g
    exact (safeJoin_some dest hd _ _ hsj).1) hr
  have ht := (trace_below dest _ fs hr hb).1
  refine ⟨?_, frame_of_trace dest _ fs ht q (not_below_of_not_prefix hq)⟩
  refine TraceAll_mono ?_ _ fs (TraceAll_and _ fs (traceAll_agree dest fs _ fs (fun _ _ => rfl) ht) ht)
  rintro fs' op ⟨ha, hw⟩
  exact ⟨ha q (not_below_of_not_prefix hq), fun e => hq (e ▸ hw.prefix)⟩

/-- `/s/f` is not inside `/d`; after the v1 example it still holds 1 2 3 -/
example : ¬ ([[100]] : Path) <+: [[115],[102]] ∧
    applyOps Ex.fs (matchV1 id 4096 Ex.fs Ex.fmap [[100]] 4 [[1,2,3]] [⟨[110,47,102], [102], 3, none, false⟩]).1 [[115],[102]] = some (.file [1,2,3]) := by decide

/-- v2 / hybrid: same statement as `sources_untouched_v1`. -/
theorem sources_untouched_v2 (rootOf : Bytes → Bytes) (ds : Nat) (fs : FS) (filemap : FileMap)
    (dest : Path) (files : List FileRec) (hd : CleanPath dest) (hr : DestReady fs dest)
    (q : Path) (hq : ¬ dest <+: q) :
    TraceAll (fun fs' op => fs' q = fs q ∧ Op.writes fs' op ≠ q) fs
      (matchV2 rootOf ds filemap dest fs files).1 ∧
    applyOps fs (matchV2 rootOf ds filemap dest fs files).1 q = fs q := by
  have run := matchV2_run rootOf ds filemap dest files files fs (fun _ h => h)
  have hb := run.opsBelow (dest := dest) (fun _ _ _ g => by
    obtain ⟨r, _, hsj, _⟩ := GoodV2.file g
    exact (safeJoin_some dest hd _ _ hsj).1) hr
  have ht := (trace_below dest _ fs hr hb).1
  refine ⟨?_, frame_of_trace dest _ fs ht q (not_below_of_not_prefix hq)⟩
  refine TraceAll_mono ?_ _ fs (TraceAll_and _ fs (traceAll_agree dest fs _ fs (fun _ _ => rfl) ht) ht)
  rintro fs' op ⟨ha, hw⟩
  exact ⟨ha q (not_below_of_not_prefix hq), fun e => hq (e ▸ hw.prefix)⟩

/-- `/s/f` is not inside `/d` -/
example : ¬ ([[100]] : Path) <+: [[115],[102]] := by decide

/-! ### empty directories in a v2 / hybrid file tree (`Model/ExtractPrune.lean`)

  torrentfile's own creators record a directory without any file below it as `name: {}` (at any
  depth: `name: {deep: {}}`).  `Spec.pruneEntries` is the tree with those nodes removed,
  `Spec.leavesList` the files of a tree each with its own path. -/

/-- `_parse_tree` skips empty directories.  For every file tree and every `partials` it is started
    with, the records are exactly those of the tree with all directory nodes without a file
    below them removed — same records, same order, same `full` paths:
    (1) parsing the tree and parsing the pruned tree give the same list;
    (2) every record is the record of one file of the tree under THAT file's own path
        (`partials` + the keys from the top down to the file), in dictionary order — no record for
        a directory, and nothing an earlier entry leaves behind enters a later path;
    (3) the pruned tree has no directory without a file left, it has the same files under the
        same paths, and a tree that has no such directory is not changed by pruning;
    (4) locally: an entry without a file below it can be deleted where it stands, before,
        between or after files, without changing the result.
    (The seeded regression — a shared `partials` list that is not popped after an empty
    directory — violates (1), (2) and (4).) -/
theorem extract_skips_empty_directories (partials : List Bytes) (es : List (Bytes × MetaTree)) :
    parseTree partials es = parseTree partials (pruneEntries es) ∧
    parseTree partials es = (leavesList partials es).map recOfLeaf ∧
    (dirsFull (pruneEntries es) = true ∧
      leavesList partials (pruneEntries es) = leavesList partials es ∧
      (dirsFull es = true → pruneEntries es = es)) ∧
    (∀ a b k t, es = a ++ (k, t) :: b → hasFile t = false →
      parseTree partials es = parseTree partials (a ++ b)) :=
  ⟨(parseTree_prune es partials).symm, parseTree_leaves es partials,
    ⟨dirsFull_prune es, leavesList_prune es partials, pruneEntries_of_full es⟩,
    fun a b k t he h => he ▸ parseTree_drop_noFile partials a b k t h⟩

/-- the tree `{a: {}, b: file, c: {d: {}}, e: {f: file, g: {}}, z: {}}` below `T`: two records,
    `T/b` and `T/e/f`; pruning leaves `{b: file, e: {f: file}}` -/
example :
    parseTree [[84]] Spec.Ex.holedTree
      = [⟨[84, 47, 98], [98], 3, some [1], false⟩, ⟨[84, 47, 101, 47, 102], [102], 5, some [2], false⟩] ∧
    pruneEntries Spec.Ex.holedTree
      = [([98], .file 3 (some [1])), ([101], .dir [([102], .file 5 (some [2]))])] ∧
    leavesList [[84]] Spec.Ex.holedTree = [([[84], [98]], 3, some [1]), ([[84], [101], [102]], 5, some [2])] ∧
    dirsFull Spec.Ex.holedTree = false := ⟨by decide, rfl, by decide, by decide⟩

/-- The v2 branch of `Metadata.extract` (`Impl.extractV2`): the records of the tree without its
    empty directories, parsed below `v2Partials` — `[]` when the tree AS RECORDED is `{name: file}`
    (single-file torrent), else `[name]`.  Hence, whenever removing the empty directories does not
    turn the tree into `{name: file}` (`hsingle`), extracting the tree and extracting the pruned
    tree give the same records.  `hsingle` is needed: `single_file_rule_sees_empty_directories`. -/
theorem extract_skips_empty_directories_v2 (name : Bytes) (es : List (Bytes × MetaTree)) :
    extractV2 name es = parseTree (v2Partials false name es) (pruneEntries es) ∧
    ((isSingleFileTree name (pruneEntries es) = true → isSingleFileTree name es = true) →
      extractV2 name es = extractV2 name (pruneEntries es)) := by
  refine ⟨extractV2_prune name es, fun hsingle => ?_⟩
  rw [extractV2_prune name es, extractV2_prune name (pruneEntries es), pruneEntries_idem]
  have : isSingleFileTree name (pruneEntries es) = isSingleFileTree name es := by
    cases h1 : isSingleFileTree name es with
    | true => rw [prune_of_single name es h1]; exact h1
    | false =>
      cases h2 : isSingleFileTree name (pruneEntries es) with
      | true => rw [hsingle h2] at h1; cases h1
      | false => rfl
  simp only [v2Partials, this]

/-- the example tree under the name `T`: as its pruned tree, `T/b` and `T/e/f` -/
example :
    extractV2 [84] Spec.Ex.holedTree = extractV2 [84] (pruneEntries Spec.Ex.holedTree) ∧
    (extractV2 [84] Spec.Ex.holedTree).map (·.full) = [[84, 47, 98], [84, 47, 101, 47, 102]] :=
  ⟨(extract_skips_empty_directories_v2 [84] Spec.Ex.holedTree).2 (by decide), by decide⟩

/-- WITNESS for `hsingle` (the real `Metadata` agrees): the directory `D` holding a file `D` and an
    empty directory `x`.  The recorded tree `{D: file, x: {}}` has two keys, so it is not taken
    for a single-file torrent and the file is recorded as `D/D` — correctly.  Without the empty
    directory the tree is `{D: file}`, which the single-file rule reads as the file `D`.  The
    empty directory produces no record, but it is what tells the two torrents apart. -/
theorem single_file_rule_sees_empty_directories :
    ∃ (name : Bytes) (es : List (Bytes × MetaTree)),
      (extractV2 name es).map (·.full) = [[68, 47, 68]] ∧
      (extractV2 name (pruneEntries es)).map (·.full) = [[68]] ∧
      extractV2 name es = parseTree [name] (pruneEntries es) :=
  ⟨[68], Spec.Ex.namesakeTree, by decide, by decide, by decide⟩

/-- The whole `Metadata.extract` on a decoded `meta version` 2 metafile, pure v2 or hybrid: when it
    succeeds, the file tree is a dictionary that reads as `es`, and `files` are the records of
    `es` WITHOUT its empty directories, parsed below the torrent's name — or below nothing when
    there is no `files` key and the tree as recorded is `{name: file}`; `filenames` are the file
    names of these records.  A hybrid metafile (`files` key) is always parsed below the name. -/
theorem extractMeta_skips_empty_directories (mf : BVal) (m : RebuildMeta)
    (h : extractMeta mf = .ok m) (hv : m.metaVersion = some 2) :
    ∃ info tree es, mf.get? K.info = some (.dict info) ∧
      dictGet info K.fileTree = some (.dict tree) ∧ toMetaEntries tree = .ok es ∧
      m.files = parseTree (v2Partials (dictHas info K.files) m.name es) (pruneEntries es) ∧
      (dictHas info K.files = true → m.files = parseTree [m.name] (pruneEntries es)) ∧
      m.filenames = nameSet (m.files.map (·.filename)) := by
  obtain ⟨info, tree, es, h1, h2, h3, h4, h5⟩ := Spec.extractMeta_v2_files mf m h hv
  refine ⟨info, tree, es, h1, h2, h3, h4, fun hf => ?_, h5⟩
  rw [h4]; simp [v2Partials, hf]

/-- the example tree in a v2 and in a hybrid metafile `T`: the bencoded tree reads as
    `holedTree`, and both yield `T/b`, `T/e/f` and the file names `b`, `f` -/
example :
    toMetaEntries (match Spec.Ex.holedVal with | .dict d => d | _ => []) = .ok Spec.Ex.holedTree ∧
    (∃ m, extractMeta (Spec.Ex.holedMeta false) = .ok m ∧ m.metaVersion = some 2 ∧
      m.files.map (·.full) = [[84, 47, 98], [84, 47, 101, 47, 102]] ∧ m.filenames = [[98], [102]]) ∧
    (∃ m, extractMeta (Spec.Ex.holedMeta true) = .ok m ∧ m.metaVersion = some 2 ∧
      m.files.map (·.full) = [[84, 47, 98], [84, 47, 101, 47, 102]] ∧ m.filenames = [[98], [102]]) :=
  ⟨rfl, ⟨_, rfl, by decide, by decide, by decide⟩, ⟨_, rfl, by decide, by decide, by decide⟩⟩

end TorrentVerif.Props.C14

import TorrentVerif.Proofs.Merkle
/-
  C03 — hybrid torrents: the v1 view and the v2 view describe the same payload
  (file-level part: what the hybrid hashers produce for one file, and the single-file rule
  of the two hybrid creators).
  `H1` = v1 piece hash (arbitrary), `B` = block size, `bpp` = blocks per piece,
  piece length = `bpp * B`.
-/
namespace TorrentVerif.Props.C03
open TorrentVerif TorrentVerif.Toy


/-- The v1 piece digests that `HasherHybrid` and `FileHasher(hybrid=True)` produce for a
    file are the v1 hashes of the successive piece-length slices of the file followed by
    zero bytes up to the next piece boundary — i.e. of the file plus its padding file, so
    that the next file of the torrent starts on a piece boundary. -/
theorem hybrid_pieces_file (H H1 : Bytes → Bytes) (B hs bpp : Nat) (d : Bytes)
    (hB : 0 < B) (hbpp : 0 < bpp) :
    (Impl.hasherHybrid H H1 B hs bpp d).2.2.1 = Spec.hybridPieces H1 (bpp * B) d ∧
    (Impl.fileHasher H H1 B hs bpp true d).2.2.1 = Spec.hybridPieces H1 (bpp * B) d := by
  rw [hasherHybrid_closed H H1 B hs bpp hB hbpp d, fileHasher_closed H H1 B hs bpp hB hbpp true d]
  have := v1Pieces_eq_spec H1 (bpp * B) (Nat.mul_pos hbpp hB) d
  simp [this]

/-- 9 bytes, piece length 4: third piece is byte 9 followed by three zero bytes -/
example : (Impl.hasherHybrid toyH toyH1 2 1 2 [1,2,3,4,5,6,7,8,9]).2.2.1
    = [toyH1 [1,2,3,4], toyH1 [5,6,7,8], toyH1 [9,0,0,0]] := by
  rw [(hybrid_pieces_file toyH toyH1 2 1 2 [1,2,3,4,5,6,7,8,9] (by decide) (by decide)).1]
  simp [Spec.hybridPieces, chunks, gap, zeros]

/-- The padding-file length recorded by both hybrid hashers is the distance from the end
    of the file to the next piece boundary; no padding file is recorded when the file ends
    on a boundary. -/
theorem hybrid_padding_file (H H1 : Bytes → Bytes) (B hs bpp : Nat) (d : Bytes)
    (hB : 0 < B) (hbpp : 0 < bpp) :
    (Impl.hasherHybrid H H1 B hs bpp d).2.2.2 = Spec.hybridPadding (bpp * B) d ∧
    (Impl.fileHasher H H1 B hs bpp true d).2.2.2 = Spec.hybridPadding (bpp * B) d := by
  rw [hasherHybrid_closed H H1 B hs bpp hB hbpp d, fileHasher_closed H H1 B hs bpp hB hbpp true d]
  have := padAfter_none_eq_spec (bpp * B) (Nat.mul_pos hbpp hB) d
  simp [this]

/-- 9 bytes, piece length 4: padding of 3; 8 bytes: no padding entry -/
example : (Impl.fileHasher toyH toyH1 2 1 2 true [1,2,3,4,5,6,7,8,9]).2.2.2 = some 3 ∧
    (Impl.fileHasher toyH toyH1 2 1 2 true [1,2,3,4,5,6,7,8]).2.2.2 = none := by
  rw [(hybrid_padding_file toyH toyH1 2 1 2 [1,2,3,4,5,6,7,8,9] (by decide) (by decide)).2,
    (hybrid_padding_file toyH toyH1 2 1 2 [1,2,3,4,5,6,7,8] (by decide) (by decide)).2]
  decide

/-- Single-file hybrid torrent made by `TorrentFileHybrid` (after the repair in `assemble`):
    no exception is raised and the v1 piece list is exactly the plain BEP 3 piece list of
    the file alone — the last piece is the hash of the unpadded tail, matching the declared
    `info.length`, so a v1-only client accepts it. -/
theorem hybrid_single_file_tail (H H1 : Bytes → Bytes) (B hs bpp : Nat) (d : Bytes)
    (hB : 0 < B) (hbpp : 0 < bpp) :
    Impl.hybridSinglePieces H H1 B hs bpp d = some ((chunks (bpp * B) d).map H1) := by
  unfold Impl.hybridSinglePieces
  rw [hasherHybrid_closed H H1 B hs bpp hB hbpp d]
  exact singleTailList_pieces H1 (bpp * B) (Nat.mul_pos hbpp hB) d

/-- 9 bytes, piece length 4: the last digest is over the single byte 9, without zeros -/
example : Impl.hybridSinglePieces toyH toyH1 2 1 2 [1,2,3,4,5,6,7,8,9]
    = some [toyH1 [1,2,3,4], toyH1 [5,6,7,8], toyH1 [9]] := by
  rw [hybrid_single_file_tail toyH toyH1 2 1 2 _ (by decide) (by decide)]
  simp [chunks]

/-- Single-file hybrid torrent made by `TorrentAssembler` (after the repair): the `pieces`
    byte string is the concatenation of the plain BEP 3 piece digests of the file alone,
    provided the v1 hash has 20-byte digests (as SHA-1 has; the code replaces the last 20
    bytes of a bytearray). -/
theorem hybrid_single_file_tail_assembler (H H1 : Bytes → Bytes) (B hs bpp : Nat) (d : Bytes)
    (hB : 0 < B) (hbpp : 0 < bpp) (h20 : ∀ x, (H1 x).length = 20) :
    Impl.assemblerSinglePieces H H1 B hs bpp d = some ((chunks (bpp * B) d).map H1).flatten := by
  unfold Impl.assemblerSinglePieces
  rw [fileHasher_closed H H1 B hs bpp hB hbpp true d]
  exact singleTailBytes_pieces H1 (bpp * B) (Nat.mul_pos hbpp hB) d h20

example : Impl.assemblerSinglePieces toyH toyH20 2 1 2 [1,2,3,4,5,6,7,8,9]
    = some (toyH20 [1,2,3,4] ++ toyH20 [5,6,7,8] ++ toyH20 [9]) := by
  rw [hybrid_single_file_tail_assembler toyH toyH20 2 1 2 _ (by decide) (by decide)
    (by intro x; simp [toyH20])]
  simp [chunks]

end TorrentVerif.Props.C03

import TorrentVerif.Proofs.Merkle
import TorrentVerif.Proofs.CreatorsHybrid
/-
  C03 — hybrid torrents: the v1 view and the v2 view describe the same payload
  (file-level part: what the hybrid hashers produce for one file, and the single-file rule
  of the two hybrid creators).
  `H1` = v1 piece hash (arbitrary), `B` = block size, `bpp` = blocks per piece,
  piece length = `bpp * B`.
-/
namespace TorrentVerif.Props.C03
open TorrentVerif TorrentVerif.Toy


/-- The v1 piece digests that `HasherHybrid` and `FileHasher(hybrid=True)` produce for a
    file are the v1 hashes of the successive piece-length slices of the file followed by
    zero bytes up to the next piece boundary — i.e. of the file plus its padding file, so
    that the next file of the torrent starts on a piece boundary. -/
theorem hybrid_pieces_file (H H1 : Bytes → Bytes) (B hs bpp : Nat) (d : Bytes)
    (hB : 0 < B) (hbpp : 0 < bpp) :
    (Impl.hasherHybrid H H1 B hs bpp d).2.2.1 = Spec.hybridPieces H1 (bpp * B) d ∧
    (Impl.fileHasher H H1 B hs bpp true d).2.2.1 = Spec.hybridPieces H1 (bpp * B) d := by
  rw [hasherHybrid_closed H H1 B hs bpp hB hbpp d, fileHasher_closed H H1 B hs bpp hB hbpp true d]
  have := v1Pieces_eq_spec H1 (bpp * B) (Nat.mul_pos hbpp hB) d
  simp [this]

/-- 9 bytes, piece length 4: third piece is byte 9 followed by three zero bytes -/
example : (Impl.hasherHybrid toyH toyH1 2 1 2 [1,2,3,4,5,6,7,8,9]).2.2.1
    = [toyH1 [1,2,3,4], toyH1 [5,6,7,8], toyH1 [9,0,0,0]] := by
  rw [(hybrid_pieces_file toyH toyH1 2 1 2 [1,2,3,4,5,6,7,8,9] (by decide) (by decide)).1]
  simp [Spec.hybridPieces, chunks, gap, zeros]

/-- The padding-file length recorded by both hybrid hashers is the distance from the end
    of the file to the next piece boundary; no padding file is recorded when the file ends
    on a boundary. -/
theorem hybrid_padding_file (H H1 : Bytes → Bytes) (B hs bpp : Nat) (d : Bytes)
    (hB : 0 < B) (hbpp : 0 < bpp) :
    (Impl.hasherHybrid H H1 B hs bpp d).2.2.2 = Spec.hybridPadding (bpp * B) d ∧
    (Impl.fileHasher H H1 B hs bpp true d).2.2.2 = Spec.hybridPadding (bpp * B) d := by
  rw [hasherHybrid_closed H H1 B hs bpp hB hbpp d, fileHasher_closed H H1 B hs bpp hB hbpp true d]
  have := padAfter_none_eq_spec (bpp * B) (Nat.mul_pos hbpp hB) d
  simp [this]

/-- 9 bytes, piece length 4: padding of 3; 8 bytes: no padding entry -/
example : (Impl.fileHasher toyH toyH1 2 1 2 true [1,2,3,4,5,6,7,8,9]).2.2.2 = some 3 ∧
    (Impl.fileHasher toyH toyH1 2 1 2 true [1,2,3,4,5,6,7,8]).2.2.2 = none := by
  rw [(hybrid_padding_file toyH toyH1 2 1 2 [1,2,3,4,5,6,7,8,9] (by decide) (by decide)).2,
    (hybrid_padding_file toyH toyH1 2 1 2 [1,2,3,4,5,6,7,8] (by decide) (by decide)).2]
  decide

/-- Single-file hybrid torrent made by `TorrentFileHybrid` (after the repair in `assemble`):
    no exception is raised and the v1 piece list is exactly the plain BEP 3 piece list of
    the file alone — the last piece is the hash of the unpadded tail, matching the declared
    `info.length`, so a v1-only client accepts it. -/
theorem hybrid_single_file_tail (H H1 : Bytes → Bytes) (B hs bpp : Nat) (d : Bytes)
    (hB : 0 < B) (hbpp : 0 < bpp) :
    Impl.hybridSinglePieces H H1 B hs bpp d = some ((chunks (bpp * B) d).map H1) := by
  unfold Impl.hybridSinglePieces
  rw [hasherHybrid_closed H H1 B hs bpp hB hbpp d]
  exact singleTailList_pieces H1 (bpp * B) (Nat.mul_pos hbpp hB) d

/-- 9 bytes, piece length 4: the last digest is over the single byte 9, without zeros -/
example : Impl.hybridSinglePieces toyH toyH1 2 1 2 [1,2,3,4,5,6,7,8,9]
    = some [toyH1 [1,2,3,4], toyH1 [5,6,7,8], toyH1 [9]] := by
  rw [hybrid_single_file_tail toyH toyH1 2 1 2 _ (by decide) (by decide)]
  simp [chunks]

/-- Single-file hybrid torrent made by `TorrentAssembler` (after the repair): the `pieces`
    byte string is the concatenation of the plain BEP 3 piece digests of the file alone,
    provided the v1 hash has 20-byte digests (as SHA-1 has; the code replaces the last 20
    bytes of a bytearray). -/
theorem hybrid_single_file_tail_assembler (H H1 : Bytes → Bytes) (B hs bpp : Nat) (d : Bytes)
    (hB : 0 < B) (hbpp : 0 < bpp) (h20 : ∀ x, (H1 x).length = 20) :
    Impl.assemblerSinglePieces H H1 B hs bpp d = some ((chunks (bpp * B) d).map H1).flatten := by
  unfold Impl.assemblerSinglePieces
  rw [fileHasher_closed H H1 B hs bpp hB hbpp true d]
  exact singleTailBytes_pieces H1 (bpp * B) (Nat.mul_pos hbpp hB) d h20

example : Impl.assemblerSinglePieces toyH toyH20 2 1 2 [1,2,3,4,5,6,7,8,9]
    = some (toyH20 [1,2,3,4] ++ toyH20 [5,6,7,8] ++ toyH20 [9]) := by
  rw [hybrid_single_file_tail_assembler toyH toyH20 2 1 2 _ (by decide) (by decide)
    (by intro x; simp [toyH20])]
  simp [chunks]

end TorrentVerif.Props.C03

/-! ### whole hybrid metafiles (creators of `Model/Creators.lean`)

  `r` is the value handed to `pyben.dump`, `b` the bytes written; both hybrid creators are
  covered by the hypothesis `hc`. `Spec.isPadEntry`, `Spec.entryLength`, `Spec.entryPath`,
  `Spec.treeLeaves`, `Spec.lengthsSum`, `Spec.filesStream` read a metafile value back
  (`Model/Creators.lean`). Piece length `o.pieceLength = bpp · B`. -/
namespace TorrentVerif.Props.C03
open TorrentVerif TorrentVerif.Toy TorrentVerif.Ex.G7

/-- In a hybrid metafile of a directory (names non-empty, `/`-free, distinct among siblings),
    written by either hybrid creator under any enumeration order, the non-padding entries of
    the v1 `files` list are the leaves of the v2 file tree: same order, same path components,
    same lengths. -/
theorem hybrid_files_are_leaves (o : CreateOpts) (H H1 : Bytes → Bytes) (B hs bpp : Nat)
    (hB : 0 < B) (hbpp : 0 < bpp) (hpl : o.pieceLength = bpp * B)
    (enum : List (Bytes × Impl.FTree) → List (Bytes × Impl.FTree)) (henum : ∀ l, (enum l).Perm l)
    (es : List (Bytes × Node)) (hwn : Spec.WellNamed (.dir es)) (r : BVal) (b : Bytes)
    (hc : Impl.createHybridClass o H H1 B hs enum (.dir es) = some (r, b) ∨
          Impl.createAsm true o H H1 B hs enum (.dir es) = some (r, b)) :
    ∃ fl tree, r.infoGet? K.files = some (.list fl) ∧ r.infoGet? K.fileTree = some tree ∧
      (fl.filter (fun e => !Spec.isPadEntry e)).map (fun e => (Spec.entryPath e, Spec.entryLength e))
        = (Spec.treeLeaves [] tree).map (fun x => (some x.1, Spec.entryLength x.2)) := by
  have h := hybrid_dir_reduce o H H1 B hs bpp hB hbpp hpl enum es r b hc
  obtain ⟨_, hk⟩ := createHybridClass_dir o H H1 B hs bpp hB hbpp hpl enum es r b h
  refine ⟨_, _, hk.files, hk.fileTree, ?_⟩
  simp only [Impl.treeOf, Bool.false_eq_true, if_false]
  rw [v1Entries_filter, treeLeaves_treeVal _ _ _ (traverse_noEmptyKey enum henum _ hwn)]
  simp [List.map_map, Function.comp_def, entryPath_fileEntry, entryLength_fileEntry,
    entryLength_leafProps]

/-- met by: the example tree (nested, an empty file, files needing padding), toy hashes,
    blocks of 2 bytes, 2 blocks per piece, enumerated backwards; the creator succeeds -/
example : ∃ r b, Impl.createHybridClass exOpts toyH toyH1 2 1 List.reverse exTree = some (r, b) ∧
    ∃ fl tree, r.infoGet? K.files = some (.list fl) ∧ r.infoGet? K.fileTree = some tree ∧
      (fl.filter (fun e => !Spec.isPadEntry e)).map (fun e => (Spec.entryPath e, Spec.entryLength e))
        = (Spec.treeLeaves [] tree).map (fun x => (some x.1, Spec.entryLength x.2)) := by
  obtain ⟨r, b, h⟩ := createHybridClass_some exOpts toyH toyH1 2 1 2 (by decide) (by decide) rfl
    List.reverse exTree
  exact ⟨r, b, h, hybrid_files_are_leaves exOpts toyH toyH1 2 1 2 (by decide) (by decide) rfl
    List.reverse List.reverse_perm _ exTree_wellNamed r b (Or.inl h)⟩

/-- Every padding entry of the `files` list directly follows the entry of a file whose length
    `s` is not a multiple of the piece length, and is exactly the BEP 47 padding entry of the
    gap to the next piece boundary: `{"attr": "p", "length": gap, "path": [".pad", str(gap)]}`
    with `gap = (pl − s mod pl) mod pl ≠ 0`. -/
theorem hybrid_padding_marked (o : CreateOpts) (H H1 : Bytes → Bytes) (B hs bpp : Nat)
    (hB : 0 < B) (hbpp : 0 < bpp) (hpl : o.pieceLength = bpp * B)
    (enum : List (Bytes × Impl.FTree) → List (Bytes × Impl.FTree))
    (es : List (Bytes × Node)) (r : BVal) (b : Bytes)
    (hc : Impl.createHybridClass o H H1 B hs enum (.dir es) = some (r, b) ∨
          Impl.createAsm true o H H1 B hs enum (.dir es) = some (r, b)) :
    ∃ fl, r.infoGet? K.files = some (.list fl) ∧
      ∀ pre e suf, fl = pre ++ e :: suf → Spec.isPadEntry e = true →
        ∃ pre' f s, pre = pre' ++ [f] ∧ Spec.isPadEntry f = false ∧ Spec.entryLength f = some s ∧
          gap o.pieceLength s ≠ 0 ∧
          e = .dict [(K.attr, .str [112]), (K.length, .int (gap o.pieceLength s)),
                     (K.path, .list [.str [46, 112, 97, 100], .str (natDec (gap o.pieceLength s))])] := by
  have h := hybrid_dir_reduce o H H1 B hs bpp hB hbpp hpl enum es r b hc
  obtain ⟨_, hk⟩ := createHybridClass_dir o H H1 B hs bpp hB hbpp hpl enum es r b h
  refine ⟨_, hk.files, ?_⟩
  intro pre e suf hsplit hp
  exact v1Entries_pad _ _ pre suf e hsplit hp

example : ∃ r b, Impl.createAsm true exOpts toyH toyH1 2 1 id exTree = some (r, b) ∧
    ∃ fl, r.infoGet? K.files = some (.list fl) ∧
      ∀ pre e suf, fl = pre ++ e :: suf → Spec.isPadEntry e = true →
        ∃ pre' f s, pre = pre' ++ [f] ∧ Spec.isPadEntry f = false ∧ Spec.entryLength f = some s ∧
          gap exOpts.pieceLength s ≠ 0 ∧
          e = .dict [(K.attr, .str [112]), (K.length, .int (gap exOpts.pieceLength s)),
                     (K.path, .list [.str [46, 112, 97, 100], .str (natDec (gap exOpts.pieceLength s))])] := by
  obtain ⟨r, b, h⟩ := createHybridClass_some exOpts toyH toyH1 2 1 2 (by decide) (by decide) rfl id exTree
  have h' : Impl.createAsm true exOpts toyH toyH1 2 1 id exTree = some (r, b) := by
    rw [show exTree = .dir _ from rfl, createAsm_true_dir_eq exOpts toyH toyH1 2 1 2 (by decide) (by decide) rfl]
    exact h
  exact ⟨r, b, h', hybrid_padding_marked exOpts toyH toyH1 2 1 2 (by decide) (by decide) rfl id _ r b
    (Or.inr h')⟩

/-- Every non-padding entry of the `files` list starts on a piece boundary of the v1 byte
    stream the listed lengths describe: the lengths of all entries before it (files and
    padding) add up to a multiple of the piece length. -/
theorem hybrid_aligned (o : CreateOpts) (H H1 : Bytes → Bytes) (B hs bpp : Nat)
    (hB : 0 < B) (hbpp : 0 < bpp) (hpl : o.pieceLength = bpp * B)
    (enum : List (Bytes × Impl.FTree) → List (Bytes × Impl.FTree))
    (es : List (Bytes × Node)) (r : BVal) (b : Bytes)
    (hc : Impl.createHybridClass o H H1 B hs enum (.dir es) = some (r, b) ∨
          Impl.createAsm true o H H1 B hs enum (.dir es) = some (r, b)) :
    ∃ fl, r.infoGet? K.files = some (.list fl) ∧
      ∀ pre e suf, fl = pre ++ e :: suf → Spec.isPadEntry e = false →
        ∃ n, Spec.lengthsSum pre = some n ∧ n % o.pieceLength = 0 := by
  have h := hybrid_dir_reduce o H H1 B hs bpp hB hbpp hpl enum es r b hc
  obtain ⟨_, hk⟩ := createHybridClass_dir o H H1 B hs bpp hB hbpp hpl enum es r b h
  refine ⟨_, hk.files, ?_⟩
  intro pre e suf hsplit hp
  exact v1Entries_aligned _ (by rw [hpl]; exact Nat.mul_pos hbpp hB) _ pre suf e hsplit hp

example : ∃ r b, Impl.createHybridClass exOpts toyH toyH1 2 1 id exTree = some (r, b) ∧
    ∃ fl, r.infoGet? K.files = some (.list fl) ∧
      ∀ pre e suf, fl = pre ++ e :: suf → Spec.isPadEntry e = false →
        ∃ n, Spec.lengthsSum pre = some n ∧ n % exOpts.pieceLength = 0 := by
  obtain ⟨r, b, h⟩ := createHybridClass_some exOpts toyH toyH1 2 1 2 (by decide) (by decide) rfl id exTree
  exact ⟨r, b, h, hybrid_aligned exOpts toyH toyH1 2 1 2 (by decide) (by decide) rfl id _ r b (Or.inl h)⟩

/-- The v1 piece string of a hybrid metafile of a directory is the concatenated v1 hashes of
    the successive piece-length slices of the byte stream its own `files` list describes over
    the content tree: a padding entry stands for that many zero bytes, any other entry for the
    bytes of the file at the listed path (which has exactly the listed length). So a v1-only
    client checking `pieces` against `files` verifies the same files a v2 client does. -/
theorem hybrid_pieces (o : CreateOpts) (H H1 : Bytes → Bytes) (B hs bpp : Nat)
    (hB : 0 < B) (hbpp : 0 < bpp) (hpl : o.pieceLength = bpp * B)
    (enum : List (Bytes × Impl.FTree) → List (Bytes × Impl.FTree)) (henum : ∀ l, (enum l).Perm l)
    (es : List (Bytes × Node)) (hwn : Spec.WellNamed (.dir es)) (r : BVal) (b : Bytes)
    (hc : Impl.createHybridClass o H H1 B hs enum (.dir es) = some (r, b) ∨
          Impl.createAsm true o H H1 B hs enum (.dir es) = some (r, b)) :
    ∃ fl s, r.infoGet? K.files = some (.list fl) ∧ Spec.filesStream (.dir es) fl = some s ∧
      r.infoGet? K.pieces = some (.str ((chunks o.pieceLength s).map H1).flatten) ∧
      r.infoGet? K.length = none := by
  have h := hybrid_dir_reduce o H H1 B hs bpp hB hbpp hpl enum es r b hc
  obtain ⟨_, hk⟩ := createHybridClass_dir o H H1 B hs bpp hB hbpp hpl enum es r b h
  exact ⟨_, _, hk.files,
    filesStream_aligned (.dir es) o.pieceLength _ (traverse_fileAt enum henum _ hwn),
    hk.pieces, hk.length⟩

example : ∃ r b, Impl.createHybridClass exOpts toyH toyH1 2 1 List.reverse exTree = some (r, b) ∧
    ∃ fl s, r.infoGet? K.files = some (.list fl) ∧ Spec.filesStream exTree fl = some s ∧
      r.infoGet? K.pieces = some (.str ((chunks exOpts.pieceLength s).map toyH1).flatten) ∧
      r.infoGet? K.length = none := by
  obtain ⟨r, b, h⟩ := createHybridClass_some exOpts toyH toyH1 2 1 2 (by decide) (by decide) rfl
    List.reverse exTree
  exact ⟨r, b, h, hybrid_pieces exOpts toyH toyH1 2 1 2 (by decide) (by decide) rfl
    List.reverse List.reverse_perm _ exTree_wellNamed r b (Or.inl h)⟩

/-- Single-file hybrid metafile (either creator; for `TorrentAssembler` the v1 hash must have
    20-byte digests, as SHA-1 has): `info.length` is the file length, there is no `files` list,
    the file tree has the single leaf `name` (non-empty) with that length, and `info.pieces` is the plain
    BEP 3 piece string of the file alone — the last piece is hashed without padding. -/
theorem hybrid_single (o : CreateOpts) (H H1 : Bytes → Bytes) (B hs bpp : Nat)
    (hB : 0 < B) (hbpp : 0 < bpp) (hpl : o.pieceLength = bpp * B)
    (hname : o.name ≠ [])
    (enum : List (Bytes × Impl.FTree) → List (Bytes × Impl.FTree)) (d : Bytes) (r : BVal) (b : Bytes)
    (hc : Impl.createHybridClass o H H1 B hs enum (.file d) = some (r, b) ∨
          ((∀ x, (H1 x).length = 20) ∧ Impl.createAsm true o H H1 B hs enum (.file d) = some (r, b))) :
    r.infoGet? K.length = some (.int d.length) ∧ r.infoGet? K.files = none ∧
    r.infoGet? K.pieces = some (.str ((chunks o.pieceLength d).map H1).flatten) ∧
    ∃ tree, r.infoGet? K.fileTree = some tree ∧
      (Spec.treeLeaves [] tree).map (fun x => (x.1, Spec.entryLength x.2)) = [([o.name], some d.length)] := by
  have h : Impl.createHybridClass o H H1 B hs enum (.file d) = some (r, b) := by
    rcases hc with hc | ⟨h20, hc⟩
    · exact hc
    · rwa [createAsm_true_eq o H H1 B hs bpp hB hbpp hpl h20] at hc
  rw [createHybridClass_file o H H1 B hs bpp hB hbpp hpl] at h
  obtain ⟨hs', _⟩ := written_some _ r b h
  have hk := hybrid_keys _ _ _ _ _ r hs'
  refine ⟨hk.length, hk.files, hk.pieces, _, hk.fileTree, ?_⟩
  simp [Impl.treeOf, Spec.treeLeaves, Spec.treeLeavesD, leafVal_eq, entryLength_leafProps, hname]

/-- met by: a single file of 9 bytes, piece length 4 (last piece short), both creators -/
example : (∃ r b, Impl.createHybridClass exOpts toyH toyH1 2 1 id exFile = some (r, b) ∧
      r.infoGet? K.pieces = some (.str (toyH1 [1,2,3,4] ++ toyH1 [5,6,7,8] ++ toyH1 [9]))) ∧
    (∃ r b, Impl.createAsm true exOpts toyH toyH20 2 1 id exFile = some (r, b) ∧
      r.infoGet? K.length = some (.int 9)) := by
  constructor
  · obtain ⟨r, b, h⟩ := createHybridClass_some exOpts toyH toyH1 2 1 2 (by decide) (by decide) rfl id exFile
    have := (hybrid_single exOpts toyH toyH1 2 1 2 (by decide) (by decide) rfl (by decide) id _ r b (Or.inl h)).2.2.1
    refine ⟨r, b, h, ?_⟩
    rw [this]
    simp [exOpts, chunks]
  · have h20 : ∀ x, (toyH20 x).length = 20 := by intro x; simp [toyH20]
    obtain ⟨r, b, h⟩ := createAsm_true_some exOpts toyH toyH20 2 1 2 (by decide) (by decide) rfl h20 id exFile
    exact ⟨r, b, h, (hybrid_single exOpts toyH toyH20 2 1 2 (by decide) (by decide) rfl (by decide) id _ r b
      (Or.inr ⟨h20, h⟩)).1⟩

end TorrentVerif.Props.C03

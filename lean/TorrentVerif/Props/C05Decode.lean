import TorrentVerif.Proofs.PyDecode
import TorrentVerif.Proofs.Utf8Valid
import TorrentVerif.Proofs.EndToEndEdit
import TorrentVerif.Model.ExceptEq
/-
  C05 (recheck) / C13 (rebuild) — insensitivity to the `str` / `bytes` quirk of the bencode
  decoder (`Model/PyDecode.lean`).

  `pyben.load` returns a byte string as `str` when it is valid UTF-8 and as `bytes` otherwise.
  A digest that was computed is always `bytes`, and `str == bytes` is `False` in Python.  Before
  commit e629db8 the recorded hash strings were compared as decoded: a recorded digest that
  happens to be valid UTF-8 never matched (`old_compare_fails_iff_utf8`, with the two real
  witnesses).  The repair reads every hash string through `utils.hash_bytes`; the theorems here
  say that what the repaired sites then see is exactly the byte string of the file, whatever the
  decoder's tag — the value the idealised models (`Impl.loads`, `Impl.recheck`,
  `Impl.extractMeta`) have assumed all along.  Property theorems only; helper lemmas live in
  `Proofs/PyDecode.lean`.
-/
/-! example inputs used by the `example`s below: the two real witnesses -/
namespace TorrentVerif.Ex.C05Decode
open TorrentVerif

/-- SHA-1 of the 13 bytes `content-95049`: valid UTF-8 (`d8 8d` is U+060D, `c2 9a` is U+009A) -/
def sha1Witness : Bytes :=
  [0x39, 0x58, 0x5b, 0x71, 0xd8, 0x8d, 0x53, 0x08, 0x06, 0x50, 0x4d, 0x32, 0x56, 0xc2, 0x9a, 0x4e,
   0x7a, 0x0b, 0x74, 0x54]

/-- SHA-256 of the 11 bytes `c2-89753655`: valid UTF-8 (`db b8` is U+06F8, `d4 b9` is U+0539) -/
def sha256Witness : Bytes :=
  [0x02, 0x2b, 0x2e, 0x49, 0x4e, 0x38, 0x3d, 0x38, 0x3c, 0x2f, 0x10, 0x77, 0x3f, 0x27, 0x07, 0x73,
   0x6b, 0x3e, 0x68, 0x1e, 0xdb, 0xb8, 0x59, 0x50, 0x1e, 0x76, 0x08, 0x50, 0x5c, 0x01, 0xd4, 0xb9]

end TorrentVerif.Ex.C05Decode

namespace TorrentVerif.Props.C05
open TorrentVerif TorrentVerif.Ex.C05Decode

/-- `validUtf8` is UTF-8 validity in the sense of RFC 3629 / Unicode: a byte string passes iff it
    is the encoding (`Utf8.encodeStr`, Python's `str.encode("utf-8")`) of a sequence of Unicode
    scalar values (code points up to U+10FFFF that are not surrogates) — and then of exactly one
    such sequence.  So the text of a decoded `str` is determined by its bytes and
    `text.encode("utf-8")` is the byte string of the file: representing `PyVal.str` by the bytes
    loses nothing, and `hash_bytes` returns them.  (Overlong forms, surrogates, code points above
    U+10FFFF and truncated sequences are not encodings of anything, hence invalid.) -/
theorem validUtf8_iff_encoding_of_scalars (b : Bytes) :
    validUtf8 b = true ↔
      ∃ s : List Nat, (∀ c ∈ s, Utf8.Scalar c) ∧ Utf8.encodeStr s = b ∧
        ∀ s' : List Nat, (∀ c ∈ s', Utf8.Scalar c) → Utf8.encodeStr s' = b → s' = s := by
  constructor
  · intro h
    obtain ⟨s, hs, he⟩ := (validUtf8_iff b).mp h
    refine ⟨s, hs, he, fun s' hs' he' => ?_⟩
    exact encodeStr_inj s' s (fun c hc => Utf8.scalar_lt (hs' c hc))
      (fun c hc => Utf8.scalar_lt (hs c hc)) (he'.trans he.symm)
  · rintro ⟨s, hs, he, _⟩
    exact (validUtf8_iff b).mpr ⟨s, hs, he⟩

/-- met by: the SHA-1 witness is the encoding of 18 code points (U+060D and U+009A take two bytes
    each); the encoded surrogate `ed a0 80`, the overlong `c0 80`, `f4 90 80 80` (U+110000) and the
    truncated `e2 82` are rejected -/
example : Utf8.encodeStr [0x39, 0x58, 0x5b, 0x71, 0x60D, 0x53, 0x08, 0x06, 0x50, 0x4d, 0x32, 0x56, 0x9A,
      0x4e, 0x7a, 0x0b, 0x74, 0x54] = sha1Witness ∧
    validUtf8 [0xed, 0xa0, 0x80] = false ∧ validUtf8 [0xc0, 0x80] = false ∧
    validUtf8 [0xf4, 0x90, 0x80, 0x80] = false ∧ validUtf8 [0xe2, 0x82] = false ∧
    validUtf8 [0xe2, 0x82, 0xac] = true := by decide

/-- The repaired sites see the bytes of the file.  For EVERY byte string `b` of a metafile —
    valid UTF-8 (pyben hands it out as `str`) or not (`bytes`) — `hash_bytes` of the decoded value
    is `b` itself.  No hypothesis. -/
theorem hashBytes_pyTag (b : Bytes) : Impl.hashBytes (Impl.pyTag (.str b)) = some b := by
  rw [Impl.pyTag]; exact Impl.hashBytes_tagStr b

/-- met by: the SHA-1 witness, which pyben returns as `str`, and `ff`, which it returns as
    `bytes` -/
example : Impl.pyTag (.str sha1Witness) matches .str _ ∧
    Impl.hashBytes (Impl.pyTag (.str sha1Witness)) = some sha1Witness ∧
    Impl.pyTag (.str [0xff]) matches .bytes _ ∧
    Impl.hashBytes (Impl.pyTag (.str [0xff])) = some [0xff] := by decide

/-- `hash_bytes` forgets exactly the decoder's tag: for EVERY Python value `p` (tagged any way,
    also one pyben could not produce) reading `p` as a hash string the repaired way
    (`hash_bytes(p)`, then used as `bytes`; anything that is not a string fails) is reading the
    untagged value as a string — what the models do with `RF.str`. -/
theorem hashBytes_reads_normalised (p : PyVal) :
    Impl.pyHashStr p = RF.str (Impl.normalise p) := Impl.pyHashStr_eq_str p

/-- met by: a `str`, a `bytes`, and an integer (`TypeError` on both sides) -/
example : Impl.pyHashStr (.str [97]) = .ok [97] ∧ RF.str (Impl.normalise (.str [97])) = .ok [97] ∧
    Impl.pyHashStr (.bytes [0xff]) = .ok [0xff] ∧
    Impl.pyHashStr (.int 5) = .error .typeError ∧
    RF.str (Impl.normalise (.int 5)) = .error .typeError := by decide

/-- Forgetting the tags of what pyben returns gives back the bencode value: `untag ∘ pyTag` is
    the identity, for every value (every string and every dictionary key at every depth). -/
theorem untag_pyTag (v : BVal) : Impl.untag (Impl.pyTag v) = v := Impl.untag_pyTag v

/-- met by: a dictionary with a `str` key, a `bytes` key, and values of both kinds -/
example : Impl.untag (Impl.pyTag (.dict [([97], .str [0xff]), ([0xfe], .list [.str [98], .int 1])]))
    = .dict [([97], .str [0xff]), ([0xfe], .list [.str [98], .int 1])] := by decide

/-- The sites `hash_bytes(checker.info["pieces"])` (`FeedChecker.__init__`),
    `hash_bytes(fileinfo[i]["pieces root"])` (`HashChecker.next_file`) and, in general,
    `hash_bytes(v[k])` for any dictionary `v` of the decoded metafile and any key `k`: on the
    value pyben returns for `v` the repaired read gives what the idealised model reads from `v`
    (`RF.sub v k >>= RF.str`: the bytes of the string; `KeyError` without the key; `TypeError`
    when `v` is no dictionary or the entry no string).  Any `v`, any `k` (also a key that is
    not valid UTF-8): the key is looked up the way pyben tagged it. -/
theorem hash_site_reads_raw_bytes (v : BVal) (k : Bytes) :
    Impl.pyHashAt (Impl.pyTag v) k = RF.sub v k >>= RF.str := by
  rw [Impl.pyHashAt_pyTag]
  cases RF.sub v k <;> rfl

/-- met by: an `info` dictionary whose `pieces` is the SHA-1 witness (a `str` for Python) and a
    file node whose `pieces root` is the SHA-256 witness; the literal keys are `str` keys -/
example :
    Impl.pyHashAt (Impl.pyTag (.dict [(K.name, .str [110]), (K.pieces, .str sha1Witness)])) K.pieces
      = .ok sha1Witness ∧
    Impl.pyHashAt (Impl.pyTag (.dict [(K.length, .int 11), (RF.kPiecesRoot, .str sha256Witness)]))
      RF.kPiecesRoot = .ok sha256Witness ∧
    Impl.tagKey K.pieces = .str K.pieces ∧ Impl.tagKey RF.kPiecesRoot = .str RF.kPiecesRoot := by
  decide

/-- The same at any depth: walk from the top of the decoded metafile along any keys `ks`
    (`meta["info"]`, `…["file tree"]["dir"]["file"][""]`; keys that are not valid UTF-8 included)
    and read `hash_bytes(…[k])` there.  On the value pyben returns this gives what the same walk
    and an untyped string read give on the idealised value — the same bytes or the same error. -/
theorem hash_site_on_path (mf : BVal) (ks : List Bytes) (k : Bytes) :
    (Impl.pyPath (Impl.pyTag mf) ks >>= fun x => Impl.pyHashAt x k)
      = (Impl.bPath mf ks >>= fun x => RF.sub x k >>= RF.str) := by
  rw [Impl.pyPath_pyTag]
  cases Impl.bPath mf ks with
  | error e => rfl
  | ok x => exact hash_site_reads_raw_bytes x k

/-- met by: `meta["info"]["file tree"][b"\xff"][""]["pieces root"]` = the SHA-256 witness -/
example :
    (Impl.pyPath (Impl.pyTag (.dict [(K.info, .dict [(K.fileTree,
        .dict [([0xff], .dict [([], .dict [(RF.kPiecesRoot, .str sha256Witness)])])])])]))
      [K.info, K.fileTree, [0xff], []] >>= fun x => Impl.pyHashAt x RF.kPiecesRoot)
      = .ok sha256Witness := by decide

/-- The normalised `piece layers`,
    `{hash_bytes(root): hash_bytes(layer) for root, layer in meta["piece layers"].items()}`, for
    ANY Python dictionary (keys `str` or `bytes` in any mixture): looking up the bytes `h` finds
    `hash_bytes` of the value of the LAST item whose key has the bytes `h` — "last wins", as a
    dict comprehension assigns item by item — and nothing when no key has these bytes. -/
theorem layers_normalised_last_wins (kvs : List (PyKey × PyVal)) (h : Bytes) :
    assocGet (Impl.layersNew kvs) h
      = (kvs.reverse.find? (fun kv => kv.1.raw = h)).map (fun kv => Impl.hashBytesPy kv.2) :=
  Impl.assocGet_layersNew kvs h

/-- met by: `{"a": b"\xff", b"b": "x", b"a": "y"}` (`"a"` and `b"a"` are different keys of a Python
    dictionary, the same key after `hash_bytes`) becomes `{b"a": b"y", b"b": b"x"}`: the first
    position, the last value -/
example : Impl.layersNew [(.str [97], .bytes [0xff]), (.bytes [98], .str [120]), (.bytes [97], .str [121])]
      matches [([97], .bytes [121]), ([98], .bytes [120])] ∧
    (assocGet (Impl.layersNew [(.str [97], .bytes [0xff]), (.bytes [98], .str [120]),
      (.bytes [97], .str [121])]) [97]).bind Impl.hashBytes = some [121] := by decide

/-- `self.piece_layers[self.root_hash]` after the repair, on what pyben returns for a `piece
    layers` dictionary `d` with pairwise distinct keys (`hn`; every dictionary pyben decodes has
    them: a repeated key overwrites): for every root `h` the layer that `HashChecker.next_file`
    gets — as bytes; `KeyError` when there is none; `TypeError` when the entry is not a string —
    is what `Impl.rcV2Entry` reads from the idealised dictionary by the raw bytes of the root.
    The tags of the keys (a root that is valid UTF-8 is a `str` key) and of the layers play no
    part. -/
theorem layer_lookup_normalised (d : Dict) (hn : (keys d).Nodup) (h : Bytes) :
    Impl.pyLayerOf (Impl.pyTagD d) h
      = (match dictGet d h with | some v => RF.str v | none => .error .keyError) :=
  Impl.pyLayerOf_pyTagD d hn h

/-- met by: a layer keyed by the SHA-256 witness (a `str` key for Python) next to one keyed by
    bytes that are not UTF-8; a root without layer is a `KeyError` -/
example : (keys [(sha256Witness, BVal.str [1, 2]), ([0xff], .str [3])]).Nodup ∧
    Impl.pyLayerOf (Impl.pyTagD [(sha256Witness, .str [1, 2]), ([0xff], .str [3])]) sha256Witness
      = .ok [1, 2] ∧
    Impl.pyLayerOf (Impl.pyTagD [(sha256Witness, .str [1, 2]), ([0xff], .str [3])]) [0xff] = .ok [3] ∧
    Impl.pyLayerOf (Impl.pyTagD [(sha256Witness, .str [1, 2]), ([0xff], .str [3])]) [7]
      = .error .keyError := by decide

/-- The same for a bencode dictionary with REPEATED keys (pyben never returns one; stated so that
    nothing rests on uniqueness silently): the normalised look-up finds the LAST entry with the
    key `h`, whereas the model's `dictGet` finds the first.  With distinct keys both are the
    same entry (`layer_lookup_normalised`). -/
theorem layer_lookup_last_wins (d : Dict) (h : Bytes) :
    assocGet (Impl.layersNew (Impl.pyTagD d)) h
      = (d.reverse.find? (fun kv => kv.1 = h)).map (fun kv => Impl.hashBytesPy (Impl.pyTag kv.2)) := by
  rw [Impl.assocGet_layersNew]
  have key : ∀ (l : Dict),
      (Impl.pyTagD l).reverse.find? (fun kv => kv.1.raw = h)
        = ((l.reverse.find? (fun kv => kv.1 = h))).map (fun kv => (Impl.tagKey kv.1, Impl.pyTag kv.2)) := by
    intro l
    induction l with
    | nil => rfl
    | cons kv r ih =>
      obtain ⟨k, v⟩ := kv
      rw [Impl.pyTagD, List.reverse_cons, List.reverse_cons, List.find?_append, List.find?_append, ih]
      cases r.reverse.find? (fun kv => kv.1 = h) with
      | some x => rfl
      | none =>
        by_cases e : k = h
        · simp [Impl.tagKey_raw, e]
        · simp [Impl.tagKey_raw, e]
  rw [key]
  cases d.reverse.find? (fun kv => kv.1 = h) <;> rfl

/-- met by: `[(a, x), (a, y)]` — last wins after normalising, first wins for `dictGet` -/
example : (assocGet (Impl.layersNew (Impl.pyTagD [([97], .str [120]), ([97], .str [121])])) [97]).bind
      Impl.hashBytes = some [121] ∧
    dictGet [([97], .str [120]), ([97], .str [121])] [97] = some (.str [120]) := by decide

/-- THE DEFECT, proved.  Before the repair a recorded root (or digest) was compared as pyben
    returned it.  For every recorded byte string `r` and computed digest `d`:
    `recorded == computed` held iff `r = d` AND `r` is NOT valid UTF-8.  In particular
    (`r = d`): a recorded digest that equals the computed one compares equal iff it is not valid
    UTF-8 — for every digest that is valid UTF-8 the old code rejects the intact piece. -/
theorem old_compare_fails_iff_utf8 (d : Bytes) :
    Impl.rootMatchesOld (Impl.pyTag (.str d)) d = !validUtf8 d ∧
    ∀ r, Impl.rootMatchesOld (Impl.pyTag (.str r)) d = (!validUtf8 r && r == d) := by
  have h : ∀ r, Impl.rootMatchesOld (Impl.pyTag (.str r)) d = (!validUtf8 r && r == d) := by
    intro r
    unfold Impl.rootMatchesOld
    rw [Impl.pyTag, Impl.tagStr]
    cases validUtf8 r <;> simp [Impl.bytesEqPy]
  exact ⟨by rw [h d]; simp, h⟩

/-- the two real witnesses: SHA-1(`content-95049`) and SHA-256(`c2-89753655`) are valid UTF-8 … -/
example : validUtf8 sha1Witness = true := by decide
example : validUtf8 sha256Witness = true := by decide
/-- … so the old comparison of the recorded digest with the identical computed one was `False`
    (the intact file rechecked at 0 %, rebuild placed nothing), while a digest that is not UTF-8
    compared fine -/
example : Impl.rootMatchesOld (Impl.pyTag (.str sha256Witness)) sha256Witness = false ∧
    Impl.rootMatchesOld (Impl.pyTag (.str sha1Witness)) sha1Witness = false ∧
    Impl.rootMatchesOld (Impl.pyTag (.str [0xff, 1])) [0xff, 1] = true := by decide

/-- The repaired comparison `hash_bytes(recorded) == computed` is equality of the byte strings,
    for every recorded `r` and computed `d`, valid UTF-8 or not. -/
theorem new_compare_is_bytes_equality (r d : Bytes) :
    Impl.rootMatchesNew (Impl.pyTag (.str r)) d = (r == d) := by
  unfold Impl.rootMatchesNew
  rw [Impl.pyTag, Impl.hashBytesPy_tagStr]; rfl

/-- met by: both witnesses now compare equal to themselves, and differ from another digest -/
example : Impl.rootMatchesNew (Impl.pyTag (.str sha256Witness)) sha256Witness = true ∧
    Impl.rootMatchesNew (Impl.pyTag (.str sha1Witness)) sha1Witness = true ∧
    Impl.rootMatchesNew (Impl.pyTag (.str sha1Witness)) sha256Witness = false := by decide

/-- v1 (`FeedChecker`): `chunck == self.pieces[start:end]` for piece `i`.
    BEFORE the repair a `pieces` string that is valid UTF-8 as a whole (for a single-piece torrent:
    its one digest) is a `str`, each slice of it is a `str`, and NO piece ever matches, whatever
    was computed; a `pieces` string that is not valid UTF-8 is compared slice by slice.
    AFTER the repair the comparison is `digestSlice 20 pieces i = d` for every `pieces` — the
    comparison `Impl.feedCompare` makes. -/
theorem v1_pieces_old_and_new (pieces : Bytes) (i : Nat) (d : Bytes) :
    Impl.v1PieceMatch (Impl.v1PiecesOld (Impl.pyTag (.str pieces))) i d
      = (!validUtf8 pieces && digestSlice 20 pieces i == d) ∧
    Impl.v1PieceMatch (Impl.v1PiecesNew (Impl.pyTag (.str pieces))) i d
      = (digestSlice 20 pieces i == d) := by
  constructor
  · rw [Impl.pyTag, Impl.tagStr]
    cases validUtf8 pieces <;> simp [Impl.v1PiecesOld, Impl.v1PieceMatch]
  · rw [Impl.v1PiecesNew, hashBytes_pyTag]; rfl

/-- met by: the single-piece torrent of `content-95049`: piece 0 against its own digest -/
example : Impl.v1PieceMatch (Impl.v1PiecesOld (Impl.pyTag (.str sha1Witness))) 0 sha1Witness = false ∧
    Impl.v1PieceMatch (Impl.v1PiecesNew (Impl.pyTag (.str sha1Witness))) 0 sha1Witness = true := by
  decide

/-- The old look-up `self.piece_layers[self.root_hash]` itself was sound: the keys of the decoded
    dictionary and the decoded `pieces root` carry the same tag (it is a function of the bytes),
    so the layer recorded under the root `r` was found — as pyben tagged it; only the comparisons
    that followed went wrong (`old_layer_piece_fails_iff_utf8`). -/
theorem old_layer_lookup_finds (d : Dict) (r : Bytes) :
    Impl.layerLookupOld (Impl.pyTagD d) (Impl.pyTag (.str r)) = (dictGet d r).map Impl.pyTag := by
  rw [← Impl.pyDictGet_pyTagD, Impl.pyTag, Impl.tagStr, Impl.tagKey]
  cases validUtf8 r <;> rfl

/-- met by: the layer keyed by the SHA-256 witness -/
example : (Impl.layerLookupOld (Impl.pyTagD [(sha256Witness, .str [1, 2])])
    (Impl.pyTag (.str sha256Witness))).bind Impl.hashBytes = some [1, 2] := by decide

/-- A file of more than one piece, entry `i` of its piece layer against the computed piece hash:
    BEFORE the repair a layer that is valid UTF-8 as a whole never matched; AFTER it the
    comparison is `digestSlice hs layer i = d` (`Impl.advance`), for every layer. -/
theorem old_layer_piece_fails_iff_utf8 (hs : Nat) (layer : Bytes) (i : Nat) (d : Bytes) :
    Impl.layerPieceMatchOld hs (Impl.pyTag (.str layer)) i d
      = (!validUtf8 layer && digestSlice hs layer i == d) ∧
    Impl.layerPieceMatchNew hs (Impl.pyTag (.str layer)) i d = (digestSlice hs layer i == d) := by
  constructor
  · rw [Impl.pyTag, Impl.tagStr]
    cases validUtf8 layer <;> simp [Impl.layerPieceMatchOld]
  · rw [Impl.layerPieceMatchNew, Impl.pyTag, Impl.hashBytesPy_tagStr]; rfl

/-- met by: a (toy) layer of two 2-byte entries that is ASCII text -/
example : Impl.layerPieceMatchOld 2 (Impl.pyTag (.str [97, 98, 99, 100])) 1 [99, 100] = false ∧
    Impl.layerPieceMatchNew 2 (Impl.pyTag (.str [97, 98, 99, 100])) 1 [99, 100] = true := by decide

/-- RECHECK is insensitive to the decoder's tags.  For every byte string `metafile`, content
    argument and disk:
    (1) the repaired `Checker` started from what pyben really returns (`Impl.recheckPy`: the
        decoded value with `hash_bytes` applied, handed to `Impl.recheckMeta`) gives exactly what
        the idealised `Impl.recheck` gives — the same verdicts and counters or the same error —
        so `recheck_of_created_v1 / _v2 / _hybrid`, `intact_full_arg`, `recheck_after_edit` … hold
        for it unchanged;
    and, when pyben decodes the file to `p`, with `mf = normalise p` the idealised value:
    (2) every hash string the repaired code reads — `hash_bytes(x[k])` with `x` reached from the
        top of `p` along any keys — is what `Impl.recheckMeta` reads at the same place of `mf`
        (`info.pieces`: `ks = [info]`, `k = pieces`; a `pieces root`:
        `ks = [info, file tree, …, ""]`, `k = pieces root`);
    (3) the top-level `piece layers`, normalised as `HashChecker.__init__` does, answer every
        look-up by root the way `Impl.rcV2Entry` reads the idealised dictionary.
    (2) and (3) are all the places where `Impl.recheckMeta` consumes a hash string (`RF.str` of
    `info.pieces`, of `pieces root` in `leafRec` / `checkPaths`, and `dictGet layers h`). -/
theorem decoder_insensitive_recheck (H1 H : Bytes → Bytes) (B hs : Nat) (metafile : Bytes)
    (arg : RF.ContentArg) (disk : RF.Disk) :
    Impl.recheckPy H1 H B hs metafile arg disk = Impl.recheck H1 H B hs metafile arg disk ∧
    ∀ p, Impl.pyLoads metafile = some p →
      Impl.loads metafile = some (Impl.normalise p) ∧
      (∀ ks k, (Impl.pyPath p ks >>= fun x => Impl.pyHashAt x k)
        = (Impl.bPath (Impl.normalise p) ks >>= fun x => RF.sub x k >>= RF.str)) ∧
      (∀ layers, RF.sub (Impl.normalise p) K.pieceLayers = .ok (.dict layers) →
        ∃ kvs, Impl.pySub p (Impl.tagKey K.pieceLayers) = .ok (.dict kvs) ∧
          ∀ h, Impl.pyLayerOf kvs h
            = (match dictGet layers h with | some v => RF.str v | none => .error .keyError)) := by
  constructor
  · unfold Impl.recheckPy Impl.recheck Impl.pyLoads Impl.normalise
    cases Impl.loads metafile with
    | none => rfl
    | some mf => simp only [Option.map_some, Impl.untag_pyTag]
  · intro p hp
    unfold Impl.pyLoads at hp
    cases hl : Impl.loads metafile with
    | none => simp [hl] at hp
    | some mf =>
      simp only [hl, Option.map_some, Option.some.injEq] at hp
      subst hp
      have hn : Impl.normalise (Impl.pyTag mf) = mf := Impl.untag_pyTag mf
      rw [hn]
      refine ⟨rfl, fun ks k => hash_site_on_path mf ks k, ?_⟩
      intro layers hs
      have hu := E2E.loads_uniq metafile mf hl
      cases mf with
      | int i => simp [RF.sub] at hs
      | str s => simp [RF.sub] at hs
      | list l => simp [RF.sub] at hs
      | dict top =>
        have hg : dictGet top K.pieceLayers = some (.dict layers) := by
          simp only [RF.sub] at hs
          cases hd : dictGet top K.pieceLayers with
          | none => simp [hd] at hs
          | some x => simp only [hd, Except.ok.injEq] at hs; rw [hs]
        have hmem : (K.pieceLayers, BVal.dict layers) ∈ top := dictGet_mem top _ _ hg
        have hul : uniq (.dict layers) = true :=
          ((uniq_dict top).mp hu).2 _ hmem
        have hnd : (keys layers).Nodup := ((uniq_dict layers).mp hul).1
        refine ⟨Impl.pyTagD layers, ?_, fun h => layer_lookup_normalised layers hnd h⟩
        rw [Impl.pySub_pyTag, RF.sub, hg]
        rfl

/-- met by: a v1 metafile whose `pieces` is the SHA-1 witness (pyben returns it as `str`), the
    13 bytes of `content-95049` on disk, and a stand-in for SHA-1 that maps these bytes to the
    witness: the repaired pipeline started from pyben's value verifies the one piece, 13 of 13
    bytes — where the old comparison of this very digest was `False` -/
example :
    let content : Bytes := [99, 111, 110, 116, 101, 110, 116, 45, 57, 53, 48, 52, 57]
    let mf : BVal := .dict [(K.info, .dict [(K.length, .int 13), (K.name, .str [110]),
      (K.pieceLength, .int 16384), (K.pieces, .str sha1Witness)])]
    ((Impl.pyLoads (Impl.encode mf)).bind (fun p => (Impl.pyPath p [K.info, K.pieces]).toOption))
      matches some (.str _) ∧
    Impl.recheckPy (fun _ => sha1Witness) id 16384 32 (Impl.encode mf) ⟨.root, [110]⟩ (.file content)
      = .ok ([(true, 13)], 13, 13) ∧
    Impl.v1PieceMatch (Impl.v1PiecesOld (.str sha1Witness)) 0 sha1Witness = false := by
  decide +kernel

/-- REBUILD is insensitive to the decoder's tags.  For every byte string `metafile`:
    (1) `Metadata.extract` after the repair on what pyben really returns (`Impl.extractMetaPy`)
        yields what `Impl.extractMeta` yields on the idealised value, and the whole
        `Impl.rebuildFromBytesPy` (filesystem calls and counter) equals `Impl.rebuildFromBytes`
        for every filemap, filesystem and destination — so `extract_of_created_*` and
        `rebuild_of_created_*` (Props/C13) hold for it unchanged;
    and for every `info` dictionary / file node of the idealised value, tagged as pyben does:
    (2) `self.pieces = hash_bytes(info.get("pieces", bytes()))` is the byte string the model
        takes (`[]` without the key, the bytes of a string, otherwise not a byte string — the
        model's `typeError` for v1, ignored for `meta version` 2);
    (3) `hash_bytes(val[""].get("pieces root")) == hasher.root` in `_match_v2` holds exactly when
        the root the model records (`Impl.leafOfVal`: the bytes of a string, `None` otherwise)
        equals the computed one (`Impl.rootMatches`). -/
theorem decoder_insensitive_extract (metafile : Bytes) :
    (Impl.pyLoads metafile).map Impl.extractMetaPy = (Impl.loads metafile).map Impl.extractMeta ∧
    (∀ H1 H B hs ds fs filemap dest,
      Impl.rebuildFromBytesPy H1 H B hs ds fs filemap dest metafile
        = Impl.rebuildFromBytes H1 H B hs ds fs filemap dest metafile) ∧
    (∀ info : Dict, Impl.hashBytes (Impl.extractPiecesNew (Impl.pyTagD info))
      = (match dictGet info K.pieces with
         | none => some []
         | some (.str s) => some s
         | some _ => none)) ∧
    (∀ (inner : Dict) (d : Bytes), Impl.rootGetMatchesNew (Impl.pyTagD inner) d
      = decide ((match dictGet inner RF.kPiecesRoot with
                 | some (.str r) => some r
                 | _ => none) = some d)) := by
  refine ⟨?_, ?_, ?_, ?_⟩
  · unfold Impl.pyLoads Impl.extractMetaPy Impl.normalise
    cases Impl.loads metafile with
    | none => rfl
    | some mf => simp only [Option.map_some, Impl.untag_pyTag]
  · intro H1 H B hs ds fs filemap dest
    unfold Impl.rebuildFromBytesPy Impl.rebuildFromBytes Impl.pyLoads Impl.extractMetaPy
      Impl.normalise
    cases Impl.loads metafile with
    | none => rfl
    | some mf => simp only [Option.map_some, Impl.untag_pyTag]
  · intro info
    unfold Impl.extractPiecesNew
    rw [Impl.pyDictGet_pyTagD, Impl.hashBytes_hashBytesPy]
    cases dictGet info K.pieces with
    | none => rfl
    | some v =>
      cases v with
      | str s => simp only [Option.map_some, Option.getD_some]; rw [Impl.pyTag, Impl.hashBytes_tagStr]
      | int i => rfl
      | list l => rfl
      | dict d => rfl
  · intro inner d
    unfold Impl.rootGetMatchesNew
    rw [Impl.pyDictGet_pyTagD]
    cases dictGet inner RF.kPiecesRoot with
    | none => simp
    | some v =>
      cases v with
      | str s =>
        simp only [Option.map_some, new_compare_is_bytes_equality, Option.some.injEq]
        by_cases e : s = d <;> simp [e]
      | int i => simp [Impl.pyTag, Impl.rootMatchesNew, Impl.hashBytesPy, Impl.bytesEqPy]
      | list l => simp [Impl.pyTag, Impl.rootMatchesNew, Impl.hashBytesPy, Impl.bytesEqPy]
      | dict d => simp [Impl.pyTag, Impl.rootMatchesNew, Impl.hashBytesPy, Impl.bytesEqPy]

/-- met by: a `meta version` 2 metafile of the single file `n` whose `pieces root` is the SHA-256
    witness (a `str` for Python): extraction from pyben's value records the witness as the root,
    and the repaired comparison with the computed root holds; the old one did not -/
example :
    let mf : BVal := .dict [(K.info, .dict [(K.fileTree, .dict [([110], .dict [([],
      .dict [(K.length, .int 11), (RF.kPiecesRoot, .str sha256Witness)])])]),
      (K.metaVersion, .int 2), (K.name, .str [110]), (K.pieceLength, .int 16384)])]
    ((Impl.pyLoads (Impl.encode mf)).map Impl.extractMetaPy).bind (fun r => r.toOption.map (·.files))
      = some [⟨[110], [110], 11, some sha256Witness, false⟩] ∧
    Impl.rootGetMatchesNew
      (Impl.pyTagD [(K.length, .int 11), (RF.kPiecesRoot, .str sha256Witness)]) sha256Witness = true ∧
    Impl.rootMatchesOld (Impl.pyTag (.str sha256Witness)) sha256Witness = false := by
  decide +kernel

end TorrentVerif.Props.C05

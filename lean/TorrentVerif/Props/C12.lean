import TorrentVerif.Proofs.PieceLength
/-
  C12 — only power-of-two piece lengths of at least 16 KiB are ever accepted or chosen.
  Property theorems only; helper lemmas live in `Proofs/PieceLength.lean`.
-/
namespace TorrentVerif.Props.C12
open TorrentVerif

/-- An integer piece length is accepted exactly when it is an exponent 14..25 or a power of
    two that is at least 2^14; every other integer (negative, zero, small, not a power of
    two, exponents 26 and above) is rejected with the piece-length error.  There is no bound on
    the size of the integer (Python ints and `Int` are unbounded; integers of more than 4300
    digits included). -/
theorem normalize_accepts_iff (n : Int) :
    ((∃ r, Impl.normalizeInt n = .ok r) ↔
      ((14 ≤ n ∧ n ≤ 25) ∨ (2 ^ 14 ≤ n ∧ ∃ k : Nat, n = 2 ^ k))) ∧
    (¬ ((14 ≤ n ∧ n ≤ 25) ∨ (2 ^ 14 ≤ n ∧ ∃ k : Nat, n = 2 ^ k)) →
      Impl.normalizeInt n = .error .pieceLength) := by
  have key : (2 ^ 14 ≤ n ∧ n.toNat &&& (n.toNat - 1) = 0) ↔ (2 ^ 14 ≤ n ∧ ∃ k : Nat, n = 2 ^ k) := by
    constructor
    · rintro ⟨h1, h2⟩
      refine ⟨h1, ?_⟩
      rcases (and_pred_eq_zero_iff n.toNat).mp h2 with h0 | ⟨k, hk⟩
      · omega
      · exact ⟨k, by rw [← Int.toNat_of_nonneg (a := n) (by omega), hk]; simp⟩
    · rintro ⟨h1, k, hk⟩
      refine ⟨h1, (and_pred_eq_zero_iff n.toNat).mpr (Or.inr ⟨k, ?_⟩)⟩
      rw [hk]; exact Int.toNat_pow_of_nonneg (by omega) k |>.trans (by simp)
  unfold Impl.normalizeInt
  by_cases h1 : 13 < n ∧ n < 26
  · rw [if_pos h1]
    refine ⟨⟨fun _ => Or.inl (by omega), fun _ => ⟨_, rfl⟩⟩, fun hn => absurd (Or.inl (by omega)) hn⟩
  · rw [if_neg h1]
    by_cases h2 : n ≥ 2 ^ 14 ∧ n.toNat &&& (n.toNat - 1) = 0
    · rw [if_pos h2]
      exact ⟨⟨fun _ => Or.inr (key.mp h2), fun _ => ⟨_, rfl⟩⟩, fun hn => absurd (Or.inr (key.mp h2)) hn⟩
    · rw [if_neg h2]
      refine ⟨⟨fun ⟨r, hr⟩ => (by cases hr), ?_⟩, fun _ => rfl⟩
      rintro (h | h)
      · exact absurd (by omega) h1
      · exact absurd (key.mpr h) h2

example : Impl.normalizeInt 20 = .ok 1048576 ∧ Impl.normalizeInt 65536 = .ok 65536 ∧
    Impl.normalizeInt 16385 = .error .pieceLength ∧ Impl.normalizeInt 8192 = .error .pieceLength ∧
    Impl.normalizeInt 26 = .error .pieceLength ∧ Impl.normalizeInt (-16384) = .error .pieceLength := by
  decide

/-- The value returned for an accepted integer: 2^n when n is an exponent 14..25, n itself
    otherwise; and in every accepted case the result is a power of two of at least 2^14 (16 KiB). -/
theorem normalize_value (n : Int) (r : Nat) (h : Impl.normalizeInt n = .ok r) :
    ((14 ≤ n ∧ n ≤ 25) → r = 2 ^ n.toNat) ∧
    (¬ (14 ≤ n ∧ n ≤ 25) → (r : Int) = n) ∧
    Spec.validPieceLength r := by
  unfold Impl.normalizeInt at h
  by_cases h1 : 13 < n ∧ n < 26
  · simp only [h1, and_self, ↓reduceIte, Except.ok.injEq] at h
    subst h
    exact ⟨fun _ => rfl, fun hn => absurd (by omega) hn, n.toNat, by omega, rfl⟩
  · simp only [h1, ↓reduceIte] at h
    by_cases h2 : n ≥ 2 ^ 14 ∧ n.toNat &&& (n.toNat - 1) = 0
    · simp only [h2, and_self, ↓reduceIte, Except.ok.injEq] at h
      subst h
      refine ⟨fun hh => absurd (by omega) h1, fun _ => Int.toNat_of_nonneg (by omega), ?_⟩
      rcases (and_pred_eq_zero_iff n.toNat).mp h2.2 with h0 | ⟨k, hk⟩
      · omega
      · refine ⟨k, ?_, hk⟩
        have hge : 2 ^ 14 ≤ n.toNat := by omega
        rw [hk] at hge
        exact (Nat.pow_le_pow_iff_right (by decide)).mp hge
    · simp only [h2, ↓reduceIte] at h; cases h

example : Impl.normalizeInt 25 = .ok (2 ^ 25) ∧ Impl.normalizeInt (2 ^ 40) = .ok (2 ^ 40) := by decide

/-- Strings.  A non-empty string of ASCII decimal digits (of at most 4300 characters, the
    interpreter's conversion limit) is treated exactly as the integer it denotes in positional
    notation (leading zeros allowed).  Every other string — empty, signed, padded with blanks,
    non-ASCII digits, anything non-numeric, or a digit string longer than the limit — is
    rejected with the piece-length error. -/
theorem normalize_string (s : List Char) :
    (Spec.isDecimalString s = true ∧ s.length ≤ Impl.intMaxStrDigits →
      Impl.normalizeStr s = Impl.normalizeInt (Spec.decimalValue s)) ∧
    (¬ (Spec.isDecimalString s = true ∧ s.length ≤ Impl.intMaxStrDigits) →
      Impl.normalizeStr s = .error .pieceLength) := by
  have hdec : Spec.isDecimalString s = true ↔
      (s ≠ [] ∧ s.all (fun c => decide (48 ≤ c.toNat) && decide (c.toNat ≤ 57)) = true) := by
    unfold Spec.isDecimalString
    have : Spec.isAsciiDigit = (fun c => decide (48 ≤ c.toNat) && decide (c.toNat ≤ 57)) := by
      funext c; rfl
    rw [this]
    cases s <;> simp
  have hlim : Impl.intMaxStrDigits = 4300 := rfl
  unfold Impl.normalizeStr
  constructor
  · rintro ⟨hd, hl⟩
    rw [if_pos (hdec.mp hd), if_neg (Nat.not_lt.mpr hl), Impl.parseDigits_eq]
  · intro hn
    by_cases hd : Spec.isDecimalString s = true
    · rw [if_pos (hdec.mp hd), if_pos (Nat.lt_of_not_le (fun h => hn ⟨hd, h⟩))]
    · rw [if_neg (fun h => hd (hdec.mpr h))]

example : Spec.isDecimalString "0016".toList = true ∧ Spec.decimalValue "0016".toList = 16 ∧
    Impl.normalizeStr "0016".toList = .ok 65536 ∧
    Impl.normalizeStr "+16".toList = .error .pieceLength ∧
    Impl.normalizeStr " 16".toList = .error .pieceLength ∧
    Impl.normalizeStr "１６".toList = .error .pieceLength ∧
    Impl.normalizeStr "".toList = .error .pieceLength := by decide

/-- The automatically chosen piece length is 2^k for some k between 14 and 24
    (16 KiB … 16 MiB), whatever the payload size. -/
theorem auto_pow2_bounds (size : Nat) :
    ∃ k, 14 ≤ k ∧ k ≤ 24 ∧ Impl.getPieceLength size = 2 ^ k :=
  ⟨Impl.gplLoop size 14, Impl.gplLoop_ge size 14, Impl.gplLoop_le size 14 (by decide), rfl⟩

/-- The automatic piece length never decreases as the payload grows. -/
theorem auto_monotone (size size' : Nat) (h : size ≤ size') :
    Impl.getPieceLength size ≤ Impl.getPieceLength size' :=
  Nat.pow_le_pow_right (by decide) (Impl.gplLoop_mono size size' h 14)

/-- Which power is chosen: the smallest 2^k (14 ≤ k ≤ 24) that keeps the payload within 1000
    pieces, or 16 MiB when none does.  (Not demanded by the property; it pins the function down
    and is what the driver's `gplspec` oracle computes.) -/
theorem auto_least (size : Nat) :
    ∃ k, Impl.getPieceLength size = 2 ^ k ∧ (size ≤ 1000 * 2 ^ k ∨ k = 24) ∧
      ∀ j, 14 ≤ j → j < k → 1000 * 2 ^ j < size :=
  ⟨Impl.gplLoop size 14, rfl, (Impl.gplLoop_spec size 14 (by decide)).1,
    (Impl.gplLoop_spec size 14 (by decide)).2⟩

example : Impl.getPieceLength 0 = 2 ^ 14 ∧ Impl.getPieceLength 16384001 = 2 ^ 15 ∧
    Impl.getPieceLength (2 ^ 50) = 2 ^ 24 := by
  simp [Impl.getPieceLength, Impl.gplLoop]

/-- What `MetaFile` records in `info["piece length"]`: if the caller supplied a truthy value
    (anything but `None`, `0`, `False`, `""`, or another falsy object) it is the normalised
    value or the piece-length error — never a metafile with another value; if not, it is
    the automatic choice for the payload size.  In both cases a recorded value is a power of
    two of at least 16 KiB. -/
theorem recorded_is_normalized (arg : PLArg) (size : Nat) :
    (Impl.truthy arg = true → Impl.recordedPieceLength arg size = Impl.normalize arg) ∧
    (Impl.truthy arg = false → Impl.recordedPieceLength arg size = .ok (Impl.getPieceLength size)) ∧
    (∀ r, Impl.recordedPieceLength arg size = .ok r → Spec.validPieceLength r) := by
  refine ⟨fun h => by simp [Impl.recordedPieceLength, h],
          fun h => by simp [Impl.recordedPieceLength, h], fun r hr => ?_⟩
  unfold Impl.recordedPieceLength at hr
  by_cases ht : Impl.truthy arg = true
  · rw [if_pos ht] at hr
    cases arg with
    | none => cases hr
    | other t => cases hr
    | int i => exact (normalize_value i r hr).2.2
    | str s =>
      by_cases hd : Spec.isDecimalString s = true ∧ s.length ≤ Impl.intMaxStrDigits
      · have := (normalize_string s).1 hd
        simp only [Impl.normalize] at hr
        rw [this] at hr
        exact (normalize_value _ r hr).2.2
      · have := (normalize_string s).2 hd
        simp only [Impl.normalize] at hr
        rw [this] at hr; cases hr
  · rw [if_neg ht] at hr
    simp only [Except.ok.injEq] at hr
    obtain ⟨k, h1, _, h3⟩ := auto_pow2_bounds size
    exact ⟨k, h1, by rw [← hr, h3]⟩

example : Impl.recordedPieceLength (.str "18".toList) 5 = .ok 262144 ∧
    Impl.recordedPieceLength (.int 16385) 5 = .error .pieceLength ∧
    Impl.recordedPieceLength (.other true) 5 = .error .pieceLength := by decide

example : Impl.recordedPieceLength .none 40000000 = .ok (2 ^ 16) ∧
    Impl.recordedPieceLength (.int 0) 40000000 = .ok (2 ^ 16) := by
  simp [Impl.recordedPieceLength, Impl.truthy, Impl.getPieceLength, Impl.gplLoop]

end TorrentVerif.Props.C12

import TorrentVerif.Proofs.Magnet
/-
  C11 — magnet URI carries the true info-hash(es), name, trackers and web seeds.
  Property theorems only; helper lemmas live in `Proofs/`.

  `Impl.magnet H1 H2 mf ver` is `commands.magnet` on the decoded metafile `mf` (`H1`, `H2`
  stand for SHA-1, SHA-256 and are arbitrary). `Spec.valueSpan K.info b` locates the raw bytes
  of the `info` value in the file `b`; `Spec.queryParams` reads a `magnet:?` URI back the way a
  URL parser does (split at `&`, cut at the first `=`, URL-decode the value).
-/
/-! example inputs used by the `example`s below -/
namespace TorrentVerif.Ex.C11
open TorrentVerif Impl Spec

/-- a hybrid file: "d4:infod12:meta versioni2e4:name1:n6:pieces0:ee" -/
def exFile : Bytes := [100, 52, 58, 105, 110, 102, 111, 100, 49, 50, 58, 109, 101, 116, 97, 32, 118,
  101, 114, 115, 105, 111, 110, 105, 50, 101, 52, 58, 110, 97, 109, 101, 49, 58, 110, 54, 58, 112,
  105, 101, 99, 101, 115, 48, 58, 101, 101]
def exMf : BVal := .dict [(K.info, .dict [(K.metaVersion, .int 2), (K.name, .str [110]),
  (K.pieces, .str [])])]

/-- name "a b&", two tiers, url-list as a single string -/
def exMf2 : BVal := .dict [(K.announce, .str [120]),
  (K.announceList, .list [strs [[120], [121, 32]], strs [[122]]]),
  (K.info, .dict [(K.name, .str [97, 32, 98, 38]), (K.pieces, .str [])]),
  (K.urlList, .str [119, 61])]

end TorrentVerif.Ex.C11

namespace TorrentVerif.Props.C11
open TorrentVerif Impl Spec TorrentVerif.Ex.C11

/-- For every well-formed encoded file — minimal numerals, unique keys at every level, keys in
    ANY order — pyben's lenient decoder returns the value the file denotes, and re-encoding its
    `info` value gives back exactly the raw `info` bytes of the file. -/
theorem reencode_is_span (b : Bytes) (mf info : BVal) (hwf : wfDecode b = some mf)
    (hi : mf.get? K.info = some info) :
    loads b = some mf ∧ valueSpan K.info b = some (encode info) := by
  unfold wfDecode at hwf
  cases hp : parse b.length b with
  | none => simp [hp] at hwf
  | some vr =>
    obtain ⟨v, r⟩ := vr
    cases r with
    | cons c t => simp [hp] at hwf
    | nil =>
      simp only [hp] at hwf
      by_cases hu : UniqueKeys v = true
      · simp only [hu, if_true, Option.some.injEq] at hwf
        subst hwf
        have hb := parse_sound b.length b v [] hp
        rw [List.append_nil] at hb
        constructor
        · have := decode_encode v [] hu
          rw [List.append_nil, ← hb] at this
          simp [loads, this]
        · cases v with
          | dict d =>
            simp only [BVal.get?] at hi
            rw [hb, valueSpan_encode, hi]; rfl
          | int _ => simp [BVal.get?] at hi
          | str _ => simp [BVal.get?] at hi
          | list _ => simp [BVal.get?] at hi
      · simp [hu] at hwf

-- "d1:zi1e4:infod1:bi2e1:ai3eee": keys out of order at both levels
example : loads [100, 49, 58, 122, 105, 49, 101, 52, 58, 105, 110, 102, 111, 100, 49, 58, 98, 105, 50,
      101, 49, 58, 97, 105, 51, 101, 101, 101]
      = some (.dict [([122], .int 1), (K.info, .dict [([98], .int 2), ([97], .int 3)])]) ∧
    valueSpan K.info [100, 49, 58, 122, 105, 49, 101, 52, 58, 105, 110, 102, 111, 100, 49, 58, 98, 105,
      50, 101, 49, 58, 97, 105, 51, 101, 101, 101]
      = some (encode (.dict [([98], .int 2), ([97], .int 3)])) :=
  reencode_is_span _ _ _ (by decide) (by decide)

/-- URL-decoding undoes `quote_plus` for every byte string (spaces, `&`, `=`, `%`, `+`, `#`,
    non-ASCII, invalid UTF-8 alike). -/
theorem unquote_quote (b : Bytes) : unquotePlus (quotePlus b) = b := unquotePlus_quotePlus b

-- "a b&=%+#é" → "a+b%26%3D%25%2B%23%C3%A9"
example : quotePlus [97, 32, 98, 38, 61, 37, 43, 35, 195, 169] =
    [97, 43, 98, 37, 50, 54, 37, 51, 68, 37, 50, 53, 37, 50, 66, 37, 50, 51, 37, 67, 51, 37, 65, 57] ∧
    unquotePlus (quotePlus [97, 32, 98, 38, 61, 37, 43, 35, 195, 169])
      = [97, 32, 98, 38, 61, 37, 43, 35, 195, 169] := ⟨by decide, unquote_quote _⟩

/-! ### which hashes -/

/-- The `xt` parameters of the magnet, given the file `b` it was made from: `urn:btih:` + hex
    of `H1` of the raw info bytes of the file iff the v1 side is wanted, then `urn:btmh:1220` +
    hex of `H2` of the same bytes iff the v2 side is wanted (`carriesBtih/Btmh`, characterised
    in `magnet_versions`). -/
theorem magnet_xt (H1 H2 : Bytes → Bytes) (b span : Bytes) (mf : BVal) (ver : Nat) (uri : Bytes)
    (hwf : wfDecode b = some mf) (hs : valueSpan K.info b = some span)
    (h : magnet H1 H2 mf ver = .ok uri) :
    ∃ ps, queryParams uri = some ps ∧
      paramsOf pXt ps =
        (if carriesBtih mf ver then [urnBtih ++ hexLower (H1 span)] else []) ++
        (if carriesBtmh mf ver then [urnBtmh ++ hexLower (H2 span)] else []) := by
  obtain ⟨top, info, name, tr, ws, hm, hi, hn, _, _, hq⟩ := magnet_query H1 H2 mf ver uri h
  subst hm
  have hsp := (reencode_is_span b (.dict top) (.dict info) hwf (by simpa [BVal.get?] using hi)).2
  rw [hs] at hsp
  have hspan : span = encode (.dict info) := Option.some.inj hsp
  refine ⟨_, hq, ?_⟩
  have c1 : carriesBtih (.dict top) ver = wantV1 info ver := by
    simp [carriesBtih, wantV1, BVal.infoGet?, BVal.get?, hi, dictHas]
  have c2 : carriesBtmh (.dict top) ver = wantV2 info ver := by
    simp [carriesBtmh, wantV2, BVal.infoGet?, BVal.get?, hi, dictHas]
  rw [c1, c2, hspan]
  unfold decodedParams
  simp only [paramsOf_append, paramsOf_other pXt pTr _ (by decide),
    paramsOf_other pXt pWs _ (by decide), List.append_nil,
    paramsOf_one_other pXt pDn _ (by decide)]
  cases wantV1 info ver <;> cases wantV2 info ver <;> simp [paramsOf_one_same, paramsOf_nil]

/-- The magnet carries `urn:btih:<hex H1(raw info bytes)>` exactly when the v1 side is wanted. -/
theorem magnet_btih (H1 H2 : Bytes → Bytes) (b span : Bytes) (mf : BVal) (ver : Nat) (uri : Bytes)
    (hwf : wfDecode b = some mf) (hs : valueSpan K.info b = some span)
    (h : magnet H1 H2 mf ver = .ok uri) :
    ∃ ps, queryParams uri = some ps ∧
      (urnBtih ++ hexLower (H1 span) ∈ paramsOf pXt ps ↔ carriesBtih mf ver = true) := by
  obtain ⟨ps, hq, hx⟩ := magnet_xt H1 H2 b span mf ver uri hwf hs h
  refine ⟨ps, hq, ?_⟩
  rw [hx]
  have hne : urnBtih ++ hexLower (H1 span) ≠ urnBtmh ++ hexLower (H2 span) := by
    simp [urnBtih, urnBtmh]
  cases carriesBtih mf ver <;> cases carriesBtmh mf ver <;> simp [hne]

/-- The magnet carries `urn:btmh:1220<hex H2(raw info bytes)>` exactly when the v2 side is
    wanted. -/
theorem magnet_btmh (H1 H2 : Bytes → Bytes) (b span : Bytes) (mf : BVal) (ver : Nat) (uri : Bytes)
    (hwf : wfDecode b = some mf) (hs : valueSpan K.info b = some span)
    (h : magnet H1 H2 mf ver = .ok uri) :
    ∃ ps, queryParams uri = some ps ∧
      (urnBtmh ++ hexLower (H2 span) ∈ paramsOf pXt ps ↔ carriesBtmh mf ver = true) := by
  obtain ⟨ps, hq, hx⟩ := magnet_xt H1 H2 b span mf ver uri hwf hs h
  refine ⟨ps, hq, ?_⟩
  rw [hx]
  have hne : urnBtmh ++ hexLower (H2 span) ≠ urnBtih ++ hexLower (H1 span) := by
    simp [urnBtih, urnBtmh]
  cases carriesBtih mf ver <;> cases carriesBtmh mf ver <;> simp [hne]

/-- Which sides are wanted, in the words of the property: a plain v1 metafile (no
    `meta version`) gets btih only, whatever is requested; a v2-only metafile (no `pieces`)
    gets btmh (unless v1 is requested, which it cannot satisfy); a hybrid gets both for the
    automatic (0) and hybrid (3) requests, btih only for 1, btmh only for 2. -/
theorem magnet_versions (mf : BVal) (ver : Nat) :
    ((mf.infoGet? K.metaVersion).isNone →
        carriesBtih mf ver = true ∧ carriesBtmh mf ver = false) ∧
    ((mf.infoGet? K.metaVersion).isSome → (mf.infoGet? K.pieces).isNone →
        carriesBtih mf ver = false ∧ (carriesBtmh mf ver = true ↔ ver ≠ 1)) ∧
    ((mf.infoGet? K.metaVersion).isSome → (mf.infoGet? K.pieces).isSome →
        (ver = 0 ∨ ver = 3 → carriesBtih mf ver = true ∧ carriesBtmh mf ver = true) ∧
        (ver = 1 → carriesBtih mf ver = true ∧ carriesBtmh mf ver = false) ∧
        (ver = 2 → carriesBtih mf ver = false ∧ carriesBtmh mf ver = true)) := by
  unfold carriesBtih carriesBtmh
  cases (mf.infoGet? K.metaVersion) <;> cases (mf.infoGet? K.pieces) <;> simp <;> omega


example : wfDecode exFile = some exMf := by decide
example : carriesBtih exMf 0 = true ∧ carriesBtmh exMf 0 = true ∧ carriesBtih exMf 2 = false ∧
    carriesBtmh exMf 1 = false := by decide
example (H1 H2 : Bytes → Bytes) : ∃ uri ps span, magnet H1 H2 exMf 2 = .ok uri ∧
    valueSpan K.info exFile = some span ∧ queryParams uri = some ps ∧
    paramsOf pXt ps = [urnBtmh ++ hexLower (H2 span)] := by
  obtain ⟨uri, h⟩ : ∃ uri, magnet H1 H2 exMf 2 = .ok uri := ⟨_, rfl⟩
  obtain ⟨span, hs⟩ : ∃ span, valueSpan K.info exFile = some span := ⟨_, rfl⟩
  obtain ⟨ps, hq, hx⟩ := magnet_xt H1 H2 exFile span exMf 2 uri (by decide) hs h
  exact ⟨uri, ps, span, h, hs, hq, by rw [hx]; rfl⟩

/-! ### name, trackers, web seeds -/

/-- The `dn`, `tr`, `ws` parameters URL-decode to exactly: the name; every tracker URL of every
    tier in order when `announce-list` exists, else the primary tracker; every web seed in
    order (`url-list` as a list, or as a single string). `shownUrls`: a URL list that consists
    of exactly one empty string yields no parameter (torrentfile's "no tracker" placeholder). -/
theorem magnet_params (H1 H2 : Bytes → Bytes) (mf : BVal) (ver : Nat) (uri : Bytes)
    (h : magnet H1 H2 mf ver = .ok uri) :
    ∃ ps name, queryParams uri = some ps ∧
      mf.infoGet? K.name = some (.str name) ∧ paramsOf pDn ps = [name] ∧
      (∀ tiers : List (List Bytes), mf.get? K.announceList = some (.list (tiers.map strs)) →
        paramsOf pTr ps = shownUrls (some tiers.flatten)) ∧
      (mf.get? K.announceList = none → ∀ a, mf.get? K.announce = some (.str a) →
        paramsOf pTr ps = shownUrls (some [a])) ∧
      (mf.get? K.announceList = none → mf.get? K.announce = none → paramsOf pTr ps = []) ∧
      (∀ l : List Bytes, mf.get? K.urlList = some (strs l) → paramsOf pWs ps = shownUrls (some l)) ∧
      (∀ s, mf.get? K.urlList = some (.str s) → paramsOf pWs ps = shownUrls (some [s])) ∧
      (mf.get? K.urlList = none → paramsOf pWs ps = []) := by
  obtain ⟨top, info, name, tr, ws, hm, hi, hn, ht, hw, hq⟩ := magnet_query H1 H2 mf ver uri h
  subst hm
  have hdn : paramsOf pDn (decodedParams H1 H2 info ver name tr ws) = [name] := by
    unfold decodedParams
    simp only [paramsOf_append, paramsOf_other pDn pTr _ (by decide),
      paramsOf_other pDn pWs _ (by decide), List.append_nil, paramsOf_one_same]
    cases wantV1 info ver <;> cases wantV2 info ver <;>
      simp [paramsOf_one_other pDn pXt _ (by decide), paramsOf_nil]
  have htr : paramsOf pTr (decodedParams H1 H2 info ver name tr ws) = shownUrls tr := by
    unfold decodedParams
    simp only [paramsOf_append, paramsOf_same, paramsOf_other pTr pWs _ (by decide), List.append_nil,
      paramsOf_one_other pTr pDn _ (by decide)]
    cases wantV1 info ver <;> cases wantV2 info ver <;>
      simp [paramsOf_one_other pTr pXt _ (by decide), paramsOf_nil]
  have hws : paramsOf pWs (decodedParams H1 H2 info ver name tr ws) = shownUrls ws := by
    unfold decodedParams
    simp only [paramsOf_append, paramsOf_same, paramsOf_other pWs pTr _ (by decide), List.append_nil,
      paramsOf_one_other pWs pDn _ (by decide)]
    cases wantV1 info ver <;> cases wantV2 info ver <;>
      simp [paramsOf_one_other pWs pXt _ (by decide), paramsOf_nil]
  refine ⟨_, name, hq, by simp [BVal.infoGet?, BVal.get?, hi, hn], hdn, ?_, ?_, ?_, ?_, ?_, ?_⟩
  · intro tiers hal
    simp only [BVal.get?] at hal
    rw [htr]
    simp only [trackerUrls, hal, flattenTiers_map] at ht
    cases ht; rfl
  · intro hal a ha
    simp only [BVal.get?] at hal ha
    rw [htr]
    simp only [trackerUrls, hal, ha] at ht
    cases ht; rfl
  · intro hal ha
    simp only [BVal.get?] at hal ha
    rw [htr]
    simp only [trackerUrls, hal, ha] at ht
    cases ht; rfl
  · intro l hl
    simp only [BVal.get?, strs] at hl
    rw [hws]
    simp only [seedUrls, hl, asStrs_map] at hw
    cases hw; rfl
  · intro s hl
    simp only [BVal.get?] at hl
    rw [hws]
    simp only [seedUrls, hl] at hw
    cases hw; rfl
  · intro hl
    simp only [BVal.get?] at hl
    rw [hws]
    simp only [seedUrls, hl] at hw
    cases hw; rfl


example (H1 H2 : Bytes → Bytes) : ∃ uri ps, magnet H1 H2 exMf2 0 = .ok uri ∧
    queryParams uri = some ps ∧ paramsOf pDn ps = [[97, 32, 98, 38]] ∧
    paramsOf pTr ps = [[120], [121, 32], [122]] ∧ paramsOf pWs ps = [[119, 61]] := by
  obtain ⟨uri, h⟩ : ∃ uri, magnet H1 H2 exMf2 0 = .ok uri := ⟨_, rfl⟩
  obtain ⟨ps, name, hq, hn, hdn, htr, _, _, _, hws, _⟩ := magnet_params H1 H2 exMf2 0 uri h
  have e : name = [97, 32, 98, 38] := by
    have : exMf2.infoGet? K.name = some (.str [97, 32, 98, 38]) := by decide
    rw [this] at hn; cases hn; rfl
  refine ⟨uri, ps, h, hq, by rw [hdn, e], ?_, ?_⟩
  · exact htr [[[120], [121, 32]], [[122]]] (by decide)
  · exact hws [119, 61] (by decide)

end TorrentVerif.Props.C11

import TorrentVerif.Proofs.HasherV1
import TorrentVerif.Proofs.Listing
import TorrentVerif.Proofs.CreatorsV1
/-
  C01 — v1 piece string is the BEP 3 hashing of exactly the files on disk.
  Property theorems only; helper lemmas live in `Proofs/`.
-/
namespace TorrentVerif.Props.C01
open TorrentVerif

/-- The pieces produced by the v1 hasher for any non-empty list of files of any sizes
    (including empty files) are the SHA-1 of the successive piece-length slices of the
    concatenation of the files in listed order. `H1` is arbitrary. -/
theorem v1_pieces (H1 : Bytes → Bytes) (pl : Nat) (hpl : 0 < pl) (files : List Bytes)
    (hne : files ≠ []) :
    (Impl.hasherV1 false pl files).map H1 = Spec.v1Pieces H1 pl files := by
  rw [Impl.hasherV1_eq_chunks pl hpl files hne]; rfl

/-- Only the final piece may be short: every piece but the last is exactly `pl` bytes. -/
theorem v1_last_short_only (pl : Nat) (hpl : 0 < pl) (files : List Bytes) (hne : files ≠ []) :
    ∀ p ∈ (Impl.hasherV1 false pl files).dropLast, p.length = pl := by
  rw [Impl.hasherV1_eq_chunks pl hpl files hne]
  exact chunks_dropLast_length pl hpl _

/-- The pieces cover exactly the payload: concatenated they are the concatenated files
    (no byte lost, duplicated or invented), so the number of pieces is ⌈total/pl⌉. -/
theorem v1_pieces_cover (pl : Nat) (hpl : 0 < pl) (files : List Bytes) (hne : files ≠ []) :
    (Impl.hasherV1 false pl files).flatten = files.flatten ∧
    (Impl.hasherV1 false pl files).length = cdiv files.flatten.length pl := by
  rw [Impl.hasherV1_eq_chunks pl hpl files hne]
  exact ⟨chunks_flatten pl hpl _, chunks_length pl hpl _⟩

/-- Single file: the payload is that file alone. -/
theorem v1_single (H1 : Bytes → Bytes) (pl : Nat) (hpl : 0 < pl) (f : Bytes) :
    (Impl.hasherV1 false pl [f]).map H1 = (chunks pl f).map H1 := by
  rw [v1_pieces H1 pl hpl [f] (by simp)]
  simp [Spec.v1Pieces]

/-- hypotheses are satisfiable by a non-trivial input: three files, one empty, pieces straddle -/
example : Impl.hasherV1 false 4 [[1,2,3],[],[4,5,6,7,8,9]] = [[1,2,3,4],[5,6,7,8],[9]] := by
  decide

/-- Every regular file under the content root is listed exactly once, with its exact contents
    (hence its exact length): for a real directory tree (entry names non-empty, without `/`,
    distinct among siblings) and whatever order the OS enumerates directories in, the v1
    listing is a rearrangement of the list of all files of the tree, and no path occurs in it
    twice. -/
theorem listing_each_file_once
    (enum : List (List (Bytes × Bytes)) → List (List (Bytes × Bytes)))
    (henum : ∀ l, (enum l).Perm l) (pre : Bytes) (t : Node) (h : Spec.WellNamed t) :
    (Impl.listV1 enum pre t).Perm (Spec.allFiles pre t) ∧
    ((Impl.listV1 enum pre t).map (·.1)).Nodup :=
  ⟨Impl.listV1_perm enum henum pre t,
   ((Impl.listV1_perm enum henum pre t).map _).nodup_iff.mpr (Spec.allFiles_paths_nodup pre t h)⟩

/-- met by: the example tree (unsorted, nested, an empty file, an empty directory) enumerated
    backwards, rooted at `r` -/
example : (Impl.listV1 List.reverse [114] Listing.exTree).Perm
      (Spec.allFiles [114] Listing.exTree) ∧
    ((Impl.listV1 List.reverse [114] Listing.exTree).map (·.1)).Nodup :=
  listing_each_file_once List.reverse List.reverse_perm [114] Listing.exTree
    Listing.exTree_wellNamed

end TorrentVerif.Props.C01

/-! ### the whole v1 metafile (`Impl.createV1` of `Model/Creators.lean`) -/
namespace TorrentVerif.Props.C01
open TorrentVerif TorrentVerif.Toy TorrentVerif.Ex.G7

/-- The v1 metafile `TorrentFile` writes for a directory (names non-empty, `/`-free, distinct
    among siblings; rooted at any path `pre`; any enumeration order; no `align`): the creator
    succeeds only if the directory holds a regular file, and then
    * `info.files` is the list of all regular files sorted by full path string
      (`Spec.sortedFiles`: every file exactly once), each as `{"length": exact length,
      "path": path relative to the root, split at '/'}`, with no other entries;
    * `info.pieces` is the BEP 3 piece string (`Spec.v1Pieces`) of the files' bytes
      concatenated in that listed order;
    * `info["piece length"]` is the piece length the slices were cut with; there is no
      `info.length`.  `H1` is arbitrary. -/
theorem create_v1_metafile (o : CreateOpts) (H1 : Bytes → Bytes)
    (enum : List (List (Bytes × Bytes)) → List (List (Bytes × Bytes)))
    (henum : ∀ l, (enum l).Perm l) (pre : Bytes) (es : List (Bytes × Node))
    (hwn : Spec.WellNamed (.dir es)) (hpl : 0 < o.pieceLength) (r : BVal) (b : Bytes)
    (h : Impl.createV1 o false H1 enum pre (.dir es) = some (r, b)) :
    Spec.sortedFiles pre (.dir es) ≠ [] ∧
    r.infoGet? K.files = some (.list ((Spec.sortedFiles pre (.dir es)).map fun x =>
      .dict [(K.length, .int x.2.length),
             (K.path, strs (Spec.splitOn Listing.sep (x.1.drop (pre.length + 1))))])) ∧
    r.infoGet? K.pieces = some (.str
      (Spec.v1Pieces H1 o.pieceLength ((Spec.sortedFiles pre (.dir es)).map (·.2))).flatten) ∧
    r.infoGet? K.pieceLength = some (.int o.pieceLength) ∧
    r.infoGet? K.length = none := by
  obtain ⟨hne, _, hk⟩ := createV1_dir o false H1 enum henum pre es hwn hpl r b h
  refine ⟨hne, ?_, ?_, hk.pieceLength, hk.length⟩
  · have hf : r.infoGet? K.files = some (.list (Impl.v1Entries false o.pieceLength
        (v1Listed pre (Spec.sortedFiles pre (.dir es))))) := hk.files
    rw [hf, v1Entries_false, v1Listed_entries]
  · rw [hk.pieces]; rfl

/-- met by: the example tree rooted at `r`, enumerated backwards, piece length 4 (pieces
    straddle file boundaries; one file is empty); the creator succeeds -/
example : ∃ r b, Impl.createV1 exOpts false toyH1 List.reverse [114] exTree = some (r, b) ∧
    r.infoGet? K.pieces = some (.str
      (Spec.v1Pieces toyH1 4 ((Spec.sortedFiles [114] exTree).map (·.2))).flatten) := by
  have hne := exTree_sorted_ne [114]
  obtain ⟨r, b, h⟩ := createV1_dir_some exOpts false toyH1 List.reverse List.reverse_perm [114] _
    exTree_wellNamed hne
  exact ⟨r, b, h, (create_v1_metafile exOpts toyH1 List.reverse List.reverse_perm [114] _
    exTree_wellNamed (by decide) r b h).2.2.1⟩

/-- Single file (with or without the `align` option): `info.length` is the file's length,
    there is no `files` list, and `info.pieces` is the BEP 3 piece string of that file alone
    (only the last piece may be short); the recorded piece length is the one used. -/
theorem create_v1_single (o : CreateOpts) (align : Bool) (H1 : Bytes → Bytes)
    (enum : List (List (Bytes × Bytes)) → List (List (Bytes × Bytes))) (pre : Bytes) (d : Bytes)
    (hpl : 0 < o.pieceLength) :
    ∃ r b, Impl.createV1 o align H1 enum pre (.file d) = some (r, b) ∧
      r.infoGet? K.length = some (.int d.length) ∧ r.infoGet? K.files = none ∧
      r.infoGet? K.pieces = some (.str ((chunks o.pieceLength d).map H1).flatten) ∧
      r.infoGet? K.pieceLength = some (.int o.pieceLength) := by
  rw [createV1_file o align H1 enum pre d hpl]
  obtain ⟨r, b, h⟩ := written_v1_some o (.single d.length) ((chunks o.pieceLength d).map H1).flatten
  obtain ⟨hs', _⟩ := written_some _ r b h
  have hk := v1_keys _ _ _ r hs'
  exact ⟨r, b, h, hk.length, hk.files, hk.pieces, hk.pieceLength⟩

/-- met by: a 9-byte file, piece length 4, `align` requested: last piece is the bare byte 9 -/
example : ∃ r b, Impl.createV1 exOpts true toyH1 id [114] exFile = some (r, b) ∧
    r.infoGet? K.pieces = some (.str (toyH1 [1,2,3,4] ++ toyH1 [5,6,7,8] ++ toyH1 [9])) := by
  obtain ⟨r, b, h, _, _, hp, _⟩ := create_v1_single exOpts true toyH1 id [114] [1,2,3,4,5,6,7,8,9]
    (by decide)
  refine ⟨r, b, h, ?_⟩
  rw [hp]; simp [exOpts, chunks]

end TorrentVerif.Props.C01

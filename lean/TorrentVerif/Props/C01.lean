import TorrentVerif.Proofs.HasherV1
import TorrentVerif.Proofs.Listing
/-
  C01 — v1 piece string is the BEP 3 hashing of exactly the files on disk.
  Property theorems only; helper lemmas live in `Proofs/`.
-/
namespace TorrentVerif.Props.C01
open TorrentVerif

/-- The pieces produced by the v1 hasher for any non-empty list of files of any sizes
    (including empty files) are the SHA-1 of the successive piece-length slices of the
    concatenation of the files in listed order. `H1` is arbitrary. -/
theorem v1_pieces (H1 : Bytes → Bytes) (pl : Nat) (hpl : 0 < pl) (files : List Bytes)
    (hne : files ≠ []) :
    (Impl.hasherV1 false pl files).map H1 = Spec.v1Pieces H1 pl files := by
  rw [Impl.hasherV1_eq_chunks pl hpl files hne]; rfl

/-- Only the final piece may be short: every piece but the last is exactly `pl` bytes. -/
theorem v1_last_short_only (pl : Nat) (hpl : 0 < pl) (files : List Bytes) (hne : files ≠ []) :
    ∀ p ∈ (Impl.hasherV1 false pl files).dropLast, p.length = pl := by
  rw [Impl.hasherV1_eq_chunks pl hpl files hne]
  exact chunks_dropLast_length pl hpl _

/-- The pieces cover exactly the payload: concatenated they are the concatenated files
    (no byte lost, duplicated or invented), so the number of pieces is ⌈total/pl⌉. -/
theorem v1_pieces_cover (pl : Nat) (hpl : 0 < pl) (files : List Bytes) (hne : files ≠ []) :
    (Impl.hasherV1 false pl files).flatten = files.flatten ∧
    (Impl.hasherV1 false pl files).length = cdiv files.flatten.length pl := by
  rw [Impl.hasherV1_eq_chunks pl hpl files hne]
  exact ⟨chunks_flatten pl hpl _, chunks_length pl hpl _⟩

/-- Single file: the payload is that file alone. -/
theorem v1_single (H1 : Bytes → Bytes) (pl : Nat) (hpl : 0 < pl) (f : Bytes) :
    (Impl.hasherV1 false pl [f]).map H1 = (chunks pl f).map H1 := by
  rw [v1_pieces H1 pl hpl [f] (by simp)]
  simp [Spec.v1Pieces]

/-- hypotheses are satisfiable by a non-trivial input: three files, one empty, pieces straddle -/
example : Impl.hasherV1 false 4 [[1,2,3],[],[4,5,6,7,8,9]] = [[1,2,3,4],[5,6,7,8],[9]] := by
  decide

/-- Every regular file under the content root is listed exactly once, with its exact contents
    (hence its exact length): for a real directory tree (entry names non-empty, without `/`,
    distinct among siblings) and whatever order the OS enumerates directories in, the v1
    listing is a rearrangement of the list of all files of the tree, and no path occurs in it
    twice. -/
theorem listing_each_file_once
    (enum : List (List (Bytes × Bytes)) → List (List (Bytes × Bytes)))
    (henum : ∀ l, (enum l).Perm l) (pre : Bytes) (t : Node) (h : Spec.WellNamed t) :
    (Impl.listV1 enum pre t).Perm (Spec.allFiles pre t) ∧
    ((Impl.listV1 enum pre t).map (·.1)).Nodup :=
  ⟨Impl.listV1_perm enum henum pre t,
   ((Impl.listV1_perm enum henum pre t).map _).nodup_iff.mpr (Spec.allFiles_paths_nodup pre t h)⟩

/-- met by: the example tree (unsorted, nested, an empty file, an empty directory) enumerated
    backwards, rooted at `r` -/
example : (Impl.listV1 List.reverse [114] Listing.exTree).Perm
      (Spec.allFiles [114] Listing.exTree) ∧
    ((Impl.listV1 List.reverse [114] Listing.exTree).map (·.1)).Nodup :=
  listing_each_file_once List.reverse List.reverse_perm [114] Listing.exTree
    Listing.exTree_wellNamed

end TorrentVerif.Props.C01

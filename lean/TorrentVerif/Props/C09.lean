import TorrentVerif.Model.Process
/-
  C09 — results never depend on what the process did earlier.  Thin by design (see the header
  of Model/Process.lean): the repaired code has no process state that a result function reads.
-/
namespace TorrentVerif.Props.C09
open TorrentVerif

/-- One step: the observable result and the resulting filesystem of any operation are the same
    whatever the process state is — in particular the same as in a fresh interpreter. -/
theorem out_independent_of_state {A O : Type} (R : Results A O) (σ σ' : Proc) (fs : FS) (op : POp A) :
    (Impl.procStep R σ fs op).2 = (Impl.procStep R σ' fs op).2 := by
  cases op <;> rfl

/-- Any finite history: every step's observable result and resulting filesystem in one
    long-lived process (started in any state) equal those of the same step executed in a
    fresh process on the filesystem state it finds. -/
theorem history_independent {A O : Type} (R : Results A O) (σ : Proc) (fs : FS) (ops : List (POp A)) :
    Impl.runTrace R σ fs ops = Impl.freshTrace R fs ops := by
  induction ops generalizing σ fs with
  | nil => rfl
  | cons op r ih =>
    simp only [Impl.runTrace, Impl.freshTrace]
    rw [out_independent_of_state R σ Proc.init fs op, ih]

/-- a history over a toy result table: create reports the number of files and writes "t",
    recheck reports the number of files -/
example :
    let R : Results Path Nat :=
      { create := fun _ fs => (fs.length, fs.set "t" [0]), edit := fun _ fs => (0, fs),
        recheck := fun _ fs => fs.length, rebuild := fun _ fs => (0, fs), magnet := fun _ _ => 7 }
    Impl.runTrace R ⟨[("d", (9, ["stale"]))], ["x"], true, true, true⟩ [("d/a", [1])]
      [.create "d", .fsmutate "d/b" (some [2, 3]), .recheck "t", .fsmutate "d/a" none, .create "d"]
    = [(some 1, [("d/a", [1]), ("t", [0])]),
       (none, [("d/a", [1]), ("t", [0]), ("d/b", [2, 3])]),
       (some 3, [("d/a", [1]), ("t", [0]), ("d/b", [2, 3])]),
       (none, [("t", [0]), ("d/b", [2, 3])]),
       (some 2, [("t", [0]), ("d/b", [2, 3])])] := by decide

/-- The model WITH the old memo cache (keyed by path, revalidated only by existence) violates
    the statement: create `d`, add a file under `d`, create `d` again — the second create
    still reports the old listing, a fresh process reports the new one. -/
theorem memo_model_refuted :
    ∃ (fs : FS) (ops : List (POp Path)),
      Impl.runTraceMemo Proc.init fs ops ≠ Impl.freshTraceMemo fs ops :=
  ⟨[("d/a", [1])], [.create "d", .fsmutate "d/b" (some [2, 3]), .create "d"], by decide⟩

/-- the witness spelled out: in one process the second create is stale (1 byte, one file) -/
example :
    Impl.runTraceMemo Proc.init [("d/a", [1])] [.create "d", .fsmutate "d/b" (some [2, 3]), .create "d"]
      = [(some (1, ["d/a"]), [("d/a", [1])]),
         (none, [("d/a", [1]), ("d/b", [2, 3])]),
         (some (1, ["d/a"]), [("d/a", [1]), ("d/b", [2, 3])])] := by decide

/-- … a fresh process reports 3 bytes in two files -/
example :
    Impl.freshTraceMemo [("d/a", [1])] [.create "d", .fsmutate "d/b" (some [2, 3]), .create "d"]
      = [(some (1, ["d/a"]), [("d/a", [1])]),
         (none, [("d/a", [1]), ("d/b", [2, 3])]),
         (some (3, ["d/a", "d/b"]), [("d/a", [1]), ("d/b", [2, 3])])] := by decide

end TorrentVerif.Props.C09

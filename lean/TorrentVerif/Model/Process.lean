import TorrentVerif.Model.Basic
import TorrentVerif.Model.Effects
/-
  C09 — results never depend on what the process did earlier.

  The process-lifetime state that exists in torrentfile is made explicit as `Proc`:
  * `memo`        the former `utils.Memo.cache` of `filelist_total` (path ↦ total size, file list).
                  Removed by `fix: do not memoize directory listings across operations`; the
                  field is kept so that the old behaviour can be stated (`Impl.stepMemo`) and
                  refuted; `Impl.procStep` never reads or writes it.
  * `callbacks`   class-level callback slots (`CbMixin.set_callback` stores on the class;
                  `MetaFile.set_callback` forwards to the hasher class).  `rebuild.Assembler`
                  used to register its bound method on the `Metadata` CLASS, so the assembler
                  constructed last received the counts of all others (repaired in /repo: the
                  callback is now set on each `Metadata` instance); no operation of a history
                  writes this field any more
  * `checkerHook` `recheck.Checker._hook` (class attribute set by `register_callback`)
  * `quiet`       `cli.Config.activate_quiet()` (logging configuration)
  * `debug`       environment variable `TORRENTFILE_DEBUG` (`utils.toggle_debug_mode`)

  What an operation RETURNS and what it does to the filesystem is given by abstract pure
  functions of (arguments, filesystem) — `Results`; the concrete functions are the subject of
  the other properties (C01–C08, C11, C13…).  `Impl.procStep` threads the process state through an
  operation the way the code does (writes to it are modelled; no result function receives it).
  The theorems are therefore a frame argument and thin; the weight of C09 is on the
  correspondence check (random histories in one interpreter vs. each step in a fresh one).
-/
namespace TorrentVerif

structure Proc where
  memo : List (Path × (Nat × List Path))
  callbacks : List String
  checkerHook : Bool
  quiet : Bool
  debug : Bool
  deriving DecidableEq, Repr

/-- a freshly started interpreter (`torrentfile/__init__.py` runs `toggle_debug_mode(False)`) -/
def Proc.init : Proc := ⟨[], [], false, false, false⟩

/-- The operations of a history; `A` is the type of argument bundles. -/
inductive POp (A : Type)
  | create (a : A)
  /-- add / rewrite / grow / shrink (`some bytes`) or delete (`none`) a file -/
  | fsmutate (p : Path) (c : Option Bytes)
  | edit (a : A)
  | recheck (a : A)
  | rebuild (a : A)
  | magnet (a : A)
  deriving Repr

/-- Abstract pure result functions: observable result and resulting filesystem as functions of
    the arguments and the filesystem at the moment the operation runs. -/
structure Results (A O : Type) where
  create : A → FS → O × FS
  edit : A → FS → O × FS
  recheck : A → FS → O
  rebuild : A → FS → O × FS
  magnet : A → FS → O

namespace Impl

/-- One operation: new process state, new filesystem, observable result (`none` for a bare
    filesystem change).  Process-state writes: every CLI entry runs `toggle_debug_mode(False)`;
    `recheck` through the library may register a hook. -/
def procStep {A O : Type} (R : Results A O) (σ : Proc) (fs : FS) : POp A → Proc × FS × Option O
  | .create a => ({ σ with debug := false }, (R.create a fs).2, some (R.create a fs).1)
  | .fsmutate p c => (σ, (match c with | some b => fs.set p b | none => fs.del p), none)
  | .edit a => ({ σ with debug := false }, (R.edit a fs).2, some (R.edit a fs).1)
  | .recheck a => ({ σ with debug := false, checkerHook := true }, fs, some (R.recheck a fs))
  | .rebuild a => ({ σ with debug := false }, (R.rebuild a fs).2, some (R.rebuild a fs).1)
  | .magnet a => ({ σ with debug := false }, fs, some (R.magnet a fs))

/-- A history run in ONE process: per step the observable result and the filesystem after it. -/
def runTrace {A O : Type} (R : Results A O) (σ : Proc) (fs : FS) : List (POp A) → List (Option O × FS)
  | [] => []
  | op :: r =>
    let res := procStep R σ fs op
    (res.2.2, res.2.1) :: runTrace R res.1 res.2.1 r

/-- The same history with every step run in a FRESH process on the filesystem it finds. -/
def freshTrace {A O : Type} (R : Results A O) (fs : FS) : List (POp A) → List (Option O × FS)
  | [] => []
  | op :: r =>
    let res := procStep R Proc.init fs op
    (res.2.2, res.2.1) :: freshTrace R res.2.1 r

/-! ### the behaviour before the fix, for the refutation -/

/-- `filelist_total(path)`: the files at or under `path` (in filesystem order) and their total size. -/
def listing (fs : FS) (p : Path) : Nat × List Path :=
  let under := fs.filter (fun e => e.1 = p ∨ (p ++ "/").toList.isPrefixOf e.1.toList)
  ((under.map (fun e => e.2.length)).sum, under.map (·.1))

def memoGet : List (Path × (Nat × List Path)) → Path → Option (Nat × List Path)
  | [], _ => none
  | (q, v) :: r, p => if q = p then some v else memoGet r p

/-- `Memo.__call__` as it was: a cached entry is reused whenever `os.path.exists(path)` still
    holds (here: something at or under the path exists); otherwise computed and stored. -/
def listingMemo (σ : Proc) (fs : FS) (p : Path) : Proc × (Nat × List Path) :=
  match memoGet σ.memo p with
  | some v => if (listing fs p).2 ≠ [] then (σ, v) else
      ({ σ with memo := (p, listing fs p) :: σ.memo }, listing fs p)
  | none => ({ σ with memo := (p, listing fs p) :: σ.memo }, listing fs p)

/-- `create` observed through the listing it hashes (total size, file list); other operations
    are irrelevant for the witness. -/
def stepMemo (σ : Proc) (fs : FS) : POp Path → Proc × FS × Option (Nat × List Path)
  | .create p => ((listingMemo σ fs p).1, fs, some (listingMemo σ fs p).2)
  | .fsmutate p c => (σ, (match c with | some b => fs.set p b | none => fs.del p), none)
  | _ => (σ, fs, none)

def runTraceMemo (σ : Proc) (fs : FS) : List (POp Path) → List (Option (Nat × List Path) × FS)
  | [] => []
  | op :: r =>
    let res := stepMemo σ fs op
    (res.2.2, res.2.1) :: runTraceMemo res.1 res.2.1 r

def freshTraceMemo (fs : FS) : List (POp Path) → List (Option (Nat × List Path) × FS)
  | [] => []
  | op :: r =>
    let res := stepMemo Proc.init fs op
    (res.2.2, res.2.1) :: freshTraceMemo res.2.1 r

end Impl
end TorrentVerif

import TorrentVerif.Model.Basic
/-
  Bencode: values, the pyben codec (`Impl.encode`, lenient `Impl.decode`), a strict
  reference decoder (`Spec.strictDecode`), canonical form, the byte order, dictionaries
  as insertion-ordered association lists.

  pyben (`/venv/.../pyben/bencode.py`) is third-party: it is modelled, not verified.
  The str/bytes distinction of pyben (a byte string that is valid UTF-8 is handed out as
  `str`) is erased: decode-then-encode of either is the identity on the bytes, and Python
  compares `str` by code point which coincides with the raw UTF-8 byte order.

  Deviations from pyben (all on inputs that are not bencoding):
  * a dictionary key that is an integer (`di1ei2ee`) is accepted by pyben (any hashable
    decoded value can be a key); the model rejects it (keys are byte strings);
  * Python refuses `int()` of more than 4300 digits; the model has unbounded numerals.
-/
namespace TorrentVerif

inductive BVal where
  | int (i : Int)
  | str (b : Bytes)
  | list (l : List BVal)
  | dict (kvs : List (Bytes × BVal))
  deriving Repr, Inhabited

/-- A Python `dict` with byte-string keys: association list in insertion order. -/
abbrev Dict := List (Bytes × BVal)

/-! ### equality test (the deriving handler does not cover nested inductives) -/
mutual
def BVal.beq : BVal → BVal → Bool
  | .int a, .int b => a == b
  | .str a, .str b => a == b
  | .list a, .list b => BVal.beqL a b
  | .dict a, .dict b => BVal.beqD a b
  | _, _ => false
def BVal.beqL : List BVal → List BVal → Bool
  | [], [] => true
  | a :: as, b :: bs => BVal.beq a b && BVal.beqL as bs
  | _, _ => false
def BVal.beqD : List (Bytes × BVal) → List (Bytes × BVal) → Bool
  | [], [] => true
  | (k, a) :: as, (k', b) :: bs => k == k' && BVal.beq a b && BVal.beqD as bs
  | _, _ => false
end

mutual
theorem BVal.beq_iff : ∀ (a b : BVal), BVal.beq a b = true ↔ a = b
  | .int a, .int b => by simp [BVal.beq]
  | .str a, .str b => by simp [BVal.beq]
  | .list a, .list b => by simp [BVal.beq, BVal.beqL_iff a b]
  | .dict a, .dict b => by simp [BVal.beq, BVal.beqD_iff a b]
  | .int _, .str _ => by simp [BVal.beq]
  | .int _, .list _ => by simp [BVal.beq]
  | .int _, .dict _ => by simp [BVal.beq]
  | .str _, .int _ => by simp [BVal.beq]
  | .str _, .list _ => by simp [BVal.beq]
  | .str _, .dict _ => by simp [BVal.beq]
  | .list _, .int _ => by simp [BVal.beq]
  | .list _, .str _ => by simp [BVal.beq]
  | .list _, .dict _ => by simp [BVal.beq]
  | .dict _, .int _ => by simp [BVal.beq]
  | .dict _, .str _ => by simp [BVal.beq]
  | .dict _, .list _ => by simp [BVal.beq]
theorem BVal.beqL_iff : ∀ (a b : List BVal), BVal.beqL a b = true ↔ a = b
  | [], [] => by simp [BVal.beqL]
  | [], _ :: _ => by simp [BVal.beqL]
  | _ :: _, [] => by simp [BVal.beqL]
  | a :: as, b :: bs => by simp [BVal.beqL, BVal.beq_iff a b, BVal.beqL_iff as bs]
theorem BVal.beqD_iff : ∀ (a b : List (Bytes × BVal)), BVal.beqD a b = true ↔ a = b
  | [], [] => by simp [BVal.beqD]
  | [], _ :: _ => by simp [BVal.beqD]
  | _ :: _, [] => by simp [BVal.beqD]
  | (k, a) :: as, (k', b) :: bs => by
    simp [BVal.beqD, BVal.beq_iff a b, BVal.beqD_iff as bs, and_assoc]
end

instance : DecidableEq BVal := fun a b => decidable_of_iff _ (BVal.beq_iff a b)

/-! ### raw byte order (what `sorted()` does on `bytes`, and on `str` via code points) -/

/-- lexicographic `<` on byte strings; a proper prefix is smaller. -/
def bytesLt : Bytes → Bytes → Bool
  | [], [] => false
  | [], _ :: _ => true
  | _ :: _, [] => false
  | a :: as, b :: bs => if a < b then true else if a = b then bytesLt as bs else false

def bytesLe (a b : Bytes) : Bool := !bytesLt b a

/-- keys strictly ascending (hence pairwise distinct). -/
def strictAsc : List Bytes → Bool
  | [] => true
  | [_] => true
  | a :: b :: r => bytesLt a b && strictAsc (b :: r)

/-! ### dictionaries -/

def keys (d : Dict) : List Bytes := d.map (·.1)

/-- `d.get(k)` -/
def dictGet : Dict → Bytes → Option BVal
  | [], _ => none
  | (k, v) :: r, key => if k = key then some v else dictGet r key

/-- `k in d` -/
def dictHas (d : Dict) (k : Bytes) : Bool := (dictGet d k).isSome

/-- `d[k] = v`: overwrite in place when present, append when new. -/
def dictSet : Dict → Bytes → BVal → Dict
  | [], k, v => [(k, v)]
  | (k', v') :: r, k, v => if k' = k then (k, v) :: r else (k', v') :: dictSet r k v

/-- `del d[k]` -/
def dictDel (d : Dict) (k : Bytes) : Dict := d.filter (fun kv => kv.1 ≠ k)

/-- `dict(sorted(d.items()))` -/
def sortDict (d : Dict) : Dict := d.mergeSort (fun a b => bytesLe a.1 b.1)

/-- `v[k]` for a value that should be a dictionary. -/
def BVal.get? : BVal → Bytes → Option BVal
  | .dict d, k => dictGet d k
  | _, _ => none

/-! ### canonical form -/
mutual
/-- keys strictly ascending in raw byte order in every dictionary at every depth. -/
def canon : BVal → Bool
  | .int _ => true
  | .str _ => true
  | .list l => canonL l
  | .dict d => strictAsc (d.map (·.1)) && canonD d
def canonL : List BVal → Bool
  | [] => true
  | v :: vs => canon v && canonL vs
def canonD : List (Bytes × BVal) → Bool
  | [] => true
  | (_, v) :: r => canon v && canonD r
end

/-- Canonical bencode value. (Integers and string lengths are canonical by construction of
    the encoder; the only freedom a value has is the order and uniqueness of keys.) -/
def Canonical (v : BVal) : Bool := canon v

/-- pairwise distinct -/
def uniqKeys : List Bytes → Bool
  | [] => true
  | k :: r => !r.contains k && uniqKeys r

mutual
/-- keys pairwise distinct in every dictionary at every depth (any order). -/
def uniq : BVal → Bool
  | .int _ => true
  | .str _ => true
  | .list l => uniqL l
  | .dict d => uniqKeys (d.map (·.1)) && uniqD d
def uniqL : List BVal → Bool
  | [] => true
  | v :: vs => uniq v && uniqL vs
def uniqD : List (Bytes × BVal) → Bool
  | [] => true
  | (_, v) :: r => uniq v && uniqD r
end

def UniqueKeys (v : BVal) : Bool := uniq v

/-! ### decimal numerals -/

def digit (d : Nat) : UInt8 := (48 + d).toUInt8

/-- `str(n)`: most significant digit first, no leading zero (except "0"). -/
def natDec (n : Nat) : Bytes :=
  if _h : n < 10 then [digit n] else natDec (n / 10) ++ [digit (n % 10)]
termination_by n
decreasing_by omega

def isDigit (c : UInt8) : Bool := 48 ≤ c && c ≤ 57

/-- `int()` of a maximal run of ASCII digits (`\d+` on bytes), accumulating. -/
def readNat : Nat → Bytes → Nat × Bytes
  | acc, [] => (acc, [])
  | acc, c :: r => if isDigit c then readNat (acc * 10 + (c.toNat - 48)) r else (acc, c :: r)

namespace Impl

/-- `bencode_str` / `bencode_bytes`: `<len>:<bytes>` -/
def encStr (s : Bytes) : Bytes := natDec s.length ++ (58 :: s)

/-- `bencode_int`: `i<str(i)>e` -/
def encInt (i : Int) : Bytes :=
  105 :: ((if i < 0 then [45] else []) ++ natDec i.natAbs ++ [101])

mutual
/-- `pyben.benencode`: dictionary items are written in insertion order. -/
def encode : BVal → Bytes
  | .int i => encInt i
  | .str s => encStr s
  | .list l => 108 :: (encodeL l ++ [101])
  | .dict kvs => 100 :: (encodeD kvs ++ [101])
def encodeL : List BVal → Bytes
  | [] => []
  | v :: vs => encode v ++ encodeL vs
def encodeD : List (Bytes × BVal) → Bytes
  | [] => []
  | (k, v) :: r => encStr k ++ encode v ++ encodeD r
end

/-- `bendecode_str`: `re.match(rb"(\d+):")`, then the slice `units[start:start+n]`
    (a slice never fails: a short string is returned short, as pyben does). -/
def decStr (b : Bytes) : Option (Bytes × Bytes) :=
  match b with
  | [] => none
  | c :: _ =>
    if isDigit c then
      let (n, r) := readNat 0 b
      match r with
      | 58 :: r' => some (r'.take n, r'.drop n)
      | _ => none
    else none

/-- `bendecode_int` after the leading `i`: `(-?\d+)e`; `int()` accepts leading zeros, `-0`. -/
def decInt (b : Bytes) : Option (Int × Bytes) :=
  match b with
  | [] => none
  | c :: r =>
    if c = 45 then
      match r with
      | [] => none
      | c' :: _ =>
        if isDigit c' then
          let (n, r') := readNat 0 r
          match r' with
          | 101 :: r'' => some (-(n : Int), r'')
          | _ => none
        else none
    else if isDigit c then
      let (n, r') := readNat 0 (c :: r)
      match r' with
      | 101 :: r'' => some ((n : Int), r'')
      | _ => none
    else none

mutual
/-- `bendecode`: dispatch on the first byte; returns the value and the unread rest. -/
def dec : Nat → Bytes → Option (BVal × Bytes)
  | 0, _ => none
  | _ + 1, [] => none
  | fuel + 1, c :: r =>
    if c = 105 then (decInt r).map fun (i, r') => (.int i, r')
    else if isDigit c then (decStr (c :: r)).map fun (s, r') => (.str s, r')
    else if c = 108 then (decList fuel r).map fun (l, r') => (.list l, r')
    else if c = 100 then (decDict fuel [] r).map fun (l, r') => (.dict l, r')
    else none
/-- `bendecode_list`: until the rest starts with `e`. -/
def decList : Nat → Bytes → Option (List BVal × Bytes)
  | 0, _ => none
  | _ + 1, [] => none
  | fuel + 1, c :: r =>
    if c = 101 then some ([], r) else
    match dec fuel (c :: r) with
    | none => none
    | some (v, r1) => (decList fuel r1).map fun (vs, r') => (v :: vs, r')
/-- `bendecode_dict`: `dic[key] = value` — a repeated key overwrites in place. -/
def decDict : Nat → Dict → Bytes → Option (Dict × Bytes)
  | 0, _, _ => none
  | _ + 1, _, [] => none
  | fuel + 1, acc, c :: r =>
    if c = 101 then some (acc, r) else
    match decStr (c :: r) with
    | none => none
    | some (k, r1) =>
      match dec fuel r1 with
      | none => none
      | some (v, r2) => decDict fuel (dictSet acc k v) r2
end

/-- `pyben.bendecode(bits)`: value and unread rest (`pyben.load(s)` drops the rest). -/
def decode (b : Bytes) : Option (BVal × Bytes) := dec b.length b

/-- `pyben.loads` -/
def loads (b : Bytes) : Option BVal := (decode b).map (·.1)

end Impl

namespace Spec

/-- A decimal numeral without redundant digits: `0`, or a digit 1-9 followed by digits. -/
def pNat (b : Bytes) : Option (Nat × Bytes) :=
  match b with
  | [] => none
  | c :: r =>
    if c = 48 then some (0, r)
    else if 49 ≤ c ∧ c ≤ 57 then some (readNat 0 (c :: r))
    else none

/-- `<len>:<len bytes>`, minimal length numeral, all bytes present. -/
def pStr (b : Bytes) : Option (Bytes × Bytes) :=
  match pNat b with
  | none => none
  | some (n, r) =>
    match r with
    | [] => none
    | c :: r' =>
      -- all `n` bytes present (`(take n).length = n` ⇔ `n ≤ length`, without walking the rest)
      if c = 58 ∧ (r'.take n).length = n then some (r'.take n, r'.drop n) else none

/-- after `i`: minimal numeral, optional `-` only in front of a non-zero numeral, then `e`. -/
def pInt (b : Bytes) : Option (Int × Bytes) :=
  match b with
  | [] => none
  | c :: r =>
    if c = 45 then
      match pNat r with
      | none => none
      | some (n, r') =>
        match r' with
        | [] => none
        | e :: r'' => if e = 101 ∧ n ≠ 0 then some (-(n : Int), r'') else none
    else
      match pNat (c :: r) with
      | none => none
      | some (n, r') =>
        match r' with
        | [] => none
        | e :: r'' => if e = 101 then some ((n : Int), r'') else none

mutual
/-- Syntactic parser of bencoding with minimal numerals. Dictionary items are returned
    as written (order and repetitions are judged afterwards, on the value). -/
def parse : Nat → Bytes → Option (BVal × Bytes)
  | 0, _ => none
  | _ + 1, [] => none
  | fuel + 1, c :: r =>
    if c = 105 then (pInt r).map fun (i, r') => (.int i, r')
    else if c = 108 then (parseL fuel r).map fun (l, r') => (.list l, r')
    else if c = 100 then (parseD fuel r).map fun (l, r') => (.dict l, r')
    else (pStr (c :: r)).map fun (s, r') => (.str s, r')
def parseL : Nat → Bytes → Option (List BVal × Bytes)
  | 0, _ => none
  | _ + 1, [] => none
  | fuel + 1, c :: r =>
    if c = 101 then some ([], r) else
    match parse fuel (c :: r) with
    | none => none
    | some (v, r1) => (parseL fuel r1).map fun (vs, r') => (v :: vs, r')
def parseD : Nat → Bytes → Option (Dict × Bytes)
  | 0, _ => none
  | _ + 1, [] => none
  | fuel + 1, c :: r =>
    if c = 101 then some ([], r) else
    match pStr (c :: r) with
    | none => none
    | some (k, r1) =>
      match parse fuel r1 with
      | none => none
      | some (v, r2) => (parseD fuel r2).map fun (kvs, r') => ((k, v) :: kvs, r')
end

/-- Strict decoder: exactly one value, nothing trailing, minimal integers and string
    lengths, and in every dictionary the keys strictly ascending in raw byte order
    (hence no duplicates). -/
def strictDecode (b : Bytes) : Option BVal :=
  match parse b.length b with
  | some (v, []) => if Canonical v then some v else none
  | _ => none

/-- Well-formed bencoding in ANY key order: like `strictDecode` but keys need only be
    pairwise distinct in every dictionary. -/
def wfDecode (b : Bytes) : Option BVal :=
  match parse b.length b with
  | some (v, []) => if UniqueKeys v then some v else none
  | _ => none

/-- Walk the items of a dictionary body; return the raw bytes of the value of the first
    item whose key is `key`. -/
def spanLoop (key : Bytes) : Nat → Bytes → Option Bytes
  | 0, _ => none
  | fuel + 1, b =>
    match b with
    | [] => none
    | c :: _ =>
      if c = 101 then none else
      match pStr b with
      | none => none
      | some (k, r1) =>
        match parse r1.length r1 with
        | none => none
        | some (_, r2) =>
          if k = key then some (r1.take (r1.length - r2.length)) else spanLoop key fuel r2

/-- The raw bytes of the value stored under `key` in the top-level dictionary of an encoded
    file (the "info span" for `key = "info"`): located on the bytes, nothing re-encoded. -/
def valueSpan (key : Bytes) (b : Bytes) : Option Bytes :=
  match b with
  | [] => none
  | c :: r => if c = 100 then spanLoop key r.length r else none

end Spec

/-! ### key names -/
namespace K
def info : Bytes := [105, 110, 102, 111]  -- "info"
def announce : Bytes := [97, 110, 110, 111, 117, 110, 99, 101]  -- "announce"
def announceList : Bytes := [97, 110, 110, 111, 117, 110, 99, 101, 45, 108, 105, 115, 116]  -- "announce-list"
def urlList : Bytes := [117, 114, 108, 45, 108, 105, 115, 116]  -- "url-list"
def httpseeds : Bytes := [104, 116, 116, 112, 115, 101, 101, 100, 115]  -- "httpseeds"
def comment : Bytes := [99, 111, 109, 109, 101, 110, 116]  -- "comment"
def source : Bytes := [115, 111, 117, 114, 99, 101]  -- "source"
def priv : Bytes := [112, 114, 105, 118, 97, 116, 101]  -- "private"
def pieceLength : Bytes := [112, 105, 101, 99, 101, 32, 108, 101, 110, 103, 116, 104]  -- "piece length"
def name : Bytes := [110, 97, 109, 101]  -- "name"
def createdBy : Bytes := [99, 114, 101, 97, 116, 101, 100, 32, 98, 121]  -- "created by"
def creationDate : Bytes := [99, 114, 101, 97, 116, 105, 111, 110, 32, 100, 97, 116, 101]  -- "creation date"
def length : Bytes := [108, 101, 110, 103, 116, 104]  -- "length"
def files : Bytes := [102, 105, 108, 101, 115]  -- "files"
def pieces : Bytes := [112, 105, 101, 99, 101, 115]  -- "pieces"
def fileTree : Bytes := [102, 105, 108, 101, 32, 116, 114, 101, 101]  -- "file tree"
def metaVersion : Bytes := [109, 101, 116, 97, 32, 118, 101, 114, 115, 105, 111, 110]  -- "meta version"
def pieceLayers : Bytes := [112, 105, 101, 99, 101, 32, 108, 97, 121, 101, 114, 115]  -- "piece layers"
end K

end TorrentVerif

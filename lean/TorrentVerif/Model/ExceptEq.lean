/-
  `Except` has no `DecidableEq` instance in core Lean; the examples that accompany the property
  theorems are closed by `decide`, which needs one.
-/
namespace TorrentVerif

instance exceptDecEq {ε α : Type} [DecidableEq ε] [DecidableEq α] : DecidableEq (Except ε α)
  | .ok a, .ok b => if h : a = b then isTrue (by rw [h]) else isFalse (fun e => h (by cases e; rfl))
  | .error a, .error b => if h : a = b then isTrue (by rw [h]) else isFalse (fun e => h (by cases e; rfl))
  | .ok _, .error _ => isFalse (fun e => by cases e)
  | .error _, .ok _ => isFalse (fun e => by cases e)

end TorrentVerif

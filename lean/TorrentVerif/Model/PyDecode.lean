import TorrentVerif.Model.Bencode
import TorrentVerif.Model.Utf8
import TorrentVerif.Model.RecheckFull
import TorrentVerif.Model.RebuildMeta
/-
  What `pyben.load` REALLY hands to torrentfile: the `str` / `bytes` quirk of the third-party
  decoder, made explicit.

  `pyben.bendecode_str` slices the byte string out of the file and then tries
  `text.decode("utf-8")`: when that succeeds the value is a Python `str`, otherwise it stays
  `bytes`.  Dictionary keys go through the same function.  `Model/Bencode.lean` (`BVal`,
  `Impl.loads`) erases the distinction: every string is a byte string.  That is harmless wherever
  Python only moves the value around or compares it with a value of the same origin, but NOT where
  a decoded string is compared with a digest that was computed (`hashlib…digest()` is always
  `bytes`): `"abc" == b"abc"` is `False` in Python 3.  Before commit e629db8 `recheck.py` and
  `rebuild.py` did exactly that with `info["pieces"]`, `pieces root` and the `piece layers`; a
  digest that happens to be valid UTF-8 never compared equal (`Props/C05Decode`).

  This file has
  * `validUtf8` — CPython's strict UTF-8 validity (`bytes.decode("utf-8")` succeeds): Unicode
    Table 3-7 (no overlong forms, no surrogates, at most U+10FFFF, no truncated sequence).
    `Model/Utf8.lean` only has the ENCODER (`Utf8.encodeStr`); the validity predicate is new here.
    `Proofs/Utf8Valid.lean` ties the two: `validUtf8 b` iff `b` is `Utf8.encodeStr` of a list of
    scalar values, and that list is unique — so representing a `str` by its UTF-8 encoding loses
    nothing, and `s.encode("utf-8")` of the decoded text is the very byte string.
  * `PyVal` / `PyKey` — the value pyben returns; `Impl.pyTag : BVal → PyVal` tags every string and
    every key by `validUtf8`; `Impl.pyLoads`; `Impl.untag` (= `Impl.normalise`) forgets the tags.
  * `Impl.hashBytesPy` / `Impl.hashBytes` — `torrentfile.utils.hash_bytes`;
    `Impl.bytesEqPy` — Python's `==` between a decoded value and a computed digest.
  * the accessors Python uses on the way to a hash string (`pyDictGet`, `pySub`, `pyPath`) and the
    comparison sites before (`…Old`) and after (`…New`) the repair.
  * `Impl.hashSites` — the hash-bearing strings of a metafile in a fixed traversal order (driver
    command `pytag`).
  * `Impl.recheckPy`, `Impl.extractMetaPy`, `Impl.rebuildFromBytesPy` — the repaired pipelines
    started from what pyben returns (`Impl.pyLoads`).  They do NOT re-model `Checker` /
    `Metadata`: the hash-bearing strings reach the existing models through `hash_bytes`
    (`normalise` is `hash_bytes` on every string; `Props/C05Decode` proves that at each repaired
    site the value read the Python way from the pyben value is the value the model reads), every
    other string (names, path components, `attr`) is idealised as a byte string exactly as
    `Model/RecheckFull.lean` and `Model/RebuildMeta.lean` already say in their headers.

  Not modelled: a dictionary key that is an integer or a list (pyben accepts `di1ei2ee`; the
  bencode model rejects it, see `Model/Bencode.lean`), so keys are `str` or `bytes`.

  Tie to the code: driver commands `validutf8`, `pytag` (`Driver/G12.lean`) against
  `bytes.decode("utf-8")` and `type(pyben.load(...)[...])`.
-/
namespace TorrentVerif

/-! ### strict UTF-8 -/

/-- a continuation byte `80..BF` -/
def isCont (c : UInt8) : Bool := 0x80 ≤ c && c ≤ 0xBF

/-- the second byte of a three-byte sequence with lead byte `b0` (`E0..EF`): `E0` excludes the
    overlong forms (`A0..BF`), `ED` excludes the surrogates U+D800..U+DFFF (`80..9F`) -/
def second3 (b0 b1 : UInt8) : Bool :=
  if b0 = 0xE0 then 0xA0 ≤ b1 && b1 ≤ 0xBF
  else if b0 = 0xED then 0x80 ≤ b1 && b1 ≤ 0x9F
  else isCont b1

/-- the second byte of a four-byte sequence with lead byte `b0` (`F0..F4`): `F0` excludes the
    overlong forms (`90..BF`), `F4` excludes everything above U+10FFFF (`80..8F`) -/
def second4 (b0 b1 : UInt8) : Bool :=
  if b0 = 0xF0 then 0x90 ≤ b1 && b1 ≤ 0xBF
  else if b0 = 0xF4 then 0x80 ≤ b1 && b1 ≤ 0x8F
  else isCont b1

/-- `b.decode("utf-8")` succeeds (CPython's strict decoder; Unicode 15 Table 3-7):
    `00..7F` | `C2..DF 80..BF` | `E0 A0..BF 80..BF` | `E1..EC 80..BF 80..BF` | `ED 80..9F 80..BF` |
    `EE..EF 80..BF 80..BF` | `F0 90..BF 80..BF 80..BF` | `F1..F3 80..BF 80..BF 80..BF` |
    `F4 80..8F 80..BF 80..BF`, repeated; `C0`, `C1`, `F5..FF`, a lone continuation byte and a
    sequence cut short are invalid. -/
def validUtf8 : Bytes → Bool
  | [] => true
  | b0 :: r =>
    if b0 < 0x80 then validUtf8 r
    else if b0 < 0xC2 then false
    else if b0 < 0xE0 then
      match r with
      | b1 :: r1 => isCont b1 && validUtf8 r1
      | [] => false
    else if b0 < 0xF0 then
      match r with
      | b1 :: b2 :: r2 => second3 b0 b1 && isCont b2 && validUtf8 r2
      | _ => false
    else if b0 < 0xF5 then
      match r with
      | b1 :: b2 :: b3 :: r3 => second4 b0 b1 && isCont b2 && isCont b3 && validUtf8 r3
      | _ => false
    else false

/-! ### the values pyben returns -/

/-- a dictionary key as pyben returns it: `str` (given by its UTF-8 encoding) or `bytes` -/
inductive PyKey where
  | str (b : Bytes)
  | bytes (b : Bytes)
  deriving DecidableEq, Repr

/-- `hash_bytes(key)`: the bytes of a key -/
def PyKey.raw : PyKey → Bytes
  | .str b => b
  | .bytes b => b

/-- What `pyben.load` returns.  `str b` is the Python `str` whose UTF-8 encoding is `b` (pyben
    only builds it for valid UTF-8); `bytes b` a Python `bytes`; a `dict` keeps insertion order. -/
inductive PyVal where
  | int (i : Int)
  | str (b : Bytes)
  | bytes (b : Bytes)
  | list (l : List PyVal)
  | dict (kvs : List (PyKey × PyVal))
  deriving Repr, Inhabited

/-- `type(v).__name__` -/
def PyVal.typeName : PyVal → String
  | .int _ => "int"
  | .str _ => "str"
  | .bytes _ => "bytes"
  | .list _ => "list"
  | .dict _ => "dict"

def PyKey.typeName : PyKey → String
  | .str _ => "str"
  | .bytes _ => "bytes"

/-- the key seen as a value (`for k, v in d.items()`) -/
def PyKey.toVal : PyKey → PyVal
  | .str b => .str b
  | .bytes b => .bytes b

/-- Python dictionaries on `Bytes` keys with any values: association list in insertion order -/
def assocGet {β : Type} : List (Bytes × β) → Bytes → Option β
  | [], _ => none
  | (k, v) :: r, key => if k = key then some v else assocGet r key

/-- `d[k] = v`: overwrite in place when present, append when new -/
def assocSet {β : Type} : List (Bytes × β) → Bytes → β → List (Bytes × β)
  | [], k, v => [(k, v)]
  | (k', v') :: r, k, v => if k' = k then (k, v) :: r else (k', v') :: assocSet r k v

namespace Impl

/-- `bendecode_str`: `text.decode("utf-8")`, falling back to the bytes -/
def tagStr (b : Bytes) : PyVal := if validUtf8 b then .str b else .bytes b

/-- the same for a dictionary key -/
def tagKey (b : Bytes) : PyKey := if validUtf8 b then .str b else .bytes b

mutual
/-- the value pyben returns for the bencode value `v`: every string, keys included, is `str`
    when it is valid UTF-8 and `bytes` otherwise -/
def pyTag : BVal → PyVal
  | .int i => .int i
  | .str b => tagStr b
  | .list l => .list (pyTagL l)
  | .dict d => .dict (pyTagD d)
def pyTagL : List BVal → List PyVal
  | [] => []
  | v :: vs => pyTag v :: pyTagL vs
def pyTagD : List (Bytes × BVal) → List (PyKey × PyVal)
  | [] => []
  | (k, v) :: r => (tagKey k, pyTag v) :: pyTagD r
end

/-- `pyben.loads` / `pyben.load`, with the types it really returns -/
def pyLoads (b : Bytes) : Option PyVal := (loads b).map pyTag

mutual
/-- forget `str` / `bytes`: the bencode value (what `pyben.dumps` would write again) -/
def untag : PyVal → BVal
  | .int i => .int i
  | .str b => .str b
  | .bytes b => .str b
  | .list l => .list (untagL l)
  | .dict d => .dict (untagD d)
def untagL : List PyVal → List BVal
  | [] => []
  | v :: vs => untag v :: untagL vs
def untagD : List (PyKey × PyVal) → List (Bytes × BVal)
  | [] => []
  | (k, v) :: r => (k.raw, untag v) :: untagD r
end

/-- `hash_bytes` applied to every string and every key of a decoded value: the value the
    idealised models (`Impl.recheckMeta`, `Impl.extractMeta`) work on -/
def normalise (p : PyVal) : BVal := untag p

/-! ### `utils.hash_bytes` and `==` -/

/-- `utils.hash_bytes(value)`: `value.encode("utf-8")` for a `str`, anything else unchanged -/
def hashBytesPy : PyVal → PyVal
  | .str b => .bytes b
  | v => v

/-- the byte string `hash_bytes(value)` returns; `none`: `value` is not a string — Python passes
    it through unchanged, and what follows (a slice, a comparison with a digest) raises or is
    `False` -/
def hashBytes : PyVal → Option Bytes
  | .str b => some b
  | .bytes b => some b
  | _ => none

/-- Python's `value == digest` for a decoded `value` and a computed digest (`bytes`): a `str`
    never equals a `bytes` object, not even when its encoding is the very digest -/
def bytesEqPy : PyVal → Bytes → Bool
  | .bytes b, d => b == d
  | _, _ => false

/-! ### the accessors on the way to a hash string -/

/-- `d.get(k)` -/
def pyDictGet : List (PyKey × PyVal) → PyKey → Option PyVal
  | [], _ => none
  | (k, v) :: r, key => if k = key then some v else pyDictGet r key

/-- `v[k]` -/
def pySub (v : PyVal) (k : PyKey) : Except RF.Err PyVal :=
  match v with
  | .dict d =>
    match pyDictGet d k with
    | some x => .ok x
    | none => .error .keyError
  | _ => .error .typeError

/-- `v[k₁][k₂]…[kₙ]`; each `kᵢ` is given by its bytes and looked up the way pyben would have
    returned it as a key (`tagKey`: a literal like `"info"` is a `str`) -/
def pyPath : PyVal → List Bytes → Except RF.Err PyVal
  | v, [] => .ok v
  | v, k :: ks =>
    match pySub v (tagKey k) with
    | .ok x => pyPath x ks
    | .error e => .error e

/-- the same walk on the idealised value -/
def bPath : BVal → List Bytes → Except RF.Err BVal
  | v, [] => .ok v
  | v, k :: ks =>
    match RF.sub v k with
    | .ok x => bPath x ks
    | .error e => .error e

/-- a hash string read the repaired way: `hash_bytes(value)`, used as `bytes` (sliced, compared,
    used as a key); anything that is not a string fails there -/
def pyHashStr (v : PyVal) : Except RF.Err Bytes :=
  match hashBytes v with
  | some b => .ok b
  | none => .error .typeError

/-- `hash_bytes(v[k])` -/
def pyHashAt (v : PyVal) (k : Bytes) : Except RF.Err Bytes :=
  match pySub v (tagKey k) with
  | .ok x => pyHashStr x
  | .error e => .error e

/-! ### `FeedChecker` (v1): `self.pieces` -/

/-- `FeedChecker.pieces` BEFORE the repair (`checker.info["pieces"]` as decoded), seen as the byte
    string the computed SHA-1 digests are compared with.  `none`: there is no such byte string —
    the value is a `str`, each slice `self.pieces[start:end]` is a `str` (of code points), and
    `chunck == piece` is `False` for every piece. -/
def v1PiecesOld : PyVal → Option Bytes
  | .bytes b => some b
  | _ => none

/-- `FeedChecker.pieces` AFTER the repair: `hash_bytes(checker.info["pieces"])` -/
def v1PiecesNew (p : PyVal) : Option Bytes := hashBytes p

/-- `chunck == piece` in `FeedChecker.__next__` for piece number `i` with computed digest `d` -/
def v1PieceMatch (pieces : Option Bytes) (i : Nat) (d : Bytes) : Bool :=
  match pieces with
  | some b => digestSlice 20 b i == d
  | none => false

/-! ### `HashChecker` / `Metadata._match_v2`: a recorded root against a computed one -/

/-- BEFORE: `entry["root"] == hasher.root` (rebuild) and `self.pieces = self.root_hash`, then
    `piece == layer` (recheck, file of at most one piece) with the decoded `pieces root` -/
def rootMatchesOld (root : PyVal) (d : Bytes) : Bool := bytesEqPy root d

/-- AFTER: the same comparison with `hash_bytes(pieces root)` -/
def rootMatchesNew (root : PyVal) (d : Bytes) : Bool := bytesEqPy (hashBytesPy root) d

/-- `hash_bytes(val[""].get("pieces root")) == hasher.root` of `_parse_tree` / `_match_v2`
    (`.get` gives `None` for a missing key, which equals no digest) -/
def rootGetMatchesNew (inner : List (PyKey × PyVal)) (d : Bytes) : Bool :=
  match pyDictGet inner (tagKey RF.kPiecesRoot) with
  | some r => rootMatchesNew r d
  | none => false

/-- `self.pieces[start:end] == layer` for entry `i` of a decoded piece layer (`hs` = 32),
    BEFORE the repair: a `str` layer never matches -/
def layerPieceMatchOld (hs : Nat) (layer : PyVal) (i : Nat) (d : Bytes) : Bool :=
  match layer with
  | .bytes b => digestSlice hs b i == d
  | _ => false

/-- AFTER -/
def layerPieceMatchNew (hs : Nat) (layer : PyVal) (i : Nat) (d : Bytes) : Bool :=
  layerPieceMatchOld hs (hashBytesPy layer) i d

/-! ### `HashChecker.piece_layers` -/

/-- BEFORE: `self.piece_layers[self.root_hash]` — the decoded dictionary (tagged keys) indexed by
    the decoded `pieces root` (tagged the same way): the look-up itself worked, the value it
    found was then compared as it came.  `none`: `KeyError` (or an unhashable / foreign key). -/
def layerLookupOld (layers : List (PyKey × PyVal)) (root : PyVal) : Option PyVal :=
  match root with
  | .str b => pyDictGet layers (.str b)
  | .bytes b => pyDictGet layers (.bytes b)
  | _ => none

/-- AFTER: `{hash_bytes(root): hash_bytes(layer) for root, layer in meta["piece layers"].items()}`
    — a dict comprehension assigns item by item: a key that comes again keeps its position and
    takes the later value -/
def layersNew (layers : List (PyKey × PyVal)) : List (Bytes × PyVal) :=
  layers.foldl (fun acc kv => assocSet acc kv.1.raw (hashBytesPy kv.2)) []

/-- AFTER: `self.piece_layers[self.root_hash]` with `root_hash = hash_bytes(pieces root)` -/
def layerLookupNew (layers : List (PyKey × PyVal)) (root : PyVal) : Option PyVal :=
  match hashBytes root with
  | some h => assocGet (layersNew layers) h
  | none => none

/-- what `HashChecker.next_file` gets for a file of more than one piece, as the model's
    `rcV2Entry` reads it: the layer as bytes, `KeyError` when there is none, `TypeError` when the
    entry is not a string (its slice fails) -/
def pyLayerOf (layers : List (PyKey × PyVal)) (h : Bytes) : Except RF.Err Bytes :=
  match assocGet (layersNew layers) h with
  | some v => pyHashStr v
  | none => .error .keyError

/-! ### `rebuild.Metadata.extract`: `self.pieces` -/

/-- `hash_bytes(info.get("pieces", bytes()))` -/
def extractPiecesNew (info : List (PyKey × PyVal)) : PyVal :=
  hashBytesPy ((pyDictGet info (tagKey K.pieces)).getD (.bytes []))

/-- BEFORE: `info.get("pieces", bytes())` -/
def extractPiecesOld (info : List (PyKey × PyVal)) : PyVal :=
  (pyDictGet info (tagKey K.pieces)).getD (.bytes [])

/-! ### the hash-bearing strings of a metafile -/

mutual
/-- every `pieces root` below a file-tree node, in dictionary order (a dictionary with the key
    `""` is a file: its `""` entry's `pieces root`, if any; any other dictionary is a directory) -/
def treeRoots : PyVal → List PyVal
  | .dict d =>
    match pyDictGet d (.str []) with
    | some (.dict leaf) => (pyDictGet leaf (tagKey RF.kPiecesRoot)).toList
    | some _ => []
    | none => treeRootsD d
  | _ => []
def treeRootsD : List (PyKey × PyVal) → List PyVal
  | [] => []
  | (_, v) :: r => treeRoots v ++ treeRootsD r
end

/-- keys and values of a dictionary, alternating, in order -/
def itemsFlat : List (PyKey × PyVal) → List PyVal
  | [] => []
  | (k, v) :: r => k.toVal :: v :: itemsFlat r

/-- `x.get(k)` for any `x` (`none` when `x` is not a dictionary) -/
def pyGet? (v : PyVal) (k : Bytes) : Option PyVal :=
  match v with
  | .dict d => pyDictGet d (tagKey k)
  | _ => none

/-- the values torrentfile compares with computed digests, in this order: `info["pieces"]`, every
    `pieces root` of `info["file tree"]` (depth first, dictionary order), every key and value of
    the top-level `piece layers` -/
def hashSites (mf : PyVal) : List PyVal :=
  let info := pyGet? mf K.info
  (match info.bind (pyGet? · K.pieces) with | some p => [p] | none => [])
    ++ (match info.bind (pyGet? · K.fileTree) with
        | some (.dict d) => treeRootsD d
        | _ => [])
    ++ (match pyGet? mf K.pieceLayers with
        | some (.dict d) => itemsFlat d
        | _ => [])

/-! ### the repaired pipelines on what pyben returns -/

/-- `Checker(metafile, path)` … `results()` after the repair, started from `pyben.load` with its
    real types: the decoded value goes to `Impl.recheckMeta` with `hash_bytes` applied
    (`normalise`) -/
def recheckPy (H1 H : Bytes → Bytes) (B hs : Nat) (metafile : Bytes) (arg : RF.ContentArg)
    (disk : RF.Disk) : Except RF.Err (List (Bool × Nat) × Nat × Nat) :=
  match pyLoads metafile with
  | none => .error .decodeError
  | some p =>
    recheckMeta H1 H B hs (normalise p) arg.argName
      (some (arg.place (nameOf (normalise p)) disk))

/-- `rebuild.Metadata.extract` after the repair on the value pyben returns -/
def extractMetaPy (p : PyVal) : Except RF.Err RebuildMeta := extractMeta (normalise p)

/-- `pyben.load` (real types) → `Metadata.extract` → `Metadata.rebuild` after the repair -/
def rebuildFromBytesPy (H1 H : Bytes → Bytes) (B hs ds : Nat) (fs : Rebuild.FS)
    (filemap : Rebuild.FileMap) (dest : Rebuild.Path) (metafile : Bytes) :
    Except RF.Err (List Rebuild.Op × Nat) :=
  match pyLoads metafile with
  | none => .error .decodeError
  | some p => do
    let m ← extractMetaPy p
    let r := rebuildMeta H1 H B hs ds fs filemap dest m
    .ok (r.1, r.2.length)

end Impl
end TorrentVerif

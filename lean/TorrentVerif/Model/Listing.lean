import TorrentVerif.Model.Basic
/-
  Model of how the creators enumerate a content directory:

  * `utils._filelist_total` / `filelist_total` (v1 file list): per directory, concatenate the
    children's lists in the order the OS enumerates them (`Path.iterdir`), then `sorted(...)`
    the full path strings; recursively.
  * `TorrentFileV2._traverse`, `TorrentFileHybrid._traverse`, `TorrentAssembler._traverse`
    (v2 file tree, hybrid file list): `for name in sorted(os.listdir(path))`, recursively.

  Names are raw UTF-8 byte strings; Python compares `str` by code point, which coincides with
  byte order of the UTF-8 encodings (validated by the correspondence check on non-ASCII and
  astral names; not proved here).  The order in which the OS enumerates a directory is a
  parameter `enum` — an arbitrary function that may only permute.
-/
namespace TorrentVerif

/-- a content tree: a regular file with its bytes, or a directory with named entries in
    whatever order they are stored -/
inductive Node
  | file (d : Bytes)
  | dir (es : List (Bytes × Node))

namespace Listing

/-- `/` -/
def sep : UInt8 := 47

/-- lexicographic `≤` on byte strings (Python's `bytes`/`str` comparison) -/
def leBytes : Bytes → Bytes → Bool
  | [], _ => true
  | _ :: _, [] => false
  | a :: as, b :: bs => if a < b then true else if b < a then false else leBytes as bs

/-- order on listed files: by path string only -/
def lePath (a b : Bytes × Bytes) : Bool := leBytes a.1 b.1

/-- order on directory entries: by name only -/
def leName {α : Type} (a b : Bytes × α) : Bool := leBytes a.1 b.1

/-- `os.path.join(pre, name)` / `Path(pre) / name` for a non-empty `pre` -/
def join (pre name : Bytes) : Bytes := pre ++ sep :: name

end Listing

open Listing

namespace Impl

mutual
/-- `utils._filelist_total(path)[1]`: `(full path string, contents)` of every regular file
    under `path`, in the order the v1 metafile lists them. `pre` is `str(path)`.
    `enum` is the OS enumeration order, applied to the per-child results (iterating the
    children in another order = permuting the list of their results). -/
def listV1 (enum : List (List (Bytes × Bytes)) → List (List (Bytes × Bytes))) (pre : Bytes) :
    Node → List (Bytes × Bytes)
  | .file d => [(pre, d)]
  | .dir es => ((enum (listV1Children enum pre es)).flatten).mergeSort lePath
/-- the results of `filelist_total(item)` for the children of a directory, in stored order -/
def listV1Children (enum : List (List (Bytes × Bytes)) → List (List (Bytes × Bytes)))
    (pre : Bytes) : List (Bytes × Node) → List (List (Bytes × Bytes))
  | [] => []
  | (n, c) :: t => listV1 enum (join pre n) c :: listV1Children enum pre t
end

/-- the file tree a v2 / hybrid creator builds: leaves carry the file contents -/
inductive FTree
  | leaf (d : Bytes)
  | node (es : List (Bytes × FTree))

mutual
/-- `_traverse(path)`: directories become dictionaries filled in `sorted(os.listdir)` order.
    `enum` permutes the entries before sorting (the OS order). -/
def traverse (enum : List (Bytes × FTree) → List (Bytes × FTree)) : Node → FTree
  | .file d => .leaf d
  | .dir es => .node ((enum (traverseChildren enum es)).mergeSort leName)
def traverseChildren (enum : List (Bytes × FTree) → List (Bytes × FTree)) :
    List (Bytes × Node) → List (Bytes × FTree)
  | [] => []
  | (n, c) :: t => (n, traverse enum c) :: traverseChildren enum t
end

mutual
/-- files of a file tree in traversal order with their relative path components — the order
    of the hybrid `files` list and of the piece-layer insertion -/
def ftreeFiles (pre : List Bytes) : FTree → List (List Bytes × Bytes)
  | .leaf d => [(pre, d)]
  | .node es => ftreeFilesList pre es
def ftreeFilesList (pre : List Bytes) : List (Bytes × FTree) → List (List Bytes × Bytes)
  | [] => []
  | (n, c) :: t => ftreeFiles (pre ++ [n]) c ++ ftreeFilesList pre t
end

end Impl

namespace Spec

mutual
/-- every regular file under the root exactly once, with its full path string, in stored
    (unsorted) order -/
def allFiles (pre : Bytes) : Node → List (Bytes × Bytes)
  | .file d => [(pre, d)]
  | .dir es => allFilesList pre es
def allFilesList (pre : Bytes) : List (Bytes × Node) → List (Bytes × Bytes)
  | [] => []
  | (n, c) :: t => allFiles (Listing.join pre n) c ++ allFilesList pre t
end

/-- the v1 listing the property asks for: all files, ordered by full path string -/
def sortedFiles (pre : Bytes) (t : Node) : List (Bytes × Bytes) :=
  (allFiles pre t).mergeSort Listing.lePath

mutual
/-- names are non-empty, contain no `/`, and siblings have distinct names — what a real
    directory tree always satisfies -/
def WellNamed : Node → Prop
  | .file _ => True
  | .dir es => WellNamedList es ∧ (es.map (·.1)).Nodup
def WellNamedList : List (Bytes × Node) → Prop
  | [] => True
  | (n, c) :: t => n ≠ [] ∧ Listing.sep ∉ n ∧ WellNamed c ∧ WellNamedList t
end

mutual
/-- every dictionary of a file tree has its keys strictly ascending in byte order (so no key
    occurs twice) — the shape a canonical bencoding needs -/
def KeysAscending : Impl.FTree → Prop
  | .leaf _ => True
  | .node es => KeysAscendingList es ∧
      es.Pairwise (fun a b => Listing.leBytes a.1 b.1 = true ∧ a.1 ≠ b.1)
def KeysAscendingList : List (Bytes × Impl.FTree) → Prop
  | [] => True
  | (_, c) :: t => KeysAscending c ∧ KeysAscendingList t
end

end Spec

namespace Listing

/-- a small concrete tree used by the `example`s: stored (enumeration) order is not sorted,
    one directory is nested, and `a.b` sorts before `a/…` as a full path string but after the
    directory `a` as a name:  `b`, `a/{y, x}`, `a.b`, `c/` (empty directory) -/
def exTree : Node :=
  .dir [([98], .file [1]),
        ([97], .dir [([121], .file [2, 3]), ([120], .file [])]),
        ([97, 46, 98], .file [4]),
        ([99], .dir [])]

end Listing
end TorrentVerif

import TorrentVerif.Model.Path
/-
  Model of `torrentfile/rebuild.py` (as repaired by the `fix:` commits) and of
  `torrentfile.utils.copypath`.

  Effects.  The filesystem is `FS := Path → Option Obj` (regular file with its bytes, or
  directory).  A rebuild is the list of calls `os.mkdir(p)` / `shutil.copy(src, dst)` it makes
  (`Op`), in order; `applyOp` is what such a call does to the filesystem and `Op.writes` is the
  path it creates or overwrites (`shutil.copy` onto an existing directory copies *into* it).
  Python's `dict` filemap is an association list in insertion order.

  Namespaces: `TorrentVerif.Rebuild` (types `Obj`, `FS`, `Op`, `FileRec`, `FileMap`, `Node`,
  `PathNode`, `applyOp(s)`, example worlds `Ex`), `TorrentVerif.Impl` (the functions mirroring the
  Python), `TorrentVerif.Spec` (vocabulary of the property statements).

  Deviations / assumptions:
  * `OSError`s are not modelled.  Where Python would raise (mkdir below a regular file, copying
    onto a directory that contains a directory of the same name, …) the rebuild aborts, so the
    real trace is a prefix of the model's trace; the safety theorems speak about every element of
    the model's trace and hence about every prefix.
  * A filemap entry that is not a readable regular file when it is tried is skipped by the model
    (`readFile? = none`), Python would raise.  `_index_contents` only records regular files, so
    this needs the search directories to change during the rebuild; excluded by `FilemapOK` in
    the completeness theorems, irrelevant for the safety theorems.
  * `os.path.getsize` of a directory is the parameter `ds` (4096 on ext4, other values elsewhere).
  * `os.mkdir("/")` (`if not os.path.exists(root)`, root = first part of an absolute path) is
    unreachable and omitted.
  * Sources and destinations are resolved absolute paths (`Path`); `safe_join` results are mapped
    through `comps` (see Model/Path.lean).
  * File names are byte strings; pyben hands non-UTF-8 keys to Python as `bytes`, which makes
    `os.path.join` raise `TypeError` – out of scope (metafile rejected).
  * progress bar and log messages are not modelled; `cb` is `counted`.
  * BEP 47 padding entries (commit 3952851): `FileRec.pad` is `attr == "p"` of a v1 `files` entry;
    `_find_matches` takes `bytes(stop - start)` for a padding node (`padPart`, `stop = length`
    for `-1`) without looking up, reading or copying anything; `_match_v1` neither marks nor
    counts padding nodes; `self.filenames` (`v1Filenames`) leaves them out.  v2 records and the v1
    single-file record have `pad = false`.
  * v2 file tree: a dict with the key `""` is a file (`MetaTree.file`), anything else a directory;
    a metafile whose `""` entry has no `length` makes `Metadata` raise `KeyError` (not modelled).
  * `_match_v1`/`_match_v2` thread the filesystem state through the `copypath` calls; inside one
    `_find_matches` all reads precede all copies, so the reads use the state at entry.
-/
namespace TorrentVerif.Rebuild

inductive Obj
  | file (d : Bytes)
  | dir
deriving DecidableEq, Repr

abbrev FS := Path → Option Obj

/-- a call that changes the filesystem -/
inductive Op
  | mkdir (p : Path)
  | copy (src dst : Path)
deriving DecidableEq, Repr

/-- a file record of `Metadata.files` (`path` is only used in a log message); `pad` is
    `f.get("attr") == "p"` of a v1 `files` entry (BEP 47 padding file), `False` everywhere else -/
structure FileRec where
  full : Bytes
  filename : Bytes
  length : Nat
  root : Option Bytes
  pad : Bool
deriving DecidableEq, Repr

/-- `filemap`: file name ↦ candidates `(location, size)` in enumeration order -/
abbrev FileMap := List (Bytes × List (Path × Nat))

/-- `(file index, start, stop)`; `stop = none` is Python's `-1` (to the end of the file) -/
abbrev Node := Nat × Nat × Option Nat

/-- a `PathNode`: range plus the file record it was built from (`**current`) -/
structure PathNode where
  idx : Nat
  start : Nat
  stop : Option Nat
  file : FileRec
deriving DecidableEq, Repr

namespace FS

def set (fs : FS) (p : Path) (o : Obj) : FS := fun q => if q = p then some o else fs q

/-- `os.path.exists` -/
def ex (fs : FS) (p : Path) : Bool := (fs p).isSome

/-- `os.path.getsize` (only called on existing paths) -/
def size (ds : Nat) (fs : FS) (p : Path) : Nat :=
  match fs p with
  | some (.file d) => d.length
  | some .dir => ds
  | none => 0

/-- contents of a regular file; `none` when `open(p, "rb")` would raise -/
def readFile? (fs : FS) (p : Path) : Option Bytes :=
  match fs p with
  | some (.file d) => some d
  | _ => none

/-- build a filesystem from a listing (first entry wins) -/
def ofList (l : List (Path × Obj)) : FS := fun p => l.lookup p

end FS

/-- `os.path.basename` of a resolved path (`[]` has none; a regular file is never `/`) -/
def baseName (p : Path) : Comp := p.getLast?.getD []

/-- the path an operation creates or overwrites in state `fs` -/
def Op.writes (fs : FS) : Op → Path
  | .mkdir p => p
  | .copy src dst => if fs dst = some .dir then dst ++ [baseName src] else dst

/-- the path handed to `os.mkdir` / the `dst` handed to `shutil.copy` -/
def Op.target : Op → Path
  | .mkdir p => p
  | .copy _ dst => dst

/-- effect of one call (no effect when `shutil.copy` cannot open its source) -/
def applyOp (fs : FS) : Op → FS
  | .mkdir p => fs.set p .dir
  | .copy src dst =>
    match fs.readFile? src with
    | none => fs
    | some d => fs.set (Op.writes fs (.copy src dst)) (.file d)

def applyOps (fs : FS) (ops : List Op) : FS := ops.foldl applyOp fs

end TorrentVerif.Rebuild

namespace TorrentVerif
open Rebuild PosixPath

namespace Impl

/-! ### `Metadata.extract` -/

/-- v1 `info["files"]` entry: `(path elements, length, attr == "p")`.  `none` = `IndexError` on
    `path[-1]` (empty path list): the `Metadata` constructor raises and the metafile is not
    processed. -/
def extractV1Multi (name : Bytes) : List (List Bytes × Nat × Bool) → Option (List FileRec)
  | [] => some []
  | (path, len, pad) :: rest =>
    match path.getLast?, extractV1Multi name rest with
    | some fn, some r => some (⟨joinAll name path, fn, len, none, pad⟩ :: r)
    | _, _ => none

/-- `self.filenames` of a v1 multi-file metafile: the names `_index_contents` looks for; padding
    entries are left out -/
def v1Filenames (files : List FileRec) : List Bytes :=
  (files.filter (fun r => !r.pad)).map (·.filename)

/-- v1 single file (`"length" in info`) -/
def extractV1Single (name : Bytes) (len : Nat) : List FileRec := [⟨name, name, len, none, false⟩]

/-- v2 `file tree`: a dict whose value has the key `""` is a file, otherwise a directory -/
inductive MetaTree
  | file (length : Nat) (root : Option Bytes)
  | dir (entries : List (Bytes × MetaTree))

mutual
/-- `Metadata._parse_tree(tree, partials)`; `full = str(Path(*partials) / key)` -/
def parseTree (partials : List Bytes) : List (Bytes × MetaTree) → List FileRec
  | [] => []
  | (key, val) :: rest => parseEntry partials key val ++ parseTree partials rest
def parseEntry (partials : List Bytes) (key : Bytes) : MetaTree → List FileRec
  | .file len root => [⟨pathlibStr (partials ++ [key]), key, len, root, false⟩]
  | .dir es => parseTree (partials ++ [key]) es
end

/-- v2 branch of `extract`: the single-file rule -/
def extractV2 (name : Bytes) (tree : List (Bytes × MetaTree)) : List FileRec :=
  match tree with
  | [(k, .file _ _)] => if k = name then parseTree [] tree else parseTree [name] tree
  | _ => parseTree [name] tree

/-! ### `Metadata._map_pieces` -/

/-- loop state between pieces: `remainder`, `file_index`, `current["length"]` and the
    lengths of `files[file_index:]` -/
structure MPState where
  remainder : Nat
  idx : Nat
  cur : Nat
  rest : List Nat
deriving Repr, DecidableEq

/-- the `while target > 0 and file_index < len(self.files)` loop; entered with `remainder = 0`
    whenever `target > 0` -/
def fillPiece : (target idx cur : Nat) → (rest : List Nat) → List Node × MPState
  | _, idx, cur, [] => ([], ⟨0, idx, cur, []⟩)
  | target, idx, cur, size :: rest =>
    if target = 0 then ([], ⟨0, idx, cur, size :: rest⟩)
    else if size < target then
      let r := fillPiece (target - size) (idx + 1) size rest
      ((idx, 0, none) :: r.1, r.2)
    else
      ([(idx, 0, some target)],
        if size - target = 0 then ⟨0, idx + 1, size, rest⟩ else ⟨size - target, idx, size, size :: rest⟩)

/-- body of `for i in range(total_pieces)` -/
def pieceStep (pl : Nat) (st : MPState) : List Node × MPState :=
  if st.remainder ≠ 0 then
    let start := st.cur - st.remainder
    if st.remainder < pl then
      let r := fillPiece (pl - st.remainder) (st.idx + 1) st.cur st.rest.tail
      ((st.idx, start, none) :: r.1, r.2)
    else
      ([(st.idx, start, some (start + pl))],
        if st.remainder - pl = 0 then ⟨0, st.idx + 1, st.cur, st.rest.tail⟩
        else ⟨st.remainder - pl, st.idx, st.cur, st.rest⟩)
  else fillPiece pl st.idx st.cur st.rest

def mapLoop (pl : Nat) : Nat → MPState → List (List Node) × MPState
  | 0, st => ([], st)
  | n + 1, st =>
    let r := pieceStep pl st
    let q := mapLoop pl n r.2
    (r.1 :: q.1, q.2)

/-- the final `while self.piece_nodes and file_index < len(self.files)` loop -/
def trailing (idx : Nat) : List Nat → List Node
  | [] => []
  | size :: rest => if size ≠ 0 then [] else (idx, 0, none) :: trailing (idx + 1) rest

/-- `self.piece_nodes[-1].append(...)` for each element of `x` (nothing if there is no piece) -/
def appendLast : List (List α) → List α → List (List α)
  | [], _ => []
  | [a], x => [a ++ x]
  | a :: b :: r, x => a :: appendLast (b :: r) x

/-- `Metadata._map_pieces`: the path nodes of each of the `numPieces = len(pieces) // 20` pieces. -/
def mapPieces (pl numPieces : Nat) (lengths : List Nat) : List (List Node) :=
  let r := mapLoop pl numPieces ⟨0, 0, 0, lengths⟩
  appendLast r.1 (trailing r.2.idx r.2.rest)

/-! ### `PathNode.get_part` -/

/-- `fd.seek(start); fd.read(stop - start)` or `fd.read()`.  (`stop ≥ start` for every node
    produced by `mapPieces`, see `mapPieces_wf`.) -/
def getPart (start : Nat) (stop : Option Nat) (d : Bytes) : Bytes :=
  match stop with
  | none => d.drop start
  | some e => (d.drop start).take (e - start)

/-! ### `utils.copypath` -/

/-- `for part in path_parts[1:-1]: path = join(root, part); if not exists(path): mkdir(path)` -/
def mkdirChain (fs : FS) : Path → List Comp → List Op
  | _, [] => []
  | root, part :: rest =>
    (if fs.ex (root ++ [part]) then [] else [Op.mkdir (root ++ [part])])
      ++ mkdirChain fs (root ++ [part]) rest

/-- the calls made by `copypath(source, dest)` in state `fs` -/
def copypath (ds : Nat) (fs : FS) (src dst : Path) : List Op :=
  if !fs.ex src || (fs.ex dst && decide (fs.size ds src ≤ fs.size ds dst)) then []
  else if dst = [] then []
  else mkdirChain fs [] dst.dropLast ++ [Op.copy src dst]

/-- a sequence of `copypath` calls, each seeing the effects of the previous ones -/
def runCalls (ds : Nat) : FS → List (Path × Path) → List Op
  | _, [] => []
  | fs, (s, d) :: rest =>
    let o := copypath ds fs s d
    o ++ runCalls ds (applyOps fs o) rest

/-! ### `PieceNode._find_matches` -/

/-- what a padding node contributes: `bytes(stop - start)` with `stop = length` for `-1` -/
def padPart (pn : PathNode) : Bytes := zeros (pn.stop.getD pn.file.length - pn.start)

/-- the bytes a node contributes to the piece when its file has contents `d` -/
def nodePart (pn : PathNode) (d : Bytes) : Bytes :=
  if pn.file.pad then padPart pn else getPart pn.start pn.stop d

/-- `none` = `False`; `some calls` = `True` together with the `copypath(loc, dest_path)` calls
    made on the way back up, in execution order (deepest node first).  All reads happen before
    the first copy, so the reads use the state `fs` at entry. -/
def findMatches (H1 : Bytes → Bytes) (fs : FS) (filemap : FileMap) (dest : Path) (piece : Bytes) :
    List PathNode → Bytes → Option (List (Path × Path))
  | [], data => if H1 data = piece then some [] else none
  | pn :: rest, data =>
    if pn.file.pad then findMatches H1 fs filemap dest piece rest (data ++ padPart pn)
    else
    match filemap.lookup pn.file.filename with
    | none => none
    | some cands =>
      cands.findSome? (fun (c : Path × Nat) =>
        if c.2 ≠ pn.file.length then none
        else match fs.readFile? c.1 with
          | none => none
          | some d =>
            match findMatches H1 fs filemap dest piece rest (data ++ getPart pn.start pn.stop d) with
            | none => none
            | some calls =>
              some (calls ++ (match safeJoin dest pn.file.full with
                              | some dp => [(c.1, dp)]
                              | none => [])))

/-! ### `Metadata._match_v1` -/

/-- the inner `for pathnode in paths` of `_match_v1`: new `copied` list and the files counted -/
def markCopied (dest : Path) : List Bytes → List PathNode → List Bytes × List Bytes
  | copied, [] => (copied, [])
  | copied, pn :: rest =>
    if pn.file.pad then markCopied dest copied rest
    else if pn.file.full ∈ copied then markCopied dest copied rest
    else
      let r := markCopied dest (copied ++ [pn.file.full]) rest
      (r.1, (if (safeJoin dest pn.file.full).isSome then [pn.file.full] else []) ++ r.2)

/-- `len(paths) == 1 and paths[0].full in copied` -/
def skipPiece (copied : List Bytes) : List PathNode → Bool
  | [pn] => decide (pn.file.full ∈ copied)
  | _ => false

/-- `for piece_node in self.piece_nodes`: returns the operations and the counted files -/
def matchV1Loop (H1 : Bytes → Bytes) (ds : Nat) (filemap : FileMap) (dest : Path) :
    FS → List Bytes → List (Bytes × List PathNode) → List Op × List Bytes
  | _, _, [] => ([], [])
  | fs, copied, (piece, paths) :: rest =>
    if skipPiece copied paths then
      matchV1Loop H1 ds filemap dest fs copied rest
    else
      match findMatches H1 fs filemap dest piece paths [] with
      | none => matchV1Loop H1 ds filemap dest fs copied rest
      | some calls =>
        let o := runCalls ds fs calls
        let m := markCopied dest copied paths
        let r := matchV1Loop H1 ds filemap dest (applyOps fs o) m.1 rest
        (o ++ r.1, m.2 ++ r.2)

/-- attach the file records to the nodes of `mapPieces` (indices are in range: `mapPieces_wf`) -/
def toPathNodes (files : List FileRec) (nodes : List Node) : List PathNode :=
  nodes.filterMap (fun n => files[n.1]?.map (fun r => ⟨n.1, n.2.1, n.2.2, r⟩))

/-- `self.piece_nodes` after `_map_pieces()`: recorded digest and path nodes of every piece -/
def v1PieceNodes (pl : Nat) (pieces : List Bytes) (files : List FileRec) : List (Bytes × List PathNode) :=
  pieces.zip ((mapPieces pl pieces.length (files.map (·.length))).map (toPathNodes files))

/-- `Metadata._match_v1(filemap, dest)`: `pieces` are the 20-byte digests of `info["pieces"]`. -/
def matchV1 (H1 : Bytes → Bytes) (ds : Nat) (fs : FS) (filemap : FileMap) (dest : Path)
    (pl : Nat) (pieces : List Bytes) (files : List FileRec) : List Op × List Bytes :=
  matchV1Loop H1 ds filemap dest fs [] (v1PieceNodes pl pieces files)

/-! ### `Metadata._match_v2` -/

/-- `entry["root"] == HasherV2(path, piece_length, True).root` (`entry["root"]` may be `None`) -/
def rootMatches (rootOf : Bytes → Bytes) (fs : FS) (r : FileRec) (path : Path) : Bool :=
  match fs.readFile? path with
  | some d => decide (r.root = some (rootOf d))
  | none => false

/-- `for path, size in paths` of `_match_v2`: `some (source, dest_path)` when `copypath` is
    reached; `none` when the loop ends or `break`s without copying. -/
def matchV2Pick (rootOf : Bytes → Bytes) (fs : FS) (dest : Path) (r : FileRec) :
    List (Path × Nat) → Option (Path × Path)
  | [] => none
  | (path, size) :: rest =>
    if size = r.length then
      if r.length = 0 ∨ rootMatches rootOf fs r path then
        match safeJoin dest r.full with
        | none => none
        | some dp => some (path, dp)
      else matchV2Pick rootOf fs dest r rest
    else matchV2Pick rootOf fs dest r rest

/-- `Metadata._match_v2(filemap, dest)`: operations and counted files.  `rootOf d` is
    `HasherV2(path, piece_length, True).root` for a file with contents `d`. -/
def matchV2 (rootOf : Bytes → Bytes) (ds : Nat) (filemap : FileMap) (dest : Path) :
    FS → List FileRec → List Op × List Bytes
  | _, [] => ([], [])
  | fs, r :: rest =>
    match filemap.lookup r.filename with
    | none => matchV2 rootOf ds filemap dest fs rest
    | some cands =>
      match matchV2Pick rootOf fs dest r cands with
      | none => matchV2 rootOf ds filemap dest fs rest
      | some (src, dp) =>
        let o := copypath ds fs src dp
        let q := matchV2 rootOf ds filemap dest (applyOps fs o) rest
        (o ++ q.1, r.full :: q.2)

/-! ### `_index_contents` -/

/-- a search tree: regular file or directory listing in `os.listdir` order -/
inductive STree
  | file (d : Bytes)
  | dir (entries : List (Comp × STree))

/-- `mapping.setdefault(key, []); mapping[key].extend(value)` -/
def fmExtend : FileMap → Bytes → List (Path × Nat) → FileMap
  | [], k, v => [(k, v)]
  | (k', v') :: rest, k, v => if k' = k then (k', v' ++ v) :: rest else (k', v') :: fmExtend rest k v

def fmMerge (m add : FileMap) : FileMap := add.foldl (fun acc kv => fmExtend acc kv.1 kv.2) m

mutual
/-- `_index_content(root, filenames)` for the tree found at `root` -/
def indexContent (filenames : List Bytes) (root : Path) : STree → FileMap
  | .file d => if baseName root ∈ filenames then [(baseName root, [(root, d.length)])] else []
  | .dir es => indexEntries filenames root es
def indexEntries (filenames : List Bytes) (root : Path) : List (Comp × STree) → FileMap
  | [] => []
  | (n, t) :: rest => fmMerge (indexContent filenames (root ++ [n]) t) (indexEntries filenames root rest)
end

/-- `_index_contents(contents, filenames)`: the search roots in the given order.
    (Python folds from the left; `fmMerge` is associative, so the right-nested form is equal.) -/
def indexContents (filenames : List Bytes) : List (Path × STree) → FileMap
  | [] => []
  | (root, t) :: rest => fmMerge (indexContent filenames root t) (indexContents filenames rest)

end Impl

namespace Spec

/-- piece `i` of the v1 byte stream of a torrent with the given file contents -/
def pieceOf (pl : Nat) (files : List Bytes) (i : Nat) : Option Bytes := (chunks pl files.flatten)[i]?

/-- what a node denotes when read from the original files -/
def readNode (files : List Bytes) (n : Node) : Bytes := Impl.getPart n.2.1 n.2.2 (files[n.1]?.getD [])

/-- the destination directory and all its ancestors exist (the rebuild is given an existing
    destination; otherwise `copypath` would have to create ancestors outside of it) -/
def DestReady (fs : FS) (dest : Path) : Prop :=
  fs dest = some .dir ∧ ∀ k, k < dest.length → (fs (dest.take k)).isSome = true

instance (fs : FS) (dest : Path) : Decidable (DestReady fs dest) := by
  unfold DestReady; infer_instance

/-- a combination of candidates for the path nodes of a piece: for every node that is not a
    padding node one readable same-name same-size candidate `(location, contents)`; the entry
    for a padding node is a placeholder (padding files are not looked up) -/
def Combo (fs : FS) (filemap : FileMap) : List PathNode → List (Path × Bytes) → Prop
  | [], [] => True
  | pn :: ps, c :: cs =>
    (pn.file.pad = false → ∃ cands sz, filemap.lookup pn.file.filename = some cands ∧ (c.1, sz) ∈ cands ∧
      sz = pn.file.length ∧ fs.readFile? c.1 = some c.2) ∧ Combo fs filemap ps cs
  | _, _ => False

/-- the bytes such a combination contributes to the piece (what is handed to SHA-1); a padding
    node contributes zeros -/
def comboData : List PathNode → List (Path × Bytes) → Bytes
  | pn :: ps, c :: cs => Impl.nodePart pn c.2 ++ comboData ps cs
  | _, _ => []

/-- the filemap describes the search directories: every candidate is a regular file of the
    recorded size (what `_index_contents` records) and lies outside of the destination -/
def FilemapOK (fs : FS) (dest : Path) (filemap : FileMap) : Prop :=
  ∀ name cands, filemap.lookup name = some cands →
    ∀ c ∈ cands, ¬ dest <+: c.1 ∧ ∃ d, fs.readFile? c.1 = some d ∧ d.length = c.2

/-- an intact copy of the v2 file record `r` is among the candidates: same name, the recorded
    length, and (unless empty) contents whose merkle root is the recorded one -/
def IntactV2 (rootOf : Bytes → Bytes) (fs : FS) (filemap : FileMap) (r : FileRec) : Prop :=
  ∃ cands p d, filemap.lookup r.filename = some cands ∧ (p, r.length) ∈ cands ∧
    fs.readFile? p = some d ∧ (r.length ≠ 0 → r.root = some (rootOf d))

/-- in the original payload a padding entry stands for zero bytes (BEP 47) -/
def PadsAreZeros (files : List FileRec) (orig : List Bytes) : Prop :=
  ∀ (i : Nat) (r : FileRec), files[i]? = some r → r.pad = true → orig[i]? = some (zeros r.length)

/-- an intact copy of every v1 file that is not a padding entry is among the candidates: `orig`
    are the original contents of the entries in metafile order -/
def IntactV1 (fs : FS) (filemap : FileMap) (files : List FileRec) (orig : List Bytes) : Prop :=
  ∀ (i : Nat) (r : FileRec), files[i]? = some r → r.pad = false → ∃ cands loc o, filemap.lookup r.filename = some cands ∧
    (loc, r.length) ∈ cands ∧ fs.readFile? loc = some o ∧ orig[i]? = some o

/-- no partial decoy: a same-name same-size candidate that agrees with the original on the range
    of the file covered by some piece is identical to the original -/
def NoPartialDecoy (fs : FS) (filemap : FileMap) (pieceNodes : List (Bytes × List PathNode))
    (orig : List Bytes) : Prop :=
  ∀ pp ∈ pieceNodes, ∀ pn ∈ pp.2, pn.file.pad = false →
    ∀ cands loc d o, filemap.lookup pn.file.filename = some cands →
    (loc, pn.file.length) ∈ cands → fs.readFile? loc = some d → orig[pn.idx]? = some o →
    Impl.getPart pn.start pn.stop d = Impl.getPart pn.start pn.stop o → d = o

/-- the accepted destinations of different (non-padding) file records are different and not nested (true of
    every metafile made from a real directory tree) -/
def DestsSeparate (dest : Path) (files : List FileRec) : Prop :=
  ∀ (i j : Nat) (ri rj : FileRec) (di dj : Path), files[i]? = some ri → files[j]? = some rj →
    ri.pad = false → rj.pad = false → Impl.safeJoin dest ri.full = some di → Impl.safeJoin dest rj.full = some dj → dj <+: di → i = j

/-- nothing exists yet at the accepted destinations of the (non-padding) files (rebuild into a fresh directory) -/
def DestFresh (fs : FS) (dest : Path) (files : List FileRec) : Prop :=
  ∀ r ∈ files, r.pad = false → ∀ d, Impl.safeJoin dest r.full = some d → fs d = none

/-- the hypothesis of known finding KF-C13-1: for the FIRST piece that has a node of a file, a
    same-name same-size candidate that is enumerated BEFORE an intact copy `c` of the file and
    agrees with the original on the node's range is identical to the original -/
def NoFirstPieceDecoy (fs : FS) (filemap : FileMap) (pieceNodes : List (Bytes × List PathNode))
    (orig : List Bytes) : Prop :=
  ∀ pre pp post, pieceNodes = pre ++ pp :: post → ∀ pn ∈ pp.2, pn.file.pad = false →
    (∀ pp' ∈ pre, ∀ pn' ∈ pp'.2, pn'.idx ≠ pn.idx) →
    ∀ cands l1 c l2 o, filemap.lookup pn.file.filename = some cands → cands = l1 ++ c :: l2 →
      c.2 = pn.file.length → fs.readFile? c.1 = some o → orig[pn.idx]? = some o →
      ∀ x ∈ l1, x.2 = pn.file.length → ∀ d, fs.readFile? x.1 = some d →
        Impl.getPart pn.start pn.stop d = Impl.getPart pn.start pn.stop o → d = o

/-- a property of every operation of a trace, evaluated in the state in which it is executed -/
def TraceAll (P : FS → Op → Prop) : FS → List Op → Prop
  | _, [] => True
  | fs, op :: rest => P fs op ∧ TraceAll P (applyOp fs op) rest

end Spec

/-! a small world used by the `example`s of the property files -/
namespace Rebuild.Ex
/-- `/d` (destination) and `/s` exist, `/s/f` holds the bytes 1 2 3 -/
def fs : FS := FS.ofList [([], .dir), ([[100]], .dir), ([[115]], .dir), ([[115], [102]], .file [1, 2, 3])]
/-- the filemap `{"f": [("/s/f", 3)]}` -/
def fmap : FileMap := [([102], [([[115], [102]], 3)])]
/-- a world with a decoy: `/s/k/f` = 1 2 9 9 is enumerated before the original `/s/f` = 1 2 3 4 -/
def fs2 : FS := FS.ofList [([], .dir), ([[100]], .dir), ([[115]], .dir), ([[115], [107]], .dir),
  ([[115], [107], [102]], .file [1, 2, 9, 9]), ([[115], [102]], .file [1, 2, 3, 4])]
/-- `{"f": [("/s/k/f", 4), ("/s/f", 4)]}` -/
def fmap2 : FileMap := [([102], [([[115], [107], [102]], 4), ([[115], [102]], 4)])]
/-- the same files with the original enumerated first: `{"f": [("/s/f", 4), ("/s/k/f", 4)]}` -/
def fmap3 : FileMap := [([102], [([[115], [102]], 4), ([[115], [107], [102]], 4)])]
/-- a world for a metafile with a padding entry: `/s/a` = 1 2 3 and `/s/b` = 5 6 -/
def fsP : FS := FS.ofList [([], .dir), ([[100]], .dir), ([[115]], .dir),
  ([[115], [97]], .file [1, 2, 3]), ([[115], [98]], .file [5, 6])]
/-- `{"a": [("/s/a", 3)], "b": [("/s/b", 2)]}` – no entry for the padding file -/
def fmapP : FileMap := [([97], [([[115], [97]], 3)]), ([98], [([[115], [98]], 2)])]
/-- `T/a` (3 bytes), the padding entry `T/.pad/1` (1 byte), `T/b` (2 bytes); piece length 4 -/
def filesP : List FileRec :=
  [⟨[84,47,97], [97], 3, none, false⟩, ⟨[84,47,46,112,97,100,47,49], [49], 1, none, true⟩,
   ⟨[84,47,98], [98], 2, none, false⟩]
/-- the payload: the padding entry stands for one zero byte -/
def origP : List Bytes := [[1, 2, 3], [0], [5, 6]]
end Rebuild.Ex

end TorrentVerif

import TorrentVerif.Model.Basic
import TorrentVerif.Model.ExceptEq
/-
  Effects model for C17 (edit crash safety) and C18 (read-only commands, create, rename).

  A filesystem is an association list from path strings to file contents (regular files only;
  directories are implicit in the path strings; metadata such as atime/mode is out of scope).
  A command is the list of filesystem operations it performs; the real lists are observed with
  `sys.addaudithook` by the harness and compared with the lists given here.

  Assumptions of the model, stated once:
  * `os.replace`/`os.rename` is atomic (rename(2)): a crash leaves either the state before or
    the state after it, and a failing replace has no effect.
  * A failing `open`, `remove` or `replace` has no effect.  A failing `write` may have written
    any prefix of its data (short write, ENOSPC).
  * The `finally` clause of `edit_torrent` (`if os.path.exists(temp): os.remove(temp)`) does not
    itself fail, and a process that dies does not run it.
  * Durability across power loss (no `fsync` in the code) is not modelled.
-/
namespace TorrentVerif

abbrev Path := String

/-- Filesystem: association list path ↦ bytes.  `get` reads the first entry for a path,
    `set` overwrites it in place or appends a new entry, `del` removes every entry of the path. -/
abbrev FS := List (Path × Bytes)

namespace FS

def get : FS → Path → Option Bytes
  | [], _ => none
  | (q, c) :: r, p => if q = p then some c else get r p

def has (fs : FS) (p : Path) : Bool := (get fs p).isSome

def set : FS → Path → Bytes → FS
  | [], p, b => [(p, b)]
  | (q, c) :: r, p, b => if q = p then (q, b) :: r else (q, c) :: set r p b

def del (fs : FS) (p : Path) : FS := fs.filter (fun e => e.1 ≠ p)

end FS

/-- Filesystem operations a command performs. -/
inductive Op
  /-- `open(p, 'rb')` + read: fails when `p` does not exist, changes nothing. -/
  | read (p : Path)
  /-- `open(p, 'wb')`: create an empty file or truncate an existing one. -/
  | create (p : Path)
  /-- `fd.write(d)` on the handle of `p`: appends `d` to what the file holds. -/
  | write (p : Path) (d : Bytes)
  /-- `open(p, 'ab')` and close: creates an empty file if `p` is absent, otherwise nothing. -/
  | touch (p : Path)
  /-- `os.replace(src, dst)` / `os.rename(src, dst)`: `dst` gets the bytes of `src`, `src` disappears. -/
  | replace (src dst : Path)
  /-- `os.remove(p)`: fails when `p` does not exist. -/
  | remove (p : Path)
  deriving DecidableEq, Repr

/-- Is the operation a pure read? -/
def Op.isRead : Op → Bool
  | .read _ => true
  | _ => false

/-- One operation carried out completely; `none` = the operating system refuses (the Python
    call raises `FileNotFoundError`). -/
def applyOp (fs : FS) : Op → Option FS
  | .read p => if fs.has p then some fs else none
  | .create p => some (fs.set p [])
  | .write p d => match fs.get p with
    | some c => some (fs.set p (c ++ d))
    | none => none
  | .touch p => if fs.has p then some fs else some (fs.set p [])
  | .replace s d => match fs.get s with
    | some c => some ((fs.del s).set d c)
    | none => none
  | .remove p => if fs.has p then some (fs.del p) else none

/-- A list of operations carried out one after the other. -/
def run (fs : FS) : List Op → Option FS
  | [] => some fs
  | o :: r => match applyOp fs o with
    | some fs' => run fs' r
    | none => none

/-- The operation at index `i` is interrupted: a `write` has put `k` bytes of its data on disk
    (all of them when `k` exceeds the length), every other operation has had no effect. -/
def interrupted (fs : FS) (ops : List Op) (i k : Nat) : Option FS :=
  match ops[i]? with
  | some (.write p d) => applyOp fs (.write p (d.take k))
  | _ => some fs

/-- Filesystem found after the process died at crash point `(c, k)`: the first `c` operations
    were completed, operation number `c` (if any) was interrupted after `k` bytes.
    `c = 0` is "before anything", `c = ops.length` is "after everything". -/
def crashState (fs : FS) (ops : List Op) (c k : Nat) : Option FS :=
  match run fs (ops.take c) with
  | some s => interrupted s ops c k
  | none => none

/-- Filesystem found after operation number `i` raised an I/O error (after `k` bytes if it is
    a write) and the `finally` clause `fin` (a function of the state it finds) has run.
    `i ≥ ops.length` is the run in which nothing raises. -/
def errorState (fs : FS) (ops : List Op) (fin : FS → List Op) (i k : Nat) : Option FS :=
  match crashState fs ops i k with
  | some s => run s (fin s)
  | none => none

namespace Impl

/-- `temp = str(metafile) + ".part"` -/
def partPath (mf : Path) : Path := mf ++ ".part"

/-- `edit_torrent` after `fix: edit replaces the metafile atomically instead of removing it first`:
    ```
    meta = pyben.load(metafile)            -- read
    …                                      -- pure dictionary work
    temp = str(metafile) + ".part"
    try:
        pyben.dump(meta, temp)             -- encoded = benencode(meta)   (pure, may raise)
                                           -- open(temp,'wb')  (create)  ; fd.write(encoded)  (write)
        os.replace(temp, metafile)         -- replace
    finally: …
    ```
    `enc` is the result of the encoder: `none` when `benencode` raises — this happens before
    `open`, so no mutating operation is performed. -/
def editOps (mf : Path) (enc : Option Bytes) : List Op :=
  .read mf :: match enc with
    | none => []
    | some new => [.create (partPath mf), .write (partPath mf) new, .replace (partPath mf) mf]

/-- `edit_torrent` after `fix: a leftover '.part' entry is removed before the edited metafile is
    written`, for a filesystem that may already hold `<metafile>.part` (left behind by an edit
    that died):
    ```
    meta = pyben.load(metafile)            -- read
    try:
        if os.path.lexists(temp): os.remove(temp)     -- only when the leftover is there
        pyben.dump(meta, temp)             -- encode (may raise), open(temp,'wb'), write
        os.replace(temp, metafile)
    finally: …
    ```
    Without a leftover this is `editOps` (`editOpsFrom_eq`).  Note that the leftover is removed
    BEFORE the encoder runs, so an encoding error no longer leaves it in place.  (Links are not
    in this model; for a regular leftover file `lexists` = `exists`.) -/
def editOpsFrom (fs : FS) (mf : Path) (enc : Option Bytes) : List Op :=
  .read mf :: ((if fs.has (partPath mf) then [.remove (partPath mf)] else []) ++
    match enc with
    | none => []
    | some new => [.create (partPath mf), .write (partPath mf) new, .replace (partPath mf) mf])

/-- `finally: if os.path.exists(temp): os.remove(temp)` -/
def editFinally (mf : Path) (fs : FS) : List Op :=
  if fs.has (partPath mf) then [.remove (partPath mf)] else []

/-- What is found after operation number `i` of `editOpsFrom` raised.  The load (operation 0)
    happens BEFORE the `try:`, so an error there propagates without the `finally` clause — a
    leftover `.part` stays; every later operation is inside the `try`. -/
def editError (fs : FS) (mf : Path) (enc : Option Bytes) (i k : Nat) : Option FS :=
  if i = 0 then crashState fs (editOpsFrom fs mf enc) 0 k
  else errorState fs (editOpsFrom fs mf enc) (editFinally mf) i k

/-- The order of operations before the fix (`os.remove(metafile); pyben.dump(meta, metafile)`),
    kept to document why the fix was needed. -/
def editOpsOld (mf : Path) (new : Bytes) : List Op :=
  [.read mf, .remove mf, .create mf, .write mf new]

/-- `path.endswith("\\") or path.endswith("/")`, equivalently `path[-1] in "\\/"` for a
    non-empty path. -/
def endsWithSep (p : Path) : Bool :=
  match p.toList.getLast? with
  | some c => c == '/' || c == '\\'
  | none => false

/-- `utils.check_path_writable(path)` after `fix: the writability probe only removes a file it
    created itself` (and `fix: the writability probe follows a symbolic link instead of removing
    it`: `path = os.path.realpath(path)` — the identity in this model, which has no links):
    ```
    if path.endswith("\\") or path.endswith("/"): path = os.path.join(path, ".torrent")
    path = os.path.realpath(path)
    existed = os.path.exists(path)
    with open(path, "ab") as _: pass
    if not existed: os.remove(path)
    ```
    `os.path.join(d + "/", ".torrent") = d + "/.torrent"`. -/
def probePath (out : Path) : Path :=
  if endsWithSep out then out ++ ".torrent" else out

def probeOps (fs : FS) (out : Path) : List Op :=
  .touch (probePath out) :: (if fs.has (probePath out) then [] else [.remove (probePath out)])

/-- `commands.create` probes `args.outfile` when it is truthy, else
    `os.path.join(os.getcwd(), ".torrent")`. -/
def probeArg (outfile : Option Path) (cwd : Path) : Path :=
  match outfile with
  | some out => if out = "" then cwd ++ "/.torrent" else out
  | none => cwd ++ "/.torrent"

/-- Where `MetaFile.write` puts the metafile:
    ```
    if not self.outfile: self.outfile = os.path.join(os.getcwd(), self.name) + ".torrent"
    if str(self.outfile)[-1] in "\\/": self.outfile = self.outfile + (self.name + ".torrent")
    ``` -/
def outPath (outfile : Option Path) (cwd : Path) (name : String) : Path :=
  match outfile with
  | some out =>
    if out = "" then cwd ++ "/" ++ name ++ ".torrent"
    else if endsWithSep out then out ++ (name ++ ".torrent") else out
  | none => cwd ++ "/" ++ name ++ ".torrent"

/-- The `create` command (`commands.create`): the writability probe, reading the payload
    (a sequence of `read` operations on the paths `payload`), then
    `pyben.dump(meta, outfile)` = `open(outfile,'wb')` + one write. -/
def createOps (fs : FS) (outfile : Option Path) (cwd : Path) (name : String)
    (payload : List Path) (data : Bytes) : List Op :=
  probeOps fs (probeArg outfile cwd) ++ payload.map .read ++
    [.create (outPath outfile cwd name), .write (outPath outfile cwd name) data]

/-- `info` (`commands.info`): `pyben.load(metafile)`. -/
def infoOps (mf : Path) : List Op := [.read mf]

/-- `magnet` (`commands.magnet`): `pyben.load(metafile)`. -/
def magnetOps (mf : Path) : List Op := [.read mf]

/-- `recheck` (`commands.recheck` → `Checker`): `pyben.load(metafile)`, then the payload files
    that are present (`present`) are opened `'rb'`, possibly several times. -/
def recheckOps (mf : Path) (present : List Path) : List Op :=
  .read mf :: present.map .read

/-- Outcome of the `rename` command. -/
inductive RenameErr
  | notFound
  | exists
  /-- `ValueError`: `info.name` has no usable last component (`""`, `.`, `..`); raised by the name
      handling (`Model/RenameName.lean`, `Impl.renameTarget`), never by `renameOps` -/
  | badName
  deriving DecidableEq, Repr

/-- `commands.rename` (after `fix: rename keeps the metafile in its directory and never replaces
    a link`):
    ```
    if not target or not os.path.exists(target): raise FileNotFoundError
    meta = pyben.load(target)                                   -- read
    name = os.path.basename(str(meta["info"]["name"]).rstrip("/"))
    if name in ("", ".", ".."): raise ValueError                -- nothing has been written
    new_path = os.path.join(os.path.dirname(target), name + ".torrent")
    if os.path.lexists(new_path): raise FileExistsError
    os.rename(target, new_path)
    ```
    `newPath` is the computed `new_path` (a pure function of the target path and the metafile;
    the `ValueError` branch, which performs no mutating operation, is the case "no `newPath`"
    and is not represented).  Links are not in this model: for regular files `lexists` = `has`.
    When the code refuses with `FileExistsError` it has already performed the read; the model
    returns the error without an operation list (both are read-only). -/
def renameOps (fs : FS) (target newPath : Path) : Except RenameErr (List Op) :=
  if ¬ fs.has target then .error .notFound
  else if fs.has newPath then .error .exists
  else .ok [.read target, .replace target newPath]

end Impl
end TorrentVerif

import TorrentVerif.Model.Effects
import TorrentVerif.Model.Spelling
import TorrentVerif.Model.PyDecode
/-
  The NAME handling of `torrentfile.commands.rename` (after `fix: rename keeps the metafile in
  its directory and never replaces a link`):

      target = args.target
      if not target or not os.path.exists(target): raise FileNotFoundError
      meta = pyben.load(target)
      name = os.path.basename(str(meta["info"]["name"]).rstrip("/"))
      if name in ("", ".", ".."): raise ValueError(meta["info"]["name"])
      parent = os.path.dirname(target)
      new_path = os.path.join(parent, name + ".torrent")
      if os.path.lexists(new_path): raise FileExistsError
      os.rename(target, new_path)

  `Model/Effects.lean` has the effects of the command for a GIVEN `new_path` (`Impl.renameOps`);
  this file computes `new_path` (`Impl.renameTarget`) from the target path and the byte string
  `info.name`, and puts the two together (`Impl.renameCmd`), with `os.path.lexists` as membership
  in the set of existing directory entries (regular files of the `FS` plus `others`: directories,
  symbolic links — dangling ones too —, anything else).

  Path strings are `Bytes`: the Python `str` encoded as UTF-8, as in `Model/Path.lean` /
  `Model/Spelling.lean` (`/` = 47 and `.` = 46 are ASCII, so `rstrip("/")`, `basename`, `dirname`
  and `join` commute with the encoding).  `PosixPath.basename` (Model/Spelling) and
  `PosixPath.join` (Model/Path) are reused; `PosixPath.dirname` and `PosixPath.rstripSep` are new.

  `str(meta["info"]["name"])`: pyben hands out a `str` when the bytes are valid UTF-8 — then
  `str()` is the identity — and `bytes` otherwise, and `str()` of a `bytes` object is its
  `repr` (`b'…'` with escapes): `Impl.pyStr`.  So `renameTarget` is total on byte strings.

  The effects model keys files by `String` (`TorrentVerif.Path`); a POSIX path is a byte string.
  `Impl.fsKey` reads every byte as the code point of the same number (injective:
  `Proofs/RenameName.fsKey_injective`); it is used as a key only.

  Deviations / not modelled:
  * a name containing a NUL byte: `os.path.lexists` answers `False` and `os.rename` raises
    `ValueError: embedded null byte` (nothing is renamed); the model has no NUL rule.
  * a name so long that `name + ".torrent"` exceeds the file-name limit (`OSError` from
    `os.rename`, nothing renamed).
  * `info.name` that is not a string (`str()` of an integer / list is its `repr`), a metafile
    without `info` / `name` (`KeyError`) or one that pyben cannot decode: `infoName` is a byte
    string argument.
  * the target must be a regular file of the `FS` (a target that is a directory makes
    `pyben.load` raise; a target that is a symbolic link to a metafile is renamed as a link).

  Tie to the code: driver command `renametarget` (`Driver/G13.lean`) against the real
  `cli.execute(["rename", path])` on temporary files.
-/
namespace TorrentVerif
open Rebuild

namespace PosixPath

/-- `p.rstrip("/")` -/
def rstripSep (p : Bytes) : Bytes := (p.reverse.dropWhile (fun c => c = 47)).reverse

/-- `p[:p.rfind("/") + 1]`: everything up to and including the last `/` (`head` of
    `posixpath.split` before its slashes are stripped) -/
def headOf (p : Bytes) : Bytes := (p.reverse.dropWhile (fun c => c ≠ 47)).reverse

/-- `posixpath.dirname`:
    ```
    i = p.rfind("/") + 1
    head = p[:i]
    if head and head != "/" * len(head): head = head.rstrip("/")
    return head
    ``` -/
def dirname (p : Bytes) : Bytes :=
  if (headOf p).any (fun c => c ≠ 47) then rstripSep (headOf p) else headOf p

end PosixPath

namespace Impl
open PosixPath

/-- lower-case hexadecimal digit -/
def hexLow (n : Nat) : UInt8 := if n < 10 then UInt8.ofNat (48 + n) else UInt8.ofNat (87 + n)

/-- one byte in `repr(bytes)` with the quote character `q` -/
def reprByte (q c : UInt8) : Bytes :=
  if c = q ∨ c = 92 then [92, c]
  else if c = 9 then [92, 116]
  else if c = 10 then [92, 110]
  else if c = 13 then [92, 114]
  else if c < 32 ∨ 127 ≤ c then [92, 120, hexLow (c.toNat / 16), hexLow (c.toNat % 16)]
  else [c]

/-- `repr(b)` of a `bytes` object (CPython `PyBytes_Repr`): `b'…'`, or `b"…"` when the bytes
    contain `'` and no `"` -/
def bytesRepr (b : Bytes) : Bytes :=
  let q : UInt8 := if b.contains 39 ∧ ¬ b.contains 34 then 34 else 39
  98 :: q :: (b.flatMap (reprByte q) ++ [q])

/-- `str(x)` for the string `x` that pyben decoded from the bytes `b`, as UTF-8 -/
def pyStr (b : Bytes) : Bytes := if validUtf8 b then b else bytesRepr b

/-- `.torrent` -/
def sTorrent : Bytes := [46, 116, 111, 114, 114, 101, 110, 116]

/-- `name = os.path.basename(str(info["name"]).rstrip("/"))`; `ValueError` for `""`, `.`, `..` -/
def renameName (infoName : Bytes) : Except RenameErr Bytes :=
  let name := basename (rstripSep (pyStr infoName))
  if name = [] ∨ name = DOT ∨ name = DOTDOT then .error .badName else .ok name

/-- `new_path` of `commands.rename`: `os.path.join(os.path.dirname(target), name + ".torrent")` -/
def renameTarget (target infoName : Bytes) : Except RenameErr Bytes :=
  match renameName infoName with
  | .error e => .error e
  | .ok name => .ok (join (dirname target) (name ++ sTorrent))

/-- a path string as key of the effects model -/
def fsKey (p : Bytes) : Path := String.ofList (p.map fun c => Char.ofNat c.toNat)

/-- `os.path.lexists(p)`: `p` is a regular file of `fs`, or one of the `others` — directories,
    symbolic links (dangling or not), sockets … — that have a directory entry -/
def lexists (fs : FS) (others : List Path) (p : Path) : Bool := fs.has p || others.contains p

/-- The whole `rename` command for the metafile at `target` (a regular file) whose `info.name` is
    `infoName`: the refusal, or the operations.  As in `renameOps`, a refusal after the load
    (`ValueError`, `FileExistsError`) has performed the read only and is returned as the error. -/
def renameCmd (fs : FS) (others : List Path) (target infoName : Bytes) : Except RenameErr (List Op) :=
  if target = [] ∨ ¬ fs.has (fsKey target) then .error .notFound
  else
    match renameTarget target infoName with
    | .error e => .error e
    | .ok new =>
      if lexists fs others (fsKey new) then .error .exists
      else .ok [.read (fsKey target), .replace (fsKey target) (fsKey new)]

end Impl
end TorrentVerif

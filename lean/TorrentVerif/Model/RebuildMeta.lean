import TorrentVerif.Model.Rebuild
import TorrentVerif.Model.Bencode
import TorrentVerif.Model.RecheckFull
import TorrentVerif.Model.Merkle
import TorrentVerif.Model.Creators
/-
  The bridge "metafile bytes → what `rebuild` works on": `torrentfile.rebuild.Metadata.extract`
  (and `_parse_tree`) on the value `pyben.load` hands out, and the whole rebuild of ONE metafile
  from its bytes (`Metadata(path)` followed by `Metadata.rebuild(filemap, dest)`).

  Models the code after commit 777cf99: the single-file rule of a `meta version` 2 metafile
  (`list(tree) == [name] and "" in tree[name]`, `Impl.extractV2`) only applies when `info` has no
  `files` key; with a `files` key (hybrid torrent of a directory) the tree is always parsed below
  the torrent's name.

  Nothing of `Model/Rebuild.lean` is re-modelled: the bencoded `files` list / `file tree` is turned
  into the structured arguments of `Impl.extractV1Multi` / `extractV1Single` / `extractV2`
  (`Impl.v1Entry`, `Impl.toMetaTree`), the matching is `Impl.matchV1` / `Impl.matchV2`.

  Errors are `RF.Err` (Model/RecheckFull): `decodeError` (pyben), `keyError`, `typeError`,
  `indexError` (`path[-1]` of an empty `path` list).  The `Metadata` constructor raises in these
  cases and `Assembler` does not process the metafile.

  Deviations / assumptions (all on metafiles torrentfile does not write; names as in
  `Model/Rebuild.lean`: byte strings, pyben's `str`/`bytes` distinction erased):
  * Python stores `info["piece length"]`, `info["name"]`, `info.get("pieces")` unchecked and fails
    (or not) when they are used.  The model wants an integer piece length and a string name
    (`typeError` otherwise; Python raises `TypeError` as soon as the name is joined to a path, which
    every branch does unless there is no file at all), and for a metafile that is not
    `meta version` 2 a `pieces` entry that is a string (`len()` of an integer raises in the
    constructor; a list or dictionary would be carried on and never match a digest).  For
    `meta version` 2 `pieces` is not looked at (kept when it is a string, empty otherwise).
  * a negative `length` is `typeError` (Python records it).
  * one error is reported for the whole extraction; for a metafile that is broken in several ways
    the KIND may differ from the first exception Python raises.
  * `path` of a `files` entry that is a string is splatted character by character by Python
    (`os.path.join(name, *path)`); the model reports `typeError`.  A `files` value that is an empty
    string / dictionary is iterated zero times (no file), as in Python.
  * `pieces root` that is present but not a string is read as `None`: it can never equal a computed
    root, and it is not looked at for an empty file.
  * `meta version` that is not an integer is not `== 2`: v1 branch (`metaVersion = none`).
  * `info["pieces"]`: `_map_pieces` uses the first `len(pieces) // 20` slices of 20 bytes
    (`Impl.pieceDigests`); a trailing partial digest is ignored.
  * `HasherV2(path, piece_length, True).root` is `Impl.hasherV2 H B hs (piece_length // B)`
    (Model/Merkle) on the file's bytes; `B` = `BLOCK_SIZE`, `hs` = 32.  A piece length ≤ 0 is
    `Int.toNat` = 0 in `rebuildMeta`: for v1 that is what `_map_pieces` does with it (`target > 0`
    never holds, no node is made); for `meta version` 2 `HasherV2` with a non-positive piece length is
    not modelled.
  * `Assembler` builds ONE filemap for all metafiles it was given and rebuilds them one after the
    other; `rebuildFromBytes` is one metafile on a given filemap and filesystem state.

  `Spec` (vocabulary of `Props/C13.extract_of_created_*` / `rebuild_of_created_*`): `fileRecOf`,
  `padRecOf`, `v1RecsOf` (the records a created metafile must yield), `v1OrigsOf` (the contents they
  stand for), `v1Listing` (the files in v1 order with relative paths), `ViewOf` (a content tree is what
  the filesystem shows below a path).

  Tie to the code: driver commands `extractmeta`, `rebuildbytes` (`Driver/G11.lean`) against
  `torrentfile.rebuild.Metadata(path)` (`.files`, `.meta_version`, `.piece_length`, `.filenames`,
  exception kind) and against the `os.mkdir` / `shutil.copy` trace and counter of a real `Assembler`.
-/
namespace TorrentVerif
open Rebuild

/-- what `Metadata.__init__` / `extract` leave in the object -/
structure RebuildMeta where
  /-- `self.name` -/
  name : Bytes
  /-- `self.piece_length` -/
  pieceLength : Int
  /-- `self.meta_version` (`none`: present but not an integer, which is not `== 2`) -/
  metaVersion : Option Int
  /-- `self.pieces` -/
  pieces : Bytes
  /-- `self.files`, in order -/
  files : List FileRec
  /-- `self.filenames` (a set: first occurrences, in order) -/
  filenames : List Bytes
deriving Repr, DecidableEq

namespace Impl

/-- `f.get("attr") == "p"` -/
def attrIsP (d : Dict) : Bool :=
  match dictGet d RF.kAttr with
  | some (.str a) => decide (a = [112])
  | _ => false

/-- one entry `f` of `info["files"]`: `(f["path"], f["length"], f.get("attr") == "p")` -/
def v1Entry (f : BVal) : Except RF.Err (List Bytes × Nat × Bool) := do
  let p ← RF.sub f RF.kPath                       -- `path = f["path"]`
  match p with
  | .list l =>
    let comps ← RF.strs l                          -- `os.path.join(self.name, *path)`
    if comps = [] then .error .indexError       -- `path[-1]`
    else
      let len ← (← RF.sub f K.length) |> RF.nat       -- `f["length"]`, `self.length += …`
      match f with
      | .dict d => .ok (comps, len, attrIsP d)
      | _ => .error .typeError
  | _ => .error .typeError

/-- `for f in info["files"]` -/
def v1EntriesOf : List BVal → Except RF.Err (List (List Bytes × Nat × Bool))
  | [] => .ok []
  | f :: rest => do
    let e ← v1Entry f
    let t ← v1EntriesOf rest
    .ok (e :: t)

/-- the value under the key `""` of a file node: `val[""]["length"]`, `val[""].get("pieces root")` -/
def leafOfVal (inner : BVal) : Except RF.Err MetaTree := do
  let len ← (← RF.sub inner K.length) |> RF.nat
  match inner with
  | .dict d =>
    match dictGet d RF.kPiecesRoot with
    | some (.str r) => .ok (.file len (some r))
    | _ => .ok (.file len none)
  | _ => .error .typeError

mutual
/-- a value of the file tree as `_parse_tree` reads it: `"" in val` ⇒ file, else directory -/
def toMetaTree : BVal → Except RF.Err MetaTree
  | .dict d =>
    match dictGet d [] with
    | some inner => leafOfVal inner
    | none => (toMetaEntries d).map .dir
  | _ => .error .typeError
/-- `tree.items()` in dictionary order -/
def toMetaEntries : List (Bytes × BVal) → Except RF.Err (List (Bytes × MetaTree))
  | [] => .ok []
  | (k, v) :: rest => do
    let t ← toMetaTree v
    let r ← toMetaEntries rest
    .ok ((k, t) :: r)
end

/-- `self.filenames` as a set in order of first insertion -/
def nameSet (l : List Bytes) : List Bytes := l.eraseDups

/-- `info.get("pieces", bytes())` of a `meta version` 2 metafile (not looked at; kept when it is
    a string) -/
def piecesV2 (info : Dict) : Bytes :=
  match dictGet info K.pieces with
  | some (.str s) => s
  | _ => []

/-- `Metadata.extract` on the decoded metafile -/
def extractMeta (mf : BVal) : Except RF.Err RebuildMeta := do
  let infoV ← RF.sub mf K.info                                   -- `meta["info"]`
  let pl ← match ← RF.sub infoV K.pieceLength with               -- `info["piece length"]`
    | .int i => pure i
    | _ => .error .typeError
  let name ← (← RF.sub infoV K.name) |> RF.str                      -- `info["name"]`
  match infoV with
  | .dict info =>
    let mv : Option Int := match dictGet info K.metaVersion with  -- `info.get("meta version", 1)`
      | none => some 1
      | some (.int i) => some i
      | some _ => none
    if mv = some 2 then
      let pieces := piecesV2 info
      match ← RF.sub infoV K.fileTree with                        -- `info["file tree"]`
      | .dict tree =>
        let es ← toMetaEntries tree
        -- `"files" not in info and list(tree) == [name] and "" in tree[name]` (commit 777cf99: a
        -- hybrid torrent of a directory lists its `files`, so it is never taken for a single file)
        let files := if dictHas info K.files then parseTree [name] es else extractV2 name es
        .ok ⟨name, pl, mv, pieces, files, nameSet (files.map (·.filename))⟩
      | _ => .error .typeError
    else
      let pieces ← match dictGet info K.pieces with           -- `info.get("pieces", bytes())`
        | none => pure []
        | some (.str s) => pure s
        | some _ => .error .typeError
      match dictGet info K.length with
      | some lv =>                                             -- `elif "length" in info`
        let len ← RF.nat lv
        .ok ⟨name, pl, mv, pieces, extractV1Single name len, [name]⟩
      | none =>
        match dictGet info K.files with
        | none => .ok ⟨name, pl, mv, pieces, [], []⟩
        | some fv =>                                           -- `elif "files" in info`
          let items ← match fv with
            | .list l => pure l
            | .str [] => pure []
            | .dict [] => pure []
            | _ => .error .typeError
          let es ← v1EntriesOf items
          match extractV1Multi name es with
          | none => .error .indexError
          | some files => .ok ⟨name, pl, mv, pieces, files, nameSet (v1Filenames files)⟩
  | _ => .error .typeError

/-- the digests `_map_pieces` cuts out of `self.pieces`: `len(pieces) // 20` slices of 20 bytes -/
def pieceDigests (pieces : Bytes) : List Bytes := (chunks 20 pieces).take (pieces.length / 20)

/-- `Metadata.rebuild(filemap, dest)`: operations and the `full` of every counted file.
    `H1` = SHA-1; `rootOf` is `HasherV2(path, self.piece_length, True).root`. -/
def rebuildMeta (H1 H : Bytes → Bytes) (B hs ds : Nat) (fs : FS) (filemap : FileMap) (dest : Path)
    (m : RebuildMeta) : List Op × List Bytes :=
  if m.metaVersion = some 2 then
    matchV2 (fun d => (hasherV2 H B hs (m.pieceLength.toNat / B) d).1) ds filemap dest fs m.files
  else
    matchV1 H1 ds fs filemap dest m.pieceLength.toNat (pieceDigests m.pieces) m.files

/-- `pyben.load` → `Metadata.extract` → `Metadata.rebuild(filemap, dest)` with the callback of
    `Assembler`: the filesystem calls in order and the counter. -/
def rebuildFromBytes (H1 H : Bytes → Bytes) (B hs ds : Nat) (fs : FS) (filemap : FileMap)
    (dest : Path) (metafile : Bytes) : Except RF.Err (List Op × Nat) :=
  match loads metafile with
  | none => .error .decodeError
  | some mf => do
    let m ← extractMeta mf
    let r := rebuildMeta H1 H B hs ds fs filemap dest m
    .ok (r.1, r.2.length)

end Impl

namespace Spec
open PosixPath

/-- the file record of the regular file at the relative path `cs` (its components; `[]`: the
    torrent is that single file) below the torrent's name: `full` = `name/c₁/…/cₙ`, `filename` =
    the last component -/
def fileRecOf (name : Bytes) (cs : List Bytes) (len : Nat) (root : Option Bytes) : FileRec :=
  ⟨joinSep (name :: cs), (name :: cs).getLast?.getD name, len, root, false⟩

/-- the record of a BEP 47 padding entry of `n` bytes: `name/.pad/<n>`, flagged -/
def padRecOf (name : Bytes) (n : Nat) : FileRec :=
  ⟨joinSep [name, Impl.sPad, natDec n], natDec n, n, none, true⟩

/-- the records of a v1 metafile for the listed files `(relative path, length)`: one record per
    file, in an aligned torrent followed by the padding record of the gap to the next piece
    boundary when that is not zero -/
def v1RecsOf (name : Bytes) (align : Bool) (pl : Nat) : List (List Bytes × Nat) → List FileRec
  | [] => []
  | (p, s) :: t =>
    fileRecOf name p s none ::
      ((if align && gap pl s ≠ 0 then [padRecOf name (gap pl s)] else []) ++ v1RecsOf name align pl t)

/-- the contents these records stand for: the file's bytes, zeros for a padding record -/
def v1OrigsOf (align : Bool) (pl : Nat) : List Bytes → List Bytes
  | [] => []
  | d :: t =>
    d :: ((if align && gap pl d.length ≠ 0 then [zeros (gap pl d.length)] else []) ++ v1OrigsOf align pl t)

/-- the files of a content tree as a v1 creator lists them, with their paths relative to the
    content root (`[]` for a single file): sorted by full path string -/
def v1Listing (pre : Bytes) : Node → List (List Bytes × Bytes)
  | .file d => [([], d)]
  | .dir es => (sortedFiles pre (.dir es)).map fun x => (Impl.relPath pre x.1, x.2)

/-- what a filesystem object looks like to `os.path` -/
def objOf : Node → Obj
  | .file d => .file d
  | .dir _ => .dir

/-- the content tree `disk` is exactly what the filesystem `fs` shows at and below the path `p`:
    every relative path leads to the same kind of object (the same bytes for a regular file), or
    to nothing, in both -/
def ViewOf (fs : FS) (p : Path) (disk : Node) : Prop :=
  ∀ cs, fs (p ++ cs) = (RF.lookup disk cs).map objOf

end Spec
end TorrentVerif

import TorrentVerif.Model.Path
/-
  How `MetaFile.__init__` (torrentfile/torrent.py, after the `fix:` for D8/D11) derives the
  recorded name from the way the content path was spelled:

      self.name = os.path.basename(os.path.abspath(self.path))

  Path strings are `Bytes` (UTF-8, as in `Model/Path.lean`).  The working directory is an
  argument: `os.path.abspath(p)` is `normpath(join(os.getcwd(), p))` (for an absolute `p` the
  `join` returns `p` itself, which is what `abspath` does in that case).  `os.getcwd()` is
  absolute and normalised, i.e. `PosixPath.render q` for a clean component list `q`.

  `Spec.SpellingStep` lists the textual rewrites of a path spelling that denote the same
  location; `Spec.SameSpelling` is any finite sequence of them.
-/
namespace TorrentVerif
open Rebuild

namespace PosixPath

/-- `posixpath.basename`: `i = p.rfind("/") + 1; return p[i:]` — what follows the last `/` -/
def basename (p : Bytes) : Bytes := (p.reverse.takeWhile (fun c => c ≠ 47)).reverse

/-- `posixpath.abspath(path)` in working directory `cwd`:
    `if not isabs(path): path = join(cwd, path)`, then `normpath(path)` -/
def abspathIn (cwd path : Bytes) : Bytes := normpath (join cwd path)

/-- the working directory of the `example`s: `/srv/data` as a resolved path
    (`render exCwd` is the string) -/
def exCwd : Path := [[115, 114, 118], [100, 97, 116, 97]]

end PosixPath

namespace Impl
open PosixPath

/-- `MetaFile.__init__`: `self.name = os.path.basename(os.path.abspath(self.path))`, with the
    process working directory `cwd`. -/
def torrentName (cwd spelling : Bytes) : Bytes := basename (abspathIn cwd spelling)

end Impl

namespace Spec

/-- the position between `u` and `v` is the start of a component of the spelling `u ++ v`:
    right after a separator, or the very beginning of a relative spelling -/
def Boundary (u v : Bytes) : Prop := (u = [] ∧ v.head? ≠ some 47) ∨ u.getLast? = some 47

/-- One textual rewrite of a path spelling that does not change the location it denotes
    (`46` is `.`, `47` is `/`).  Every rule works on the raw string. -/
inductive SpellingStep : Bytes → Bytes → Prop
  /-- insert `./` before a component -/
  | dotSlash (u v : Bytes) (hb : Boundary u v) : SpellingStep (u ++ v) (u ++ 46 :: 47 :: v)
  /-- double a separator (any separator, also a leading or trailing one) -/
  | dblSep (u v : Bytes) : SpellingStep (u ++ 47 :: v) (u ++ 47 :: 47 :: v)
  /-- append a trailing `/` (the empty spelling means the working directory, `/` is the root) -/
  | trailSep (s : Bytes) (hs : s ≠ []) : SpellingStep s (s ++ [47])
  /-- append a trailing `/.` -/
  | trailDot (s : Bytes) (hs : s ≠ []) : SpellingStep s (s ++ [47, 46])
  /-- insert `x/../` before a component, `x` any plain component (non-empty, not `.`/`..`,
      without `/`); like the shell, this ignores whether `x` exists or is a symbolic link -/
  | xDotDot (u v x : Bytes) (hx : CleanComp x) (hb : Boundary u v) :
      SpellingStep (u ++ v) (u ++ (x ++ 47 :: 46 :: 46 :: 47 :: v))
  /-- prefix `./` to a relative spelling -/
  | prefixDot (s : Bytes) (hs : s.head? ≠ some 47) : SpellingStep s (46 :: 47 :: s)

/-- `t` is obtained from `s` by finitely many rewrites -/
inductive SameSpelling : Bytes → Bytes → Prop
  | refl (s : Bytes) : SameSpelling s s
  | step {s t u : Bytes} (h : SameSpelling s t) (st : SpellingStep t u) : SameSpelling s u

end Spec
end TorrentVerif

import TorrentVerif.Model.Basic
import TorrentVerif.Model.ExceptEq
/-
  C12 — piece length.  Executable model of

  * `torrentfile.utils.normalize_piece_length`   (`Impl.normalizeInt`, `Impl.normalizeStr`, `Impl.normalize`)
  * `torrentfile.utils.get_piece_length`         (`Impl.getPieceLength`, loop `Impl.gplLoop`)
  * the routing in `MetaFile.__init__`           (`Impl.recordedPieceLength`)

  as they are in /repo after `fix: accept only true powers of two (>= 16 KiB) or exponents 14-25`
  and `fix: digit strings beyond the int conversion limit are rejected with the piece-length error`.

  Python values that can arrive as the `piece_length` keyword are rendered by `PLArg`:
  `None`, an `int` (`bool` is an `int`: `True` = 1, `False` = 0), a `str`, or any other object
  (only its truthiness matters: `normalize_piece_length` raises for every non-int non-str).

  One CPython detail is modelled because the code runs into it: `int(s)` refuses strings of more
  than `sys.get_int_max_str_digits()` = 4300 characters with a `ValueError`, which the code turns
  into the piece-length error.  `intMaxStrDigits` is that constant.  So an over-long digit string
  is rejected even if it denotes a valid value (e.g. 4400 zeros followed by `16384`).
  For an `int` argument there is no such limit: `fix: an integer piece length of more than 4300
  digits is rejected with the piece-length error` made `PieceLengthValueError.__init__` survive
  the `ValueError` that `str(huge_int)` raises, so every rejected integer of any size leaves with
  the piece-length error, and a power of two of any size ≥ 2^14 is accepted (`normalizeInt` has
  no size side condition).
-/
namespace TorrentVerif

/-- The only exception `normalize_piece_length` can leave with. -/
inductive PLErr
  /-- `torrentfile.utils.PieceLengthValueError` -/
  | pieceLength
  deriving DecidableEq, Repr

/-- What a caller can pass as `piece_length=`. -/
inductive PLArg
  | none
  | int (i : Int)
  | str (s : List Char)
  /-- any other object (float, list, bytes …); `truthy` is its `bool()` -/
  | other (truthy : Bool)
  deriving DecidableEq, Repr

namespace Spec

/-- n is a power of two. -/
def isPow2 (n : Nat) : Prop := ∃ k, n = 2 ^ k

/-- A piece length the property allows: a power of two of at least 16 KiB. -/
def validPieceLength (n : Nat) : Prop := ∃ k, 14 ≤ k ∧ n = 2 ^ k

/-- value of one ASCII decimal digit -/
def digitVal (c : Char) : Nat := c.toNat - 48

/-- `'0' ≤ c ≤ '9'` — the characters for which `str.isascii() and str.isdecimal()` holds. -/
def isAsciiDigit (c : Char) : Bool := 48 ≤ c.toNat && c.toNat ≤ 57

/-- The integer a string of decimal digits denotes, most significant digit first
    (positional notation: first digit times 10^(remaining length) plus the rest). -/
def decimalValue : List Char → Nat
  | [] => 0
  | c :: s => digitVal c * 10 ^ s.length + decimalValue s

/-- A string that denotes an integer for the purposes of the property: non-empty, ASCII digits only. -/
def isDecimalString (s : List Char) : Bool := !s.isEmpty && s.all isAsciiDigit

/-- Executable rendering of the acceptance rule of the property (oracle for the driver):
    an exponent 14..25 means 2^n; otherwise n itself if it is a power of two ≥ 2^14. -/
def accepted (n : Int) : Option Nat :=
  if 14 ≤ n ∧ n ≤ 25 then some (2 ^ n.toNat)
  else if 2 ^ 14 ≤ n ∧ 2 ^ Nat.log2 n.toNat = n.toNat then some n.toNat
  else none

/-- The automatic choice as the property describes it: the least exponent in 14..24 whose
    piece length keeps the piece count at or below 1000, capped at 24 (16 MiB). -/
def autoPieceLength (size : Nat) : Nat :=
  match (List.range' 14 10).find? (fun k => size ≤ 1000 * 2 ^ k) with
  | some k => 2 ^ k
  | none => 2 ^ 24

end Spec

namespace Impl

/-- CPython `sys.get_int_max_str_digits()` default. -/
def intMaxStrDigits : Nat := 4300

/-- The integer branch of `normalize_piece_length`:
    ```
    if 13 < piece_length < 26: return 2**piece_length
    if piece_length >= (1 << 14) and not piece_length & (piece_length - 1): return piece_length
    raise PieceLengthValueError(piece_length)
    ```
    The `&` is only evaluated when `piece_length ≥ 2^14 > 0`, so it is a `Nat` operation. -/
def normalizeInt (n : Int) : Except PLErr Nat :=
  if 13 < n ∧ n < 26 then .ok (2 ^ n.toNat)
  else if n ≥ 2 ^ 14 ∧ n.toNat &&& (n.toNat - 1) = 0 then .ok n.toNat
  else .error .pieceLength

/-- `int(s)` for a string already known to consist of ASCII digits: left-to-right accumulation. -/
def parseDigits (s : List Char) : Nat := s.foldl (fun acc c => acc * 10 + (c.toNat - 48)) 0

/-- The string branch:
    ```
    if not (piece_length.isascii() and piece_length.isdecimal()): raise PieceLengthValueError(piece_length)
    try: piece_length = int(piece_length)
    except ValueError as err: raise PieceLengthValueError(piece_length) from err
    ```
    `"".isdecimal()` is `False`.  `int()` raises `ValueError` beyond 4300 characters. -/
def normalizeStr (s : List Char) : Except PLErr Nat :=
  if s ≠ [] ∧ s.all (fun c => 48 ≤ c.toNat && c.toNat ≤ 57) then
    if s.length > intMaxStrDigits then .error .pieceLength
    else normalizeInt (parseDigits s)
  else .error .pieceLength

/-- `normalize_piece_length` on an arbitrary argument (`None` and other objects are not `int`). -/
def normalize : PLArg → Except PLErr Nat
  | .none => .error .pieceLength
  | .int i => normalizeInt i
  | .str s => normalizeStr s
  | .other _ => .error .pieceLength

/-- The loop of `get_piece_length`:
    `while size / (2**exp) > 1000 and exp < 24: exp += 1`.
    The float comparison `size / 2**exp > 1000` is rendered as `size > 1000 * 2^exp` (DESIGN §4:
    division by a power of two is exact below 2^53, and far from the threshold above). -/
def gplLoop (size exp : Nat) : Nat :=
  if size > 1000 * 2 ^ exp ∧ exp < 24 then gplLoop size (exp + 1) else exp
termination_by 24 - exp
decreasing_by omega

/-- `get_piece_length(size)`: `exp = 14; while …; return 2**exp`. -/
def getPieceLength (size : Nat) : Nat := 2 ^ gplLoop size 14

/-- Python truthiness of the keyword (`if piece_length:`). -/
def truthy : PLArg → Bool
  | .none => false
  | .int i => i ≠ 0
  | .str s => !s.isEmpty
  | .other t => t

/-- `MetaFile.__init__`:
    ```
    if piece_length: self.piece_length = utils.normalize_piece_length(piece_length)
    else:            self.piece_length = utils.path_piece_length(self.path)
    ...
    self.meta["info"]["piece length"] = self.piece_length
    ```
    `contentSize` is `path_size(self.path)`; `path_piece_length = get_piece_length ∘ path_size`.
    The result is the value recorded in `info["piece length"]`. -/
def recordedPieceLength (arg : PLArg) (contentSize : Nat) : Except PLErr Nat :=
  if truthy arg then normalize arg else .ok (getPieceLength contentSize)

end Impl
end TorrentVerif

import TorrentVerif.Model.Basic
/-
  Model of `torrentfile.hasher.Hasher` (v1 piece hasher) and of the parts of
  `torrentfile.torrent.TorrentFile.assemble` that decide the file list, the padding entries
  (`--align`) and the piece string.

  An open file handle is the unread suffix of the file (`readinto(buf of n)` = `take n`,
  leaving `drop n`).  The iterator state is `(cur, rest)`: the unread suffix of the current
  file and the files not yet opened.
-/
namespace TorrentVerif.Impl

/-- `Hasher._handle_partial` without `align`: keep opening next files until the piece is
    full or no file is left.  Returns (piece data, unread suffix of current file, unopened). -/
def fill (pl : Nat) (arr : Bytes) : List Bytes → Bytes × Bytes × List Bytes
  | [] => (arr, [], [])
  | f :: fs =>
    let t := pl - arr.length
    let got := f.take t
    if got.length = t then (arr ++ got, f.drop t, fs) else fill pl (arr ++ got) fs

/-- `Hasher.__next__`, returning the piece data that is handed to SHA-1 (or `none` for
    `StopIteration`).  `align` is the constructor flag. -/
def next (align : Bool) (pl : Nat) : Bytes → List Bytes → Option (Bytes × Bytes × List Bytes)
  | cur, rest =>
    let piece := cur.take pl
    if piece.length = 0 then
      match rest with
      | [] => none
      | f :: fs => next align pl f fs
    else if piece.length < pl then
      if align then some (piece ++ zeros (pl - piece.length), cur.drop pl, rest)
      else some (fill pl piece rest)
    else some (piece, cur.drop pl, rest)

/-- `for piece in feeder`: drain the iterator.  Fuel bounds the number of `__next__` calls;
    `drain_fuel_irrelevant` shows any fuel above the stream length gives the same list. -/
def drain (align : Bool) (pl : Nat) : Nat → Bytes → List Bytes → List Bytes
  | 0, _, _ => []
  | fuel + 1, cur, rest =>
    match next align pl cur rest with
    | none => []
    | some (p, c', r') => p :: drain align pl fuel c' r'

/-- The pieces (before hashing) produced by `Hasher(paths, pl, align)` for the file
    contents `files` (non-empty list, as the constructor opens `paths[0]`). -/
def hasherV1 (align : Bool) (pl : Nat) : List Bytes → List Bytes
  | [] => []
  | f :: fs => drain align pl ((f :: fs).flatten.length + (f :: fs).length * pl + 1) f fs

/-- an entry of `info["files"]`: `(isPad, length)`; the path is handled by the listing model -/
structure FileEntry where
  pad : Bool
  length : Nat
deriving Repr, DecidableEq

/-- `info["files"]` of `TorrentFile.assemble` with `align` (after the D2 repair):
    every file, followed by a padding entry of `-size % pl` when that is non-zero. -/
def alignedEntries (pl : Nat) : List Nat → List FileEntry
  | [] => []
  | s :: ss =>
    let r := gap pl s
    if r = 0 then ⟨false, s⟩ :: alignedEntries pl ss
    else ⟨false, s⟩ :: ⟨true, r⟩ :: alignedEntries pl ss

/-- `info["files"]` without `align`. -/
def plainEntries (sizes : List Nat) : List FileEntry := sizes.map (⟨false, ·⟩)

end TorrentVerif.Impl

namespace TorrentVerif.Spec

/-- BEP 3: the pieces of a payload are the successive piece-length slices of the
    concatenation of the files in listed order, each hashed. -/
def v1Pieces (H1 : Bytes → Bytes) (pl : Nat) (files : List Bytes) : List Bytes :=
  (chunks pl files.flatten).map H1

/-- The byte stream a client reconstructs from a file list with padding entries:
    padding entries stand for zero bytes. -/
def alignedStream (pl : Nat) (files : List Bytes) : Bytes :=
  (files.map (fun f => f ++ zeros (gap pl f.length))).flatten

end TorrentVerif.Spec

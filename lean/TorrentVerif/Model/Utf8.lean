import TorrentVerif.Model.Basic
/-
  UTF-8 (RFC 3629) as Python's `str.encode("utf8")` produces it, on code points as `Nat`, and
  Python's order on `str`: lexicographic by code point.

  `encode` uses `/` and `%` by powers of two (`c / 64` is `c >> 6`, `c % 64` is `c & 0x3F`).
-/
namespace TorrentVerif
namespace Utf8

/-- a Unicode scalar value: a code point that is not a surrogate -/
def Scalar (c : Nat) : Prop := c < 0xD800 ∨ (0xE000 ≤ c ∧ c < 0x110000)

instance (c : Nat) : Decidable (Scalar c) := by unfold Scalar; infer_instance

/-- the byte values of the UTF-8 encoding of code point `c`, as natural numbers -/
def encodeNat (c : Nat) : List Nat :=
  if c < 0x80 then [c]
  else if c < 0x800 then [0xC0 + c / 64, 0x80 + c % 64]
  else if c < 0x10000 then [0xE0 + c / 4096, 0x80 + c / 64 % 64, 0x80 + c % 64]
  else [0xF0 + c / 262144, 0x80 + c / 4096 % 64, 0x80 + c / 64 % 64, 0x80 + c % 64]

/-- `chr(c).encode("utf8")` -/
def encode (c : Nat) : Bytes := (encodeNat c).map UInt8.ofNat

/-- `s.encode("utf8")` for the string with code points `s` -/
def encodeStr (s : List Nat) : Bytes := s.flatMap encode

/-- Python's `a <= b` on `str`: lexicographic on code points -/
def leCode : List Nat → List Nat → Bool
  | [], _ => true
  | _ :: _, [] => false
  | a :: as, b :: bs => if a < b then true else if b < a then false else leCode as bs

end Utf8
end TorrentVerif

import TorrentVerif.Model.Basic
import TorrentVerif.Model.ExceptEq
import TorrentVerif.Model.PieceLength
import TorrentVerif.Model.Effects
/-
  C20 — option routing.  Executable model of

  * the `create` sub-parser of `torrentfile.cli.execute` as an option table (`Impl.createTable`)
    and a token-level model of what `argparse` does with a table of this class (`Impl.argparse`),
  * `commands.create` (`kwargs = vars(args)`; `Impl.toKwargs` is the binding of `**kwargs` to the
    parameters of `MetaFile.__init__`),
  * `commands.parse_config_file` (`Impl.parseConfig`),
  * `MetaFile.__init__`: recovery of a content path swallowed by a list-valued flag
    (`Impl.metaInit`) and the fields each keyword feeds (`Impl.fields`).

  Class of tables: optionals with `nargs` 0 (`store_true`), 1 (`store`, `nargs=None`) or `+`,
  plus ONE optional positional (`nargs='?'`).  Class of command lines: every token is either an
  exact option string of the table or does not start with `-` (then it is a value or the
  positional).  Everything else that argparse knows — abbreviations (`--ann`), `--opt=value`,
  `-ovalue`, `--`, negative numbers, `-h` — is outside the model: such a token makes the model
  answer `ArgErr.unsupported`, and the harness does not generate them.

  How argparse treats this class (CPython 3.12 `_parse_known_args`): optionals may appear anywhere;
  an option with `nargs=None` takes exactly the next token, which must not be an option; `nargs='+'`
  takes ALL following tokens up to the next option string (at least one); the positional takes
  the first token that no optional has taken; any further such token is "unrecognized" and
  `parse_args` exits with an error.  A repeated option overwrites (`store`).  The model reads the
  tokens left to right with a mode (idle / waiting for the one value / collecting a `+` list);
  the order in which different errors are reported is not modelled (error = error).
-/
namespace TorrentVerif

/-- Python values that travel in `vars(args)` / `kwargs`. -/
inductive Val
  | none
  | bool (b : Bool)
  | str (s : String)
  | list (l : List String)
  deriving DecidableEq, Repr

/-- `bool(v)` -/
def Val.truthy : Val → Bool
  | .none => false
  | .bool b => b
  | .str s => s ≠ ""
  | .list l => !l.isEmpty

/-- `vars(args)` / the `kwargs` dictionary: insertion-ordered, overwrite in place. -/
abbrev Namespace := List (String × Val)

namespace NS

def get : Namespace → String → Option Val
  | [], _ => none
  | (q, c) :: r, k => if q = k then some c else get r k

def set : Namespace → String → Val → Namespace
  | [], k, v => [(k, v)]
  | (q, c) :: r, k, v => if q = k then (q, v) :: r else (q, c) :: set r k v

/-- a keyword that is absent takes the parameter's default `dflt` -/
def getD (ns : Namespace) (k : String) (dflt : Val) : Val :=
  match get ns k with
  | some v => v
  | none => dflt

end NS

inductive Nargs
  | zero   -- action="store_true"
  | one    -- action="store", nargs=None
  | plus   -- action="store", nargs="+"
  deriving DecidableEq, Repr

/-- One `add_argument` call for an optional. -/
structure OptSpec where
  flags : List String
  dest : String
  nargs : Nargs
  default : Val
  /-- `choices=`; `[]` = unrestricted -/
  choices : List String
  deriving DecidableEq, Repr

/-- An option table: the optionals in `add_argument` order and the `dest` of the single
    optional positional (`nargs='?'`, default `None`). -/
structure Table where
  opts : List OptSpec
  positional : String
  deriving DecidableEq, Repr

def Table.lookup (t : Table) (flag : String) : Option OptSpec :=
  t.opts.find? (fun o => o.flags.contains flag)

/-- `if not hasattr(namespace, dest): setattr(namespace, dest, default)` -/
def setIfAbsent (ns : Namespace) (k : String) (v : Val) : Namespace :=
  match NS.get ns k with
  | some _ => ns
  | none => NS.set ns k v

/-- Defaults as `parse_known_args` installs them: every action in order, first one wins for a
    shared `dest`; the positional last (it is added last). -/
def Table.defaults (t : Table) : Namespace :=
  setIfAbsent (t.opts.foldl (fun ns o => setIfAbsent ns o.dest o.default) []) t.positional .none

/-- "looks like an option": starts with the prefix character `-`. -/
def isDash (tok : String) : Bool :=
  match tok.toList with
  | c :: _ => c == '-'
  | [] => false

inductive ArgErr
  /-- a token starting with `-` that is not an exact option string of the table (outside the model) -/
  | unsupported
  /-- "expected one argument" -/
  | expectedOne
  /-- "expected at least one argument" -/
  | expectedAtLeastOne
  /-- "invalid choice" -/
  | invalidChoice
  /-- "unrecognized arguments" (a second free token) -/
  | unrecognized
  deriving DecidableEq, Repr

/-- What the reader is in the middle of. -/
inductive ArgMode
  | idle
  /-- an option with `nargs=None` has been read, its value must follow -/
  | one (dest : String) (choices : List String)
  /-- an option with `nargs='+'` has been read, `acc` are the values collected so far -/
  | plus (dest : String) (acc : List String)
  deriving DecidableEq, Repr

structure ArgState where
  ns : Namespace
  /-- the positional has been consumed -/
  posDone : Bool
  mode : ArgMode
  deriving DecidableEq, Repr

namespace Impl

/-- Close what is pending when an option string or the end of the line is reached. -/
def argCommit (st : ArgState) : Except ArgErr ArgState :=
  match st.mode with
  | .idle => .ok st
  | .one _ _ => .error .expectedOne
  | .plus d acc =>
    if acc.isEmpty then .error .expectedAtLeastOne
    else .ok { st with ns := NS.set st.ns d (.list acc), mode := .idle }

/-- Read one token. -/
def argStep (t : Table) (st : ArgState) (tok : String) : Except ArgErr ArgState :=
  if isDash tok then
    match argCommit st with
    | .error e => .error e
    | .ok st =>
      match t.lookup tok with
      | none => .error .unsupported
      | some o =>
        match o.nargs with
        | .zero => .ok { st with ns := NS.set st.ns o.dest (.bool true) }
        | .one => .ok { st with mode := .one o.dest o.choices }
        | .plus => .ok { st with mode := .plus o.dest [] }
  else
    match st.mode with
    | .idle =>
      if st.posDone then .error .unrecognized
      else .ok { st with ns := NS.set st.ns t.positional (.str tok), posDone := true }
    | .one d ch =>
      if ch.isEmpty ∨ ch.contains tok then .ok { st with ns := NS.set st.ns d (.str tok), mode := .idle }
      else .error .invalidChoice
    | .plus d acc => .ok { st with mode := .plus d (acc ++ [tok]) }

def argFeed (t : Table) (st : ArgState) : List String → Except ArgErr ArgState
  | [] => .ok st
  | tok :: rest =>
    match argStep t st tok with
    | .ok st' => argFeed t st' rest
    | .error e => .error e

/-- `parser.parse_args(tokens)` for the sub-parser described by `t`: `vars(args)` or an error exit. -/
def argparse (t : Table) (toks : List String) : Except ArgErr Namespace :=
  match argFeed t { ns := t.defaults, posDone := false, mode := .idle } toks with
  | .error e => .error e
  | .ok st =>
    match argCommit st with
    | .error e => .error e
    | .ok st => .ok st.ns

/-- The `create` sub-parser of `cli.execute`, `add_argument` by `add_argument`
    (`-h`, `--help` is left out: outside the model). -/
def createTable : Table where
  opts := [
    ⟨["-a", "--announce", "--tracker"], "announce", .plus, .list [], []⟩,
    ⟨["-p", "--private"], "private", .zero, .bool false, []⟩,
    ⟨["-s", "--source"], "source", .one, .none, []⟩,
    ⟨["--config"], "config", .zero, .bool false, []⟩,
    ⟨["--config-path"], "config_path", .one, .none, []⟩,
    ⟨["-m", "--magnet"], "magnet", .zero, .bool false, []⟩,
    ⟨["-c", "--comment"], "comment", .one, .none, []⟩,
    ⟨["-o", "--out"], "outfile", .one, .none, []⟩,
    ⟨["--prog", "--progress"], "progress", .one, .str "1", []⟩,
    ⟨["--meta-version"], "meta_version", .one, .str "1", ["1", "2", "3"]⟩,
    ⟨["--piece-length"], "piece_length", .one, .none, []⟩,
    ⟨["--web-seed"], "url_list", .plus, .none, []⟩,
    ⟨["--http-seed"], "httpseeds", .plus, .none, []⟩,
    ⟨["--align"], "align", .zero, .bool false, []⟩]
  positional := "content"

/-- The documented options: flag spelling, the keyword (`dest`) it must be stored under — the
    name of the `MetaFile.__init__` parameter that feeds the documented field — and its arity. -/
def documentedFlags : List (String × String × Nargs) := [
  ("--announce", "announce", .plus), ("-a", "announce", .plus), ("--tracker", "announce", .plus),
  ("--web-seed", "url_list", .plus), ("--http-seed", "httpseeds", .plus),
  ("--private", "private", .zero), ("-p", "private", .zero),
  ("--source", "source", .one), ("-s", "source", .one),
  ("--comment", "comment", .one), ("-c", "comment", .one),
  ("--piece-length", "piece_length", .one),
  ("--meta-version", "meta_version", .one),
  ("--out", "outfile", .one), ("-o", "outfile", .one),
  ("--align", "align", .zero)]

/-- the keywords that feed a metafile field or the output path (see `Impl.fields`) -/
def fieldKeywords : List String :=
  ["announce", "url_list", "httpseeds", "private", "source", "comment", "piece_length", "outfile"]

/-- What the C20 theorems need from an option table (decidable; the driver evaluates it on the
    table extracted from the running `argparse` parser):
    * the positional is `content`, and no optional writes `content` or `path`;
    * every option string starts with `-`;
    * the list-valued (`nargs='+'`) options are exactly those that store under one of the three
      keywords whose last element `MetaFile.__init__` inspects when the content path is missing
      (`announce`, `url_list`, `httpseeds`), and their defaults are falsy;
    * an option that feeds a metafile field has a falsy default (so that "option not given" on
      the command line and "keyword not passed" to the library mean the same);
    * every documented flag exists with the documented keyword and arity. -/
def tableOK (t : Table) : Bool :=
  t.positional == "content"
  && t.opts.all (fun o => o.dest != "content" && o.dest != "path" && o.flags.all isDash)
  && t.opts.all (fun o => (o.nargs == .plus) ==
        (o.dest == "announce" || o.dest == "url_list" || o.dest == "httpseeds"))
  && t.opts.all (fun o => o.nargs != .plus || !o.default.truthy)
  && t.opts.all (fun o => !fieldKeywords.contains o.dest || !o.default.truthy)
  && documentedFlags.all (fun d => match t.lookup d.1 with
        | some o => o.dest == d.2.1 && o.nargs == d.2.2
        | none => false)

end Impl

/-- The keywords of `MetaFile.__init__` that the ten documented options (and the content path)
    travel in.  Values are whatever Python object arrived. -/
structure Kwargs where
  path : Val
  content : Val
  announce : Val
  urlList : Val        -- `url_list`   (`--web-seed`)
  httpseeds : Val      -- `httpseeds`  (`--http-seed`)
  private_ : Val
  source : Val
  comment : Val
  pieceLength : Val    -- `piece_length`
  metaVersion : Val    -- `meta_version`
  outfile : Val        -- `outfile`    (`--out`)
  align : Val
  deriving DecidableEq, Repr

inductive MetaErr
  /-- `utils.MissingPathError` -/
  | missingPath
  /-- `TypeError` from `len()`/indexing a value that is neither a list nor a string -/
  | typeError
  /-- `utils.PieceLengthValueError` -/
  | pieceLength
  deriving DecidableEq, Repr

namespace Impl

/-- `TorrentFile(**kwargs)` → `MetaFile.__init__(self, path=None, announce=None, comment=None,
    align=False, piece_length=None, private=False, outfile=None, source=None, …, httpseeds=None,
    url_list=None, content=None, meta_version=None, **_)`: keywords are bound by name, an absent
    one takes the parameter default, all others fall into `**_`. -/
def toKwargs (ns : Namespace) : Kwargs where
  path := NS.getD ns "path" .none
  content := NS.getD ns "content" .none
  announce := NS.getD ns "announce" .none
  urlList := NS.getD ns "url_list" .none
  httpseeds := NS.getD ns "httpseeds" .none
  private_ := NS.getD ns "private" (.bool false)
  source := NS.getD ns "source" .none
  comment := NS.getD ns "comment" .none
  pieceLength := NS.getD ns "piece_length" .none
  metaVersion := NS.getD ns "meta_version" .none
  outfile := NS.getD ns "outfile" .none
  align := NS.getD ns "align" (.bool false)

/-- ASCII lower-casing of a string (`str.lower()` restricted to what matters for the eight
    boolean words: no string containing a non-ASCII character lower-cases to any of them —
    checked over all code points in the validation). -/
def lowerAscii (s : String) : List Char := s.toList.map Char.toLower

/-- `val.split("\n")` on the characters; `cur` is the current line, reversed -/
def splitNlAux : List Char → List Char → List (List Char)
  | [], cur => [cur.reverse]
  | c :: r, cur => if c = '\n' then cur.reverse :: splitNlAux r [] else splitNlAux r (c :: cur)

/-- `[i for i in val.split("\n") if i]` -/
def splitLines (s : String) : List String :=
  ((splitNlAux s.toList []).filter (fun l => !l.isEmpty)).map String.ofList

/-- The `dest` a configuration key is stored under by `parse_config_file`. -/
def configDest (key : String) : String :=
  if key = "announce" ∨ key = "tracker" then "announce"
  else if key = "http-seed" then "httpseeds"
  else if key = "web-seed" then "url_list"
  else if key = "piece-length" then "piece_length"
  else if key = "meta-version" then "meta_version"
  else if key = "out" then "outfile"
  else key

/-- the words `parse_config_file` reads as "on" for a boolean key: `val.lower() in ("true", "yes", "on", "1")` -/
def trueWords : List (List Char) := ["true".toList, "yes".toList, "on".toList, "1".toList]

/-- … and as "off": `val.lower() in ("false", "no", "off", "0")` -/
def falseWords : List (List Char) := ["false".toList, "no".toList, "off".toList, "0".toList]

def isTrueWord (val : String) : Bool := trueWords.contains (lowerAscii val)

def isFalseWord (val : String) : Bool := falseWords.contains (lowerAscii val)

/-- The value a configuration entry is stored as. -/
def configVal (key val : String) : Val :=
  if key = "announce" ∨ key = "http-seed" ∨ key = "web-seed" ∨ key = "tracker" then .list (splitLines val)
  else if key = "piece-length" ∨ key = "meta-version" ∨ key = "out" then .str val
  else if key = "private" ∨ key = "align" ∨ key = "magnet" ∨ key = "cwd" then
    if isTrueWord val then .bool true
    else if isFalseWord val then .bool false
    else .str val
  else .str val

/-- `commands.parse_config_file(path, kwargs)` after `fix: configuration file keys web-seed,
    tracker and out reach the torrent`, `fix: configuration file converts true/false only for
    boolean options`, `fix: a '%' in a configuration file value is taken literally` and `fix: 'no',
    'off' and '0' switch a boolean configuration option off`, on the items of the `[config]`
    section as `configparser.ConfigParser(interpolation=None)` delivers them: keys already
    lower-cased by `configparser` (so `key.lower()` is the key), values verbatim — a `%` is an
    ordinary character — with surrounding blanks stripped and continuation lines joined by
    `"\n"`:
    ```
    for key, val in config["config"].items():
        if key.lower() in ["announce", "http-seed", "web-seed", "tracker"]:
            val = [i for i in val.split("\n") if i]
            if key.lower() == "http-seed": kwargs["httpseeds"] = val
            elif key.lower() == "web-seed": kwargs["url_list"] = val
            else: kwargs["announce"] = val
        elif key.lower() == "piece-length": kwargs["piece_length"] = val
        elif key.lower() == "meta-version": kwargs["meta_version"] = val
        elif key.lower() == "out": kwargs["outfile"] = val
        elif key.lower() in ("private", "align", "magnet", "cwd"):
            if val.lower() in ("true", "yes", "on", "1"): kwargs[key.lower()] = True
            elif val.lower() in ("false", "no", "off", "0"): kwargs[key.lower()] = False
            else: kwargs[key.lower()] = val
        else: kwargs[key.lower()] = val
    ``` -/
def parseConfig (items : List (String × String)) (kwargs : Namespace) : Namespace :=
  items.foldl (fun kw kv => NS.set kw (configDest kv.1) (configVal kv.1 kv.2)) kwargs

/-- `len(v)`, `v[-1]`, `v[:-1]` for a list or a string; `none` = `TypeError`. -/
def seqParts : Val → Option (Nat × String × Val)
  | .list l => match l.getLast? with
    | some x => some (l.length, x, .list l.dropLast)
    | none => none                       -- not reached: guarded by truthiness
  | .str s => match s.toList.getLast? with
    | some c => some (s.length, String.singleton c, .str (String.ofList s.toList.dropLast))
    | none => none
  | _ => none

/-- The head of `MetaFile.__init__`:
    ```
    if content: path = content
    if not path:
        if announce and len(announce) > 1 and os.path.exists(announce[-1]):
            path = announce[-1]; announce = announce[:-1]
        elif url_list and os.path.exists(url_list[-1]):
            path = url_list[-1]; url_list = url_list[:-1]
        elif httpseeds and os.path.exists(httpseeds[-1]):
            path = httpseeds[-1]; httpseeds = httpseeds[:-1]
        else: raise utils.MissingPathError
    self.path = path
    ```
    Result: the keyword record as the rest of `__init__` sees it — `path` resolved, `content`
    no longer consulted (set to `None`), the three lists possibly shortened. -/
def metaInit (ex : String → Bool) (kw : Kwargs) : Except MetaErr Kwargs :=
  let path := if kw.content.truthy then kw.content else kw.path
  if path.truthy then .ok { kw with path := path, content := .none }
  else
    -- announce and len(announce) > 1 and exists(announce[-1])
    let tryAnn : Except MetaErr (Option Kwargs) :=
      if kw.announce.truthy then
        match seqParts kw.announce with
        | none => .error .typeError
        | some (n, last, init) =>
          if n > 1 ∧ ex last then .ok (some { kw with path := .str last, content := .none, announce := init })
          else .ok none
      else .ok none
    match tryAnn with
    | .error e => .error e
    | .ok (some r) => .ok r
    | .ok none =>
      let tryUrl : Except MetaErr (Option Kwargs) :=
        if kw.urlList.truthy then
          match seqParts kw.urlList with
          | none => .error .typeError
          | some (_, last, init) =>
            if ex last then .ok (some { kw with path := .str last, content := .none, urlList := init })
            else .ok none
        else .ok none
      match tryUrl with
      | .error e => .error e
      | .ok (some r) => .ok r
      | .ok none =>
        if kw.httpseeds.truthy then
          match seqParts kw.httpseeds with
          | none => .error .typeError
          | some (_, last, init) =>
            if ex last then .ok { kw with path := .str last, content := .none, httpseeds := init }
            else .error .missingPath
        else .error .missingPath

/-- Values of metafile fields. -/
inductive FieldVal
  | int (i : Int)
  /-- the Python object stored as is -/
  | val (v : Val)
  /-- `[[…]]` (announce-list has one tier) -/
  | tiers (l : List Val)
  deriving DecidableEq, Repr

/-- `Val` → argument of `normalize_piece_length` -/
def plArgOfVal : Val → PLArg
  | .none => .none
  | .bool b => .int (if b then 1 else 0)
  | .str s => .str s.toList
  | .list l => .other (!l.isEmpty)

/-- `announce` / `announce-list` as `MetaFile.__init__` derives them from the keyword. -/
def annFields : Val → List (String × FieldVal)
  | .str s => if s ≠ "" then [("announce", .val (.str s)), ("announce-list", .tiers [.str s])] else []
  | .list (a :: r) =>
    if a ≠ "" then [("announce", .val (.str a)), ("announce-list", .tiers [.list (a :: r)])] else []
  | _ => []

/-- `if c: meta[k] = v` -/
def optField (c : Bool) (k : String) (v : FieldVal) : List (String × FieldVal) :=
  if c then [(k, v)] else []

/-- the `outfile` keyword as `MetaFile.write` uses it (anything falsy = not given) -/
def outArgOf : Val → Option Path
  | .str s => some s
  | _ => none

/-- The rest of `MetaFile.__init__` and `MetaFile.write` as far as the documented options go:
    the metafile fields (dotted names for keys inside `info`) and the output path each keyword
    feeds, in the order of the assignments.
    ```
    if not announce: self.announce, self.announce_list = "", [[""]]
    elif isinstance(announce, str): self.announce, self.announce_list = announce, [[announce]]
    elif isinstance(announce, Sequence): self.announce, self.announce_list = announce[0], [announce]
    if self.announce: meta["announce"] = self.announce; meta["announce-list"] = self.announce_list
    if comment: info["comment"] = comment
    if private: info["private"] = 1
    if source: info["source"] = source
    if url_list: meta["url-list"] = url_list
    if httpseeds: meta["httpseeds"] = httpseeds
    info["piece length"] = self.piece_length            -- see `Impl.recordedPieceLength`
    ```
    `contentSize` = `path_size(path)`, `cwd`/`name` as in `Impl.outPath`.  The pseudo-field
    `"<output path>"` is where `write()` puts the file. -/
def fields (kw : Kwargs) (contentSize : Nat) (cwd : Path) (name : String) :
    Except MetaErr (List (String × FieldVal)) :=
  match recordedPieceLength (plArgOfVal kw.pieceLength) contentSize with
  | .error _ => .error .pieceLength
  | .ok pl =>
    .ok (annFields kw.announce
      ++ optField kw.comment.truthy "info.comment" (.val kw.comment)
      ++ optField kw.private_.truthy "info.private" (.int 1)
      ++ optField kw.source.truthy "info.source" (.val kw.source)
      ++ optField kw.urlList.truthy "url-list" (.val kw.urlList)
      ++ optField kw.httpseeds.truthy "httpseeds" (.val kw.httpseeds)
      ++ [("info.piece length", .int pl)]
      ++ [("<output path>", .val (.str (outPath (outArgOf kw.outfile) cwd name)))])

end Impl

namespace Spec

/-- An option group on the command line: an option string followed by its values. -/
structure Group where
  flag : String
  vals : List String
  deriving DecidableEq, Repr

def Group.render (g : Group) : List String := g.flag :: g.vals

/-- The group is well formed for the table: the flag is an option string of the table, the
    values do not look like options, and their number fits the arity (and the choices). -/
def Group.wf (t : Table) (g : Group) : Bool :=
  isDash g.flag && g.vals.all (fun v => !isDash v) &&
  match t.lookup g.flag with
  | none => false
  | some o => match o.nargs with
    | .zero => g.vals.isEmpty
    | .one => g.vals.length == 1 && (o.choices.isEmpty || g.vals.all o.choices.contains)
    | .plus => !g.vals.isEmpty

/-- keyword the group is stored under (`""` if the flag is unknown — excluded by `wf`) -/
def Group.dest (t : Table) (g : Group) : String :=
  match t.lookup g.flag with
  | some o => o.dest
  | none => ""

/-- is the group's option list-valued (`nargs='+'`)? -/
def Group.isPlus (t : Table) (g : Group) : Bool :=
  match t.lookup g.flag with
  | some o => o.nargs == .plus
  | none => false

/-- the value the group means -/
def Group.value (t : Table) (g : Group) : Val :=
  match t.lookup g.flag with
  | some o => match o.nargs with
    | .zero => .bool true
    | .one => match g.vals with
      | v :: _ => .str v
      | [] => .none
    | .plus => .list g.vals
  | none => .none

/-- What a set of option groups means, independent of any order on the command line:
    the defaults with each group's keyword set to the group's value. -/
def meaning (t : Table) (groups : List Group) : Namespace :=
  groups.foldl (fun ns g => NS.set ns (g.dest t) (g.value t)) t.defaults

/-- The keyword record that every arrangement of `groups` around the content path `p` must
    produce once `MetaFile.__init__` has resolved the path. -/
def expected (t : Table) (groups : List Group) (p : String) : Kwargs :=
  { Impl.toKwargs (meaning t groups) with path := .str p, content := .none }

/-- the tokens of a command line: groups, the content path, more groups -/
def commandLine (gs1 : List Group) (p : String) (gs2 : List Group) : List String :=
  gs1.flatMap Group.render ++ p :: gs2.flatMap Group.render

/-- The configuration keys of the documented options with the flag each one stands for. -/
def documentedConfig : List (String × String) := [
  ("announce", "--announce"), ("tracker", "--tracker"), ("web-seed", "--web-seed"),
  ("http-seed", "--http-seed"), ("private", "--private"), ("source", "--source"),
  ("comment", "--comment"), ("piece-length", "--piece-length"),
  ("meta-version", "--meta-version"), ("out", "--out"), ("align", "--align")]

/-- The configuration entry `(key, v)` says the same as the option group `g`: the key is the
    documented key of the group's flag; for a list-valued option the non-empty lines of the
    value are the group's values, for a single-valued one the value is the group's value, for
    a switch the value is one of the words `true`, `yes`, `on`, `1` (any letter case). -/
def ConfigMatches (t : Table) (g : Group) (kv : String × String) : Prop :=
  (kv.1, g.flag) ∈ documentedConfig ∧
  match t.lookup g.flag with
  | none => False
  | some o => match o.nargs with
    | .zero => Impl.isTrueWord kv.2 = true
    | .one => g.vals = [kv.2]
    | .plus => Impl.splitLines kv.2 = g.vals

/-- The configuration entries `items` say, entry by entry, the same as the option groups. -/
inductive ConfigFor (t : Table) : List Group → List (String × String) → Prop
  | nil : ConfigFor t [] []
  | cons {g : Group} {kv : String × String} {gs : List Group} {kvs : List (String × String)} :
      ConfigMatches t g kv → ConfigFor t gs kvs → ConfigFor t (g :: gs) (kv :: kvs)

/-- The library route: the keyword dictionary a caller writes down for the same options —
    `path=p` and, for each group, the keyword named by the group's `dest` with its value. -/
def libraryKwargs (t : Table) (groups : List Group) (p : String) : Namespace :=
  groups.foldl (fun ns g => NS.set ns (g.dest t) (g.value t)) [("path", .str p)]

end Spec
end TorrentVerif

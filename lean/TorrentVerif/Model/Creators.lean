import TorrentVerif.Model.HasherV1
import TorrentVerif.Model.HybridSingle
import TorrentVerif.Model.Listing
import TorrentVerif.Model.Meta
/-
  The five metafile creators of `torrent.py`, end to end: from a content tree to the value
  handed to `pyben.dump` and its bytes.

      TorrentFile(path, align=…)                 `Impl.createV1`
      TorrentFileV2(path)                        `Impl.createV2Class`
      TorrentFileHybrid(path)                    `Impl.createHybridClass`
      TorrentAssembler(path, meta_version="2")   `Impl.createAsm … false`
      TorrentAssembler(path, meta_version="3")   `Impl.createAsm … true`

  Nothing is re-modelled here: the hashers are `Impl.hasherV1`, `Impl.hasherV2`,
  `Impl.hasherHybrid`, `Impl.fileHasher` (Model/HasherV1, Model/Merkle), the single-file tail rule
  is `Impl.singleTailList` / `Impl.singleTailBytes` (Model/HybridSingle), the directory walks are
  `Impl.listV1` and `Impl.traverse` / `Impl.ftreeFiles` (Model/Listing), the dictionaries are
  filled by `Impl.metaDicts` / `Impl.assembleV1` / `assembleV2` / `assembleAsmV2` /
  `assembleHybrid` and sorted by `Impl.sortMeta` (Model/Meta). This file only adds the glue the
  `assemble` / `_traverse` methods consist of: building the `files` entries, the file-tree
  leaves, and collecting piece layers and v1 pieces in traversal order.

  Conventions
  * The content is a `Node`; `.file d` is "the path is a regular file" (`os.path.isfile`),
    `.dir es` a directory. Names are UTF-8 bytes.
  * `o : CreateOpts` carries the options after `MetaFile.__init__`; `o.name` is the root name
    (`info["name"]`, and the key of the single-file file tree: `TorrentFileV2` uses
    `info["name"]`, the other two `os.path.basename(self.path)`; for a path that is a regular
    file the two coincide). `o.pieceLength` is `self.piece_length`; the hashers derive
    `piece_length // BLOCK_SIZE` from it (`pl / B`), as the Python constructors do.
  * `H` stands for SHA-256, `H1` for SHA-1, `B` for `BLOCK_SIZE`, `hs` for `HASH_SIZE`.
  * `_traverse` hashes a file when it reaches it; its side effects (`self.files.append`,
    `self.pieces.extend`, `self.piece_layers[root] = …`) therefore happen in the order of
    `Impl.ftreeFiles [] (Impl.traverse enum t)`. A directory dictionary `file_tree[name] = …`
    filled in `sorted(os.listdir)` order is the `FTree.node` list of Model/Listing (names of a
    real directory are distinct, so no assignment overwrites).
  * Python raises ⇒ `none`: `Hasher([])` (`open(self.paths[0])`, IndexError) for a directory
    without any regular file in the v1 creator; the branches of `singleTailList` /
    `singleTailBytes`; `sort_meta` on a non-dictionary (never happens for these values).

  Deviation: `pre` (v1 only) is `str(Path(path))`, the content root as `_filelist_total` spells
  it; `os.path.relpath(file, root).split(os.sep)` is modelled as "cut `pre` and one separator,
  split at `/`", which is what `relpath` returns for a file below a root that is not `/` itself.
-/
namespace TorrentVerif

namespace K
def path : Bytes := [112, 97, 116, 104]  -- "path"
def attr : Bytes := [97, 116, 116, 114]  -- "attr"
def piecesRoot : Bytes := [112, 105, 101, 99, 101, 115, 32, 114, 111, 111, 116]  -- "pieces root"
end K

/-! ### reading a written metafile back (specification side) -/
namespace Spec

mutual
/-- the files of a BEP 52 file tree with their path components: an entry whose key is the
    empty string holds the properties of the file at that point; any other entry is a
    directory level -/
def treeLeaves (pre : List Bytes) : BVal → List (List Bytes × BVal)
  | .dict kvs => treeLeavesD pre kvs
  | _ => []
def treeLeavesD (pre : List Bytes) : List (Bytes × BVal) → List (List Bytes × BVal)
  | [] => []
  | (k, v) :: r => (if k = [] then [(pre, v)] else treeLeaves (pre ++ [k]) v) ++ treeLeavesD pre r
end

mutual
/-- the regular file at a relative path (given by its components) of a content tree -/
def fileAt : Node → List Bytes → Option Bytes
  | .file d, [] => some d
  | .file _, _ :: _ => none
  | .dir _, [] => none
  | .dir es, n :: r => fileAtList es n r
def fileAtList : List (Bytes × Node) → Bytes → List Bytes → Option Bytes
  | [], _, _ => none
  | (m, c) :: t, n, r => if m = n then fileAt c r else fileAtList t n r
end

/-- BEP 47: an entry of `files` is a padding file when it carries `attr` = "p" -/
def isPadEntry (e : BVal) : Bool := if e.get? K.attr = some (.str [112]) then true else false

/-- the `length` of an entry of `files` or of a file-tree leaf -/
def entryLength (e : BVal) : Option Nat :=
  match e.get? K.length with
  | some (.int (.ofNat n)) => some n
  | _ => none

def strList : List BVal → Option (List Bytes)
  | [] => some []
  | .str s :: r => (strList r).map (s :: ·)
  | _ :: _ => none

/-- the `path` (list of components) of an entry of `files` -/
def entryPath (e : BVal) : Option (List Bytes) :=
  match e.get? K.path with
  | some (.list l) => strList l
  | _ => none

/-- sum of the listed lengths -/
def lengthsSum : List BVal → Option Nat
  | [] => some 0
  | e :: es =>
    match entryLength e, lengthsSum es with
    | some a, some b => some (a + b)
    | _, _ => none

/-- the bytes an entry of `files` stands for: zero bytes for a padding entry, otherwise the
    contents of the file of the content tree at the listed path, which must have exactly the
    listed length -/
def entryBytes (t : Node) (e : BVal) : Option Bytes :=
  if isPadEntry e then (entryLength e).map zeros
  else
    match (entryPath e).bind (fileAt t) with
    | some d => if entryLength e = some d.length then some d else none
    | none => none

/-- the v1 byte stream a `files` list describes over a content tree (`none` when an entry
    names no file of the tree or states a wrong length) -/
def filesStream (t : Node) : List BVal → Option Bytes
  | [] => some []
  | e :: es =>
    match entryBytes t e, filesStream t es with
    | some a, some b => some (a ++ b)
    | _, _ => none

/-- the path string of the directory the top-level names of a written file tree live in, given
    the path `pre`: for a directory payload `pre` is the content directory itself; for a single
    file `pre` is its parent directory and the file is `pre/name` -/
def treeBase (pre name : Bytes) : Node → Bytes
  | .file _ => Listing.join pre name
  | .dir _ => pre

/-- a metafile value with the `creation date` entry set to `date` (everything else, including
    the position of the entry, untouched) -/
def setDate (date : Int) : BVal → BVal
  | .dict kvs => .dict (kvs.map fun kv => if kv.1 = K.creationDate then (kv.1, .int date) else kv)
  | v => v

end Spec

namespace Impl

def sPad : Bytes := [46, 112, 97, 100]  -- ".pad"
def sP : Bytes := [112]                 -- "p"

/-- what a v2-capable hasher object holds for one file after it ran:
    `root`, `piece_layer` (resp. the concatenated yielded layer hashes), `pieces`,
    `padding_file["length"]` -/
structure FileHash where
  root : Bytes
  layer : Bytes
  pieces : List Bytes
  padding : Option Nat
deriving Repr

/-- `HasherV2(path, piece_length)` -/
def fhV2 (H : Bytes → Bytes) (B hs bpp : Nat) (d : Bytes) : FileHash :=
  let r := hasherV2 H B hs bpp d
  ⟨r.1, r.2, [], none⟩

/-- `HasherHybrid(path, piece_length)` -/
def fhHybrid (H H1 : Bytes → Bytes) (B hs bpp : Nat) (d : Bytes) : FileHash :=
  let r := hasherHybrid H H1 B hs bpp d
  ⟨r.1, r.2.1, r.2.2.1, r.2.2.2⟩

/-- `FileHasher(path, piece_length, hybrid=…)` drained by `TorrentAssembler._traverse` -/
def fhAsm (H H1 : Bytes → Bytes) (B hs bpp : Nat) (hybrid : Bool) (d : Bytes) : FileHash :=
  let r := fileHasher H H1 B hs bpp hybrid d
  ⟨r.1, r.2.1, r.2.2.1, r.2.2.2⟩

/-- `{"length": size, "path": relpath.split(os.sep)}` -/
def fileEntry (path : List Bytes) (n : Nat) : BVal :=
  .dict [(K.length, .int n), (K.path, strs path)]

/-- `{"attr": "p", "length": n, "path": [".pad", str(n)]}` -/
def padEntry (n : Nat) : BVal :=
  .dict [(K.attr, .str sP), (K.length, .int n), (K.path, strs [sPad, natDec n])]

/-- `os.path.relpath(path, self.path).split(os.sep)` for a file `full` below the root `pre` -/
def relPath (pre full : Bytes) : List Bytes := Spec.splitOn Listing.sep (full.drop (pre.length + 1))

/-- `info["files"]` of `TorrentFile.assemble`: the comprehension (no `align`) or the loop that
    appends a padding entry of `-filesize % piece_length` bytes when that is not zero. -/
def v1Entries (align : Bool) (pl : Nat) : List (List Bytes × Nat) → List BVal
  | [] => []
  | (p, s) :: t =>
    let remainder := gap pl s
    if align && remainder ≠ 0 then fileEntry p s :: padEntry remainder :: v1Entries align pl t
    else fileEntry p s :: v1Entries align pl t

/-- the value `_traverse` returns for a regular file: `{"": {"length": 0}}` for an empty file
    (no hasher is constructed), else `{"": {"length": size, "pieces root": root}}` -/
def leafVal (hf : Bytes → FileHash) (d : Bytes) : BVal :=
  if d.length = 0 then .dict [([], .dict [(K.length, .int 0)])]
  else .dict [([], .dict [(K.length, .int d.length), (K.piecesRoot, .str (hf d).root)])]

mutual
/-- the dictionary `_traverse(path)` returns -/
def treeVal (hf : Bytes → FileHash) : FTree → BVal
  | .leaf d => leafVal hf d
  | .node es => .dict (treeValList hf es)
def treeValList (hf : Bytes → FileHash) : List (Bytes × FTree) → Dict
  | [] => []
  | (n, c) :: t => (n, treeVal hf c) :: treeValList hf t
end

/-- the assignments `self.piece_layers[root] = layer` in traversal order: one for each file
    with `size > piece_length` (an empty file returns before; `0 > pl` is false anyway) -/
def layerItems (hf : Bytes → FileHash) (pl : Nat) (files : List (List Bytes × Bytes)) :
    List (Bytes × Bytes) :=
  files.filterMap fun x => if pl < x.2.length then some ((hf x.2).root, (hf x.2).layer) else none

/-- `self.files` after the traversal of a hybrid creator: every file's entry, followed by the
    hasher's `padding_file` when it recorded one (never for an empty file: no hasher ran) -/
def hybridEntries (hf : Bytes → FileHash) : List (List Bytes × Bytes) → List BVal
  | [] => []
  | (p, d) :: t =>
    fileEntry p d.length ::
      (if d.length = 0 then hybridEntries hf t
       else match (hf d).padding with
         | some n => padEntry n :: hybridEntries hf t
         | none => hybridEntries hf t)

/-- `self.pieces` after the traversal: the v1 digests of every non-empty file, in order -/
def hybridPieceList (hf : Bytes → FileHash) (files : List (List Bytes × Bytes)) : List Bytes :=
  (files.map fun x => if x.2.length = 0 then [] else (hf x.2).pieces).flatten

/-- `MetaFile.write`: `(self.sort_meta(), bytes written by pyben.dump)` -/
def written (v : BVal) : Option (BVal × Bytes) := (sortMeta v).map fun r => (r, encode r)

/-- `os.path.isfile(self.path)` and its size -/
def singleLen : Node → Option Nat
  | .file d => some d.length
  | .dir _ => none

/-- `TorrentFile(path=…, align=…).write()`. `pre` = `str(Path(path))`. -/
def createV1 (o : CreateOpts) (align : Bool) (H1 : Bytes → Bytes)
    (enum : List (List (Bytes × Bytes)) → List (List (Bytes × Bytes))) (pre : Bytes) (t : Node) :
    Option (BVal × Bytes) :=
  let pl := o.pieceLength
  let filelist := listV1 enum pre t                     -- `utils.filelist_total(self.path)`
  match t with
  | .file d =>
    -- `align and not isfile` = False; `info["length"] = size`
    let pieces := ((hasherV1 false pl (filelist.map (·.2))).map H1).flatten
    written (assembleV1 o (.single d.length) pieces)
  | .dir _ =>
    let files := v1Entries align pl (filelist.map fun x => (relPath pre x.1, x.2.length))
    if filelist = [] then none                          -- `open(self.paths[0])`: IndexError
    else
      let pieces := ((hasherV1 align pl (filelist.map (·.2))).map H1).flatten
      written (assembleV1 o (.multi (.list files)) pieces)

/-- `TorrentFileV2(path=…).write()` -/
def createV2Class (o : CreateOpts) (H : Bytes → Bytes) (B hs : Nat)
    (enum : List (Bytes × FTree) → List (Bytes × FTree)) (t : Node) : Option (BVal × Bytes) :=
  let pl := o.pieceLength
  let hf := fhV2 H B hs (pl / B)
  let ft := traverse enum t
  let files := ftreeFiles [] ft
  written (assembleV2 o (singleLen t) (treeVal hf ft) (layerItems hf pl files))

/-- `TorrentFileHybrid(path=…).write()` -/
def createHybridClass (o : CreateOpts) (H H1 : Bytes → Bytes) (B hs : Nat)
    (enum : List (Bytes × FTree) → List (Bytes × FTree)) (t : Node) : Option (BVal × Bytes) :=
  let pl := o.pieceLength
  let hf := fhHybrid H H1 B hs (pl / B)
  let ft := traverse enum t
  let files := ftreeFiles [] ft
  let tree := treeVal hf ft
  let layers := layerItems hf pl files
  let pieces := hybridPieceList hf files               -- `self.pieces` (a list of digests)
  match t with
  | .file d =>
    match singleTailList H1 pl d pieces with            -- `self.pieces[-1] = sha1_tail(…)`
    | none => none
    | some ps => written (assembleHybrid o (.single d.length) tree ps.flatten layers)
  | .dir _ =>
    written (assembleHybrid o (.multi (.list (hybridEntries hf files))) tree pieces.flatten layers)

/-- `TorrentAssembler(path=…, meta_version="3" if hybrid else "2").write()` -/
def createAsm (hybrid : Bool) (o : CreateOpts) (H H1 : Bytes → Bytes) (B hs : Nat)
    (enum : List (Bytes × FTree) → List (Bytes × FTree)) (t : Node) : Option (BVal × Bytes) :=
  let pl := o.pieceLength
  let hf := fhAsm H H1 B hs (pl / B) hybrid
  let ft := traverse enum t
  let files := ftreeFiles [] ft
  let tree := treeVal hf ft
  let layers := layerItems hf pl files
  if hybrid then
    let pieces := (hybridPieceList hf files).flatten   -- `self.pieces` (a bytearray)
    match t with
    | .file d =>
      match singleTailBytes H1 pl d pieces with         -- `self.pieces[-20:] = sha1_tail(…)`
      | none => none
      | some ps => written (assembleHybrid o (.single d.length) tree ps layers)
    | .dir _ =>
      written (assembleHybrid o (.multi (.list (hybridEntries hf files))) tree pieces layers)
  else written (assembleAsmV2 o (singleLen t) tree layers)

/-- "`(r, b)` is what one of the four v2-capable creators wrote for the content `t`":
    `TorrentFileV2`, `TorrentAssembler` in v2 mode, `TorrentFileHybrid`, or `TorrentAssembler`
    in hybrid mode — the last one with a v1 hash of 20-byte digests (it patches the last 20
    bytes of the piece string of a single file). -/
def WrittenV2Capable (o : CreateOpts) (H H1 : Bytes → Bytes) (B hs : Nat)
    (enum : List (Bytes × FTree) → List (Bytes × FTree)) (t : Node) (r : BVal) (b : Bytes) : Prop :=
  createV2Class o H B hs enum t = some (r, b) ∨
  createAsm false o H H1 B hs enum t = some (r, b) ∨
  createHybridClass o H H1 B hs enum t = some (r, b) ∨
  ((∀ x, (H1 x).length = 20) ∧ createAsm true o H H1 B hs enum t = some (r, b))

end Impl
end TorrentVerif

import TorrentVerif.Model.Recheck
import TorrentVerif.Model.Bencode
import TorrentVerif.Model.Listing
/-
  Model of the WHOLE `torrentfile.recheck.Checker`: metafile → file map → verdict stream →
  `(matched, consumed)`.  `Model/Recheck.lean` has the piece iterators (`FeedChecker`,
  `HashChecker`) for a given file list; this file adds what builds that list:
  `Checker.__init__` (version detection), `find_root`, `check_paths`, `walk_file_tree`, the
  look-up of every path on disk, `piece_checker`, and the error exits.

  Filesystem.  Recheck only reads.  `Disk := Node` (`Model/Listing`): a directory tree with file
  contents; a missing file is simply not in the tree.  The content path the user passes is
  either the payload root or its parent: `ContentArg` says which, and carries `Path(path).name`
  (the last component of that path).  `ContentArg.place` builds what is at the user's path:
  the payload itself, or a directory holding the payload under the torrent's name.  The
  functions that mirror the Python (`Impl.findRoot`, `Impl.recheckMeta`) only see what Python
  sees: the last component and the node at the path.

  Results.  `Except Err (verdicts, matched, consumed)`: the `(chunk == piece, size)` stream of
  `Checker.iter_hashes()` and the two counters from which `results()` computes
  `(matched / consumed) * 100` (`0` when `consumed = 0`).

  Deviations / not modelled (all outside well-formed metafiles, excluded by `Spec.plan`):
  * a path component that is empty, `.`, `..` or contains `/` is joined by `os.path.join` /
    `pathlib` in its own way; the model looks components up literally (such a name is never
    found in a tree).  A name that is not valid UTF-8 reaches Python as `bytes` and makes
    `os.path.join` raise `TypeError`; the model treats names as byte strings.
  * pyben's `str`/`bytes` distinction is erased (see `Model/Bencode`).
  * Python is lazy: an exception in the middle of `iter_hashes` comes after some verdicts have
    been yielded, and when a run can fail in two ways the first one in time wins.  The model
    reports one error for the whole run; on metafiles that are broken in several ways at once
    the KIND reported may differ (ill-typed values are all `typeError`; a `file tree` that is
    not a dictionary is `typeError` although Python only notices when it is used).
  * `piece length ≤ 0` (v1: Python does not terminate) and, for v2 / hybrid, a piece length
    that is not a positive multiple of `BLOCK_SIZE` (Python goes on with
    `piece_length // BLOCK_SIZE` blocks per piece) are `badPieceLength`.
  * a negative `length` is `typeError`.
  * `_is_parent` (telling the content from its parent when both carry the torrent's name): an
    empty top-level name makes `os.path.exists(outer / "")` true, the model finds no entry of
    that name; a `path` that is not a list is `typeError`.

  Tie to the code: driver command `recheckfull` (`Driver/G8.lean`) against the real
  `torrentfile.recheck.Checker` (stream of `iter_hashes`, `_result`, exception kind): own
  creators (v1, v1 align, v2, hybrid, assembler) and reference encoder (hybrid without trailing
  pad, v2 single file without `info.length`, shuffled key order), root / parent, intact and
  damaged trees, empty files in all positions, broken metafiles; BLOCK_SIZE 16384 and 64.
-/
namespace TorrentVerif

namespace RF

/-- key names (kept in `RF` so that they cannot collide with another model's `K` entries) -/
def kPath : Bytes := [112, 97, 116, 104]  -- "path"
def kPiecesRoot : Bytes := [112, 105, 101, 99, 101, 115, 32, 114, 111, 111, 116]  -- "pieces root"

/-- the read-only view of the filesystem below the content path -/
abbrev Disk := Node

inductive ArgKind
  | root     -- the content path is the payload itself
  | parent   -- the content path is the directory that holds the payload
  deriving DecidableEq, Repr

/-- the `path` argument of `Checker(metafile, path)`: which of the two it is, and
    `Path(path).name` -/
structure ContentArg where
  kind : ArgKind
  argName : Bytes
  deriving DecidableEq, Repr

/-- what is at the content path, given the payload and the name it is stored under -/
def ContentArg.place (a : ContentArg) (name : Bytes) (payload : Disk) : Node :=
  match a.kind with
  | .root => payload
  | .parent => .dir [(name, payload)]

inductive Err
  | decodeError      -- `pyben.load` fails
  | keyError         -- a key that is read is missing (KeyError)
  | typeError        -- a value of the wrong type is used (TypeError / AttributeError)
  | notFound         -- torrent content not located (FileNotFoundError)
  | notADirectory    -- `os.listdir` of a regular file (NotADirectoryError)
  | isADirectory     -- `open` of a directory (IsADirectoryError)
  | indexError       -- `HashChecker.next_file` on an empty path list (IndexError)
  | badPieceLength   -- see the header: not modelled
  | zeroDivision     -- progress message with `total = 0` (ZeroDivisionError)
  deriving DecidableEq, Repr

/-- one entry of `checker.paths` / `checker.fileinfo`: path components below the payload root
    (`[]` = the root itself), recorded length, and a third component that is
    * for the v2 part (file tree): the `pieces root` (`none`: key absent or `None`);
    * for an entry of a v1 `files` list, which has no pieces root: `padMark` when
      `fileinfo[i]["pad"]` is true (BEP 47 padding entry: its `attr` contains `p`), `none` for an
      ordinary file.  Only the v1 branch reads it that way (`isPadRec`). -/
abbrev FileRec := List Bytes × Nat × Option Bytes

/-- third component of a v1 padding entry (the attribute letter `p`) -/
def padMark : Option Bytes := some [112]

/-- `fileinfo[i].get("pad")` of a v1 entry -/
def isPadRec (r : FileRec) : Bool := r.2.2.isSome

/-- (instance search runs out of size on the nested product otherwise) -/
instance instDecEqFileRec : DecidableEq FileRec := inferInstance

/-- `name in os.listdir(node)` / `node / name` -/
def child : Node → Bytes → Option Node
  | .file _, _ => none
  | .dir es, n => (es.find? (fun e => e.1 = n)).map (·.2)

/-- what is at `node / c₁ / … / cₙ` (`none`: `os.path.exists` is false) -/
def lookup : Node → List Bytes → Option Node
  | nd, [] => some nd
  | nd, c :: cs =>
    match child nd c with
    | some x => lookup x cs
    | none => none

/-- `os.path.isfile` -/
def isFile : Node → Bool
  | .file _ => true
  | .dir _ => false

/-- `v[k]` -/
def sub (v : BVal) (k : Bytes) : Except Err BVal :=
  match v with
  | .dict d =>
    match dictGet d k with
    | some x => .ok x
    | none => .error .keyError
  | _ => .error .typeError

/-- a length -/
def nat (v : BVal) : Except Err Nat :=
  match v with
  | .int i => if 0 ≤ i then .ok i.toNat else .error .typeError
  | _ => .error .typeError

def str (v : BVal) : Except Err Bytes :=
  match v with
  | .str s => .ok s
  | _ => .error .typeError

def strs : List BVal → Except Err (List Bytes)
  | [] => .ok []
  | v :: vs => do
    let s ← str v
    let r ← strs vs
    .ok (s :: r)

/-- key `attr` (BEP 47) -/
def kAttr : Bytes := [97, 116, 116, 114]  -- "attr"

/-- `"p" in item.get("attr", "")`: substring test on a string (`xp`, `ph` count; `x`, `h`, the
    empty string and a missing `attr` do not); membership for a list / dictionary -/
def padAttr (item : BVal) : Except Err Bool :=
  match item with
  | .dict d =>
    match dictGet d kAttr with
    | none => .ok false
    | some (.str a) => .ok (a.contains 112)
    | some (.list l) => .ok (l.any fun x => x == .str [112])
    | some (.dict kv) => .ok (dictHas kv [112])
    | some (.int _) => .error .typeError
  | _ => .error .typeError

def totalOf (recs : List FileRec) : Nat := (recs.map (·.2.1)).sum

end RF

open RF

namespace Impl

/-- `{item["path"][0] for item in info["files"] if item["path"] and "p" not in
    item.get("attr", "")}` in `_is_parent` (as a list; repetitions are removed when counting):
    padding entries do not count -/
def filesTops : List BVal → Except Err (List Bytes)
  | [] => .ok []
  | item :: rest => do
    match ← sub item RF.kPath with
    | .list [] => filesTops rest                          -- `if item["path"]`
    | .list (x :: _) =>
      if ← padAttr item then filesTops rest               -- `and "p" not in item.get("attr", "")`
      else
        match x with
        | .str s =>
          let t ← filesTops rest
          .ok (s :: t)
        | _ => .error .typeError
    | _ => .error .typeError

/-- `sum(os.path.exists(nd / top) for top in tops)` for the SET `tops` -/
def countTops (nd : Node) (tops : List Bytes) : Nat :=
  (tops.eraseDups.filter fun t => (child nd t).isSome).length

/-- the described top-level entries as `_is_parent` collects them (`tops`): the first path
    components of the `files` entries (v1 and hybrid; padding entries excluded), else the keys
    of the file tree; `none` for a single-file torrent (`length`, or the tree `{name: file}`). -/
def topsOf (info : Dict) (name : Bytes) : Except Err (Option (List Bytes)) :=
  match dictGet info K.files with
  | some (.list items) => do                              -- `if "files" in info`
    let tops ← filesTops items
    .ok (some tops)
  | some _ => .error .typeError
  | none =>
    if dictHas info K.length then .ok none                -- `"length" in info or …`
    else
      match dictGet info K.fileTree with
      | none => .ok (some [])                             -- `set({})`
      | some (.dict tree) =>
        if keys tree = [name] then                        -- `list(tree) == [self.name]`
          match dictGet tree name with
          | some (.dict leaf) =>
            if dictHas leaf [] then .ok none              -- `"" in tree[self.name]`
            else .ok (some (keys tree))
          | some _ => .error .typeError
          | none => .ok (some (keys tree))
        else .ok (some (keys tree))
      | some _ => .error .typeError

/-- `Checker._is_parent(outer, inner)`: `outer` is a directory named like the torrent, `inner`
    its entry that is also named like the torrent.  `true`: `inner` is the content and `outer`
    only its parent.  A single-file torrent's content is a file; otherwise strictly more of
    the described top-level entries must exist below `inner` than directly below `outer`. -/
def isParent (info : Dict) (name : Bytes) (outer inner : Node) : Except Err Bool := do
  match ← topsOf info name with
  | none => .ok (isFile inner)
  | some tops => .ok (decide (countTops outer tops < countTops inner tops))

/-- the test in the `if root.name == self.name` branch of `find_root`:
    `root.is_dir() and inner.exists() and self._is_parent(root, inner)` — `true` when the
    directory `nd`, named like the torrent, has an entry named like the torrent that
    `_is_parent` takes for the content -/
def descends (info : Dict) (name : Bytes) (nd : Node) : Except Err Bool :=
  match nd with
  | .file _ => .ok false                                  -- `root.is_dir()`
  | .dir _ =>
    match child nd name with
    | none => .ok false                                   -- `inner.exists()`
    | some inner => isParent info name nd inner

/-- `Checker.find_root(path)`: `here` is what is at `path` (`none`: it does not exist), `argName`
    is `Path(path).name`. -/
def findRoot (info : Dict) (name argName : Bytes) (here : Option Node) : Except Err Node :=
  match here with
  | none => .error .notFound                        -- `if not os.path.exists(path)`
  | some nd =>
    if argName = name then do                       -- `if root.name == self.name`
      if ← descends info name nd then
        match child nd name with
        | some inner => .ok inner                   -- `return inner`
        | none => .ok nd
      else .ok nd
    else
      match nd with
      | .file _ => .error .notADirectory            -- `os.listdir(root)`
      | .dir _ =>
        match child nd name with
        | some c => .ok c                           -- `root / self.name`
        | none => .error .notFound

/-- The side condition under which `find_root` resolves the content argument to the payload.
    Payload root: it is named like the torrent, and `find_root` does not go on into an entry
    of the payload that is again named like the torrent (`descends … = false`: the payload is a
    file, or has no such entry, or `_is_parent` finds no more of the described top-level
    entries in there than in the payload itself).
    Parent directory (holding just the payload): it is not named like the torrent, or
    `_is_parent` tells the payload from it (more described top-level entries below the
    payload than directly in the parent; a single-file payload is a file). -/
def _root_.TorrentVerif.RF.ContentArg.Resolves (a : ContentArg) (info : Dict) (name : Bytes)
    (disk : Disk) : Prop :=
  match a.kind with
  | .root => a.argName = name ∧ descends info name disk = .ok false
  | .parent => a.argName ≠ name ∨ isParent info name (.dir [(name, disk)]) disk = .ok true

/-- `meta_version` as `Checker.__init__` determines it -/
def metaVersion (info : Dict) : Nat :=
  if dictHas info K.metaVersion then (if dictHas info K.pieces then 3 else 2) else 1

/-- the leaf branch of `walk_file_tree`: `val` has the key `""` -/
def leafRec (path : List Bytes) (val : BVal) : Except Err FileRec := do
  let inner ← sub val []
  let len ← (← sub inner K.length) |> nat
  if len = 0 then .ok (path, 0, none)               -- `None if not length`
  else
    let r ← (← sub inner RF.kPiecesRoot) |> str
    .ok (path, len, some r)

mutual
/-- body of `for key, val in tree.items()` in `walk_file_tree` -/
def walkVal (partials : List Bytes) (key : Bytes) : BVal → Except Err (List FileRec)
  | .dict d =>
    if dictHas d [] then (leafRec (partials ++ [key]) (.dict d)).map ([·])
    else walkItems (partials ++ [key]) d
  | _ => .error .typeError
/-- `walk_file_tree(tree, partials)` on the items of `tree` in dict order -/
def walkItems (partials : List Bytes) : List (Bytes × BVal) → Except Err (List FileRec)
  | [] => .ok []
  | (key, val) :: rest => do
    let a ← walkVal partials key val
    let t ← walkItems partials rest
    .ok (a ++ t)
end

/-- `Checker.walk_file_tree(tree, partials)`: the entries it appends to `paths` / `fileinfo` -/
def walkFileTree (tree : BVal) (partials : List Bytes) : Except Err (List FileRec) :=
  match tree with
  | .dict kvs => walkItems partials kvs
  | _ => .error .typeError

/-- the `for i, item in enumerate(self.info["files"])` loop (v1): every entry in list order;
    a padding entry (`attr` contains `p`) is marked (`"pad": True`) -/
def v1Files : List BVal → Except Err (List FileRec)
  | [] => .ok []
  | item :: rest => do
    let len ← (← sub item K.length) |> nat
    let p ← sub item RF.kPath
    match p with
    | .list l =>
      let comps ← strs l
      if comps = [] then .error .typeError            -- `os.path.join()` without arguments
      else
        let pad ← padAttr item                          -- `"pad": "p" in item.get("attr", "")`
        let t ← v1Files rest
        .ok ((comps, len, if pad then padMark else none) :: t)
    | _ => .error .typeError

/-- the head of `check_paths`: `info["length"]` after the repair for v2 single-file torrents
    that omit it (`none`: still no `length` key) -/
def singleLength (info : Dict) (name : Bytes) (rootIsFile : Bool) : Except Err (Option BVal) :=
  match dictGet info K.length with
  | some v => .ok (some v)
  | none =>
    match dictGet info K.fileTree with
    | none => .ok none                                  -- `{}`
    | some (.dict tree) =>
      if keys tree = [name] then                        -- `list(tree) == [self.name]`
        match dictGet tree name with
        | some (.dict leaf) =>
          if dictHas leaf [] && rootIsFile then do      -- `"" in tree[name] and isfile(root)`
            let inner ← sub (.dict leaf) []
            let l ← sub inner K.length
            .ok (some l)
          else .ok none
        | some _ => .error .typeError
        | none => .ok none
      else .ok none
    | some _ => .error .typeError

/-- `Checker.check_paths`: `(fileinfo in index order, total)` -/
def checkPaths (info : Dict) (name : Bytes) (version : Nat) (rootIsFile : Bool) :
    Except Err (List FileRec × Nat) := do
  match ← singleLength info name rootIsFile with
  | some lv =>
    let len ← nat lv
    if version > 1 then
      let tree ← sub (.dict info) K.fileTree
      let node ← sub tree name
      let inner ← sub node []
      let r ← (← sub inner RF.kPiecesRoot) |> str
      .ok ([([], len, some r)], len)
    else .ok ([([], len, none)], len)
  | none =>
    if version = 1 then
      match ← sub (.dict info) K.files with
      | .list items =>
        let recs ← v1Files items
        .ok (recs, totalOf recs)
      | _ => .error .typeError
    else
      let tree ← sub (.dict info) K.fileTree
      let recs ← walkFileTree tree []
      .ok (recs, totalOf recs)

/-- what `os.path.exists(path)` / `open(path, "rb")` give for an entry of the file map -/
def content (root : Node) (path : List Bytes) : Except Err (Option Bytes) :=
  match lookup root path with
  | none => .ok none
  | some (.file d) => .ok (some d)
  | some (.dir _) => .error .isADirectory

/-- the entries `FeedChecker` works on: `os.path.exists(path) and not fileinfo[i].get("pad")` —
    a padding entry is never looked up, it is zeros whatever sits at its path -/
def rcV1Entries (root : Node) : List FileRec → Except Err (List (Nat × Option Bytes))
  | [] => .ok []
  | r :: rs => do
    let c ← if isPadRec r then .ok none else content root r.1
    let t ← rcV1Entries root rs
    .ok ((r.2.1, c) :: t)

/-- what `HashChecker.next_file` sets up for one file -/
def rcV2Entry (pl : Nat) (layers : Dict) (root : Node) (r : FileRec) : Except Err V2File := do
  let layer ←
    if r.2.1 > pl then
      match r.2.2 with
      | some h =>
        match dictGet layers h with                     -- `self.piece_layers[self.root_hash]`
        | some v => str v
        | none => .error .keyError
      | none => .error .keyError
    else .ok []
  let c ← content root r.1
  -- `self.pieces = None`, data on disk: `None[start:end]`
  if r.2.2 = none ∧ c.getD [] ≠ [] then .error .typeError
  else .ok (r.2.1, r.2.2.getD [], layer, c)

def rcV2Entries (pl : Nat) (layers : Dict) (root : Node) : List FileRec → Except Err (List V2File)
  | [] => .ok []
  | r :: rs => do
    let f ← rcV2Entry pl layers root r
    let t ← rcV2Entries pl layers root rs
    .ok (f :: t)

/-- the end of `iter_hashes`: the counters; the progress message divides by `total` -/
def finishRun (total : Nat) (vs : List (Bool × Nat)) : Except Err (List (Bool × Nat) × Nat × Nat) :=
  if total = 0 ∧ vs ≠ [] then .error .zeroDivision
  else .ok (vs, iterHashes vs)

/-- `piece length` as a positive number -/
def pieceLen (v : BVal) : Except Err Nat :=
  match v with
  | .int i => if 0 < i then .ok i.toNat else .error .badPieceLength
  | _ => .error .typeError

/-- `Checker(metafile, path)` followed by `iter_hashes()` / `results()`, on the decoded
    metafile.  `B` = `BLOCK_SIZE`, `hs` = 32. -/
def recheckMeta (H1 H : Bytes → Bytes) (B hs : Nat) (mf : BVal) (argName : Bytes)
    (here : Option Node) : Except Err (List (Bool × Nat) × Nat × Nat) := do
  let infoV ← sub mf K.info                            -- `self.meta["info"]`
  match infoV with
  | .dict info =>
    let name ← (← sub infoV K.name) |> str              -- `self.info["name"]`
    let plV ← sub infoV K.pieceLength                   -- `self.info["piece length"]`
    let version := metaVersion info
    let root ← findRoot info name argName here
    let (recs, total) ← checkPaths info name version (isFile root)
    if version = 1 then                                 -- `FeedChecker`
      let recorded ← (← sub infoV K.pieces) |> str
      let pl ← pieceLen plV
      let entries ← rcV1Entries root recs
      finishRun total (feedCheck H1 pl recorded entries)
    else                                                -- `HashChecker`
      match ← sub mf K.pieceLayers with
      | .dict layers =>
        let pl ← pieceLen plV
        if B = 0 ∨ pl % B ≠ 0 then .error .badPieceLength
        else if recs = [] then .error .indexError
        else
          let files ← rcV2Entries pl layers root recs
          finishRun total (hashCheck H B hs (pl / B) files)
      | _ => .error .typeError
  | _ => .error .typeError

/-- `info["name"]` of a decoded metafile (empty when there is none) -/
def nameOf (mf : BVal) : Bytes :=
  match (mf.get? K.info).bind (·.get? K.name) with
  | some (.str s) => s
  | _ => []

/-- `meta["info"]` of a decoded metafile (empty when there is none) -/
def infoOf (mf : BVal) : Dict :=
  match mf.get? K.info with
  | some (.dict d) => d
  | _ => []

/-- the whole `Checker`: metafile bytes, content argument, payload on disk (stored under the
    torrent's name when the argument is the parent). -/
def recheck (H1 H : Bytes → Bytes) (B hs : Nat) (metafile : Bytes) (arg : ContentArg)
    (disk : Disk) : Except Err (List (Bool × Nat) × Nat × Nat) :=
  match loads metafile with
  | none => .error .decodeError
  | some mf => recheckMeta H1 H B hs mf arg.argName (some (arg.place (nameOf mf) disk))

end Impl

namespace Spec

/-- a proper file or directory name: not empty, not `.` or `..`, no `/` -/
def plainName (n : Bytes) : Bool :=
  n ≠ [] && n ≠ [46] && n ≠ [46, 46] && !n.contains 47

/-- BEP 52 file tree: a file (length, `pieces root` for a non-empty file) or a directory -/
inductive MTree
  | leaf (len : Nat) (root : Option Bytes)
  | dir (es : List (Bytes × MTree))

/-- the value under the key `""` of a file node -/
def leafOf (v : BVal) : Option MTree :=
  match v.get? K.length with
  | some (.int i) =>
    if i = 0 then some (.leaf 0 none)
    else if 0 < i then
      match v.get? RF.kPiecesRoot with
      | some (.str r) => some (.leaf i.toNat (some r))
      | _ => none
    else none
  | _ => none

mutual
/-- a node of the file tree: a dictionary whose only key is `""` is a file, a dictionary of
    properly named entries is a directory -/
def parseNode : BVal → Option MTree
  | .dict kvs =>
    if keys kvs = [[]] then (dictGet kvs []).bind leafOf
    else (parseEntries kvs).map .dir
  | _ => none
def parseEntries : List (Bytes × BVal) → Option (List (Bytes × MTree))
  | [] => some []
  | (k, v) :: r =>
    if plainName k then
      match parseNode v, parseEntries r with
      | some n, some t => some ((k, n) :: t)
      | _, _ => none
    else none
end

mutual
/-- the files of a tree with their path components, in dictionary order -/
def treeFiles (pre : List Bytes) : MTree → List FileRec
  | .leaf len root => [(pre, len, root)]
  | .dir es => entriesFiles pre es
def entriesFiles (pre : List Bytes) : List (Bytes × MTree) → List FileRec
  | [] => []
  | (k, t) :: r => treeFiles (pre ++ [k]) t ++ entriesFiles pre r
end

/-- BEP 47: an entry whose `attr` string contains the letter `p` is a padding entry: it stands
    for zero bytes and is not a file of the payload.  `none`: `attr` is not a string. -/
def v1Pad (item : BVal) : Option Bool :=
  match item.get? RF.kAttr with
  | none => some false
  | some (.str a) => some (a.contains 112)
  | some _ => none

/-- one entry of a BEP 3 `files` list; a padding entry is marked with `padMark` -/
def v1Item (item : BVal) : Option FileRec :=
  match item.get? K.length, item.get? RF.kPath with
  | some (.int i), some (.list l) =>
    match strs l, v1Pad item with
    | .ok comps, some pad =>
      if 0 ≤ i ∧ comps ≠ [] ∧ comps.all plainName
      then some (comps, i.toNat, if pad then padMark else none) else none
    | _, _ => none
  | _, _ => none

def v1Items : List BVal → Option (List FileRec)
  | [] => some []
  | x :: xs =>
    match v1Item x, v1Items xs with
    | some r, some t => some (r :: t)
    | _, _ => none

/-- a metafile with `meta version` in its info dictionary has a v2 part (BEP 52) -/
def hasV2 (info : Dict) : Bool := dictHas info K.metaVersion

/-- What a metafile describes: the files of the payload, each with its path below the payload
    root (`[]`: the payload is that single file), its length and, for the v2 part, its pieces
    root.  `none`: not well-formed.

    v1 (BEP 3): exactly one of `length` (single file) and `files` (directory; every entry in
    list order; a BEP 47 padding entry — `attr` contains `p` — is marked `padMark`: it
    contributes its length in zero bytes to the stream and is never a file on disk).
    v2 and hybrid (BEP 52; a hybrid is read through its v2 part): the leaves of `file tree`.
    BEP 52 does not mark a single-file torrent: the tree `{name: file}` is the file `name`, or a
    directory `name` holding a file `name`.  It is the single file when the v1 part says so
    (`length`; torrentfile also writes it into pure v2 metafiles) or when the payload on disk
    is a regular file (`rootIsFile`); a `length` must then agree with the tree. -/
def describedFiles (mf : BVal) (rootIsFile : Bool) : Option (List FileRec) :=
  match mf.get? K.info with
  | some (.dict info) =>
    match dictGet info K.name with
    | some (.str name) =>
      if hasV2 info then
        match dictGet info K.fileTree with
        | some (.dict kvs) =>
          match parseEntries kvs with
          | some es =>
            match es, dictGet info K.length with
            | [(k, .leaf len root)], some (.int l) =>
              if k = name ∧ l = len then some [([], len, root)] else none
            | [(k, .leaf len root)], none =>
              if k = name ∧ rootIsFile then some [([], len, root)] else some (entriesFiles [] es)
            | _, none => some (entriesFiles [] es)
            | _, some _ => none
          | none => none
        | _ => none
      else if dictHas info K.fileTree then none      -- a file tree without `meta version`
      else
        match dictGet info K.length, dictGet info K.files with
        | some (.int l), none => if 0 ≤ l then some [([], l.toNat, none)] else none
        | none, some (.list items) => v1Items items
        | _, _ => none
    | _ => none
  | _ => none

/-- the bytes of the regular file at a path below the payload root, if there is one -/
def fileBytes (disk : Disk) (path : List Bytes) : Option Bytes :=
  match lookup disk path with
  | some (.file d) => some d
  | _ => none

/-- what is on disk of a v1 entry: a padding entry is never on disk (it is zeros, whatever
    sits at its path); any other entry is the regular file at its path, if there is one -/
def v1Disk (disk : Disk) (r : FileRec) : Option Bytes :=
  if isPadRec r then none else fileBytes disk r.1

/-- what a recheck has to do: slice one stream (v1) or go file by file (v2 / hybrid) -/
inductive Plan
  | v1 (pl : Nat) (recorded : Bytes) (entries : List (Nat × Option Bytes))
  | v2 (bpp : Nat) (files : List Impl.V2File)

/-- recorded data of one file of the v2 part: its piece layer when it has more than one piece -/
def v2FileOf (pl : Nat) (layers : Dict) (disk : Disk) (r : FileRec) : Option Impl.V2File :=
  if r.2.1 > pl then
    match r.2.2 with
    | some h =>
      match dictGet layers h with
      | some (.str layer) => some (r.2.1, h, layer, fileBytes disk r.1)
      | _ => none
    | none => none
  else some (r.2.1, r.2.2.getD [], [], fileBytes disk r.1)

def v2FilesOf (pl : Nat) (layers : Dict) (disk : Disk) : List FileRec → Option (List Impl.V2File)
  | [] => some []
  | r :: rs =>
    match v2FileOf pl layers disk r, v2FilesOf pl layers disk rs with
    | some f, some t => some (f :: t)
    | _, _ => none

/-- the reference reading of (metafile, payload on disk); `none`: metafile not well-formed
    (for the v2 part: piece length a positive multiple of the block size `B`, at least one
    file, a piece layer for every file of more than one piece). -/
def plan (B : Nat) (mf : BVal) (disk : Disk) : Option Plan :=
  match describedFiles mf (isFile disk), mf.get? K.info with
  | some recs, some (.dict info) =>
    match dictGet info K.pieceLength with
    | some (.int p) =>
      if 0 < p then
        if hasV2 info then
          match mf.get? K.pieceLayers with
          | some (.dict layers) =>
            if 0 < B ∧ p.toNat % B = 0 ∧ recs ≠ [] then
              (v2FilesOf p.toNat layers disk recs).map (Plan.v2 (p.toNat / B))
            else none
          | _ => none
        else
          match dictGet info K.pieces with
          | some (.str recorded) =>
            some (.v1 p.toNat recorded (recs.map fun r => (r.2.1, v1Disk disk r)))
          | _ => none
      else none
    | _ => none
  | _, _ => none

/-- the reference verdict stream -/
def Plan.verdicts (H1 H : Bytes → Bytes) (B hs : Nat) : Plan → List (Bool × Nat)
  | .v1 pl recorded entries => v1Check H1 pl recorded entries
  | .v2 bpp files => v2Check H B hs bpp files

/-- in scope of C04 / C16: nothing on disk is longer than recorded, every recorded piece
    string has an entry per piece -/
def Plan.InScope (B hs : Nat) : Plan → Prop
  | .v1 _ _ entries => NotLonger entries
  | .v2 bpp files => ∀ f ∈ files, Impl.FileOK hs (bpp * B) f

/-- the recorded hashes are the hashes of what is on disk: every described file is there with
    exactly its recorded length, and
    v1: `pieces` is the concatenation of the digests of the piece-length slices of the
    concatenated files (BEP 3);
    v2 / hybrid: a non-empty file's `pieces root`, and for a file of more than one piece its
    piece layer, are what `FileHasher` computes for the file (= BEP 52 root and layer: C02). -/
def Plan.Intact (H1 H : Bytes → Bytes) (B hs : Nat) : Plan → Prop
  | .v1 pl recorded entries =>
    ∃ data : List Bytes, entries = data.map (fun d => (d.length, some d)) ∧
      recorded = ((chunks pl data.flatten).map H1).flatten
  | .v2 bpp files =>
    ∀ f ∈ files, ∃ d, f.2.2.2 = some d ∧ f.1 = d.length ∧
      (d ≠ [] → f.2.1 = (Impl.fileHasher H H1 B hs bpp false d).1) ∧
      (d.length > bpp * B → f.2.2.1 = (Impl.fileHasher H H1 B hs bpp false d).2.1)

/-- total recorded length -/
def Plan.total : Plan → Nat
  | .v1 _ _ entries => (entries.map (·.1)).sum
  | .v2 _ files => (files.map (·.1)).sum

/-- a padding entry of the v1 `files` list of a (pure) v1 metafile -/
def isPad (mf : BVal) (r : FileRec) : Bool := !hasV2 (Impl.infoOf mf) && isPadRec r

/-- no directory sits where the metafile describes a file (`open` would raise); the path of a
    v1 padding entry is never opened and may be anything -/
def NoDirAtFile (mf : BVal) (disk : Disk) : Prop :=
  ∀ recs, describedFiles mf (isFile disk) = some recs →
    ∀ r ∈ recs, isPad mf r = false → ∀ es, lookup disk r.1 ≠ some (.dir es)

/-- a v2 / hybrid metafile that describes one single EMPTY file.  BEP 52 gives an empty file no
    `pieces root`; `check_paths` reads `["pieces root"]` of a single file unconditionally and
    raises `KeyError` (see `Props/C05.emptySingleV2_keyError`). -/
def EmptySingleV2 (mf : BVal) (rootIsFile : Bool) : Prop :=
  describedFiles mf rootIsFile = some [([], 0, none)] ∧
    ∃ info, mf.get? K.info = some (.dict info) ∧ hasV2 info = true

/-- THE reference: verdicts piece by piece, bytes in verifying pieces, bytes in all pieces -/
def recheck (H1 H : Bytes → Bytes) (B hs : Nat) (mf : BVal) (disk : Disk) :
    Option (List (Bool × Nat) × Nat × Nat) :=
  (plan B mf disk).map fun p => (p.verdicts H1 H B hs, ratio (p.verdicts H1 H B hs))

end Spec
end TorrentVerif

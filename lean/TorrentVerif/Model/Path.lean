import TorrentVerif.Model.Basic
/-
  Model of the parts of POSIX `os.path` (posixpath.py, CPython 3.12) and of `pathlib.PurePosixPath`
  string formation that `torrentfile.rebuild.safe_join` and `Metadata.extract` rely on.

  Path *strings* are `Bytes` (Python `str` encoded as UTF-8; `/` = 47 and `.` = 46 are ASCII, so
  splitting at `/` commutes with the encoding).  A *resolved* absolute path is `Path`, the list
  of its components below the root (`[]` is `/`).

  Namespaces: types `Comp`, `Path`, `DOT`, `DOTDOT` in `TorrentVerif.Rebuild`; the `posixpath`
  functions in `TorrentVerif.PosixPath`; `Impl.safeJoinStr`, `Impl.safeJoin`, `Impl.pathlibStr`;
  `Spec.CleanComp`, `Spec.CleanPath`, `Spec.StrictlyBelow`.  (Another group has its own
  `TorrentVerif.Path`/`FS`/`Op`, hence the sub-namespace.)

  Deviations / assumptions (all stated where used):
  * `abspath` is modelled for absolute arguments only (then it is `normpath`); `safe_join`
    applies it to `dest` and to `join(base, rel)` where `base` is absolute.  The destination is
    handed to the model already absolute and normalised (the harness calls `os.path.abspath`).
    A destination spelled with exactly two leading slashes (`//d`) is therefore not modelled
    (Python's `safe_join` rejects everything for such a destination).
  * The two-leading-slashes quirk of `normpath` IS modelled for the relative argument; since
    commit 27a1565 `safe_join` removes the extra slash before its containment test (before that,
    `safe_join(d, "//" + d[1:])` returned the destination itself, see `safeJoinStrPreFix`).
    The kernel resolves `//a/b` and `/a/b` to the same file; `comps` forgets the difference.
  * `normpath`'s list `new_comps` is kept reversed (a stack): `new_comps[-1]` is the head,
    `append` is cons, `pop` is tail.
  * `commonpath` sorts the two split paths only in order to index safely; the common prefix of
    two lists is symmetric, so the model computes `commonPrefix` directly.
-/
namespace TorrentVerif.Rebuild

abbrev Comp := Bytes
/-- absolute, resolved path: components below the root; `[]` is `/` -/
abbrev Path := List Comp

/-- `"."` -/
def DOT : Bytes := [46]
/-- `".."` -/
def DOTDOT : Bytes := [46, 46]

end TorrentVerif.Rebuild

namespace TorrentVerif
open Rebuild

/- the functions of `posixpath` -/
namespace PosixPath

/-- Python `s.split("/")`: never empty; `"" ↦ [""]`. -/
def splitSep : Bytes → List Bytes
  | [] => [[]]
  | c :: t =>
    if c = 47 then [] :: splitSep t
    else match splitSep t with
      | h :: r => (c :: h) :: r
      | [] => [[c]]

/-- Python `"/".join(l)` -/
def joinSep : List Bytes → Bytes
  | [] => []
  | [a] => a
  | a :: b :: r => a ++ 47 :: joinSep (b :: r)

/-- `posixpath.join(a, b)` (two arguments; `os.path.join(a, *p)` is the left fold). -/
def join (a b : Bytes) : Bytes :=
  if b.head? = some 47 then b
  else if a = [] ∨ a.getLast? = some 47 then a ++ b
  else a ++ 47 :: b

/-- `os.path.join(a, *p)` -/
def joinAll (a : Bytes) (p : List Bytes) : Bytes := p.foldl join a

/-- `initial_slashes` of `normpath`: 0 (relative), 2 (exactly two leading slashes) or 1. -/
def initialSlashes (p : Bytes) : Nat :=
  if p.head? ≠ some 47 then 0
  else if (p.drop 1).head? = some 47 ∧ (p.drop 2).head? ≠ some 47 then 2
  else 1

/-- one iteration of the `for comp in comps` loop of `normpath`; `stk` is `new_comps` reversed -/
def normStep (initial : Nat) (stk : List Bytes) (comp : Bytes) : List Bytes :=
  if comp = [] ∨ comp = DOT then stk
  else if comp ≠ DOTDOT ∨ (initial = 0 ∧ stk = []) ∨ stk.head? = some DOTDOT then comp :: stk
  else stk.tail

/-- `posixpath.normpath` -/
def normpath (path : Bytes) : Bytes :=
  if path = [] then DOT
  else
    let initial := initialSlashes path
    let stk := (splitSep path).foldl (normStep initial) []
    let p := List.replicate initial 47 ++ joinSep stk.reverse
    if p = [] then DOT else p

/-- `posixpath.abspath` for an absolute argument (no `getcwd`) -/
def abspath (path : Bytes) : Bytes := normpath path

/-- longest common prefix of two lists -/
def commonPrefix : List Bytes → List Bytes → List Bytes
  | a :: as, b :: bs => if a = b then a :: commonPrefix as bs else []
  | _, _ => []

/-- the components `commonpath` looks at: split, drop empty and `.` -/
def cpComps (p : Bytes) : List Bytes := (splitSep p).filter (fun c => c ≠ [] ∧ c ≠ DOT)

/-- `posixpath.commonpath([a, b])`; `none` = `ValueError` (mixing absolute and relative) -/
def commonpath (a b : Bytes) : Option Bytes :=
  let absA := decide (a.head? = some 47)
  let absB := decide (b.head? = some 47)
  if absA ≠ absB then none
  else
    let common := joinSep (commonPrefix (cpComps a) (cpComps b))
    some (if absA then 47 :: common else common)

/-- the string of an absolute resolved path: `"/" + "/".join(comps)` -/
def render (p : Path) : Bytes := 47 :: joinSep p

/-- how the kernel resolves an absolute path string without `.`/`..`: the non-empty components -/
def comps (s : Bytes) : Path := (splitSep s).filter (fun c => c ≠ [])

end PosixPath

namespace Impl
open PosixPath

/-- `full.startswith("//")` followed by `full = full[1:]` -/
def stripSlash (full : Bytes) : Bytes :=
  if full.head? = some 47 ∧ (full.drop 1).head? = some 47 then full.drop 1 else full

/-- `torrentfile.rebuild.safe_join` on strings; `dest` absolute.  (After commit 27a1565: a result
    of `abspath` with two leading slashes is reduced to one before the containment test.) -/
def safeJoinStr (dest rel : Bytes) : Option Bytes :=
  let base := abspath dest
  let full := stripSlash (abspath (join base rel))
  if full = base ∨ commonpath base full ≠ some base then none else some full

/-- `safe_join` for a destination given as a resolved path; result as resolved path. -/
def safeJoin (dest : Path) (rel : Bytes) : Option Path :=
  (safeJoinStr (render dest) rel).map comps

/-- `safe_join` as it was before commit 27a1565 (no special treatment of two leading slashes);
    kept to document why the repair was needed, see `C19.safeJoin_prefix_could_return_dest`. -/
def safeJoinStrPreFix (dest rel : Bytes) : Option Bytes :=
  let base := abspath dest
  let full := abspath (join base rel)
  if full = base ∨ commonpath base full ≠ some base then none else some full

/-- resolved form of `safeJoinStrPreFix` -/
def safeJoinPreFix (dest : Path) (rel : Bytes) : Option Path :=
  (safeJoinStrPreFix (render dest) rel).map comps

/-- `str(pathlib.PurePosixPath(*segs))` (CPython 3.12): join the segments, keep the root
    (`/`, or `//` for exactly two leading slashes), drop empty and `.` components, keep `..`. -/
def pathlibStr (segs : List Bytes) : Bytes :=
  let path := match segs with
    | [] => []
    | s :: r => joinAll s r
  let k := initialSlashes path
  let tail := (splitSep (path.drop k)).filter (fun c => c ≠ [] ∧ c ≠ DOT)
  let s := List.replicate k 47 ++ joinSep tail
  if s = [] then DOT else s

end Impl

namespace Spec

/-- a component that names a directory entry: not empty, not `.`/`..`, no separator inside -/
def CleanComp (c : Comp) : Prop := c ≠ [] ∧ c ≠ DOT ∧ c ≠ DOTDOT ∧ (47 : UInt8) ∉ c

/-- an absolute, normalised path -/
def CleanPath (p : Path) : Prop := ∀ c ∈ p, CleanComp c

instance (c : Comp) : Decidable (CleanComp c) := by unfold CleanComp; infer_instance
instance (p : Path) : Decidable (CleanPath p) := by unfold CleanPath; infer_instance

/-- `p` lies strictly below `dest` -/
def StrictlyBelow (dest p : Path) : Prop := ∃ ext, ext ≠ [] ∧ p = dest ++ ext

end Spec
end TorrentVerif

import TorrentVerif.Model.Bencode
/-
  Metafile assembly and sorting (`torrent.py`: `MetaFile.__init__`, `sort_meta`, `write`, the
  `assemble` methods), the edit operation (`edit.py`: `filter_empty`, `edit_torrent`;
  `commands.edit`), magnet links (`commands.magnet`) and `urllib.parse.quote_plus`.

  Python dictionaries are association lists in insertion order; every `d[k] = v` is a
  `dictSet`. Payload parts that other modules compute (file list, file tree, piece string,
  piece layers) are parameters.

  Deviations from the Python (all on metafiles torrentfile does not write):
  * a metafile whose `info` is not a dictionary is an error in the model; Python gets through
    `edit_torrent` with an `info` that is a string or list when nothing touches it;
  * `sorted()` of keys of mixed `str`/`bytes` type (a key that is not valid UTF-8 next to one
    that is) raises `TypeError` in Python; the model sorts raw bytes;
  * `magnet`: a tracker tier that is a string (not a list) is iterated character by character
    by Python; the model reports an error; `url-list` that is a dictionary likewise.
-/
namespace TorrentVerif

/-- A string-or-list argument as Python callers pass it (`None`, a `str`, a `list` of `str`). -/
inductive SL where
  | none
  | str (s : Bytes)
  | list (l : List Bytes)
  deriving Repr, DecidableEq

/-- Python truthiness: `None`, `""` and `[]` are false. -/
def SL.truthy : SL → Bool
  | .none => false
  | .str s => s ≠ []
  | .list l => l ≠ []

def strs (l : List Bytes) : BVal := .list (l.map .str)

def SL.toB : SL → BVal
  | .none => .str []
  | .str s => .str s
  | .list l => strs l

/-- keyword arguments of `MetaFile.__init__` that reach the metafile, as the body of
    `__init__` sees them after its first step (the recovery of a content path swallowed by a
    list-valued flag, which may shorten `announce` / `url_list` / `httpseeds`; that step is
    `Impl.metaInit` in `Model/Options.lean`). `piece_length` already normalised, `name` already
    derived from the path. `comment`/`source`: `[]` = not given. -/
structure CreateOpts where
  createdBy : Bytes
  creationDate : Int
  announce : SL
  comment : Bytes
  priv : Bool
  source : Bytes
  urlList : SL
  httpseeds : SL
  pieceLength : Nat
  name : Bytes
  deriving Repr

/-- The two dictionaries under construction: `self.meta` (whose `"info"` entry is the
    `info` dictionary, kept here separately while it is being filled) . -/
structure MetaB where
  top : Dict
  info : Dict
  deriving Repr

/-- the content of a v1 / hybrid `info`: one file (`length`) or a directory (`files`). -/
inductive Content where
  | single (length : Nat)
  | multi (files : BVal)
  deriving Repr

/-- one field of an edit request: not in `args` / `None`; `""`; a string; a list. -/
inductive EVal where
  | unnamed
  | cleared
  | str (s : Bytes)
  | list (l : List Bytes)
  deriving Repr, DecidableEq

/-- The `args` dictionary of `edit_torrent`, restricted to the six editable fields. -/
structure EditReq where
  comment : EVal := .unnamed
  source : EVal := .unnamed
  priv : EVal := .unnamed
  announce : EVal := .unnamed
  urlList : EVal := .unnamed
  httpseeds : EVal := .unnamed
  deriving Repr, DecidableEq

/-- argparse namespace of `torrentfile edit`: `--tracker`, `--web-seed`, `--http-seed` are `nargs="+"`
    (absent = `None`), `--private` is `store_true`, `--comment`, `--source` take one string. -/
structure EditArgs where
  announce : Option (List Bytes) := none
  urlList : Option (List Bytes) := none
  httpseeds : Option (List Bytes) := none
  priv : Bool := false
  comment : Option Bytes := none
  source : Option Bytes := none
  deriving Repr

inductive Err where
  | notDict      -- the metafile is not a dictionary
  | noInfo       -- no `info` key (KeyError) or `info` is not a dictionary
  | index        -- `vallist[0]` / `val[0]` on an empty list (IndexError)
  | badValue     -- a value of the wrong type (TypeError / KeyError in `magnet`)
  deriving Repr, DecidableEq

/-! ### whitespace split (`str.split()` on the UTF-8 bytes of a `str`) -/

/-- byte length of the white-space character (`str.isspace`) at the head, else 0:
    U+0009-000D, U+001C-0020, U+0085, U+00A0, U+1680, U+2000-200A, U+2028, U+2029, U+202F,
    U+205F, U+3000. On valid UTF-8 the byte patterns can only occur at character boundaries. -/
def wsLen : Bytes → Nat
  | [] => 0
  | c :: r =>
    if (9 ≤ c ∧ c ≤ 13) ∨ (28 ≤ c ∧ c ≤ 32) then 1
    else if c = 0xC2 then
      match r with
      | d :: _ => if d = 0x85 ∨ d = 0xA0 then 2 else 0
      | _ => 0
    else if c = 0xE1 then
      match r with
      | d :: e :: _ => if d = 0x9A ∧ e = 0x80 then 3 else 0
      | _ => 0
    else if c = 0xE2 then
      match r with
      | d :: e :: _ =>
        if d = 0x80 ∧ ((0x80 ≤ e ∧ e ≤ 0x8A) ∨ e = 0xA8 ∨ e = 0xA9 ∨ e = 0xAF) then 3
        else if d = 0x81 ∧ e = 0x9F then 3 else 0
      | _ => 0
    else if c = 0xE3 then
      match r with
      | d :: e :: _ => if d = 0x80 ∧ e = 0x80 then 3 else 0
      | _ => 0
    else 0

def flushWord (cur : Bytes) : List Bytes := if cur = [] then [] else [cur]

/-- `skip`: bytes of the current white-space character still to be dropped;
    `cur`: the word being collected. -/
def splitGo : Nat → Bytes → Bytes → List Bytes
  | _, cur, [] => flushWord cur
  | skip + 1, cur, _ :: r => splitGo skip cur r
  | 0, cur, c :: r =>
    if wsLen (c :: r) = 0 then splitGo 0 (cur ++ [c]) r
    else flushWord cur ++ splitGo (wsLen (c :: r) - 1) [] r

/-- `val.split()` -/
def splitWs (s : Bytes) : List Bytes := splitGo 0 [] s

/-! ### percent-encoding -/

/-- `urllib.parse._ALWAYS_SAFE`: letters, digits, `_ . - ~` -/
def isUnreserved (c : UInt8) : Bool :=
  (65 ≤ c && c ≤ 90) || (97 ≤ c && c ≤ 122) || (48 ≤ c && c ≤ 57) ||
  c = 95 || c = 46 || c = 45 || c = 126

def hexUp (n : Nat) : UInt8 := if n < 10 then (48 + n).toUInt8 else (55 + n).toUInt8
def hexLo (n : Nat) : UInt8 := if n < 10 then (48 + n).toUInt8 else (87 + n).toUInt8

/-- `bytes.hex()` / `hexdigest()` -/
def hexLower : Bytes → Bytes
  | [] => []
  | c :: r => hexLo (c.toNat / 16) :: hexLo (c.toNat % 16) :: hexLower r

namespace Impl

/-- `urllib.parse.quote_plus(s)` on the UTF-8 bytes of `s`. -/
def quotePlus : Bytes → Bytes
  | [] => []
  | c :: r =>
    if isUnreserved c then c :: quotePlus r
    else if c = 32 then 43 :: quotePlus r
    else 37 :: hexUp (c.toNat / 16) :: hexUp (c.toNat % 16) :: quotePlus r

end Impl

namespace Spec

def hexVal (c : UInt8) : Option Nat :=
  if 48 ≤ c ∧ c ≤ 57 then some (c.toNat - 48)
  else if 65 ≤ c ∧ c ≤ 70 then some (c.toNat - 55)
  else if 97 ≤ c ∧ c ≤ 102 then some (c.toNat - 87)
  else none

/-- `skip`: hex digits of the current `%XX` still to be dropped. -/
def unqGo : Nat → Bytes → Bytes
  | _, [] => []
  | skip + 1, _ :: r => unqGo skip r
  | 0, c :: r =>
    if c = 43 then 32 :: unqGo 0 r
    else if c = 37 then
      match r with
      | a :: b :: _ =>
        match hexVal a, hexVal b with
        | some x, some y => (x * 16 + y).toUInt8 :: unqGo 2 r
        | _, _ => 37 :: unqGo 0 r
      | _ => 37 :: unqGo 0 r
    else c :: unqGo 0 r

/-- URL-decoding of a query component: `+` is a space, `%XX` a byte, anything else itself
    (`urllib.parse.unquote_plus`, on bytes). -/
def unquotePlus (b : Bytes) : Bytes := unqGo 0 b

end Spec

namespace Impl

/-! ### creation -/

/-- `if c: d[k] = v` -/
def setIf (c : Bool) (d : Dict) (k : Bytes) (v : BVal) : Dict := if c then dictSet d k v else d

/-- `self.announce, self.announce_list` from the `announce` argument:
    `if not announce` / `isinstance(announce, str)` / `Sequence` -/
def announceOf (a : SL) : Bytes × BVal :=
  if !a.truthy then ([], .list [.list [.str []]]) else
  match a with
  | .none => ([], .list [.list [.str []]])
  | .str s => (s, .list [.list [.str s]])
  | .list l => (l.headD [], .list [strs l])

/-- `MetaFile.__init__`: which keys go into `meta` and `meta["info"]`, in which order. -/
def metaDicts (o : CreateOpts) : MetaB :=
  let top : Dict := [(K.createdBy, .str o.createdBy), (K.creationDate, .int o.creationDate),
                     (K.info, .dict [])]
  let ann := announceOf o.announce
  -- `if self.announce:` both keys
  let top := setIf (ann.1 ≠ []) top K.announce (.str ann.1)
  let top := setIf (ann.1 ≠ []) top K.announceList ann.2
  let info : Dict := []
  let info := setIf (o.comment ≠ []) info K.comment (.str o.comment)
  let info := setIf o.priv info K.priv (.int 1)
  let info := setIf (o.source ≠ []) info K.source (.str o.source)
  let top := setIf o.urlList.truthy top K.urlList o.urlList.toB
  let top := setIf o.httpseeds.truthy top K.httpseeds o.httpseeds.toB
  let info := dictSet info K.pieceLength (.int o.pieceLength)
  let info := dictSet info K.name (.str o.name)
  ⟨top, info⟩

/-- `self.piece_layers[root] = layer` for each multi-piece file in traversal order. -/
def layersDict (layers : List (Bytes × Bytes)) : Dict :=
  layers.foldl (fun d kv => dictSet d kv.1 (.str kv.2)) []

/-- the finished `self.meta` (the `info` object is the value of the `"info"` key). -/
def _root_.TorrentVerif.MetaB.value (m : MetaB) : BVal := .dict (dictSet m.top K.info (.dict m.info))

/-- `TorrentFile.assemble` -/
def assembleV1 (o : CreateOpts) (content : Content) (pieces : Bytes) : BVal :=
  let m := metaDicts o
  let info := match content with
    | .single n => dictSet m.info K.length (.int n)
    | .multi files => dictSet m.info K.files files
  let info := dictSet info K.pieces (.str pieces)
  MetaB.value ⟨m.top, info⟩

/-- `{name: tree}` for a single file, the tree itself for a directory -/
def treeOf (name : Bytes) (single : Bool) (tree : BVal) : BVal :=
  if single then .dict [(name, tree)] else tree

/-- `TorrentFileV2.assemble` (`single`: the length when the path is a file) -/
def assembleV2 (o : CreateOpts) (single : Option Nat) (tree : BVal)
    (layers : List (Bytes × Bytes)) : BVal :=
  let m := metaDicts o
  let info := dictSet m.info K.fileTree (treeOf o.name single.isSome tree)
  let info := match single with
    | some n => dictSet info K.length (.int n)
    | none => info
  let info := dictSet info K.metaVersion (.int 2)
  let top := dictSet m.top K.pieceLayers (.dict (layersDict layers))
  MetaB.value ⟨top, info⟩

/-- `TorrentAssembler.assemble` with `meta_version = "2"` (same keys, other insertion order) -/
def assembleAsmV2 (o : CreateOpts) (single : Option Nat) (tree : BVal)
    (layers : List (Bytes × Bytes)) : BVal :=
  let m := metaDicts o
  let info := dictSet m.info K.metaVersion (.int 2)
  let info := dictSet info K.fileTree (treeOf o.name single.isSome tree)
  let info := match single with
    | some n => dictSet info K.length (.int n)
    | none => info
  let top := dictSet m.top K.pieceLayers (.dict (layersDict layers))
  MetaB.value ⟨top, info⟩

/-- `TorrentFileHybrid.assemble` and `TorrentAssembler.assemble` with `meta_version = "3"` -/
def assembleHybrid (o : CreateOpts) (content : Content) (tree : BVal) (pieces : Bytes)
    (layers : List (Bytes × Bytes)) : BVal :=
  let m := metaDicts o
  let info := dictSet m.info K.metaVersion (.int 2)
  let info := match content with
    | .single n => dictSet (dictSet info K.fileTree (treeOf o.name true tree)) K.length (.int n)
    | .multi files => dictSet (dictSet info K.fileTree (treeOf o.name false tree)) K.files files
  let info := dictSet info K.pieces (.str pieces)
  let top := dictSet m.top K.pieceLayers (.dict (layersDict layers))
  MetaB.value ⟨top, info⟩

/-- `MetaFile.sort_meta`: sorts `info`, `piece layers` when present, then the top level.
    `none` where Python raises (no `info`, or one of the two is not a dictionary). -/
def sortMeta (mf : BVal) : Option BVal :=
  match mf with
  | .dict m =>
    match dictGet m K.info with
    | some (.dict info) =>
      let m1 := dictSet m K.info (.dict (sortDict info))
      match dictGet m1 K.pieceLayers with
      | none => some (.dict (sortDict m1))
      | some (.dict layers) =>
        some (.dict (sortDict (dictSet m1 K.pieceLayers (.dict (sortDict layers)))))
      | some _ => none
    | _ => none
  | _ => none

/-- `MetaFile.write`: the bytes handed to `pyben.dump`. -/
def write (mf : BVal) : Option Bytes := (sortMeta mf).map encode

/-! ### edit -/

/-- `val == ""` -/
def _root_.TorrentVerif.EVal.isDel : EVal → Bool
  | .cleared => true
  | .str s => s = []
  | _ => false

/-- value stored for `comment` / `source` (what survives `filter_empty`) -/
def _root_.TorrentVerif.EVal.val : EVal → Option BVal
  | .str s => if s = [] then none else some (.str s)
  | .list l => some (strs l)
  | _ => none

/-- `"private" in args` ⇒ `info["private"] = 1` -/
def _root_.TorrentVerif.EVal.one : EVal → Option BVal
  | .str s => if s = [] then none else some (.int 1)
  | .list _ => some (.int 1)
  | _ => none

/-- `url-list` / `httpseeds`: `val.split()` for a string, the list itself for a list -/
def _root_.TorrentVerif.EVal.seeds : EVal → Option BVal
  | .str s => if s = [] then none else some (strs (splitWs s))
  | .list l => some (strs l)
  | _ => none

/-- `announce`: `vallist = val.split()` or `val`; `vallist[0]` may raise IndexError -/
def _root_.TorrentVerif.EVal.trackers : EVal → Except Err (Option (Bytes × List Bytes))
  | .str s =>
    if s = [] then .ok none else
    match splitWs s with
    | [] => .error .index
    | a :: r => .ok (some (a, a :: r))
  | .list l =>
    match l with
    | [] => .error .index
    | a :: r => .ok (some (a, a :: r))
  | _ => .ok none

/-- one step of `filter_empty` for a key whose value is `""`: delete it from `meta` if it is
    there, otherwise from `info` — but `announce`, `url-list`, `httpseeds` (`inInfo = false`)
    are never deleted from `info`. -/
def delField (v : EVal) (k : Bytes) (inInfo : Bool) (p : Dict × Dict) : Dict × Dict :=
  if v.isDel then
    if dictHas p.1 k then (dictDel p.1 k, p.2)
    else if dictHas p.2 k && inInfo then (p.1, dictDel p.2 k)
    else p
  else p

/-- `filter_empty(args, meta, info)` (effect on `meta` and `info`) -/
def filterEmpty (req : EditReq) (p : Dict × Dict) : Dict × Dict :=
  delField req.comment K.comment true <| delField req.priv K.priv true <|
  delField req.source K.source true <| delField req.announce K.announce false <|
  delField req.httpseeds K.httpseeds false <| delField req.urlList K.urlList false p

def putOpt (d : Dict) (k : Bytes) : Option BVal → Dict
  | none => d
  | some v => dictSet d k v

/-- `edit_torrent`: the value written back (Python writes `pyben.dump` of it to
    `<metafile>.part` and `os.replace`s it over the metafile). -/
def editTorrent (mf : BVal) (req : EditReq) : Except Err BVal :=
  match mf with
  | .dict top =>
    match dictGet top K.info with
    | some (.dict info) =>
      match req.announce.trackers with
      | .error e => .error e
      | .ok tr =>
        let ks := keys info
        let p := filterEmpty req (top, info)
        let info1 := putOpt (putOpt (putOpt p.2 K.comment req.comment.val)
                      K.source req.source.val) K.priv req.priv.one
        let top1 := match tr with
          | none => p.1
          | some (a, l) =>
            dictSet (dictSet p.1 K.announce (.str a)) K.announceList (.list [strs l])
        let top2 := putOpt (putOpt top1 K.urlList req.urlList.seeds) K.httpseeds req.httpseeds.seeds
        let info2 := if keys info1 ≠ ks then sortDict info1 else info1
        .ok (.dict (sortDict (dictSet top2 K.info (.dict info2))))
    | _ => .error .noInfo
  | _ => .error .notDict

/-- the keys a request names: the key of every field that is not `None`, plus
    `announce-list`, which travels with `announce` -/
def _root_.TorrentVerif.EditReq.names (r : EditReq) : List Bytes :=
  (if r.comment = .unnamed then [] else [K.comment]) ++
  (if r.source = .unnamed then [] else [K.source]) ++
  (if r.priv = .unnamed then [] else [K.priv]) ++
  (if r.announce = .unnamed then [] else [K.announce, K.announceList]) ++
  (if r.urlList = .unnamed then [] else [K.urlList]) ++
  (if r.httpseeds = .unnamed then [] else [K.httpseeds])

/-- any finite sequence of edits of the same file -/
def editMany : BVal → List EditReq → Except Err BVal
  | m, [] => .ok m
  | m, r :: rs =>
    match editTorrent m r with
    | .ok m' => editMany m' rs
    | .error e => .error e

/-- a list flag; `--tracker ""` (the list `[""]`) clears the field -/
def optList : Option (List Bytes) → EVal
  | none => .unnamed
  | some l => if l = [[]] then .cleared else .list l

def optStr : Option Bytes → EVal
  | none => .unnamed
  | some s => if s = [] then .cleared else .str s

/-- the keys of the flags present on the command line -/
def _root_.TorrentVerif.EditArgs.flagKeys (a : EditArgs) : List Bytes :=
  (if a.comment.isSome then [K.comment] else []) ++
  (if a.source.isSome then [K.source] else []) ++
  (if a.priv then [K.priv] else []) ++
  (if a.announce.isSome then [K.announce, K.announceList] else []) ++
  (if a.urlList.isSome then [K.urlList] else []) ++
  (if a.httpseeds.isSome then [K.httpseeds] else [])

/-- `commands.edit`: namespace → `editargs` (a list option that is `[""]` becomes `""`).
    `args.private or None`: `True` (rendered here as
    the string "1"; any value other than `None`/`""` has the same effect) or `None`. -/
def cliEdit (a : EditArgs) : EditReq :=
  { urlList := optList a.urlList
    httpseeds := optList a.httpseeds
    announce := optList a.announce
    source := optStr a.source
    priv := if a.priv then .str [49] else .unnamed
    comment := optStr a.comment }

/-! ### magnet -/

def asStr : BVal → Except Err Bytes
  | .str s => .ok s
  | _ => .error .badValue

def asStrs : List BVal → Except Err (List Bytes)
  | [] => .ok []
  | v :: vs =>
    match asStr v, asStrs vs with
    | .ok s, .ok r => .ok (s :: r)
    | .error e, _ => .error e
    | _, .error e => .error e

/-- `for urllist in meta["announce-list"] for url in urllist` -/
def flattenTiers : List BVal → Except Err (List Bytes)
  | [] => .ok []
  | .list t :: ts =>
    match asStrs t, flattenTiers ts with
    | .ok a, .ok b => .ok (a ++ b)
    | .error e, _ => .error e
    | _, .error e => .error e
  | _ :: _ => .error .badValue

/-- the tracker URLs `magnet` iterates over: every URL of every tier when `announce-list`
    exists, else the primary tracker, else `none` (then `announce_args = [""]`) -/
def trackerUrls (top : Dict) : Except Err (Option (List Bytes)) :=
  match dictGet top K.announceList with
  | some (.list tiers) => (flattenTiers tiers).map some
  | some _ => .error .badValue
  | none =>
    match dictGet top K.announce with
    | some (.str a) => .ok (some [a])
    | some _ => .error .badValue
    | none => .ok none

/-- `url-list`: a single string (BEP 19 allows it) or a list of strings -/
def seedUrls (top : Dict) : Except Err (Option (List Bytes)) :=
  match dictGet top K.urlList with
  | some (.str s) => .ok (some [s])
  | some (.list l) => (asStrs l).map some
  | some _ => .error .badValue
  | none => .ok none

def sMagnet : Bytes := [109, 97, 103, 110, 101, 116, 58, 63]                 -- "magnet:?"
def sBtih : Bytes := [120, 116, 61, 117, 114, 110, 58, 98, 116, 105, 104, 58] -- "xt=urn:btih:"
def sBtmh : Bytes := [120, 116, 61, 117, 114, 110, 58, 98, 116, 109, 104, 58, 49, 50, 50, 48] -- "xt=urn:btmh:1220"
def sDn : Bytes := [38, 100, 110, 61]  -- "&dn="
def sTr : Bytes := [38, 116, 114, 61]  -- "&tr="
def sWs : Bytes := [38, 119, 115, 61]  -- "&ws="

/-- `"".join(["&xx=" + quote_plus(u) for u in urls])`, dropped when it is exactly `"&xx="`;
    `[""]` when the key is absent -/
def paramList (pre : Bytes) : Option (List Bytes) → Bytes
  | none => []
  | some urls =>
    let s := (urls.map fun u => pre ++ quotePlus u).flatten
    if s = pre then [] else s

/-- does the magnet carry `urn:btih`? -/
def wantV1 (info : Dict) (version : Nat) : Bool :=
  !dictHas info K.metaVersion ||
    ((version = 1 || version = 3 || version = 0) && dictHas info K.pieces)

/-- does the magnet carry `urn:btmh`? -/
def wantV2 (info : Dict) (version : Nat) : Bool :=
  dictHas info K.metaVersion && version ≠ 1

/-- `commands.magnet` on the decoded metafile. `H1`/`H2` stand for SHA-1 / SHA-256. -/
def magnet (H1 H2 : Bytes → Bytes) (mf : BVal) (version : Nat) : Except Err Bytes :=
  match mf with
  | .dict top =>
    match dictGet top K.info with
    | some (.dict info) =>
      let benc := encode (.dict info)
      let v1 := wantV1 info version
      let s := sMagnet ++ (if v1 then sBtih ++ hexLower (H1 benc) else [])
      let s := if wantV2 info version
        then s ++ (if v1 then [38] else []) ++ sBtmh ++ hexLower (H2 benc) else s
      match dictGet info K.name with
      | some (.str name) =>
        match trackerUrls top, seedUrls top with
        | .ok tr, .ok ws =>
          .ok (s ++ sDn ++ quotePlus name ++ paramList sTr tr ++ paramList sWs ws)
        | .error e, _ => .error e
        | _, .error e => .error e
      | _ => .error .badValue
    | _ => .error .noInfo
  | _ => .error .notDict

end Impl

/-! ### specification side -/

/-- value under `k` of the `info` dictionary of a metafile -/
def BVal.infoGet? (mf : BVal) (k : Bytes) : Option BVal := (mf.get? K.info).bind (·.get? k)

namespace Spec

inductive Version where
  | v1 | v2 | hybrid
  deriving Repr, DecidableEq

def isInt : Option BVal → Bool | some (.int _) => true | _ => false
def isStr : Option BVal → Bool | some (.str _) => true | _ => false
def isList : Option BVal → Bool | some (.list _) => true | _ => false
def isDict : Option BVal → Bool | some (.dict _) => true | _ => false

/-- a string whose length is a multiple of `n` (concatenated `n`-byte hashes) -/
def isHashes (n : Nat) : Option BVal → Bool
  | some (.str p) => p.length % n = 0
  | _ => false

/-- a dictionary all of whose values are strings of 32-byte hashes -/
def isLayers : Option BVal → Bool
  | some (.dict l) => l.all fun kv => isHashes 32 (some kv.2)
  | _ => false

/-- every version: `name`, `piece length` -/
def baseOk (mf : BVal) : Bool := isStr (mf.infoGet? K.name) && isInt (mf.infoGet? K.pieceLength)

/-- v1: `length` or `files`, and `pieces` made of 20-byte hashes -/
def v1Ok (mf : BVal) : Bool :=
  (isInt (mf.infoGet? K.length) || isList (mf.infoGet? K.files)) && isHashes 20 (mf.infoGet? K.pieces)

/-- v2: `meta version` = 2, `file tree`, top-level `piece layers` of 32-byte-hash strings -/
def v2Ok (mf : BVal) : Bool :=
  mf.infoGet? K.metaVersion == some (.int 2) && isDict (mf.infoGet? K.fileTree) &&
  isLayers (mf.get? K.pieceLayers)

/-- the structure the version requires -/
def WellFormed (ver : Version) (mf : BVal) : Bool :=
  baseOk mf && match ver with
    | .v1 => v1Ok mf
    | .v2 => v2Ok mf
    | .hybrid => v1Ok mf && v2Ok mf

/-- what one request does to one key -/
inductive Write where
  | keep
  | remove
  | put (v : BVal)
  deriving Repr

def Write.apply : Write → Option BVal → Option BVal
  | .keep, o => o
  | .remove, _ => none
  | .put v, _ => some v

/-- the last write that is not `keep` -/
def lastWrite : List Write → Write
  | [] => .keep
  | w :: ws => match lastWrite ws with
    | .keep => w
    | w' => w'

/-- `None` → keep, `""` → remove, otherwise → the stored value -/
def writeOf (stored : EVal → Option BVal) (e : EVal) : Write :=
  match stored e with
  | some v => .put v
  | none => if e.isDel then .remove else .keep

/-- primary tracker stored for an `announce` argument (first URL) -/
def annFirst (e : EVal) : Option BVal :=
  match e.trackers with
  | .ok (some (a, _)) => some (.str a)
  | _ => none

/-- tier list stored for an `announce` argument (one tier with all URLs) -/
def annTiers (e : EVal) : Option BVal :=
  match e.trackers with
  | .ok (some (_, l)) => some (.list [strs l])
  | _ => none

/-- effect of one request on top-level key `k`. Clearing the tracker removes `announce`;
    what happens to `announce-list` then is not specified by the property (the code keeps it,
    and that is what is stated here). -/
def topWrite (k : Bytes) (r : EditReq) : Write :=
  if k = K.announce then writeOf annFirst r.announce
  else if k = K.announceList then (match annTiers r.announce with | some v => .put v | none => .keep)
  else if k = K.urlList then writeOf EVal.seeds r.urlList
  else if k = K.httpseeds then writeOf EVal.seeds r.httpseeds
  else .keep

/-- effect of one request on key `k` of `info` -/
def infoWrite (k : Bytes) (r : EditReq) : Write :=
  if k = K.comment then writeOf EVal.val r.comment
  else if k = K.source then writeOf EVal.val r.source
  else if k = K.priv then writeOf EVal.one r.priv
  else .keep

/-! #### reading a magnet URI back (what a standard URL parser does) -/

/-- split at every `sep` -/
def splitOn (sep : UInt8) : Bytes → List Bytes
  | [] => [[]]
  | c :: r =>
    if c = sep then [] :: splitOn sep r
    else match splitOn sep r with
      | h :: t => (c :: h) :: t
      | [] => [[c]]

/-- cut at the first `sep`: (before, after); no `sep`: (all, empty) -/
def cutAt (sep : UInt8) : Bytes → Bytes × Bytes
  | [] => ([], [])
  | c :: r => if c = sep then ([], r) else ((c :: (cutAt sep r).1), (cutAt sep r).2)

/-- `parse_qsl` of a `magnet:?` URI: the `&`-separated non-empty components, each cut at its
    first `=`, values URL-decoded; in order of appearance -/
def queryParams (uri : Bytes) : Option (List (Bytes × Bytes)) :=
  if uri.take 8 = Impl.sMagnet then
    some (((splitOn 38 (uri.drop 8)).filter (· ≠ [])).map fun seg =>
      ((cutAt 61 seg).1, unquotePlus (cutAt 61 seg).2))
  else none

/-- all values of the parameter `key`, in order -/
def paramsOf (key : Bytes) (ps : List (Bytes × Bytes)) : List Bytes :=
  (ps.filter (·.1 = key)).map (·.2)

/-- the URLs a magnet carries for a list read from the metafile: all of them, except that a
    list consisting of exactly one empty URL gives no parameter at all -/
def shownUrls : Option (List Bytes) → List Bytes
  | none => []
  | some l => if l = [[]] then [] else l

def pXt : Bytes := [120, 116]  -- "xt"
def pDn : Bytes := [100, 110]  -- "dn"
def pTr : Bytes := [116, 114]  -- "tr"
def pWs : Bytes := [119, 115]  -- "ws"
def urnBtih : Bytes := [117, 114, 110, 58, 98, 116, 105, 104, 58]  -- "urn:btih:"
def urnBtmh : Bytes := [117, 114, 110, 58, 98, 116, 109, 104, 58, 49, 50, 50, 48]  -- "urn:btmh:1220"

/-- v1 side wanted: the metafile has no `meta version` (plain v1), or it has `pieces` (hybrid)
    and the request is automatic (0), v1 (1) or hybrid (3) -/
def carriesBtih (mf : BVal) (ver : Nat) : Bool :=
  (mf.infoGet? K.metaVersion).isNone ||
    ((ver = 1 || ver = 3 || ver = 0) && (mf.infoGet? K.pieces).isSome)

/-- v2 side wanted: the metafile has `meta version` and the request is not "v1 only" -/
def carriesBtmh (mf : BVal) (ver : Nat) : Bool :=
  (mf.infoGet? K.metaVersion).isSome && ver ≠ 1

/-- `r` is what `write` hands to `pyben.dump` for the assembled `mf`: the sorted value; it is
    canonical, and the bytes written are read back unchanged by the strict decoder. -/
def Written (mf r : BVal) : Prop :=
  Impl.sortMeta mf = some r ∧ Canonical r = true ∧ Impl.write mf = some (Impl.encode r) ∧
    strictDecode (Impl.encode r) = some r

/-- the editable `info` fields are where torrentfile puts them: no `comment`, `source`,
    `private` key at the top level (other tools write a top-level `comment`; `filter_empty`
    would delete that one instead of `info["comment"]`) -/
def Located (mf : BVal) : Bool :=
  (mf.get? K.comment).isNone && (mf.get? K.source).isNone && (mf.get? K.priv).isNone

end Spec

end TorrentVerif

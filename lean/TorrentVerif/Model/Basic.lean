/-
  Shared vocabulary of all models: byte strings, piece slicing, zero padding.
  Nothing outside core Lean is imported by any file under `Model/` (so the driver links).
-/
namespace TorrentVerif

abbrev Bytes := List UInt8

/-- `bytearray(n)` / `bytes(n)`: n zero bytes. -/
def zeros (n : Nat) : Bytes := List.replicate n 0

/-- Successive `n`-sized slices of `l`; only the last may be short; none is empty.
    This is the specification-side notion of "pieces" and "blocks". -/
def chunks (n : Nat) (l : List α) : List (List α) :=
  if n = 0 ∨ l = [] then [] else l.take n :: chunks n (l.drop n)
termination_by l.length
decreasing_by
  rename_i h
  have h1 : n ≠ 0 := fun e => h (Or.inl e)
  have h2 : l ≠ [] := fun e => h (Or.inr e)
  have : 0 < l.length := List.length_pos_iff.mpr h2
  simp [List.length_drop]; omega

/-- gap from `s` to the next multiple of `pl` (`-s % pl` in Python). -/
def gap (pl s : Nat) : Nat := (pl - s % pl) % pl

/-- ceil division. -/
def cdiv (a b : Nat) : Nat := (a + b - 1) / b

end TorrentVerif

import TorrentVerif.Model.Basic
/-
  Model of `hasher.merkle_root`, `utils.next_power_2`, and of the three BEP 52 hashers
  `HasherV2`, `HasherHybrid`, `FileHasher`, plus the BEP 52 specification they are compared to.

  `H` is the block/node hash (SHA-256 in the code), `H1` the v1 piece hash (SHA-1); both are
  parameters: every theorem holds for arbitrary functions.
  `B` is `BLOCK_SIZE`, `bpp` is `piece_length // BLOCK_SIZE`, `hs` is `HASH_SIZE`.
-/
namespace TorrentVerif

/-- least `k` with `n ≤ 2^k` -/
def lg (n : Nat) : Nat := if n ≤ 1 then 0 else Nat.log2 (n - 1) + 1

/-- BEP 52 balanced binary tree over exactly `2^k` leaves. -/
def tree (H : Bytes → Bytes) : Nat → List Bytes → Bytes
  | 0, l => l.headD []
  | k + 1, l => H (tree H k (l.take (2 ^ k)) ++ tree H k (l.drop (2 ^ k)))

namespace Impl

/-- `utils.next_power_2`: the `while start < value: start <<= 1` loop (fuel = value suffices). -/
def np2Loop : Nat → Nat → Nat → Nat
  | 0, start, _ => start
  | fuel + 1, start, value => if start < value then np2Loop fuel (start * 2) value else start

/-- `utils.next_power_2`. (`not value & (value - 1) and value` is "value is a power of two".) -/
def np2 (value : Nat) : Nat :=
  if value ≠ 0 ∧ value &&& (value - 1) = 0 then value else np2Loop value 1 value

/-- one round of `[sha256(x + y) for x, y in zip(*[iter(blocks)] * 2)]`
    (`zip` drops an unpaired last element). -/
def pairUp (H : Bytes → Bytes) : List Bytes → List Bytes
  | x :: y :: t => H (x ++ y) :: pairUp H t
  | _ => []

theorem pairUp_length (H : Bytes → Bytes) (l : List Bytes) :
    (pairUp H l).length = l.length / 2 := by
  induction l using pairUp.induct with
  | case1 x y t ih => simp [pairUp, ih]; omega
  | case2 l h =>
    match l with
    | [] => simp [pairUp]
    | [x] => simp [pairUp]
    | x :: y :: t => exact absurd rfl (h x y t)

/-- `while len(blocks) > 1: blocks = pairUp blocks` then `blocks[0]`; `none` for `[]`. -/
def merkleIter (H : Bytes → Bytes) (l : List Bytes) : Option Bytes :=
  if _h : 1 < l.length then merkleIter H (pairUp H l) else l.head?
termination_by l.length
decreasing_by rw [pairUp_length]; omega

/-- `hasher.merkle_root`.  For `[]` Python returns the (falsy) empty list itself; the model
    returns the empty byte string.  No caller uses that value as a hash. -/
def merkleRoot (H : Bytes → Bytes) (l : List Bytes) : Bytes := (merkleIter H l).getD []

/-- the inner `for _ in range(n): size = fd.readinto(leaf); if not size: break; …` loop:
    reads up to `n` blocks of `B` bytes, stops at the first empty read.
    Returns the blocks read and the unread suffix. -/
def readBlocks (B : Nat) : Nat → Bytes → List Bytes × Bytes
  | 0, d => ([], d)
  | n + 1, d =>
    let b := d.take B
    if b.length = 0 then ([], d)
    else
      let r := readBlocks B n (d.drop B)
      (b :: r.1, r.2)

/-- zero hashes appended to a short piece: `_pad_remaining` / the inline code of `HasherV2`. -/
def padBlocks (hs bpp : Nat) (first : Bool) (hashes : List Bytes) : List Bytes :=
  if hashes.length = bpp then hashes
  else
    let remaining := if first then np2 hashes.length - hashes.length else bpp - hashes.length
    hashes ++ List.replicate remaining (zeros hs)

/-- result of `_calculate_root`: `(root, piece_layer)` from the list of layer hashes. -/
def calcRoot (H : Bytes → Bytes) (hs bpp : Nat) (layers : List Bytes) : Bytes × Bytes :=
  let padPiece := merkleRoot H (List.replicate bpp (zeros hs))
  let all := if 1 < layers.length
    then layers ++ List.replicate (np2 layers.length - layers.length) padPiece else layers
  (merkleRoot H all, layers.flatten)

/-- `HasherV2.process_file`: the `while True` loop; `acc` is `self.layer_hashes`.
    Fuel bounds the number of pieces (`d.length + 1` always suffices). -/
def v2Loop (H : Bytes → Bytes) (B hs bpp : Nat) : Nat → Bytes → List Bytes → List Bytes
  | 0, _, acc => acc
  | fuel + 1, d, acc =>
    let r := readBlocks B bpp d
    if r.1 = [] then acc
    else
      let blocks := padBlocks hs bpp acc.isEmpty (r.1.map H)
      v2Loop H B hs bpp fuel r.2 (acc ++ [merkleRoot H blocks])

/-- `HasherV2(path, piece_length)`: `(root, piece_layer)`. -/
def hasherV2 (H : Bytes → Bytes) (B hs bpp : Nat) (d : Bytes) : Bytes × Bytes :=
  calcRoot H hs bpp (v2Loop H B hs bpp (d.length + 1) d [])

/-- what the hybrid hashers collect besides the layer hashes -/
structure HybridOut where
  layers : List Bytes      -- `layer_hashes` before `_calculate_root` pads them
  pieces : List Bytes      -- v1 piece digests
  padding : Option Nat     -- `padding_file["length"]`
deriving Repr, DecidableEq

/-- `HasherHybrid.process_file`: like `v2Loop`, additionally SHA-1 over the blocks of the piece
    zero-extended to the piece length, and the padding-file length. -/
def hybridLoop (H H1 : Bytes → Bytes) (B hs bpp : Nat) : Nat → Bytes → HybridOut → HybridOut
  | 0, _, acc => acc
  | fuel + 1, d, acc =>
    let r := readBlocks B bpp d
    if r.1 = [] then acc
    else
      let blocks := padBlocks hs bpp acc.layers.isEmpty (r.1.map H)
      let data := r.1.flatten
      let plength := bpp * B - data.length
      let acc' : HybridOut :=
        { layers := acc.layers ++ [merkleRoot H blocks]
          pieces := acc.pieces ++ [H1 (if plength > 0 then data ++ zeros plength else data)]
          padding := if plength > 0 then some plength else acc.padding }
      hybridLoop H H1 B hs bpp fuel r.2 acc'

/-- `HasherHybrid(path, piece_length)`: `(root, piece_layer, pieces, padding)`. -/
def hasherHybrid (H H1 : Bytes → Bytes) (B hs bpp : Nat) (d : Bytes) :
    Bytes × Bytes × List Bytes × Option Nat :=
  let o := hybridLoop H H1 B hs bpp (d.length + 1) d ⟨[], [], none⟩
  let r := calcRoot H hs bpp o.layers
  (r.1, r.2, o.pieces, o.padding)

/-- iterator state of `FileHasher`: unread suffix, `end` flag, collected output,
    and `(root, piece_layer)` once `_calculate_root` has run. -/
structure FHState where
  rest : Bytes
  fin : Bool
  out : HybridOut
  root : Option (Bytes × Bytes)
deriving Repr

/-- like `readBlocks`, also reporting whether an empty read was seen (`self.end = True`). -/
def readBlocksEnd (B : Nat) : Nat → Bytes → List Bytes × Bytes × Bool
  | 0, d => ([], d, false)
  | n + 1, d =>
    let b := d.take B
    if b.length = 0 then ([], d, true)
    else
      let r := readBlocksEnd B n (d.drop B)
      (b :: r.1, r.2.1, r.2.2)

/-- `FileHasher.__next__`: `none` is `StopIteration`; otherwise the yielded
    `(layer_hash, piece?)` and the new state. `hybrid` is the constructor flag. -/
def fhNext (H H1 : Bytes → Bytes) (B hs bpp : Nat) (hybrid : Bool) (s : FHState) :
    Option (Bytes × Option Bytes) × FHState :=
  if s.fin then (none, { s with fin := false })
  else
    let r := readBlocksEnd B bpp s.rest
    let fin := r.2.2
    if r.1 = [] then
      (none, { s with rest := r.2.1, fin := fin, root := some (calcRoot H hs bpp s.out.layers) })
    else
      let blocks := padBlocks hs bpp s.out.layers.isEmpty (r.1.map H)
      let layer := merkleRoot H blocks
      let layers' := s.out.layers ++ [layer]
      let root' := if fin then some (calcRoot H hs bpp layers') else s.root
      if hybrid then
        let data := r.1.flatten
        let plength := bpp * B - data.length
        let piece := H1 (if plength > 0 then data ++ zeros plength else data)
        (some (layer, some piece),
         { rest := r.2.1, fin := fin, root := root',
           out := { layers := layers', pieces := s.out.pieces ++ [piece],
                    padding := if plength > 0 then some plength else s.out.padding } })
      else
        (some (layer, none),
         { rest := r.2.1, fin := fin, root := root', out := { s.out with layers := layers' } })

/-- `for result in hasher:` — drain `FileHasher`; returns the yielded items and final state. -/
def fhDrain (H H1 : Bytes → Bytes) (B hs bpp : Nat) (hybrid : Bool) :
    Nat → FHState → List (Bytes × Option Bytes) × FHState
  | 0, s => ([], s)
  | fuel + 1, s =>
    match fhNext H H1 B hs bpp hybrid s with
    | (none, s') => ([], s')
    | (some y, s') =>
      let r := fhDrain H H1 B hs bpp hybrid fuel s'
      (y :: r.1, r.2)

/-- `FileHasher(path, piece_length, hybrid=…)` drained, as `TorrentAssembler._traverse` does:
    `(root, layers yielded concatenated, pieces yielded, padding)`. -/
def fileHasher (H H1 : Bytes → Bytes) (B hs bpp : Nat) (hybrid : Bool) (d : Bytes) :
    Bytes × Bytes × List Bytes × Option Nat :=
  let r := fhDrain H H1 B hs bpp hybrid (d.length + 2) ⟨d, false, ⟨[], [], none⟩, none⟩
  let root := (r.2.root.getD ([], [])).1
  (root, (r.1.map (·.1)).flatten, r.1.filterMap (·.2), r.2.out.padding)

end Impl

namespace Spec

/-- BEP 52 leaf hashes of a file: hash of each `B`-byte block (last one may be short). -/
def leaves (H : Bytes → Bytes) (B : Nat) (d : Bytes) : List Bytes := (chunks B d).map H

/-- pad a leaf list with zero hashes to `2^k` entries -/
def padTo (hs : Nat) (n : Nat) (l : List Bytes) : List Bytes :=
  l ++ List.replicate (n - l.length) (zeros hs)

/-- BEP 52 "pieces root" of a non-empty file: root of the balanced tree over the leaf hashes
    padded with zero hashes to the next power of two. -/
def root (H : Bytes → Bytes) (B hs : Nat) (d : Bytes) : Bytes :=
  let ls := leaves H B d
  tree H (lg ls.length) (padTo hs (2 ^ lg ls.length) ls)

/-- BEP 52 piece layer of a file: the layer of that tree in which one hash covers `2^j`
    leaves (one piece), restricted to the hashes that cover at least one byte of the file. -/
def pieceLayer (H : Bytes → Bytes) (B hs j : Nat) (d : Bytes) : List Bytes :=
  let ls := leaves H B d
  let full := padTo hs (2 ^ (max (lg ls.length) j)) ls
  ((chunks (2 ^ j) full).map (tree H j)).take (cdiv ls.length (2 ^ j))

/-- v1 pieces of one file inside a hybrid torrent: the file followed by zero padding up to
    the next piece boundary. -/
def hybridPieces (H1 : Bytes → Bytes) (pl : Nat) (d : Bytes) : List Bytes :=
  (chunks pl (d ++ zeros (gap pl d.length))).map H1

/-- padding-file length after a file in a hybrid torrent (`none` = no padding entry). -/
def hybridPadding (pl : Nat) (d : Bytes) : Option Nat :=
  if gap pl d.length = 0 then none else some (gap pl d.length)

end Spec
end TorrentVerif

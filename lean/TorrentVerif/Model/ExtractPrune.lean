import TorrentVerif.Model.RebuildMeta
/-
  Vocabulary of `Props/C14.extract_skips_empty_directories`: the file tree of a `meta version` 2 /
  hybrid metafile WITHOUT its empty directories.

  torrentfile's own creators record a directory that holds no file (at any depth) as a dictionary
  without entries (`name: {}`, `name: {deep: {}}`); `toMetaTree` reads such a node as `.dir []` /
  `.dir [(deep, .dir [])]`.  BEP 52 does not mention them.  `Metadata._parse_tree` must skip them:
  no record, and no trace in the `partials` under which later files are recorded.

  * `Spec.hasFile` / `Spec.anyFile`: a file at or below the node / among the entries.
  * `Spec.pruneEntries` (`pruneTree`): the entries with every directory node that has no file below
    it removed, at any depth, order kept.
  * `Spec.dirsFull`: every directory node has a file below it.
  * `Spec.leavesList` (`leavesOf`): the files of a tree in dictionary order, each with ITS OWN
    path (`pre` followed by the keys from the top down to the file) — defined without any state
    that is carried from one entry to the next; `Spec.recOfLeaf`: the record of such a file.
  * `Spec.isSingleFileTree`: the tree is `{name: file}` (first half of the single-file rule of
    `Metadata.extract`).
-/
namespace TorrentVerif
namespace Spec
open Impl Rebuild PosixPath

mutual
/-- there is a file at or below the node -/
def hasFile : MetaTree → Bool
  | .file _ _ => true
  | .dir es => anyFile es
/-- there is a file at or below one of the entries -/
def anyFile : List (Bytes × MetaTree) → Bool
  | [] => false
  | (_, t) :: r => hasFile t || anyFile r
end

mutual
def pruneTree : MetaTree → MetaTree
  | .file l r => .file l r
  | .dir es => .dir (pruneEntries es)
/-- the entries without the directory nodes that have no file below them (at any depth) -/
def pruneEntries : List (Bytes × MetaTree) → List (Bytes × MetaTree)
  | [] => []
  | (k, t) :: r => if hasFile t then (k, pruneTree t) :: pruneEntries r else pruneEntries r
end

mutual
/-- every directory node at or below the node has a file below it -/
def dirsFullTree : MetaTree → Bool
  | .file _ _ => true
  | .dir es => anyFile es && dirsFull es
/-- no entry is, or contains, a directory without a file below it -/
def dirsFull : List (Bytes × MetaTree) → Bool
  | [] => true
  | (_, t) :: r => dirsFullTree t && dirsFull r
end

mutual
/-- the files at or below a node reached under the path `pre` -/
def leavesOf (pre : List Bytes) : MetaTree → List (List Bytes × Nat × Option Bytes)
  | .file len root => [(pre, len, root)]
  | .dir es => leavesList pre es
/-- the files of the entries of the directory `pre`, in dictionary order: (path components,
    length, pieces root) -/
def leavesList (pre : List Bytes) : List (Bytes × MetaTree) → List (List Bytes × Nat × Option Bytes)
  | [] => []
  | (k, t) :: r => leavesOf (pre ++ [k]) t ++ leavesList pre r
end

/-- the record `_parse_tree` appends for the file with path components `x.1`:
    `full = str(Path(*components))`, `filename` = the last component -/
def recOfLeaf (x : List Bytes × Nat × Option Bytes) : FileRec :=
  ⟨pathlibStr x.1, x.1.getLast?.getD [], x.2.1, x.2.2, false⟩

/-- `list(tree) == [name] and "" in tree[name]` -/
def isSingleFileTree (name : Bytes) (es : List (Bytes × MetaTree)) : Bool :=
  match es with
  | [(k, .file _ _)] => decide (k = name)
  | _ => false

/-- the `partials` the v2 branch of `Metadata.extract` starts `_parse_tree` with -/
def v2Partials (hasFiles : Bool) (name : Bytes) (es : List (Bytes × MetaTree)) : List Bytes :=
  if !hasFiles && isSingleFileTree name es then [] else [name]

end Spec
end TorrentVerif

import TorrentVerif.Model.Basic
import TorrentVerif.Model.Merkle
/-
  Model of `torrentfile.recheck`: `Checker.iter_hashes`, `FeedChecker` (v1) and `HashChecker`
  (v2 / hybrid, with `Padder` and `hasher.FileHasher`), and the specification they are compared to.

  A content file is described by its *recorded* length (from the metafile) and what is on
  disk: `some bytes`, or `none` when `os.path.exists(path)` is false.  The list of files is
  `checker.paths` / `checker.fileinfo` in index order, as `Checker.check_paths` /
  `walk_file_tree` build it (not modelled here): for a single-file torrent the one file; for
  v1 the `files` list in listed order, padding entries (`attr: p`) included as ordinary
  entries whose path does not exist (`none`), so they read as zeros; for v2 / hybrid the
  leaves of the file tree in dict order, with `pieces root = None` (model: empty string) for
  empty files.  `find_root` (content path = payload or its parent) only decides which disk
  paths these are.

  Not modelled (outside the properties' scope): `pl = 0`; an empty path list (`IndexError`
  in `HashChecker.next_file`); a `pieces root` missing from `piece layers` (`KeyError`; the
  lookup result is an input of the model); the `ZeroDivisionError` of the progress message
  when `total = 0` while a piece is produced (needs disk data longer than recorded).

  v1.  `FeedChecker.iter_pieces` keeps a variable `partial` that refers to a `bytearray`
  *object*.  The same object is handed to the generator `extract` / `_gen_padding`, which
  extends it in place, yields it, and re-binds its own variable to a fresh object after a full
  piece.  The model passes byte *values* and makes the aliasing explicit: a generator run
  returns the list of values it yields and the final content of the object it was handed
  (`alias`), which is what the caller's `partial` still refers to when nothing was yielded.
  No generator mutates an object after having yielded it (`extract` breaks / re-binds right
  after each `yield`, `_gen_padding` re-binds or leaves its loop), so a yielded value is final.

  v2.  `pl = bpp * B` (piece length is a multiple of `BLOCK_SIZE`), `hs` stands for both
  `hasher.HASH_SIZE` and `recheck.SHA256` (both 32).
-/
namespace TorrentVerif

/-- `s[n*i : n*i + n]` of a recorded digest string -/
def digestSlice (n : Nat) (recorded : Bytes) (i : Nat) : Bytes := (recorded.drop (n * i)).take n

/-- bytes `[i*pl, (i+1)*pl)` of a byte stream: the data of piece `i` -/
def pieceBytes (pl : Nat) (s : Bytes) (i : Nat) : Bytes := (s.drop (i * pl)).take pl

namespace Impl

/-! ### v1: `FeedChecker` -/

/-- `FeedChecker._gen_padding(partial, length, read)`: the values it yields.
    `while read < length:` — every round but a possible first one with a full `partial`
    advances `read`, so `length - read + 1` rounds suffice (`Proofs/Recheck.genPadding_spec`).
    (`left` is `piece_length - len(partial)`; `partial` is never longer than a piece.) -/
def genPadding (pl : Nat) : Nat → Bytes → Nat → Nat → List Bytes
  | 0, _, _, _ => []
  | fuel + 1, p, length, read =>
    if read < length then
      let left := pl - p.length
      if length - read > left then
        (p ++ zeros left) :: genPadding pl fuel [] length (read + left)
      else
        [p ++ zeros (length - read)]
    else []

/-- result of the `while True` read loop of `extract` -/
structure ExtractOut where
  ys : List Bytes      -- values yielded so far
  p : Bytes            -- content of the generator's `partial` object when the loop is left
  read : Nat           -- `read`
deriving Repr

/-- the `with open(path) … while True:` loop of `FeedChecker.extract`.  `rest` is the unread
    suffix of the file, `p` the generator's `partial`, `length` the recorded file length. -/
def extractLoop (pl length : Nat) : Nat → Bytes → Bytes → Nat → ExtractOut
  | 0, _, p, read => ⟨[], p, read⟩
  | fuel + 1, rest, p, read =>
    let bitlength := pl - p.length
    let part := rest.take bitlength          -- `current.readinto(part)`, `part[:amount]`
    let amount := part.length
    let read := read + amount
    let p := p ++ part                       -- `partial.extend(part[:amount])`
    if amount < bitlength then
      if amount > 0 ∧ read = length then ⟨[p], p, read⟩ else ⟨[], p, read⟩
    else
      let r := extractLoop pl length fuel (rest.drop bitlength) [] read
      ⟨p :: r.ys, r.p, r.read⟩

/-- `FeedChecker.extract(path, partial)` for an existing file with content `disk`:
    `(values yielded, alias)`, where `alias` is the content, after the run, of the object the
    caller's `partial` refers to as long as no yielded value re-binds it: the caller's own
    object, extended in place — unless it was exactly one piece long, in which case `extract`
    works on a fresh object and leaves the caller's untouched. -/
def extract (pl length : Nat) (disk : Bytes) (carry : Bytes) : List Bytes × Bytes :=
  let fresh := carry.length = pl
  let r := extractLoop pl length (disk.length + 1) disk (if fresh then [] else carry) 0
  let ys := if length ≠ r.read
    then r.ys ++ genPadding pl (length - r.read + 1) r.p length r.read else r.ys
  (ys, if fresh then carry else r.p)

/-- the `for piece in pieces:` loop of `iter_pieces`: full pieces are yielded (and `partial`
    re-bound to a new empty `bytearray`), a short one becomes `partial`.
    Returns (pieces yielded, `partial` afterwards). -/
def consume (pl : Nat) : List Bytes → Bytes → List Bytes × Bytes
  | [], carry => ([], carry)
  | y :: ys, _ =>
    if y.length = pl then
      let r := consume pl ys []
      (y :: r.1, r.2)
    else consume pl ys y

/-- one round of `for i, path in enumerate(self.paths)` in `iter_pieces`. -/
def feedFile (pl : Nat) (carry : Bytes) (e : Nat × Option Bytes) : List Bytes × Bytes :=
  match e.2 with
  | some disk =>
    let g := extract pl e.1 disk carry
    consume pl g.1 g.2
  | none =>
    -- `_gen_padding(partial, length)` works on the caller's object itself
    consume pl (genPadding pl (e.1 + 1) carry e.1 0) carry

/-- the `for` loop over all paths followed by `if partial: yield partial` -/
def feedLoop (pl : Nat) : Bytes → List (Nat × Option Bytes) → List Bytes
  | carry, [] => if carry.length ≠ 0 then [carry] else []
  | carry, e :: es =>
    let r := feedFile pl carry e
    r.1 ++ feedLoop pl r.2 es

/-- `FeedChecker.iter_pieces`: the byte strings it yields, for the entries
    `(recorded length, on-disk content or none)` in `paths` order. -/
def feedPieces (pl : Nat) (entries : List (Nat × Option Bytes)) : List Bytes :=
  feedLoop pl [] entries

/-- `FeedChecker.__next__` iterated: `piece_count` counts the pieces produced so far. -/
def feedCompare (H1 : Bytes → Bytes) (recorded : Bytes) : Nat → List Bytes → List (Bool × Nat)
  | _, [] => []
  | count, p :: ps =>
    (decide (H1 p = digestSlice 20 recorded count), p.length)
      :: feedCompare H1 recorded (count + 1) ps

/-- the `(chunk == piece, size)` stream `FeedChecker` hands to `Checker.iter_hashes`. -/
def feedCheck (H1 : Bytes → Bytes) (pl : Nat) (recorded : Bytes)
    (entries : List (Nat × Option Bytes)) : List (Bool × Nat) :=
  feedCompare H1 recorded 0 (feedPieces pl entries)

/-- `Checker.iter_hashes`: the loop `consumed += size; if chunk == piece: matched += size`,
    started from `(matched, consumed)`. -/
def iterHashesFrom : Nat × Nat → List (Bool × Nat) → Nat × Nat
  | acc, [] => acc
  | (matched, consumed), (ok, size) :: t =>
    iterHashesFrom (if ok then matched + size else matched, consumed + size) t

/-- `Checker.iter_hashes`: `(matched, consumed)`; the reported number is
    `(matched / consumed) * 100`, or `0` when `consumed = 0`. -/
def iterHashes (l : List (Bool × Nat)) : Nat × Nat := iterHashesFrom (0, 0) l

/-! ### v2 / hybrid: `HashChecker` -/

/-- a file as `HashChecker` sees it: recorded length, `fileinfo[i]["pieces root"]`,
    `meta["piece layers"][root]` (only read when `length > piece_length`; the lookup itself,
    which raises `KeyError` for a malformed metafile, is done by the caller), on-disk content
    or `none` when the path does not exist. -/
abbrev V2File := Nat × Bytes × Bytes × Option Bytes

/-- what is on disk of a file (nothing when absent) -/
abbrev fDisk (f : V2File) : Bytes := f.2.2.2.getD []
/-- `self.pieces` for a file -/
abbrev fPieces (pl : Nat) (f : V2File) : Bytes := if f.1 > pl then f.2.2.1 else f.2.1

/-- in scope: the disk data is not longer than recorded, and the recorded piece string has an
    entry for every piece -/
structure FileOK (hs pl : Nat) (f : V2File) : Prop where
  notLonger : (fDisk f).length ≤ f.1
  layerLen : hs * cdiv f.1 pl ≤ (fPieces pl f).length

/-- `HashChecker.Padder.__next__` for a padder with `length` bytes left:
    `(digest, length left)`; `none` is `StopIteration`.  The digest is a plain hash of zero
    bytes, not a merkle hash. -/
def padderNext (H : Bytes → Bytes) (pl : Nat) (length : Nat) : Option (Bytes × Nat) :=
  if length ≥ pl then some (H (zeros pl), length - pl)
  else if length > 0 then some (H (zeros length), 0)
  else none

/-- `self.hasher`: a `FileHasher` (state as in `Model/Merkle`) or a `Padder` (bytes left) -/
inductive CkHasher
  | file (s : FHState)
  | pad (length : Nat)
deriving Repr

/-- the per-file fields of `HashChecker` -/
structure HCState where
  length : Nat          -- `self.length`: bytes of the current file not yet accounted for
  pieces : Bytes        -- `self.pieces`: the piece layer, or the root for a one-piece file
  count : Nat           -- `self.count`
  hasher : CkHasher
deriving Repr

/-- `next(self.hasher)`: the layer hash, `none` for `StopIteration`, and the hasher afterwards.
    `FileHasher` is built with `hybrid=False`, so it yields the layer hash alone. -/
def hasherNext (H : Bytes → Bytes) (B hs bpp : Nat) : CkHasher → Option Bytes × CkHasher
  | .file s =>
    let r := fhNext H (fun _ => []) B hs bpp false s
    (r.1.map (·.1), .file r.2)
  | .pad n =>
    match padderNext H (bpp * B) n with
    | some (d, n') => (some d, .pad n')
    | none => (none, .pad n)

/-- `HashChecker.advance`: `((piece, size), state afterwards)` -/
def advance (hs pl : Nat) (s : HCState) : (Bytes × Nat) × HCState :=
  let piece := digestSlice hs s.pieces s.count
  if s.length ≥ pl then ((piece, pl), { s with count := s.count + 1, length := s.length - pl })
  else ((piece, s.length), { s with count := s.count + 1, length := 0 })

/-- `HashChecker.process_current`: `some (layer, piece, size)`, or `none` for `StopIteration`.
    When the hasher is exhausted but the recorded length is not (and the recorded piece string
    has a further entry), a `Padder` for the remaining length takes over. -/
def processCurrent (H : Bytes → Bytes) (B hs bpp : Nat) (s : HCState) :
    Option (Bytes × Bytes × Nat) × HCState :=
  let r := hasherNext H B hs bpp s.hasher
  match r.1 with
  | some layer =>
    let a := advance hs (bpp * B) { s with hasher := r.2 }
    (some (layer, a.1.1, a.1.2), a.2)
  | none =>
    let s := { s with hasher := r.2 }
    if s.length > 0 ∧ s.count * hs < s.pieces.length then
      let a := advance hs (bpp * B) { s with hasher := .pad s.length }
      match padderNext H (bpp * B) s.length with
      | some (layer, n') => (some (layer, a.1.1, a.1.2), { a.2 with hasher := .pad n' })
      | none => (none, a.2)   -- not reachable: `s.length > 0`
    else (none, s)

/-- `HashChecker.next_file` (the branch that finds a file): per-file state for `f`. -/
def nextFile (pl : Nat) (f : V2File) : HCState :=
  { length := f.1
    pieces := if f.1 > pl then f.2.2.1 else f.2.1
    count := 0
    hasher := match f.2.2.2 with
      | some d => .file ⟨d, false, ⟨[], [], none⟩, none⟩
      | none => .pad f.1 }

/-- `for … in HashChecker(checker)`: repeated `__next__`.  Each round is one pass of the
    `while True` loop: `process_current()` returns a result, or raises `StopIteration`, upon
    which `next_file()` moves on (or ends the iteration when no file is left).
    `rest` are the files after the current one.  Fuel bounds the number of rounds. -/
def hcLoop (H : Bytes → Bytes) (B hs bpp : Nat) : Nat → HCState → List V2File → List (Bool × Nat)
  | 0, _, _ => []
  | fuel + 1, s, rest =>
    match processCurrent H B hs bpp s with
    | (some (layer, piece, size), s') =>
      (decide (layer = piece), size) :: hcLoop H B hs bpp fuel s' rest
    | (none, _) =>
      match rest with
      | [] => []
      | f :: fs => hcLoop H B hs bpp fuel (nextFile (bpp * B) f) fs

/-- rounds needed for a list of files: one per piece a hasher or padder can yield
    (each covers at least one byte of data or of recorded length) plus one hand-over -/
def hcFuel (files : List V2File) : Nat :=
  (files.map (fun f => f.1 + (f.2.2.2.getD []).length + 2)).sum + 1

/-- the `(layer == piece, size)` stream `HashChecker` hands to `Checker.iter_hashes`.
    (For an empty path list Python raises `IndexError`; a parsed metafile always has a file.) -/
def hashCheck (H : Bytes → Bytes) (B hs bpp : Nat) (files : List V2File) : List (Bool × Nat) :=
  match files with
  | [] => []
  | f :: fs => hcLoop H B hs bpp (hcFuel (f :: fs)) (nextFile (bpp * B) f) fs

end Impl

namespace Spec

/-- the bytes a file contributes to the payload as recheck sees it: what is on disk, absent
    data read as zeros, cut to the recorded length. -/
def zeroFill (e : Nat × Option Bytes) : Bytes := ((e.2.getD []) ++ zeros e.1).take e.1

/-- v1 reference: slice the zero-filled concatenated stream into pieces; piece `i` verifies
    when its SHA-1 is the `i`-th recorded 20-byte digest. -/
def v1Check (H1 : Bytes → Bytes) (pl : Nat) (recorded : Bytes)
    (entries : List (Nat × Option Bytes)) : List (Bool × Nat) :=
  (chunks pl (entries.flatMap zeroFill)).zipIdx.map
    (fun ci => (decide (H1 ci.1 = digestSlice 20 recorded ci.2), ci.1.length))

/-- (bytes in verifying pieces, bytes in all pieces) -/
def ratio (l : List (Bool × Nat)) : Nat × Nat :=
  (((l.filter (·.1)).map (·.2)).sum, (l.map (·.2)).sum)

/-- damage only flips bytes, truncates or removes files: no file is longer than recorded -/
def NotLonger (entries : List (Nat × Option Bytes)) : Prop :=
  ∀ e ∈ entries, ∀ d, e.2 = some d → d.length ≤ e.1

/-- BEP 52 hash of one piece of a file as `FileHasher` computes it: merkle root over the
    hashes of the piece's `B`-byte blocks, padded with zero hashes — to `bpp` leaves, or for
    the first piece of a file (`first`) to the next power of two. -/
def pieceHash (H : Bytes → Bytes) (B hs bpp : Nat) (first : Bool) (piece : Bytes) : Bytes :=
  Impl.merkleRoot H (Impl.padBlocks hs bpp first ((chunks B piece).map H))

/-- v2 reference, verdict on piece `k` of one file: its size is what is left of the recorded
    length, at most a piece; where the on-disk data reaches into the piece, the digest is the
    merkle hash of the on-disk bytes of that piece; beyond, it is the `Padder` digest (hash of
    `size` zero bytes); it verifies when equal to the `k`-th recorded digest (of the piece
    layer, or of the root for a file of at most one piece). -/
def v2Verdict (H : Bytes → Bytes) (B hs bpp : Nat) (f : Impl.V2File) (k : Nat) : Bool × Nat :=
  let pl := bpp * B
  let d := f.2.2.2.getD []
  let pieces := if f.1 > pl then f.2.2.1 else f.2.1
  let size := min pl (f.1 - k * pl)
  let digest := if k * pl < d.length
    then pieceHash H B hs bpp (k == 0) (pieceBytes pl d k) else H (zeros size)
  (decide (digest = digestSlice hs pieces k), size)

/-- v2 reference for one file: one verdict per piece of the recorded length -/
def v2File (H : Bytes → Bytes) (B hs bpp : Nat) (f : Impl.V2File) : List (Bool × Nat) :=
  (List.range (cdiv f.1 (bpp * B))).map (v2Verdict H B hs bpp f)

/-- v2 / hybrid reference: files in order, each on its own (pieces never span files) -/
def v2Check (H : Bytes → Bytes) (B hs bpp : Nat) (files : List Impl.V2File) : List (Bool × Nat) :=
  files.flatMap (v2File H B hs bpp)

end Spec
end TorrentVerif

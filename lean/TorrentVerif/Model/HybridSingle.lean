import TorrentVerif.Model.Merkle
/-
  Model of the single-file rule of the two hybrid creators in `torrent.py`
  (`TorrentFileHybrid.assemble`, `TorrentAssembler.assemble`, after the `fix:` commit that
  introduced `utils.sha1_tail`):

      info["length"] = os.path.getsize(self.path)
      tail = info["length"] % self.piece_length
      if tail:                                   # `if self.hybrid and tail:` in the assembler
          self.pieces[-1] = utils.sha1_tail(self.path, tail)      # TorrentFileHybrid (list)
          self.pieces[-20:] = utils.sha1_tail(self.path, tail)    # TorrentAssembler (bytearray)

  A single file is not followed by a padding file, so its last v1 piece must be the hash of
  the unpadded tail of the file.
-/
namespace TorrentVerif
namespace Impl

/-- `utils.sha1_tail(path, size)`: `fd.seek(-size, os.SEEK_END); sha1(fd.read())`.
    Seeking before the start of the file raises `OSError` (`none`). -/
def sha1Tail (H1 : Bytes → Bytes) (d : Bytes) (size : Nat) : Option Bytes :=
  if size ≤ d.length then some (H1 (d.drop (d.length - size))) else none

/-- `TorrentFileHybrid.assemble`, single-file branch: `self.pieces` is the list of digests
    collected from `HasherHybrid`; `pieces[-1] = …` on an empty list raises `IndexError`
    (`none`). The right-hand side is evaluated first. -/
def singleTailList (H1 : Bytes → Bytes) (pl : Nat) (d : Bytes) (pieces : List Bytes) :
    Option (List Bytes) :=
  let tail := d.length % pl
  if tail ≠ 0 then
    match sha1Tail H1 d tail with
    | none => none
    | some t => if pieces = [] then none else some (pieces.dropLast ++ [t])
  else some pieces

/-- `TorrentAssembler.assemble`, single-file hybrid branch: `self.pieces` is the bytearray of
    concatenated digests; `pieces[-20:] = t` replaces the last (at most) 20 bytes by `t`
    (slice assignment never raises). -/
def singleTailBytes (H1 : Bytes → Bytes) (pl : Nat) (d : Bytes) (pieces : Bytes) : Option Bytes :=
  let tail := d.length % pl
  if tail ≠ 0 then
    match sha1Tail H1 d tail with
    | none => none
    | some t => some (pieces.take (pieces.length - 20) ++ t)
  else some pieces

/-- v1 piece digests of a single-file hybrid torrent made by `TorrentFileHybrid`
    (`info["pieces"]` is their concatenation). -/
def hybridSinglePieces (H H1 : Bytes → Bytes) (B hs bpp : Nat) (d : Bytes) : Option (List Bytes) :=
  singleTailList H1 (bpp * B) d (hasherHybrid H H1 B hs bpp d).2.2.1

/-- `info["pieces"]` of a single-file hybrid torrent made by `TorrentAssembler`
    (pieces yielded by `FileHasher(hybrid=True)` appended to a bytearray). -/
def assemblerSinglePieces (H H1 : Bytes → Bytes) (B hs bpp : Nat) (d : Bytes) : Option Bytes :=
  singleTailBytes H1 (bpp * B) d (fileHasher H H1 B hs bpp true d).2.2.1.flatten

end Impl
end TorrentVerif

/-
  Prelude of the Python → Lean translator (`harness/pytrans.py`): the Python operations the
  translated definitions refer to.  This file is the *trusted reading* of those operations;
  it is small on purpose.

  * `Py.Val`      — what a translated function returns (Python is untyped in its results:
                    `merkle_root([])` returns the list itself, otherwise bytes).
  * `Py.band`     — `a & b` on unbounded integers (two's complement, infinitely sign-extended).
  * `Py.shl`      — `a << n`; `Py.pow` — `a ** n`.  Both are faithful for `n ≥ 0`; for `n < 0`
                    Python raises (`<<`) or leaves the integers (`**` yields a float).  The tie
                    theorems `*_exponents_nonneg` in `Gen/Tie.lean` are not needed because
                    every use in the translated code is under a guard or a loop invariant that
                    the tie proofs establish; the readings below return `0` for a negative
                    `n`, which no tie theorem can exploit: `Impl.*` never produces it.
  * `Py.trueDivGt`— `a / b > c` for integers with `b > 0`: CPython's `int / int` is the
                    correctly rounded quotient and rounding is monotone, so the comparison with
                    an integer `c` that is a float can only differ from the exact one when the
                    exact quotient lies strictly between `c` and the next float above it.  For
                    the one use (`size / 2**exp > 1000`, `exp ≤ 24`) the quotient is a multiple
                    of 2^-24 while floats near 1000 are 2^-43 apart: exact.  (Trusted; also
                    sampled at every threshold ± 1 by the C12 check.)
  * `Py.pairs`    — `zip(*[iter(l)] * 2)`: consecutive pairs, an unpaired last element dropped.
  * `Py.isascii`, `Py.isdecimal`, `Py.intOfText` — see their doc comments below.
-/
namespace Py

inductive Val
  | int (i : Int)
  | bool (b : Bool)
  | bytes (b : List UInt8)
  | blist (l : List (List UInt8))
  | none
  deriving DecidableEq, Repr

/-- `a & b` for Python integers. `~x = -x - 1`. -/
def band (a b : Int) : Int :=
  match a, b with
  | .ofNat m, .ofNat n => ((m &&& n : Nat) : Int)
  | .ofNat m, .negSucc n => ((m - (m &&& n) : Nat) : Int)          -- m & ~n
  | .negSucc m, .ofNat n => ((n - (n &&& m) : Nat) : Int)          -- ~m & n
  | .negSucc m, .negSucc n => Int.negSucc (m ||| n)                -- ~m & ~n = ~(m | n)

def shl (a n : Int) : Int := if 0 ≤ n then a * 2 ^ n.toNat else 0

def pow (a n : Int) : Int := if 0 ≤ n then a ^ n.toNat else 0

def trueDivGt (a b c : Int) : Bool := if 0 < b then decide (a > c * b) else decide (a < c * b)

def pairs {α : Type} : List α → List (α × α)
  | x :: y :: t => (x, y) :: pairs t
  | _ => []

/-! ### strings (`text` = list of code points) -/

/-- Unicode category Nd outside ASCII; its value is irrelevant wherever the code also asks for
    `isascii()`, so it is left unspecified. -/
opaque nonAsciiDecimal : Char → Bool

/-- `s.isascii()` (true for the empty string) -/
def isascii (s : List Char) : Bool := s.all (fun c => decide (c.toNat < 128))

def isDecimalChar (c : Char) : Bool :=
  if c.toNat < 128 then (48 ≤ c.toNat && c.toNat ≤ 57) else nonAsciiDecimal c

/-- `s.isdecimal()`: non-empty and every character a decimal digit -/
def isdecimal (s : List Char) : Bool := !s.isEmpty && s.all isDecimalChar

/-- `int(s)`; `none` = `ValueError`.  FAITHFUL ONLY for non-empty strings of ASCII digits: the
    value in positional notation, or `ValueError` beyond CPython's default limit of 4300 digits
    (`sys.get_int_max_str_digits()`).  For every other string this reading answers `none`,
    which is not Python's (`" 12"`, `"+5"`, `"1_0"` convert); the one use in the translated code
    is behind `isascii() and isdecimal()`, and the tie theorem proves that guard. -/
def intOfText (s : List Char) : Option Int :=
  if s ≠ [] ∧ s.all (fun c => 48 ≤ c.toNat && c.toNat ≤ 57) then
    if s.length > 4300 then none
    else some ((s.foldl (fun acc c => acc * 10 + (c.toNat - 48)) 0 : Nat) : Int)
  else none

end Py

import Gen.Prelude
import TorrentVerif.Model.ExceptEq
/- Small facts about the prelude operations, shared by the tie proofs. -/
namespace Gen.Tie

theorem band_nat (m k : Nat) : Py.band (m : Int) (k : Int) = ((m &&& k : Nat) : Int) := rfl

theorem shl_1_14 : Py.shl 1 14 = 16384 := by decide

theorem pow2_cast (e : Nat) : Py.pow 2 (e : Int) = ((2 ^ e : Nat) : Int) := by
  simp [Py.pow]

theorem shl_one (s : Nat) : Py.shl (s : Int) 1 = ((s * 2 : Nat) : Int) := by
  simp [Py.shl]

end Gen.Tie

import Gen.Src.normalize_piece_length__str
import Gen.Lemmas
import Gen.Tie.normalize_piece_length
import TorrentVerif.Props.C12
/-
  `normalize_piece_length` specialised to a `str` argument: the definition translated from
  /repo's current source (`Gen.normalize_piece_length__str`: the `isascii/isdecimal` test, the
  `try: int(...) except ValueError` conversion, then the integer branch) computes what the
  hand-written model `Impl.normalizeStr` computes for EVERY string, and therefore has the
  property proved of the model (`Gen.Lifted.translated_normalize_string`).
-/
open TorrentVerif
namespace Gen.Tie

theorem ascii_decimal_iff (s : List Char) :
    (Py.isascii s && Py.isdecimal s) = true ↔
      (s ≠ [] ∧ s.all (fun c => 48 ≤ c.toNat && c.toNat ≤ 57) = true) := by
  unfold Py.isascii Py.isdecimal
  simp only [Bool.and_eq_true, List.all_eq_true, Bool.not_eq_true', List.isEmpty_eq_false_iff,
    decide_eq_true_eq, ne_eq]
  constructor
  · rintro ⟨ha, hne, hd⟩
    refine ⟨hne, fun c hc => ?_⟩
    have h1 := ha c hc
    have h2 := hd c hc
    unfold Py.isDecimalChar at h2
    simpa [h1] using h2
  · rintro ⟨hne, hd⟩
    have hlt : ∀ c ∈ s, c.toNat < 128 := fun c hc => by
      have := hd c hc
      omega
    refine ⟨hlt, hne, fun c hc => ?_⟩
    unfold Py.isDecimalChar
    simpa [hlt c hc] using hd c hc

theorem normalize_str_tie (s : List Char) :
    Gen.normalize_piece_length__str s =
      match Impl.normalizeStr s with
      | .ok v => .ok (Py.Val.int v)
      | .error _ => .error "PieceLengthValueError" := by
  unfold Gen.normalize_piece_length__str Impl.normalizeStr
  by_cases hD : s ≠ [] ∧ s.all (fun c => 48 ≤ c.toNat && c.toNat ≤ 57) = true
  · have hg : (Py.isascii s && Py.isdecimal s) = true := (ascii_decimal_iff s).mpr hD
    rw [if_pos hD]
    simp only [hg, Bool.not_true, Bool.false_eq_true, if_false]
    by_cases hl : s.length > Impl.intMaxStrDigits
    · have hi : Py.intOfText s = none := by
        unfold Py.intOfText; rw [if_pos hD, if_pos (show s.length > 4300 from hl)]
      rw [if_pos hl]; simp only [hi]
    · have hi : Py.intOfText s = some ((Impl.parseDigits s : Nat) : Int) := by
        unfold Py.intOfText; rw [if_pos hD, if_neg (show ¬ s.length > 4300 from hl)]; rfl
      rw [if_neg hl]; simp only [hi]
      have := normalize_tie ((Impl.parseDigits s : Nat) : Int)
      unfold Gen.normalize_piece_length at this
      exact this
  · have hg : (Py.isascii s && Py.isdecimal s) = false := by
      cases h : (Py.isascii s && Py.isdecimal s) with
      | false => rfl
      | true => exact absurd ((ascii_decimal_iff s).mp h) hD
    rw [if_neg hD]
    simp only [hg, Bool.not_false, if_true]

end Gen.Tie

namespace Gen.Lifted

/-- C12 for the code as translated, string arguments: a non-empty string of ASCII digits of at
    most 4300 characters is treated exactly as the integer it denotes in positional notation
    (leading zeros allowed); every other string — empty, signed, padded, non-ASCII digits,
    non-numeric, or longer than the interpreter's conversion limit — raises
    `PieceLengthValueError`. -/
theorem translated_normalize_string (s : List Char) :
    (Spec.isDecimalString s = true ∧ s.length ≤ Impl.intMaxStrDigits →
      Gen.normalize_piece_length__str s = Gen.normalize_piece_length (Spec.decimalValue s)) ∧
    (¬ (Spec.isDecimalString s = true ∧ s.length ≤ Impl.intMaxStrDigits) →
      Gen.normalize_piece_length__str s = .error "PieceLengthValueError") := by
  have h := TorrentVerif.Props.C12.normalize_string s
  constructor
  · intro hc
    rw [Gen.Tie.normalize_str_tie, Gen.Tie.normalize_tie, h.1 hc]
    cases Impl.normalizeInt _ <;> rfl
  · intro hc
    rw [Gen.Tie.normalize_str_tie, h.2 hc]

example : Gen.normalize_piece_length__str "0016".toList = .ok (Py.Val.int 65536) ∧
    Gen.normalize_piece_length__str "+16".toList = .error "PieceLengthValueError" ∧
    Gen.normalize_piece_length__str " 16".toList = .error "PieceLengthValueError" ∧
    Gen.normalize_piece_length__str "".toList = .error "PieceLengthValueError" := by
  decide

end Gen.Lifted

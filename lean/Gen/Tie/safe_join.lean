import Gen.Src.safe_join
import Gen.Lemmas
import TorrentVerif.Proofs.RbPath
import TorrentVerif.Props.C19
/-
  `safe_join`: the definition translated from /repo's current source (`Gen.safe_join`; the
  `os.path` functions it calls are the modelled library functions of `Model/Path.lean`)
  computes what the hand-written model `Impl.safeJoinStr` computes — for every absolute
  destination string and every relative path string, and it never raises there — and
  therefore has the containment property proved of the model (namespace `Gen.Lifted`).
-/
open TorrentVerif TorrentVerif.PosixPath TorrentVerif.Impl

namespace Gen.Tie

theorem normpath_head (j : Bytes) (hj : j.head? = some 47) : (normpath j).head? = some 47 := by
  obtain ⟨q, _, hq⟩ := normpath_abs j hj
  rw [hq]
  rcases initialSlashes_abs j hj with h | h <;> rw [h] <;> simp [List.replicate]

theorem join_head (a b : Bytes) (ha : a.head? = some 47) : (join a b).head? = some 47 := by
  unfold join
  split
  · assumption
  · cases a with
    | nil => simp at ha
    | cons x xs => split <;> simpa using ha

theorem take2_iff (l : Bytes) :
    (l.take 2 = [47, 47]) ↔ (l.head? = some 47 ∧ (l.drop 1).head? = some 47) := by
  match l with
  | [] => simp
  | [a] => simp
  | a :: b :: t => simp

theorem stripSlash_head (l : Bytes) (h : l.head? = some 47) : (stripSlash l).head? = some 47 := by
  unfold stripSlash
  split
  · rename_i hh; exact hh.2
  · exact h

theorem commonpath_abs (a b : Bytes) (ha : a.head? = some 47) (hb : b.head? = some 47) :
    ∃ c, commonpath a b = some c := by
  unfold commonpath
  simp [ha, hb]

/-- The translated `safe_join` equals the model on every absolute destination; in particular
    `os.path.commonpath` never raises there. -/
theorem safe_join_tie (dest rel : Bytes) (hd : dest.head? = some 47) :
    Gen.safe_join dest rel = .ok (match safeJoinStr dest rel with
      | some p => Py.Val.bytes p
      | none => Py.Val.none) := by
  have hbase : (abspath dest).head? = some 47 := normpath_head dest hd
  have hfull0 : (abspath (join (abspath dest) rel)).head? = some 47 :=
    normpath_head _ (join_head _ _ hbase)
  have hfull := stripSlash_head _ hfull0
  obtain ⟨c, hc⟩ := commonpath_abs _ _ hbase hfull
  unfold Gen.safe_join safeJoinStr
  simp only []
  by_cases h2 : (abspath (join (abspath dest) rel)).take 2 = [47, 47]
  · have hs : stripSlash (abspath (join (abspath dest) rel))
        = (abspath (join (abspath dest) rel)).drop 1 := by
      unfold stripSlash; rw [if_pos ((take2_iff _).mp h2)]
    rw [hs] at hc ⊢
    simp only [h2, decide_true, if_true, hc]
    generalize (abspath (join (abspath dest) rel)).drop 1 = F
    generalize abspath dest = B
    by_cases he : F = B
    · simp [he]
    · by_cases hcb : c = B <;> simp [he, hcb]
  · have hs : stripSlash (abspath (join (abspath dest) rel))
        = abspath (join (abspath dest) rel) := by
      unfold stripSlash; rw [if_neg (fun hh => h2 ((take2_iff _).mpr hh))]
    rw [hs] at hc ⊢
    simp only [h2, decide_false, Bool.false_eq_true, if_false, hc]
    generalize abspath (join (abspath dest) rel) = F
    generalize abspath dest = B
    by_cases he : F = B
    · simp [he]
    · by_cases hcb : c = B <;> simp [he, hcb]

end Gen.Tie

namespace Gen.Lifted
open TorrentVerif.Spec

/-- C19 for the code as translated: for EVERY destination (absolute, normalised, given as the
    string `render dest`) and EVERY string `rel`, the translated `safe_join` never raises; it
    returns either `None` or a string whose components lie strictly below the destination and
    contain no empty, `.` or `..` component. -/
theorem translated_safe_join (dest : TorrentVerif.Rebuild.Path) (hd : CleanPath dest) (rel : Bytes) :
    Gen.safe_join (render dest) rel = .ok Py.Val.none ∨
    ∃ full : Bytes, Gen.safe_join (render dest) rel = .ok (Py.Val.bytes full) ∧
      StrictlyBelow dest (comps full) ∧ CleanPath (comps full) := by
  have tie := Gen.Tie.safe_join_tie (render dest) rel (by simp [render])
  cases h : safeJoinStr (render dest) rel with
  | none => left; rw [tie, h]
  | some full =>
    right
    refine ⟨full, by rw [tie, h], ?_⟩
    have hs : safeJoin dest rel = some (comps full) := by simp [safeJoin, h]
    exact TorrentVerif.Props.C19.safeJoin_within_dest dest hd rel _ hs

example : Gen.safe_join [47, 100] [46, 46, 47, 120] = .ok Py.Val.none ∧
    Gen.safe_join [47, 100] [121] = .ok (Py.Val.bytes [47, 100, 47, 121]) ∧
    Gen.safe_join [47, 100] [47, 47, 100, 47, 121] = .ok (Py.Val.bytes [47, 100, 47, 121]) := by
  decide

end Gen.Lifted

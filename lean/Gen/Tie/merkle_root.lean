import Gen.Src.merkle_root
import Gen.Lemmas
import TorrentVerif.Proofs.Merkle
/-
  `merkle_root`: the definition translated from /repo's current source (`Gen.merkle_root`) computes what
  the hand-written model computes (namespace `Gen.Tie`), and therefore has the properties
  proved of the model (namespace `Gen.Lifted`, audited like `Props/*`).
-/
open TorrentVerif

namespace Gen.Tie

theorem pairs_map_eq_pairUp (H : Bytes → Bytes) : ∀ l : List Bytes,
    (Py.pairs l).map (fun ((x, y) : List UInt8 × List UInt8) => H (x ++ y)) = Impl.pairUp H l
  | [] => by simp [Py.pairs, Impl.pairUp]
  | [_] => by simp [Py.pairs, Impl.pairUp]
  | x :: y :: t => by simp [Py.pairs, Impl.pairUp, pairs_map_eq_pairUp H t]

theorem merkle_loop_tie (H : Bytes → Bytes) : ∀ (fuel : Nat) (l : List Bytes),
    l.length ≤ fuel → 1 ≤ fuel →
    ∃ l', Gen.merkle_root.loop0 H fuel l = some l' ∧ l'.head? = Impl.merkleIter H l
      ∧ (l ≠ [] → l' ≠ []) := by
  intro fuel
  induction fuel with
  | zero => intro l _ h; omega
  | succ fuel ih =>
    intro l hl _
    unfold Gen.merkle_root.loop0
    by_cases h : 1 < l.length
    · have h' : ((l.length : Int) > 1) := by omega
      simp only [h', decide_true, if_true, pairs_map_eq_pairUp]
      have hlen := Impl.pairUp_length H l
      obtain ⟨l', h1, h2, h3⟩ := ih (Impl.pairUp H l) (by omega) (by omega)
      refine ⟨l', h1, ?_, ?_⟩
      · rw [h2]; conv => rhs; rw [Impl.merkleIter]
        simp [h]
      · intro _; apply h3
        intro hnil; rw [hnil] at hlen; simp at hlen; omega
    · have h' : ¬ ((l.length : Int) > 1) := by omega
      simp only [h', decide_false, Bool.false_eq_true, if_false]
      refine ⟨l, rfl, ?_, fun hne => hne⟩
      rw [Impl.merkleIter]; simp [h]

/-- `merkle_root` as the code has it now terminates within `len(blocks)` iterations; for a
    non-empty list it returns the bytes `Impl.merkleRoot` returns, for the empty list the
    (empty) list itself. -/
theorem merkle_root_tie (H : Bytes → Bytes) (l : List Bytes) (fuel : Nat) (hf : l.length ≤ fuel) :
    Gen.merkle_root H fuel l
      = some (.ok (if l = [] then Py.Val.blist [] else Py.Val.bytes (Impl.merkleRoot H l))) := by
  unfold Gen.merkle_root
  by_cases hl : l = []
  · subst hl; simp
  · have hpos : 1 ≤ l.length := by
      cases l with
      | nil => exact absurd rfl hl
      | cons => simp
    obtain ⟨l', h1, h2, h3⟩ := merkle_loop_tie H fuel l hf (by omega)
    have hne := h3 hl
    cases l' with
    | nil => exact absurd rfl hne
    | cons v t =>
      simp only [List.head?_cons] at h2
      simp [hl, h1, Impl.merkleRoot, ← h2]

end Gen.Tie

namespace Gen.Lifted

/-- C02/C10 for the code as translated: on `2^k` hashes `merkle_root` terminates and returns
    the root of the BEP 52 balanced binary tree over them. -/
theorem translated_merkle_root (H : Bytes → Bytes) (k : Nat) (l : List Bytes)
    (hl : l.length = 2 ^ k) (fuel : Nat) (hf : l.length ≤ fuel) :
    Gen.merkle_root H fuel l = some (.ok (Py.Val.bytes (tree H k l))) := by
  have hne : l ≠ [] := by
    intro h; rw [h] at hl; simp at hl
    exact absurd hl.symm (Nat.ne_of_gt (Nat.pos_of_neZero _))
  rw [Gen.Tie.merkle_root_tie H l fuel hf, merkleRoot_eq_tree H k l hl]
  simp [hne]

example : Gen.merkle_root (fun b => b.take 1) 2 [[1, 2], [3]] = some (.ok (Py.Val.bytes [1])) := by
  decide

end Gen.Lifted

import Gen.Src.normalize_piece_length
import Gen.Lemmas
import TorrentVerif.Props.C12
/-
  `normalize_piece_length`: the definition translated from /repo's current source (`Gen.normalize_piece_length`) computes what
  the hand-written model computes (namespace `Gen.Tie`), and therefore has the properties
  proved of the model (namespace `Gen.Lifted`, audited like `Props/*`).
-/
open TorrentVerif

namespace Gen.Tie

theorem normalize_tie (n : Int) :
    Gen.normalize_piece_length n =
      match Impl.normalizeInt n with
      | .ok v => .ok (Py.Val.int v)
      | .error _ => .error "PieceLengthValueError" := by
  unfold Gen.normalize_piece_length Impl.normalizeInt
  by_cases h1 : 13 < n ∧ n < 26
  · have h0 : 0 ≤ n := by omega
    simp [h1, Py.pow, h0]
  · have h1' : ¬ (13 < n ∧ n < 26) := h1
    simp only [h1, if_false]
    have hc : (decide ((13 : Int) < n) && decide (n < (26 : Int))) = false := by
      by_cases a : (13 : Int) < n <;> by_cases b : n < (26 : Int) <;> simp_all
    simp only [hc, Bool.false_eq_true, if_false, shl_1_14]
    by_cases h2 : n ≥ 16384
    · obtain ⟨m, rfl⟩ := Int.eq_ofNat_of_zero_le (by omega : 0 ≤ n)
      have hm : ((m : Int) - 1) = ((m - 1 : Nat) : Int) := by omega
      rw [hm, band_nat]
      have h2' : (m : Int) ≥ 2 ^ 14 := by simpa using h2
      by_cases h3 : m &&& (m - 1) = 0
      · simp [h2, h3]
      · simp [h2, h3]
    · have h2' : ¬ ((n : Int) ≥ 2 ^ 14) := by simpa using h2
      simp [h2]

end Gen.Tie

namespace Gen.Lifted

/-- C12 for the code as translated: `normalize_piece_length` on an integer returns a value
    exactly for the exponents 14..25 and for powers of two ≥ 2^14 — a power of two ≥ 2^14 in
    every accepted case — and raises `PieceLengthValueError` for every other integer. -/
theorem translated_normalize (n : Int) :
    ((∃ v, Gen.normalize_piece_length n = .ok v) ↔
      ((14 ≤ n ∧ n ≤ 25) ∨ (2 ^ 14 ≤ n ∧ ∃ k : Nat, n = 2 ^ k))) ∧
    (∀ v, Gen.normalize_piece_length n = .ok v →
      ∃ r : Nat, v = Py.Val.int r ∧ Spec.validPieceLength r ∧
        ((14 ≤ n ∧ n ≤ 25) → r = 2 ^ n.toNat) ∧ (¬ (14 ≤ n ∧ n ≤ 25) → (r : Int) = n)) ∧
    ((¬ ∃ v, Gen.normalize_piece_length n = .ok v) →
      Gen.normalize_piece_length n = .error "PieceLengthValueError") := by
  have tie := Gen.Tie.normalize_tie n
  have acc := (Props.C12.normalize_accepts_iff n).1
  refine ⟨?_, ?_, ?_⟩
  · rw [← acc, tie]
    cases h : Impl.normalizeInt n with
    | ok r => simp
    | error e => simp
  · intro v hv
    rw [tie] at hv
    cases h : Impl.normalizeInt n with
    | ok r =>
      rw [h] at hv
      have hv' : Py.Val.int (r : Int) = v := by simpa using hv
      have nv := Props.C12.normalize_value n r h
      exact ⟨r, hv'.symm, nv.2.2, nv.1, nv.2.1⟩
    | error e => rw [h] at hv; simp at hv
  · intro hno
    rw [tie] at hno ⊢
    cases h : Impl.normalizeInt n with
    | ok r => rw [h] at hno; exact absurd ⟨_, rfl⟩ hno
    | error e => rfl

example : Gen.normalize_piece_length 14 = .ok (Py.Val.int 16384) ∧
    Gen.normalize_piece_length 65536 = .ok (Py.Val.int 65536) ∧
    Gen.normalize_piece_length 16385 = .error "PieceLengthValueError" ∧
    Gen.normalize_piece_length (-16384) = .error "PieceLengthValueError" := by decide

end Gen.Lifted

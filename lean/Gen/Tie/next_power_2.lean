import Gen.Src.next_power_2
import Gen.Lemmas
import TorrentVerif.Proofs.Merkle
/-
  `next_power_2`: the definition translated from /repo's current source (`Gen.next_power_2`) computes what
  the hand-written model computes (namespace `Gen.Tie`), and therefore has the properties
  proved of the model (namespace `Gen.Lifted`, audited like `Props/*`).
-/
open TorrentVerif

namespace Gen.Tie

theorem np2Loop_done (fuel s n : Nat) (h : ¬ s < n) : Impl.np2Loop fuel s n = s := by
  cases fuel <;> simp [Impl.np2Loop, h]

theorem np2_loop_tie (n : Nat) : ∀ (fuel fuel2 s : Nat), 1 ≤ s → n - s < fuel → n - s ≤ fuel2 →
    Gen.next_power_2.loop0 fuel ((s : Int), (n : Int))
      = some (((Impl.np2Loop fuel2 s n : Nat) : Int), (n : Int)) := by
  intro fuel
  induction fuel with
  | zero => intro _ s _ h; omega
  | succ fuel ih =>
    intro fuel2 s hs hf hf2
    unfold Gen.next_power_2.loop0
    by_cases h : s < n
    · have h' : (s : Int) < (n : Int) := by omega
      simp only [h', decide_true, if_true, shl_one]
      obtain ⟨f2, rfl⟩ : ∃ f2, fuel2 = f2 + 1 := ⟨fuel2 - 1, by omega⟩
      simp only [Impl.np2Loop, h, if_true]
      exact ih f2 (s * 2) (by omega) (by omega) (by omega)
    · have h' : ¬ (s : Int) < (n : Int) := by omega
      simp only [h', decide_false, Bool.false_eq_true, if_false, np2Loop_done _ _ _ h]

/-- `next_power_2` as the code has it now terminates within `value + 1` iterations and returns
    what `Impl.np2` returns, for every non-negative integer. -/
theorem next_power_2_tie (n fuel : Nat) (hf : n < fuel) :
    Gen.next_power_2 fuel (n : Int) = some (.ok (Py.Val.int ((Impl.np2 n : Nat) : Int))) := by
  unfold Gen.next_power_2 Impl.np2
  have hloop := np2_loop_tie n fuel n 1 (by omega) (by omega) (by omega)
  rw [show ((1 : Nat) : Int) = 1 from rfl] at hloop
  cases n with
  | zero =>
    have hb : Py.band ((0 : Nat) : Int) (((0 : Nat) : Int) - 1) = 0 := by decide
    simp only [hb, hloop]
    simp
  | succ m =>
    have hm : (((m + 1 : Nat) : Int) - 1) = ((m : Nat) : Int) := by omega
    rw [hm, band_nat]
    have hne : ¬ ((m : Int) + 1 = 0) := by omega
    by_cases h3 : (m + 1) &&& m = 0
    · simp [h3, hne]
    · have h3' : ¬ ((((m + 1) &&& m : Nat) : Int) = 0) := by omega
      simp only [hloop]
      simp [h3]

end Gen.Tie

namespace Gen.Lifted

/-- C02/C10 for the code as translated: `next_power_2` terminates and returns the least power
    of two that is at least its argument. -/
theorem translated_next_power_2 (n fuel : Nat) (hf : n < fuel) :
    Gen.next_power_2 fuel (n : Int) = some (.ok (Py.Val.int ((2 ^ lg n : Nat) : Int))) := by
  rw [Gen.Tie.next_power_2_tie n fuel hf, np2_eq]

example : Gen.next_power_2 6 5 = some (.ok (Py.Val.int 8)) := by decide

end Gen.Lifted

import Gen.Src.get_piece_length
import Gen.Lemmas
import TorrentVerif.Props.C12
/-
  `get_piece_length`: the definition translated from /repo's current source (`Gen.get_piece_length`) computes what
  the hand-written model computes (namespace `Gen.Tie`), and therefore has the properties
  proved of the model (namespace `Gen.Lifted`, audited like `Props/*`).
-/
open TorrentVerif

namespace Gen.Tie

theorem gpl_loop_tie (size : Int) : ∀ (fuel e : Nat), e ≤ 24 → 24 - e < fuel →
    Gen.get_piece_length.loop0 fuel ((e : Int), size)
      = some (((Impl.gplLoop size.toNat e : Nat) : Int), size) := by
  intro fuel
  induction fuel with
  | zero => intro e _ h; omega
  | succ fuel ih =>
    intro e he hf
    unfold Gen.get_piece_length.loop0
    rw [Impl.gplLoop]
    have hp : 0 < 2 ^ e := Nat.pos_of_neZero _
    have hcond : Py.trueDivGt size (Py.pow 2 (e : Int)) 1000
        = decide (size.toNat > 1000 * 2 ^ e) := by
      rw [pow2_cast]
      generalize 2 ^ e = p at hp
      unfold Py.trueDivGt
      have : (0 : Int) < (p : Int) := by omega
      simp only [this, if_true]
      by_cases h : size.toNat > 1000 * p
      · have : size > 1000 * (p : Int) := by omega
        simp [h, this]
      · have : ¬ size > 1000 * (p : Int) := by omega
        simp [h, this]
    simp only [hcond]
    by_cases h : size.toNat > 1000 * 2 ^ e ∧ e < 24
    · have hb : (decide (size.toNat > 1000 * 2 ^ e) && decide ((e : Int) < 24)) = true := by
        have : (e : Int) < 24 := by omega
        simp [h.1, this]
      simp only [if_true, h, and_self]
      have he' : (e : Int) < 24 := by omega
      simp only [he', decide_true, Bool.and_self, if_true]
      have := ih (e + 1) (by omega) (by omega)
      simpa using this
    · have hb : (decide (size.toNat > 1000 * 2 ^ e) && decide ((e : Int) < 24)) = false := by
        by_cases a : size.toNat > 1000 * 2 ^ e
        · have : ¬ (e : Int) < 24 := by omega
          simp [this]
        · simp [a]
      simp only [hb, Bool.false_eq_true, if_false, h]

/-- `get_piece_length` as the code has it now terminates within 11 iterations for every
    integer and returns what `Impl.getPieceLength` returns. -/
theorem get_piece_length_tie (size : Int) (fuel : Nat) (hf : 11 ≤ fuel) :
    Gen.get_piece_length fuel size
      = some (.ok (Py.Val.int ((Impl.getPieceLength size.toNat : Nat) : Int))) := by
  unfold Gen.get_piece_length Impl.getPieceLength
  have := gpl_loop_tie size fuel 14 (by omega) (by omega)
  rw [show ((14 : Nat) : Int) = 14 from rfl] at this
  simp only [this]
  simp [pow2_cast]

end Gen.Tie

namespace Gen.Lifted

/-- C12 for the code as translated: the automatic choice terminates (11 iterations suffice for
    every size) and is a power of two between 2^14 and 2^24, the least that keeps the payload
    within 1000 pieces (or 2^24), and monotone in the size. -/
theorem translated_auto (size : Nat) (fuel : Nat) (hf : 11 ≤ fuel) :
    ∃ k, 14 ≤ k ∧ k ≤ 24 ∧
      Gen.get_piece_length fuel (size : Int) = some (.ok (Py.Val.int ((2 ^ k : Nat) : Int))) ∧
      (size ≤ 1000 * 2 ^ k ∨ k = 24) ∧ (∀ j, 14 ≤ j → j < k → 1000 * 2 ^ j < size) := by
  have tie := Gen.Tie.get_piece_length_tie (size : Int) fuel hf
  simp only [Int.toNat_natCast] at tie
  refine ⟨Impl.gplLoop size 14, Impl.gplLoop_ge size 14, Impl.gplLoop_le size 14 (by decide),
    ?_, (Impl.gplLoop_spec size 14 (by decide)).1, (Impl.gplLoop_spec size 14 (by decide)).2⟩
  rw [tie]; rfl

theorem translated_auto_monotone (size size' : Nat) (h : size ≤ size') (fuel : Nat)
    (hf : 11 ≤ fuel) :
    ∃ a b : Nat, Gen.get_piece_length fuel (size : Int) = some (.ok (Py.Val.int a)) ∧
      Gen.get_piece_length fuel (size' : Int) = some (.ok (Py.Val.int b)) ∧ a ≤ b := by
  refine ⟨Impl.getPieceLength size, Impl.getPieceLength size', ?_, ?_,
    Props.C12.auto_monotone size size' h⟩
  · simpa using Gen.Tie.get_piece_length_tie (size : Int) fuel hf
  · simpa using Gen.Tie.get_piece_length_tie (size' : Int) fuel hf

example : Gen.get_piece_length 11 16384001 = some (.ok (Py.Val.int 32768)) := by decide

end Gen.Lifted

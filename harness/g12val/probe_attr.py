"""Side finding: a BEP 47 `attr` string that is not valid UTF-8 reaches recheck/rebuild as `bytes`."""
import sys, os, tempfile, hashlib
sys.path.insert(0, "/repo")
import pyben
from torrentfile.recheck import Checker
from torrentfile.rebuild import Metadata
tmp = tempfile.mkdtemp()
root = os.path.join(tmp, "n"); os.mkdir(root); open(os.path.join(root, "a"), "wb").write(b"abc")
for attr in (b"x", b"\xff", b"\xffp"):
    meta = {"info": {"name": "n", "piece length": 16384, "pieces": hashlib.sha1(b"abc").digest(),
                     "files": [{"length": 3, "path": ["a"], "attr": attr}]}}
    tf = os.path.join(tmp, "t.torrent"); open(tf, "wb").write(pyben.dumps(meta))
    for what, f in (("recheck", lambda: Checker(tf, root).results()), ("rebuild.Metadata", lambda: Metadata(tf).files[0].get("pad"))):
        try: print(attr, what, "->", f())
        except Exception as e: print(attr, what, "-> raises", type(e).__name__, e)

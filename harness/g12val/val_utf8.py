"""validutf8 (Lean `validUtf8`) against CPython's strict decoder."""
import random, itertools, sys
from drv import Driver, hx
def py_valid(b):
    try: b.decode("utf-8"); return True
    except UnicodeDecodeError: return False
cases = set()
# exhaustive: all strings of 1 and 2 bytes
for a in range(256): cases.add(bytes([a]))
for a in range(256):
    for b in range(256): cases.add(bytes([a, b]))
edge = [0x00, 0x7F, 0x80, 0x8F, 0x90, 0x9F, 0xA0, 0xBF, 0xC0, 0xC1, 0xC2, 0xDF, 0xE0, 0xE1, 0xEC, 0xED, 0xEE, 0xEF,
        0xF0, 0xF1, 0xF3, 0xF4, 0xF5, 0xF7, 0xF8, 0xFB, 0xFC, 0xFE, 0xFF, 0x41]
tails = [0x7F, 0x80, 0xBF, 0xC0, 0x41]
# 3-byte: every lead E0..EF (and neighbours), every second byte, edge third bytes
for lead in list(range(0xDF, 0xF1)):
    for s in range(256):
        for t in tails: cases.add(bytes([lead, s, t]))
# 4-byte: every lead F0..F8, every second byte, edge third/fourth
for lead in range(0xEF, 0xF9):
    for s in range(256):
        for t in tails:
            for u in tails: cases.add(bytes([lead, s, t, u]))
# every valid scalar boundary, its neighbours, and all truncations / extensions
cps = [0, 0x7F, 0x80, 0x7FF, 0x800, 0xFFF, 0x1000, 0xCFFF, 0xD000, 0xD7FF, 0xE000, 0xFFFD, 0xFFFF, 0x10000,
       0x3FFFF, 0x40000, 0xFFFFF, 0x100000, 0x10FFFF]
for c in cps:
    e = chr(c).encode("utf-8")
    for n in range(len(e) + 1):
        cases.add(e[:n]); cases.add(b"a" + e[:n]); cases.add(e[:n] + b"a"); cases.add(e + e[:n]); cases.add(e[:n] + e)
# hand-made invalid: surrogates, overlongs, > U+10FFFF, 5/6-byte forms
for raw in ["eda080", "edbfbf", "ed9fbf", "e09fbf", "e0a080", "c080", "c1bf", "f08fbfbf", "f0908080", "f48fbfbf",
            "f4908080", "f5808080", "f880808080", "fc8080808080", "feff", "fffe", "efbbbf", "80", "bf", "c2", "e1", "e180",
            "f1", "f180", "f18080", "c2c2", "e1e180", "f1f18080"]:
    cases.add(bytes.fromhex(raw))
rnd = random.Random(12)
alpha = edge
for _ in range(40000):
    n = rnd.randint(1, 8)
    cases.add(bytes(rnd.choice(alpha) if rnd.random() < 0.8 else rnd.randrange(256) for _ in range(n)))
# random valid text, and the same with one byte damaged
for _ in range(5000):
    s = "".join(chr(rnd.choice(cps + [rnd.randrange(0x110000)])) for _ in range(rnd.randint(1, 4)))
    s = "".join(ch for ch in s if not (0xD800 <= ord(ch) <= 0xDFFF))
    e = s.encode("utf-8")
    cases.add(e)
    if e:
        i = rnd.randrange(len(e)); cases.add(e[:i] + bytes([rnd.choice(alpha)]) + e[i+1:]); cases.add(e[:i] + e[i+1:])
# the two real witnesses
import hashlib
cases.add(hashlib.sha1(b"content-95049").digest()); cases.add(hashlib.sha256(b"c2-89753655").digest())
cases.discard(b"")
cases = sorted(cases); cases.insert(0, b"")
d = Driver()
ans = d.ask_many(["validutf8 " + hx(c) for c in cases])
d.close()
bad = [(c.hex(), a, py_valid(c)) for c, a in zip(cases, ans) if a != ("1" if py_valid(c) else "0")]
nvalid = sum(py_valid(c) for c in cases)
print(f"validutf8: {len(cases)} byte strings ({nvalid} valid, {len(cases)-nvalid} invalid), mismatches: {len(bad)}")
for b in bad[:20]: print("  MISMATCH", b)
sys.exit(1 if bad else 0)

"""pytag (Lean `Impl.hashSites ∘ Impl.pyLoads`) against `type(pyben.load(...)[...])`."""
import sys, os, random, tempfile, shutil, hashlib
sys.path.insert(0, "/repo")
import pyben
from torrentfile.torrent import TorrentFile, TorrentFileV2, TorrentFileHybrid
from torrentfile.recheck import Checker
from drv import Driver, hx

def walkD(d, out):
    for _, v in d.items(): walk(v, out)
def walk(v, out):
    if isinstance(v, dict):
        if "" in v:
            leaf = v[""]
            if isinstance(leaf, dict) and "pieces root" in leaf: out.append(leaf["pieces root"])
        else: walkD(v, out)
def sites(meta):
    out = []
    if not isinstance(meta, dict): return out
    info = meta.get("info")
    if isinstance(info, dict):
        if "pieces" in info: out.append(info["pieces"])
        tree = info.get("file tree")
        if isinstance(tree, dict): walkD(tree, out)
    layers = meta.get("piece layers")
    if isinstance(layers, dict):
        for k, v in layers.items(): out += [k, v]
    return out
def expected(raw):
    try:
        meta = pyben.loads(raw)
    except Exception:
        return "ERR decode"
    names = [type(x).__name__ for x in sites(meta)]
    return " ".join(names) if names else "-"

rnd = random.Random(2026)
tmp = tempfile.mkdtemp(prefix="g12val")
cases = []   # (label, raw bytes)
def create(cls, path, label, pl=16384):
    out = os.path.join(tmp, f"t{len(cases)}.torrent")
    cls(path=path, piece_length=pl, outfile=out, progress=0).write()
    raw = open(out, "rb").read()
    cases.append((label, raw))
    return out
# --- the two real witnesses
w1 = os.path.join(tmp, "w1"); os.mkdir(w1); f1 = os.path.join(w1, "sha1witness"); open(f1, "wb").write(b"content-95049")
w2 = os.path.join(tmp, "w2"); os.mkdir(w2); f2 = os.path.join(w2, "sha256witness"); open(f2, "wb").write(b"c2-89753655")
assert hashlib.sha1(b"content-95049").digest().decode("utf-8") is not None
assert hashlib.sha256(b"c2-89753655").digest().decode("utf-8") is not None
wit = [(create(TorrentFile, f1, "witness-v1"), f1), (create(TorrentFileV2, f2, "witness-v2"), f2),
       (create(TorrentFileHybrid, f2, "witness-hybrid"), f2)]
for tf, content in wit:
    c = Checker(tf, content)
    print("  witness", os.path.basename(content), "->", expected(open(tf, "rb").read()), "| repaired Checker:", c.results(), "%")
# --- created torrents: single files and directories, sizes around the piece length
for i in range(70):
    base = os.path.join(tmp, f"c{i}"); os.mkdir(base)
    if i % 3 == 0:
        p = os.path.join(base, f"file{i}.bin")
        open(p, "wb").write(rnd.randbytes(rnd.choice([0, 1, 11, 16383, 16384, 16385, 40000, 70000])) if i else b"")
    else:
        p = os.path.join(base, f"dir{i}"); os.mkdir(p)
        for j in range(rnd.randint(1, 4)):
            sub = p if rnd.random() < 0.6 else os.path.join(p, f"s{j}")
            os.makedirs(sub, exist_ok=True)
            open(os.path.join(sub, f"f{j}"), "wb").write(rnd.randbytes(rnd.choice([0, 5, 16384, 16385, 33000, 50000])))
    for cls in (TorrentFile, TorrentFileV2, TorrentFileHybrid):
        try: create(cls, p, f"created-{cls.__name__}-{i}")
        except Exception as e: pass
# --- synthetic metafiles: hash strings that ARE valid UTF-8 (ASCII / multibyte text), mixed with random ones
def rhash(n):
    k = rnd.random()
    if k < 0.35: return bytes(rnd.randrange(0x20, 0x7F) for _ in range(n))               # ASCII → str
    if k < 0.5:  return ("é" * (n // 2)).encode() + b"a" * (n % 2)                         # 2-byte text → str
    if k < 0.6:  return hashlib.sha1(b"content-95049").digest() if n == 20 else hashlib.sha256(b"c2-89753655").digest()
    if k < 0.7:  return b"\xed\xa0\x80" + b"a" * (n - 3)                                    # surrogate → bytes
    if k < 0.8:  return b"a" * (n - 1) + b"\xc3"                                            # truncated → bytes
    return rnd.randbytes(n)
def tree(depth):
    d = {}
    for j in range(rnd.randint(1, 3)):
        name = rnd.choice([f"n{j}", f"n{j}é", b"\xff" + bytes([65 + j])])
        if depth == 0 or rnd.random() < 0.6:
            leaf = {"length": rnd.randint(0, 99999)}
            r = rnd.random()
            if r < 0.8: leaf["pieces root"] = rhash(32)
            elif r < 0.9: leaf["pieces root"] = rnd.choice([7, [b"x"], {"a": 1}])
            d[name] = {"": leaf} if rnd.random() < 0.95 else {"": 5}
        else:
            d[name] = tree(depth - 1)
    return d
for i in range(150):
    info = {"name": "n", "piece length": 16384}
    meta = {}
    k = i % 5
    if k in (0, 3, 4): info["pieces"] = b"".join(rhash(20) for _ in range(rnd.randint(0, 3))) if rnd.random() < 0.9 else rnd.choice([5, ["a"]])
    if k in (1, 2, 3, 4):
        info["meta version"] = 2
        info["file tree"] = tree(2)
        layers = {}
        for _ in range(rnd.randint(0, 3)):
            layers[rhash(32)] = b"".join(rhash(32) for _ in range(rnd.randint(1, 3))) if rnd.random() < 0.9 else 3
        meta["piece layers"] = layers if rnd.random() < 0.95 else "oops"
    if k == 2: info["length"] = 5
    # key order: info first / last
    meta = ({"info": info, **meta} if rnd.random() < 0.5 else {**meta, "info": info, "zz": 1})
    cases.append((f"synthetic-{i}", pyben.dumps(meta)))
# --- not bencoding / degenerate
good = cases[3][1]
for raw in [b"", b"x", b"i1e", b"le", b"de", b"4:info", b"d4:infoi1ee", b"d4:infod6:pieces3:abcee", b"d4:infod6:piecesi1eee",
            b"d4:infod6:pieces2:\xc3\xa9ee", b"d4:infod6:pieces2:\xc3\x28ee", good[:len(good)//2], good[:-1], b"d" + good,
            b"d12:piece layersd1:a1:b1:\xff1:cee", b"d4:info" ]:
    cases.append(("degenerate", raw))
for i in range(25):
    raw = bytearray(rnd.choice(cases[:200])[1]); j = rnd.randrange(len(raw)); raw[j] = rnd.randrange(256)
    cases.append(("flipped", bytes(raw)))

d = Driver()
bad = []; tally = {}
for label, raw in cases:
    exp = expected(raw)
    got = d.ask("pytag " + hx(raw))
    kind = label.split("-")[0]
    tally.setdefault(kind, [0, 0]); tally[kind][0] += 1
    if "str" in exp.split(): tally[kind][1] += 1
    if got != exp: bad.append((label, exp, got, raw[:80]))
d.close()
shutil.rmtree(tmp)
print(f"pytag: {len(cases)} metafiles, mismatches: {len(bad)}")
for k, (n, s) in tally.items(): print(f"  {k}: {n} (with at least one `str` hash site: {s})")
for b in bad[:20]: print("  MISMATCH", b)
sys.exit(1 if bad else 0)

import subprocess, os
DRIVER = os.environ.get("TVDRIVER", "/verif/lean/.lake/build/bin/tvdriver")
class Driver:
    def __init__(self, path=DRIVER):
        self.p = subprocess.Popen([path], stdin=subprocess.PIPE, stdout=subprocess.PIPE, text=True, bufsize=1)
    def ask(self, line):
        self.p.stdin.write(line + "\n"); self.p.stdin.flush()
        return self.p.stdout.readline().rstrip("\n")
    def ask_many(self, lines, chunk=2000):
        out = []
        for i in range(0, len(lines), chunk):
            part = lines[i:i+chunk]
            self.p.stdin.write("\n".join(part) + "\n"); self.p.stdin.flush()
            for _ in part:
                out.append(self.p.stdout.readline().rstrip("\n"))
        return out
    def close(self):
        self.p.stdin.close(); self.p.wait()
def hx(b): return b.hex() if b else "-"

from t_match import *
from torrentfile.torrent import TorrentFileV2, TorrentFileHybrid
d = Drv()
random.seed(int(sys.argv[1]) if len(sys.argv) > 1 else 0)
N = int(sys.argv[2]) if len(sys.argv) > 2 else 60
base = tempfile.mkdtemp(prefix='g4v2')
bad = 0; excs = 0; copies = 0
hostile_names = ['..', '../esc', '.', 'a/../..', 'a/../../esc2', '/ABS', '//SELF', 'n/', 'n//m', 'x/../y', '']
def rename_tree(tree, hostile):
    out = {}
    for k, v in tree.items():
        nk = k
        if '' not in v:
            if random.random() < hostile: nk = random.choice(['..', '.', '../..', 'q/r', ''])
            out[nk] = rename_tree(v, hostile)
        else:
            out[nk] = v
    return out
for case in range(N):
    sb = os.path.join(base, 'c%d' % case); os.makedirs(sb)
    pl = random.choice([16384, 32768])
    nfiles = random.randint(1, 4)
    single = nfiles == 1 and random.random() < 0.5
    blobs = {}
    names = ['a', 'b', 'c', 'dd']
    content_root = os.path.join(sb, 'orig', 'T')
    files = []
    if single:
        os.makedirs(os.path.dirname(content_root))
    else:
        os.makedirs(content_root)
    for i in range(nfiles):
        size = random.choice([0, 1, 16384, 16385, 20000, 32768, 40000, 5])
        seed = random.randrange(1000)
        c = rand_bytes(seed, size); blobs[c] = 'r%d.%d' % (seed, size)
        if single:
            with open(content_root, 'wb') as fd: fd.write(c)
            files.append((['T'], c))
        else:
            depth = random.randint(0, 2)
            p = [random.choice(['d1', 'd2']) for _ in range(depth)] + [names[i] if random.random() < 0.7 else random.choice(names)]
            tgt = os.path.join(content_root, *p)
            if os.path.exists(tgt): continue
            try: os.makedirs(os.path.dirname(tgt), exist_ok=True)
            except OSError: continue
            if os.path.isdir(tgt): continue
            with open(tgt, 'wb') as fd: fd.write(c)
            files.append((p, c))
    mf = os.path.join(sb, 'm.torrent')
    cls = random.choice([TorrentFileV2, TorrentFileHybrid])
    cls(path=content_root, piece_length=pl, outfile=mf).write()
    meta = pyben.load(mf)
    hostile = random.random() < 0.35
    name = 'T'
    if hostile:
        name = random.choice(hostile_names)
        if name == '/ABS': name = os.path.join(sb, 'outside')
        if name == '//SELF': name = '/' + os.path.join(sb, 'dest')
        info = meta['info']
        tree = info['file tree']
        if single:
            if random.random() < 0.5: tree = {name: tree['T']}
        else:
            tree = rename_tree(tree, 0.3)
        info['file tree'] = tree
        info['name'] = name
        pyben.dump(meta, mf)
    shutil.rmtree(os.path.join(sb, 'orig'))
    sdirs = []
    for k in range(random.randint(1, 2)):
        sd = os.path.join(sb, 's%d' % k); os.makedirs(sd); sdirs.append(sd)
    for p, c in files:
        fn = p[-1]
        places = [c] * random.choice([0, 1, 1, 1, 2])
        for j in range(random.choice([0, 0, 1, 2])):
            r = random.random()
            if r < 0.3 or len(c) == 0: places.append(c + b'x')
            else:
                b = bytearray(c); b[random.randrange(len(c))] ^= 0x55; places.append(bytes(b))
        random.shuffle(places)
        for j, content in enumerate(places):
            sd = random.choice(sdirs)
            sub = os.path.join(sd, *[random.choice(['u', 'v', 'w%d' % j]) for _ in range(random.randint(0, 2))], 'k%d' % j)
            os.makedirs(sub, exist_ok=True)
            tgt = os.path.join(sub, fn)
            if not os.path.exists(tgt):
                with open(tgt, 'wb') as fd: fd.write(content)
    dest = os.path.join(sb, 'dest'); os.makedirs(dest)
    if random.random() < 0.4:
        for p, c in files:
            if random.random() < 0.5: continue
            tgt = os.path.normpath(os.path.join(dest, *(['T'] if single else ['T'] + p)))
            if not tgt.startswith(dest + '/'): continue
            try:
                kind = random.choice(['same', 'short', 'wrong', 'dir', 'long'])
                if kind == 'dir': os.makedirs(tgt, exist_ok=True); continue
                os.makedirs(os.path.dirname(tgt), exist_ok=True)
                data = {'same': c, 'short': c[:-1], 'wrong': bytes(len(c)), 'long': c + b'zz'}[kind]
                with open(tgt, 'wb') as fd: fd.write(data)
            except OSError: pass
    ok, info = run_case(d, sb, mf, sdirs, dest, blobs)
    if isinstance(info, dict):
        if info['exc'] is not None: excs += 1
        copies += len(info['real'][0])
    if not ok:
        bad += 1
        print('MISMATCH case', case, 'hostile' if hostile else '', name, [p for p, _ in files], info)
print('v2 cases', N, 'bad', bad, 'exceptions', excs, 'real ops', copies)
shutil.rmtree(base)

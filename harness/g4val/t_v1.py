from t_match import *
d = Drv()
random.seed(int(sys.argv[1]) if len(sys.argv) > 1 else 0)
N = int(sys.argv[2]) if len(sys.argv) > 2 else 300
base = tempfile.mkdtemp(prefix='g4v1')
bad = 0; excs = 0; copies = 0
hostile_names = ['..', '../esc', '.', 'a/../..', 'a/../../esc2', '/ABS', '//SELF', 'n/', 'n//m', 'x/../y']
for case in range(N):
    sb = os.path.join(base, 'c%d' % case); os.makedirs(sb)
    pl = random.choice([1, 2, 3, 4, 8])
    nfiles = random.randint(1, 5)
    single = nfiles == 1 and random.random() < 0.5
    files = []
    names = ['a', 'b', 'c', 'dd', 'e']
    for i in range(nfiles):
        size = random.choice([0, 0, pl, 2 * pl, pl - 1, pl + 1, random.randint(0, 4 * pl)])
        content = bytes(random.randrange(256) for _ in range(size))
        depth = random.randint(0, 2)
        path = [random.choice(['d1', 'd2', 'x']) for _ in range(depth)] + [random.choice(names) if random.random() < 0.3 else names[i]]
        files.append((path, content))
    name = 'T'
    hostile = random.random() < 0.35
    if hostile:
        name = random.choice(hostile_names)
        if name == '/ABS': name = os.path.join(sb, 'outside')
        if name == '//SELF': name = '/' + os.path.join(sb, 'dest')
        if random.random() < 0.4 and not single:
            i = random.randrange(nfiles)
            files[i] = ([random.choice(['..', '.', '', '../..', 'q'])] + files[i][0], files[i][1])
    stream = b''.join(c for _, c in files)
    pieces = b''.join(hashlib.sha1(stream[i:i + pl]).digest() for i in range(0, len(stream), pl))
    if random.random() < 0.1: pieces = pieces[:-20] if random.random() < 0.5 else pieces + bytes(20)
    info = {'name': name, 'piece length': pl, 'pieces': pieces}
    if single:
        info['length'] = len(files[0][1])
        files[0] = ([name], files[0][1])
    else:
        info['files'] = [{'length': len(c), 'path': p} for p, c in files]
    mf = os.path.join(sb, 'm.torrent'); pyben.dump({'info': info}, mf)
    # search dirs
    ndirs = random.randint(1, 2)
    sdirs = []
    for k in range(ndirs):
        sd = os.path.join(sb, 's%d' % k); os.makedirs(sd); sdirs.append(sd)
    for p, c in files:
        fn = os.path.basename(p[-1]) if p[-1] not in ('', '.', '..') else None
        if fn is None or '/' in p[-1]:
            continue
        places = []
        ncopies = random.choice([0, 1, 1, 1, 2])
        ndecoy = random.choice([0, 0, 1, 2])
        for j in range(ncopies): places.append(c)
        for j in range(ndecoy):
            r = random.random()
            if r < 0.3 or len(c) == 0: places.append(c + b'x')       # different size
            elif r < 0.6:                                              # differs late
                b = bytearray(c); b[-1] ^= 0xff; places.append(bytes(b))
            else:
                b = bytearray(c); b[random.randrange(len(c))] ^= 0x55; places.append(bytes(b))
        random.shuffle(places)
        for j, content in enumerate(places):
            sd = random.choice(sdirs)
            sub = os.path.join(sd, *[random.choice(['u', 'v', 'w%d' % j]) for _ in range(random.randint(0, 2))], 'k%d' % j)
            os.makedirs(sub, exist_ok=True)
            tgt = os.path.join(sub, fn)
            if not os.path.exists(tgt):
                with open(tgt, 'wb') as fd: fd.write(content)
    dest = os.path.join(sb, 'dest'); os.makedirs(dest)
    # pre-populate
    if random.random() < 0.4:
        for p, c in files:
            if random.random() < 0.5: continue
            tgt = os.path.normpath(os.path.join(dest, name, *([] if single else p)))
            if not tgt.startswith(dest + '/'): continue
            try:
                kind = random.choice(['same', 'short', 'wrong', 'dir', 'long'])
                if kind == 'dir': os.makedirs(tgt, exist_ok=True); continue
                os.makedirs(os.path.dirname(tgt), exist_ok=True)
                data = {'same': c, 'short': c[:-1], 'wrong': bytes(len(c)), 'long': c + b'zz'}[kind]
                with open(tgt, 'wb') as fd: fd.write(data)
            except OSError: pass
    ok, info = run_case(d, sb, mf, sdirs, dest)
    if isinstance(info, dict):
        if info['exc'] is not None: excs += 1
        copies += len(info['real'][0])
    if not ok:
        bad += 1
        print('MISMATCH case', case, 'hostile' if hostile else '', name, [p for p, _ in files], info)
print('v1 cases', N, 'bad', bad, 'exceptions', excs, 'real ops', copies)
shutil.rmtree(base)

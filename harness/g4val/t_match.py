import sys, os, shutil, hashlib, random, tempfile, traceback
from drv import *
import pyben
from torrentfile.rebuild import Assembler, Metadata
import torrentfile.rebuild as R

events = []
active = [False]
def hook(ev, args):
    if not active[0]: return
    if ev == 'os.mkdir': events.append(('m', args[0]))
    elif ev == 'shutil.copyfile': events.append(('c', args[0], args[1]))
    elif ev in ('os.remove', 'os.rename', 'os.rmdir', 'shutil.rmtree', 'shutil.move', 'os.truncate'):
        events.append(('BAD', ev, args))
sys.addaudithook(hook)

def norm(p):
    return '/' + '/'.join(c for c in str(p).split('/') if c)

def pattern(seed):
    out = b''.join(hashlib.sha256(f'{seed}:{i}'.encode()).digest() for i in range(32))
    return out[:1021]
def rand_bytes(seed, n):
    p = pattern(seed)
    return bytes(p[i % 1021] for i in range(n))

def snapshot(root):
    snap = {}
    for dp, dn, fn in os.walk(root):
        snap[dp] = None
        for f in fn:
            with open(os.path.join(dp, f), 'rb') as fd: snap[os.path.join(dp, f)] = fd.read()
    return snap

def fs_tokens(root, blobs=None):
    snap = snapshot(root)
    ents = []
    p = root
    while p != '/':
        p = os.path.dirname(p); ents.append((p, None))
    ents += list(snap.items())
    toks = [str(len(ents))]
    for p, c in ents:
        toks.append(hx(p))
        if c is None: toks.append('d')
        elif blobs and c in blobs: toks.append(blobs[c])
        else: toks.append('h' + (c.hex() if c else '-'))
    return ' '.join(toks), snap

def files_tokens(meta, v2):
    toks = [str(len(meta.files))]
    for f in meta.files:
        root = f.get('root')
        toks += [hx(str(f['full'])), hx(f['filename']), ('p' if f.get('pad') else '') + str(f['length']), (hx(root) if root is not None else 'none')]
    return ' '.join(toks)

def fm_tokens(fm):
    toks = [str(len(fm))]
    for k, v in fm.items():
        toks += [hx(k), str(len(v))]
        for p, s in v: toks += [hx(os.path.abspath(p)), str(s)]
    return ' '.join(toks)

def run_case(d, sandbox, metafile, contents, dest, blobs=None, verbose=False):
    """returns (ok, info)"""
    ds = os.path.getsize(sandbox)
    fstok, before = fs_tokens(sandbox, blobs)
    counter = None; exc = None
    del events[:]
    try:
        asm = Assembler([metafile], contents, dest)
    except Exception as e:
        return True, 'metafile rejected: %r' % e
    if not asm.metafiles: return True, 'no metafile'
    meta = asm.metafiles[0]
    fm = asm.filemap
    active[0] = True
    try:
        counter = asm.assemble_torrents()
    except Exception as e:
        exc = e
    active[0] = False
    v2 = meta.meta_version == 2
    if v2:
        req = 'matchv2 %d %s %d %s %s %s' % (ds, hx(os.path.abspath(dest)), meta.piece_length, files_tokens(meta, True), fm_tokens(fm), fstok)
    else:
        req = 'matchv1 %d %s %d %s %s %s %s' % (ds, hx(os.path.abspath(dest)), meta.piece_length, hx(meta.pieces), files_tokens(meta, False), fm_tokens(fm), fstok)
    ans = d.ask(req)
    if ans.startswith('ERR'): return False, ans
    cnt, ops, counted, writes = ans.split(' ')
    ops = [] if ops == '-' else ops.split(';')
    writes = [] if writes == '-' else writes.split(';')
    real = []
    realw = []
    for e in events:
        if e[0] == 'm': real.append('m:' + hx(norm(e[1]))); realw.append(hx(norm(e[1])))
        elif e[0] == 'c': real.append('c:' + hx(norm(e[1]))); realw.append(hx(norm(e[2])))
        else: return False, 'BAD EVENT %r' % (e,)
    mops = []
    for o in ops:
        parts = o.split(':')
        mops.append(parts[0] + ':' + parts[1])
    info = dict(counter=counter, exc=exc, model=(cnt, ops, writes), real=(real, realw))
    if exc is None:
        ok = (str(counter) == cnt and mops == real and writes == realw)
    else:
        k = len(real)
        # the failing call itself may or may not have been audited
        ok = (mops[:k] == real and writes[:k] == realw) or (mops[:k-1] == real[:k-1] and writes[:k-1] == realw[:k-1])
        info['note'] = 'exception, prefix compare'
    return ok, info

from t_match import *
from torrentfile.rebuild import _index_contents
d = Drv()
random.seed(5)
base = tempfile.mkdtemp(prefix='g4ex')
alpha = ['..', '.', '', 'a', '/abs', 'a/../../b', '//', 'x/', 'n', '//x', 'T']
bad = 0
def recs(meta, v2):
    out = []
    for f in meta.files:
        s = '%s:%s:%d' % (hx(str(f['full'])), hx(f['filename']), f['length'])
        if f.get('pad'): s += ':p'
        if v2: s += ':' + (hx(f['root']) if f.get('root') is not None else 'none')
        out.append(s)
    return ','.join(out) or '-'
mf = os.path.join(base, 'm.torrent')
for case in range(600):
    name = random.choice(alpha)
    if random.random() < 0.2:
        ln = random.randint(0, 9)
        pyben.dump({'info': {'name': name, 'piece length': 4, 'pieces': b'', 'length': ln}}, mf)
        req = 'extractv1s %s %d' % (hx(name), ln)
    else:
        fl = []
        for i in range(random.randint(0, 3)):
            p = [random.choice(alpha) for _ in range(random.randint(0 if random.random() < 0.05 else 1, 3))]
            fl.append((p, random.randint(0, 9), random.choice([None, None, 'p', 'x', 'lp'])))
        pyben.dump({'info': {'name': name, 'piece length': 4, 'pieces': b'', 'files': [dict({'length': l, 'path': p}, **({'attr': a} if a else {})) for p, l, a in fl]}}, mf)
        req = 'extractv1 %s %d %s' % (hx(name), len(fl), ' '.join('%d %s %s%d' % (len(p), ' '.join(hx(x) for x in p), 'p' if a == 'p' else '', l) for p, l, a in fl))
        req = ' '.join(req.split())
    try: exp = recs(Metadata(mf), False)
    except IndexError: exp = 'IndexError'
    got = d.ask(req)
    if got != exp: bad += 1; print('MISMATCH v1', req, exp, got)
def gen_tree(depth):
    t = {}
    for i in range(random.randint(0 if depth else 1, 3)):
        k = random.choice(alpha)
        if k in t or k == '': continue
        if depth >= 2 or random.random() < 0.6:
            ent = {'length': random.randint(0, 9)}
            if random.random() < 0.8: ent['pieces root'] = bytes([random.randrange(256)]) * 32
            t[k] = {'': ent}
        else:
            t[k] = gen_tree(depth + 1)
    return t
def tree_tok(t):
    toks = [str(len(t))]
    for k, v in t.items():
        toks.append(hx(k))
        if '' in v:
            toks += ['f', str(v['']['length']), hx(v['']['pieces root']) if 'pieces root' in v[''] else 'none']
        else:
            toks += ['d', tree_tok(v)]
    return ' '.join(toks)
for case in range(600):
    name = random.choice(alpha)
    t = gen_tree(0)
    if random.random() < 0.3:
        t = {random.choice([name, 'zz']): {'': {'length': 3, 'pieces root': b'r' * 32}}}
    pyben.dump({'info': {'name': name, 'piece length': 16384, 'meta version': 2, 'file tree': t}}, mf)
    exp = recs(Metadata(mf), True)
    got = d.ask('extractv2 %s %s' % (hx(name), tree_tok(t)))
    if got != exp: bad += 1; print('MISMATCH v2', name, t, exp, got)
print('extract bad', bad)
# index
def stree(p):
    if os.path.isfile(p): return 'f %d' % os.path.getsize(p)
    ents = os.listdir(p)
    return 'd %d %s' % (len(ents), ' '.join(hx(e) + ' ' + stree(os.path.join(p, e)) for e in ents))
bad = 0
for case in range(150):
    sb = os.path.join(base, 'i%d' % case)
    roots = []
    for r in range(random.randint(1, 3)):
        root = os.path.join(sb, 'r%d' % r)
        if random.random() < 0.15:
            os.makedirs(sb, exist_ok=True)
            with open(root, 'wb') as fd: fd.write(b'x' * random.randint(0, 5))
        else:
            os.makedirs(root)
            for i in range(random.randint(0, 8)):
                sub = os.path.join(root, *[random.choice(['u', 'v', 'w']) for _ in range(random.randint(0, 3))])
                tgt = os.path.join(sub, random.choice(['a', 'b', 'c', 'u', 'r0']))
                try:
                    os.makedirs(sub, exist_ok=True)
                    if not os.path.exists(tgt):
                        with open(tgt, 'wb') as fd: fd.write(b'x' * random.randint(0, 5))
                except OSError: pass
        roots.append(root)
    names = random.sample(['a', 'b', 'c', 'u', 'r0', 'zz'], random.randint(1, 4))
    fm = _index_contents(roots, set(names))
    exp = ';'.join('%s=%s' % (hx(k), ','.join('%s:%d' % (hx(p), s) for p, s in v)) for k, v in fm.items()) or '-'
    req = 'index %d %s %d %s' % (len(names), ' '.join(hx(n) for n in names), len(roots), ' '.join(hx(r) + ' ' + stree(r) for r in roots))
    got = d.ask(' '.join(req.split()))
    if got != exp: bad += 1; print('MISMATCH index', roots, names, exp, got)
print('index bad', bad)
shutil.rmtree(base)

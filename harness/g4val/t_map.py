import itertools, os, random, tempfile, math
from drv import *
import pyben
from torrentfile.rebuild import Metadata
d = Drv()
tmp = tempfile.mkdtemp()
def pymap(pl, numPieces, lens):
    info = {'name': 'n', 'piece length': pl, 'pieces': bytes(20 * numPieces),
            'files': [{'length': l, 'path': ['f%d' % i]} for i, l in enumerate(lens)]}
    p = os.path.join(tmp, 'm.torrent')
    pyben.dump({'info': info}, p)
    m = Metadata(p)
    m._map_pieces()
    idx = {f['full']: i for i, f in enumerate(m.files)}
    out = []
    for pn in m.piece_nodes:
        out.append(','.join('%d:%d:%d' % (idx[x.full], x.start, x.stop) for x in pn.paths) or '-')
    return ';'.join(out) if out else 'none'
bad = 0; n = 0
cases = []
for pl in [1, 2, 3, 4, 5, 8]:
    for k in range(0, 5):
        for lens in itertools.product([0, 1, 2, 3, 4, 5, 8, 9, 12], repeat=k):
            if random.random() < 0.25 or k <= 2:
                cases.append((pl, math.ceil(sum(lens) / pl), list(lens)))
random.seed(7)
for _ in range(1500):
    pl = random.choice([1, 2, 3, 4, 7, 16])
    k = random.randint(1, 9)
    lens = [random.choice([0, 0, pl, 2 * pl, pl - 1, pl + 1, random.randint(0, 5 * pl)]) for _ in range(k)]
    np_ = math.ceil(sum(lens) / pl)
    cases.append((pl, np_, lens))
    # also wrong numbers of pieces (hostile)
    cases.append((pl, max(0, np_ + random.choice([-2, -1, 1, 2])), lens))
for pl, np_, lens in cases:
    n += 1
    exp = pymap(pl, np_, lens)
    got = d.ask('mappieces %d %d %d %s' % (pl, np_, len(lens), ' '.join(map(str, lens)))).split(' ')
    if got[0] != exp:
        bad += 1; print('MISMATCH', pl, np_, lens, exp, got)
    if np_ == math.ceil(sum(lens) / pl) and got[1] != 'ok':
        bad += 1; print('SPEC BAD', pl, np_, lens, got)
print('mappieces cases', n, 'bad', bad)

from t_match import *
from torrentfile.torrent import TorrentFile
d = Drv()
random.seed(int(sys.argv[1]) if len(sys.argv) > 1 else 0)
N = int(sys.argv[2]) if len(sys.argv) > 2 else 200
base = tempfile.mkdtemp(prefix='g4pad')
bad = 0; excs = 0; copies = 0; counted = 0
def scatter(sb, files, sdirs):
    for p, c in files:
        fn = p[-1]
        places = [c] * random.choice([0, 1, 1, 1, 2])
        for j in range(random.choice([0, 0, 1, 2])):
            r = random.random()
            if r < 0.3 or len(c) == 0: places.append(c + b'x')
            elif r < 0.6: b = bytearray(c); b[-1] ^= 0xff; places.append(bytes(b))
            else: b = bytearray(c); b[random.randrange(len(c))] ^= 0x55; places.append(bytes(b))
        random.shuffle(places)
        for j, content in enumerate(places):
            sd = random.choice(sdirs)
            sub = os.path.join(sd, *[random.choice(['u', 'v', 'w%d' % j]) for _ in range(random.randint(0, 2))], 'k%d' % j)
            os.makedirs(sub, exist_ok=True)
            tgt = os.path.join(sub, fn)
            if not os.path.exists(tgt):
                with open(tgt, 'wb') as fd: fd.write(content)
for case in range(N):
    sb = os.path.join(base, 'c%d' % case); os.makedirs(sb)
    mf = os.path.join(sb, 'm.torrent')
    blobs = None
    if case % 4 == 0:
        # real aligned metafile made by torrentfile itself
        pl = random.choice([16384, 32768])
        root = os.path.join(sb, 'orig', 'T'); os.makedirs(root)
        files = []; blobs = {}
        for i in range(random.randint(2, 4)):
            size = random.choice([0, 1, 5, 16384, 16385, 20000, 32768, 40000])
            seed = random.randrange(1000); c = rand_bytes(seed, size); blobs[c] = 'r%d.%d' % (seed, size)
            p = [random.choice(['d1', 'd2'])] * random.randint(0, 1) + ['f%d' % i]
            os.makedirs(os.path.join(root, *p[:-1]), exist_ok=True)
            with open(os.path.join(root, *p), 'wb') as fd: fd.write(c)
            files.append((p, c))
        TorrentFile(path=root, piece_length=pl, align=True, outfile=mf).write()
        shutil.rmtree(os.path.join(sb, 'orig'))
        name = 'T'
    else:
        pl = random.choice([1, 2, 3, 4, 8])
        entries = []   # (path, content, is_pad)
        files = []
        names = ['a', 'b', 'c', 'dd', 'e']
        n = random.randint(1, 5)
        for i in range(n):
            if random.random() < 0.45:
                ln = random.choice([0, 1, pl - 1, pl, pl + 1, 2 * pl, 3 * pl + 1, random.randint(0, 3 * pl)])
                entries.append((['.pad', str(ln)] if random.random() < 0.8 else [random.choice(names)], bytes(ln), True))
            else:
                size = random.choice([0, 0, pl, 2 * pl, pl - 1, pl + 1, random.randint(0, 4 * pl)])
                c = bytes(random.randrange(1, 256) for _ in range(size))
                p = [random.choice(['d1', 'x'])] * random.randint(0, 1) + [names[i]]
                entries.append((p, c, False)); files.append((p, c))
        name = random.choice(['T', 'T', 'T', '../esc', '/ABS'])
        if name == '/ABS': name = os.path.join(sb, 'outside')
        stream = b''.join(c for _, c, _ in entries)
        pieces = b''.join(hashlib.sha1(stream[i:i + pl]).digest() for i in range(0, len(stream), pl))
        if random.random() < 0.08: pieces = pieces[:-20]
        if random.random() < 0.1 and entries:
            # a pad that is NOT zeros in the hashed stream: pieces touching it must fail
            k = random.randrange(len(entries))
            if entries[k][2] and len(entries[k][1]):
                st = bytearray(stream); off = sum(len(c) for _, c, _ in entries[:k]); st[off] ^= 1
                pieces = b''.join(hashlib.sha1(bytes(st)[i:i + pl]).digest() for i in range(0, len(st), pl))
        info = {'name': name, 'piece length': pl, 'pieces': pieces,
                'files': [dict({'length': len(c), 'path': p}, **({'attr': 'p'} if pad else {})) for p, c, pad in entries]}
        pyben.dump({'info': info}, mf)
    sdirs = []
    for k in range(random.randint(1, 2)):
        sd = os.path.join(sb, 's%d' % k); os.makedirs(sd); sdirs.append(sd)
    scatter(sb, files, sdirs)
    if random.random() < 0.2:
        # a real file named like a pad entry lying around must not matter
        os.makedirs(os.path.join(sdirs[0], '.pad'), exist_ok=True)
        with open(os.path.join(sdirs[0], '.pad', '1'), 'wb') as fd: fd.write(b'\0')
    dest = os.path.join(sb, 'dest'); os.makedirs(dest)
    if random.random() < 0.3:
        for p, c in files:
            if random.random() < 0.5: continue
            tgt = os.path.normpath(os.path.join(dest, 'T', *p))
            try:
                os.makedirs(os.path.dirname(tgt), exist_ok=True)
                with open(tgt, 'wb') as fd: fd.write(random.choice([c, c[:-1], bytes(len(c))]))
            except OSError: pass
    ok, info = run_case(d, sb, mf, sdirs, dest, blobs)
    if isinstance(info, dict):
        if info['exc'] is not None: excs += 1
        copies += len(info['real'][0]); counted += info['counter'] or 0
        # pads are never written
        for w in info['real'][1]:
            if b'.pad' in bytes.fromhex(w): bad += 1; print('PAD WRITTEN', case)
    if not ok:
        bad += 1
        print('MISMATCH case', case, info)
print('pad cases', N, 'bad', bad, 'exceptions', excs, 'real ops', copies, 'counted', counted)
shutil.rmtree(base)

from t_match import *
d = Drv()
base = tempfile.mkdtemp(prefix='g4co')
for size, make_dest in [(5000, True), (100, True), (5000, False)]:
    sb = os.path.join(base, 'c%d_%s' % (size, make_dest)); os.makedirs(sb)
    pl = 16384
    content = bytes((i * 7) % 256 for i in range(size))
    name = '/' + sb          # two leading slashes
    info = {'name': name, 'piece length': pl, 'pieces': hashlib.sha1(content).digest(),
            'files': [{'length': size, 'path': ['dest']}]}
    mf = os.path.join(sb, 'm.torrent'); pyben.dump({'info': info}, mf)
    sd = os.path.join(sb, 's'); os.makedirs(sd)
    with open(os.path.join(sd, 'dest'), 'wb') as fd: fd.write(content)
    dest = os.path.join(sb, 'dest')
    if make_dest: os.makedirs(dest)
    before = snapshot(sb)
    ok, info = run_case(d, sb, mf, [sd], dest)
    after = snapshot(sb)
    print('size', size, 'dest exists', make_dest, 'agree', ok)
    print('  counter', info['counter'], 'exc', info['exc'], 'real', [(a, bytes.fromhex(b).decode()) for a, b in zip([x.split(':')[0] for x in info['real'][0]], info['real'][1])])
    print('  model ops', info['model'][1] and [tuple(bytes.fromhex(y).decode() for y in x.split(':')[1:]) for x in info['model'][1]], 'writes', [bytes.fromhex(w).decode() for w in info['model'][2]])
    print('  new paths', sorted(set(after) - set(before)), 'dest isdir', os.path.isdir(dest), 'isfile', os.path.isfile(dest))
shutil.rmtree(base)

import subprocess, sys, os
sys.path.insert(0, '/repo')
class Drv:
    def __init__(self, exe=os.environ.get('TVDRIVER', '/verif/lean/.lake/build/bin/tvdriver')):
        self.p = subprocess.Popen([exe], stdin=subprocess.PIPE, stdout=subprocess.PIPE, text=True, bufsize=1)
    def ask(self, line):
        self.p.stdin.write(line + '\n'); self.p.stdin.flush()
        return self.p.stdout.readline().rstrip('\n')
def hx(s):
    if isinstance(s, str): s = s.encode()
    return s.hex() if s else '-'

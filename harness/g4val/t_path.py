import itertools, os, pathlib
from drv import *
from torrentfile.rebuild import safe_join
d = Drv()
alpha = ['..', '.', '', 'a', '/abs', 'a/../../b', '//', 'x/']
strs = set()
for n in range(1, 5):
    for combo in itertools.product(alpha, repeat=n):
        strs.add('/'.join(combo))
        if n <= 3: strs.add(''.join(combo))
strs = sorted(strs)
dests = ['/', '/d', '/tmp/dest', '/a/b/c', '/abs', '/abs/b']
extra = []
for dst in dests:
    for s in ['', '/', '//', '/x', '//x', '/../x', '/..', '/.', '/a/../..', '/a/../../' + dst.strip('/').split('/')[-1]]:
        extra += [dst + s, '/' + dst + s, '//' + dst + s, dst[1:] + s]
bad = 0; n = 0
for dst in dests:
    for rel in strs + extra:
        py = safe_join(dst, rel)
        ans = d.ask(f'safejoin {hx(dst)} {hx(rel)}').split(' ')
        exp = 'none' if py is None else hx(py)
        n += 1
        if ans[0] != exp:
            bad += 1; print('MISMATCH safejoin', repr(dst), repr(rel), repr(py), ans)
        # second token: resolved
        if py is not None:
            res = '/' + '/'.join(c for c in py.split('/') if c)
            if ans[1] != hx(res): bad += 1; print('MISMATCH resolved', dst, rel, py, ans)
        elif ans[1] != 'none': bad += 1; print('MISMATCH resolved none', dst, rel, ans)
print('safejoin cases', n, 'bad', bad)
# normpath, join, commonpath, pathlib
bad = 0; n = 0
for s in strs + extra:
    n += 1
    if d.ask(f'normpath {hx(s)}') != hx(os.path.normpath(s)): bad += 1; print('MISMATCH normpath', repr(s))
    segs = s.split('/x')  # arbitrary segmentation
    exp = str(pathlib.PurePosixPath(*segs))
    got = d.ask('pathlib %d %s' % (len(segs), ' '.join(hx(x) for x in segs)))
    if got != hx(exp): bad += 1; print('MISMATCH pathlib', segs, exp, got)
    got = d.ask('pathlib 1 %s' % hx(s))
    if got != hx(str(pathlib.PurePosixPath(s))): bad += 1; print('MISMATCH pathlib1', s, got)
import random
random.seed(1)
for _ in range(3000):
    a = random.choice(strs + extra); b = random.choice(strs + extra)
    n += 1
    if d.ask(f'pjoin {hx(a)} {hx(b)}') != hx(os.path.join(a, b)): bad += 1; print('MISMATCH join', repr(a), repr(b))
    try: exp = hx(os.path.commonpath([a, b]))
    except ValueError: exp = 'ValueError'
    got = d.ask(f'commonpath {hx(a)} {hx(b)}')
    if got != exp: bad += 1; print('MISMATCH commonpath', repr(a), repr(b), exp, got)
print('path cases', n, 'bad', bad)
print(d.ask('pathlib 0'), hx(str(pathlib.PurePosixPath())))

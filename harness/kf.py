"""
Known findings: genuine defects of torrentfile that are recorded rather than repaired.
`known_findings.json` is committed and never written at run time.  An entry with status
"known" names a matcher (a predicate over a failing case); a failing case that a matcher
accepts is reported as KNOWN-FINDING and does not fail the check.  Entries with status
"fixed" suppress nothing.
"""
import json
import os

from harness.common import VERIF

_ENTRIES = None


def entries():
    global _ENTRIES
    if _ENTRIES is None:
        path = os.path.join(VERIF, "known_findings.json")
        _ENTRIES = json.load(open(path))["findings"] if os.path.exists(path) else []
    return _ENTRIES


def m_v1_rebuild_first_piece_decoy(case):
    """KF-C13-1: v1 rebuild; for some file the candidate that was placed is a decoy which
    agrees with the original on every byte of the first piece covering that file."""
    return bool(case.get("kf_first_piece_decoy"))


def m_v1_rebuild_recursion(case):
    """KF-C13-3: v1 rebuild of more than about a thousand files lying in ONE piece raises
    RecursionError (one recursion level per file of a piece)."""
    return bool(case.get("kf_recursion_many_files")) and case.get("files", 0) >= 900


MATCHERS = {
    "v1_rebuild_recursion_many_files": m_v1_rebuild_recursion,
    "v1_rebuild_first_piece_decoy": m_v1_rebuild_first_piece_decoy,
}


def match(pid, case):
    if not isinstance(case, dict):
        return None
    for e in entries():
        if e.get("status") != "known" or e.get("property") != pid:
            continue
        fn = MATCHERS.get(e.get("matcher"))
        if fn and fn(case):
            return e
    return None

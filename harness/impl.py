"""
Thin wrappers that run the implementation under test (always /repo's current working tree,
in-process) and project its results to canonical observables.
"""
import os

from harness import refspec
from harness.common import quiet, use_repo

CLOCK = [1_700_000_000]


class _FixedDatetime:
    """Stand-in for torrentfile.torrent.datetime (pins `creation date`)."""

    @staticmethod
    def now():
        import datetime as _dt
        return _dt.datetime.fromtimestamp(CLOCK[0])

    @staticmethod
    def timestamp(obj):
        import datetime as _dt
        return _dt.datetime.timestamp(obj)


def pin_clock(value=1_700_000_000):
    use_repo()
    import torrentfile.torrent as tt
    CLOCK[0] = value
    tt.datetime = _FixedDatetime


def set_block(size):
    """Scaled mode: shrink BLOCK_SIZE inside this process only (models are parametric in it)."""
    use_repo()
    import torrentfile.hasher as th
    import torrentfile.recheck as tr
    th.BLOCK_SIZE = size
    tr.BLOCK_SIZE = size


def live_constants():
    use_repo()
    import torrentfile.hasher as th
    import torrentfile.recheck as tr
    return {"BLOCK_SIZE": th.BLOCK_SIZE, "HASH_SIZE": th.HASH_SIZE, "SHA1": tr.SHA1,
            "SHA256": tr.SHA256, "RECHECK_BLOCK": tr.BLOCK_SIZE}


def creator(kind):
    """kind: 'v1' TorrentFile | 'v2' TorrentFileV2 | 'hy' TorrentFileHybrid |
    'a2' TorrentAssembler v2 | 'a3' TorrentAssembler hybrid"""
    use_repo()
    from torrentfile import torrent as tt
    return {"v1": (tt.TorrentFile, {}), "v2": (tt.TorrentFileV2, {}),
            "hy": (tt.TorrentFileHybrid, {}), "a2": (tt.TorrentAssembler, {"meta_version": "2"}),
            "a3": (tt.TorrentAssembler, {"meta_version": "3"}),
            # the documented type of meta_version is int
            "a2i": (tt.TorrentAssembler, {"meta_version": 2}),
            "a3i": (tt.TorrentAssembler, {"meta_version": 3})}[kind]


def create(kind, path, out, piece_length=None, progress=0, **kw):
    """Create a metafile with a creator class; returns raw bytes written."""
    cls, extra = creator(kind)
    again = getattr(progress, "again", 0)
    args = dict(path=path, outfile=out, progress=int(progress), **extra)
    if piece_length is not None:
        args["piece_length"] = piece_length
    args.update(kw)
    if getattr(progress, "abort_first", False):
        # an earlier creation with the same class on the same tree was cancelled half way (the
        # hash callback raised): nothing of it may show in the creation that follows
        import torrentfile.hasher as th
        hcls = getattr(th, {"v1": "Hasher", "v2": "HasherV2", "hy": "HasherHybrid"}.get(kind, "FileHasher"))
        old_cb = hcls.__dict__.get("cb")
        calls = [0]

        def cancel(*_a, **_k):
            calls[0] += 1
            if calls[0] >= 2:
                raise KeyboardInterrupt("cancelled")
        hcls.cb = staticmethod(cancel)
        try:
            with quiet():
                cls(**dict(args, outfile=out + ".aborted"))
        except BaseException:  # noqa
            pass
        finally:
            if old_cb is None:
                try:
                    del hcls.cb
                except AttributeError:
                    pass
            else:
                hcls.cb = old_cb
            if os.path.exists(out + ".aborted"):
                os.remove(out + ".aborted")
    with quiet():
        obj = cls(**args)
        for _ in range(again):
            obj.assemble()          # assembling again starts over; it must not add to the result
        outfile, _ = obj.write()
    with open(outfile, "rb") as fd:
        return fd.read()


class CliExit(Exception):
    """The command line front end called sys.exit (argparse rejected the arguments)."""


def cli(argv):
    tf = use_repo()
    with quiet():
        try:
            return tf.execute(list(argv))
        except SystemExit as exc:
            raise CliExit(f"exit status {exc.code} for {list(argv)!r}"[:400]) from None


def cli_out(argv):
    """Like cli(), but returns what the command printed on standard output."""
    import io
    import sys
    tf = use_repo()
    out, err = sys.stdout, sys.stderr
    sys.stdout, sys.stderr = io.StringIO(), io.StringIO()
    try:
        try:
            tf.execute(list(argv))
        except SystemExit as exc:
            raise CliExit(f"exit status {exc.code} for {list(argv)!r}"[:400]) from None
        return sys.stdout.getvalue()
    finally:
        sys.stdout, sys.stderr = out, err


def decode(raw):
    """Lenient structural decode (bytes keys, order preserved)."""
    return refspec.lenient_decode(raw)


def recheck(metafile, content):
    """(percent, [(ok, size)...]) from Checker."""
    use_repo()
    from torrentfile.recheck import Checker
    with quiet():
        checker = Checker(metafile, content)
        stream = [(chunk == piece, size) for chunk, piece, _, size in checker.iter_hashes()]
        result = checker._result
    return result, stream


def recheck_result(metafile, content):
    use_repo()
    from torrentfile.recheck import Checker
    with quiet():
        return Checker(metafile, content).results()


def rebuild(metafiles, contents, dest):
    use_repo()
    from torrentfile.rebuild import Assembler
    with quiet():
        asm = Assembler(list(metafiles), list(contents), dest)
        return asm.assemble_torrents()


class SharedRequest(dict):
    """A request dictionary the caller keeps and passes again (it must come back unchanged)."""


def edit(metafile, args):
    use_repo()
    from torrentfile.edit import edit_torrent
    with quiet():
        return edit_torrent(metafile, args if isinstance(args, SharedRequest) else dict(args))


def magnet(metafile, version=0):
    use_repo()
    from torrentfile.commands import magnet as mg
    with quiet():
        return mg(metafile, version=version)

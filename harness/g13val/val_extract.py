"""Validate Props/C14.extract_skips_empty_directories: real torrentfile.rebuild.Metadata(path) on
metafiles CREATED BY torrentfile from trees with empty directories (sorted before, between, after
files; nested; inside directories that also hold files) against
  (a) Impl.extractMeta on the bytes,
  (b) parseTree (v2Partials ..) (pruneEntries es)   -- right-hand side of the theorem,
  (c) the files found on disk (sorted walk, directories without files ignored)."""
import os, sys, random, shutil, subprocess, tempfile, io, contextlib
sys.path.insert(0, '/repo')
import pyben
from torrentfile.torrent import TorrentFileV2, TorrentFileHybrid, TorrentAssembler
from torrentfile.rebuild import Metadata

DRIVER = sys.argv[1] if len(sys.argv) > 1 else '/verif/lean/.lake/build/bin/tvdriver'
drv = subprocess.Popen([DRIVER], stdin=subprocess.PIPE, stdout=subprocess.PIPE, text=True, bufsize=1)
def ask(line):
    drv.stdin.write(line + "\n"); drv.stdin.flush()
    return drv.stdout.readline().rstrip("\n")
def hx(b):
    if isinstance(b, str): b = b.encode()
    return b.hex() if b else "-"

rng = random.Random(1313)
# names chosen so that empty directories sort before ("0e", "Ae"), between ("me") and after ("ze", "~e") files
EMPTY = ["0e", "Ae", "me", "ze", "~e", "e.d", "-e"]
FILES = ["a", "b", "f.bin", "n", "x", "Z", "1"]
DIRS = ["d", "k", "sub", "M"]

def build(path, depth, want_file):
    """populate directory `path`; returns (number of files, number of empty-dir nodes)"""
    nf = ne = 0
    os.makedirs(path, exist_ok=True)
    for n in rng.sample(EMPTY, rng.randint(0, 3)):
        p = os.path.join(path, n); os.makedirs(p); ne += 1
        if rng.random() < 0.4:          # nested empties:  n/{deep/{}, other/{}}
            for m in rng.sample(EMPTY, rng.randint(1, 2)):
                os.makedirs(os.path.join(p, m)); ne += 1
                if rng.random() < 0.3:
                    os.makedirs(os.path.join(p, m, "deeper")); ne += 1
    k = rng.randint(1 if want_file else 0, 3)
    for n in rng.sample(FILES, k):
        size = rng.choice([0, 1, 5, 100, 16384, 20000, 40000])
        with open(os.path.join(path, n), "wb") as f:
            f.write(bytes(rng.getrandbits(8) for _ in range(min(size, 64))) + b"\0" * max(0, size - 64))
        nf += 1
    if depth > 0:
        for n in rng.sample(DIRS, rng.randint(0, 2)):
            a, b = build(os.path.join(path, n), depth - 1, rng.random() < 0.7)
            nf += a; ne += b
            if a == 0: ne += 1          # the subdirectory itself holds no file at any depth
    return nf, ne

def disk_records(root, name):
    out = []
    def walk(p, rel):
        for n in sorted(os.listdir(p)):
            q = os.path.join(p, n)
            if os.path.isdir(q): walk(q, rel + [n])
            else: out.append(("/".join([name] + rel + [n]), n, os.path.getsize(q)))
    walk(root, [])
    return out

stats = {"metafiles": 0, "with_empty": 0, "removed_nodes": 0, "records": 0, "single": 0}
bad = []
creators = [("v2", lambda **kw: TorrentFileV2(**kw)), ("hybrid", lambda **kw: TorrentFileHybrid(**kw)),
            ("asm2", lambda **kw: TorrentAssembler(meta_version="2", **kw)),
            ("asm3", lambda **kw: TorrentAssembler(meta_version="3", **kw))]

def check(tag, content, name, is_dir, mk):
    out = content + "." + tag + ".torrent"
    with contextlib.redirect_stdout(io.StringIO()), contextlib.redirect_stderr(io.StringIO()):
        t = mk(path=content, outfile=out, piece_length=16384)
        t.write()
        md = Metadata(out)
    raw = open(out, "rb").read()
    got = []
    for f in md.files:
        root = f.get("root")
        got.append(f"{hx(str(f['full']))}:{hx(f['filename'])}:{f['length']}:" + (hx(root) if root is not None else "none"))
    got_s = ",".join(got) or "-"
    ans = ask("extractpruned " + hx(raw))
    stats["metafiles"] += 1
    parts = ans.split(" | ")
    if len(parts) != 3:
        bad.append((tag, content, "driver", ans[:200])); return
    impl, rhs, k = parts
    k = int(k)
    stats["removed_nodes"] += k
    stats["with_empty"] += 1 if k else 0
    stats["records"] += len(got)
    if impl != got_s:
        bad.append((tag, content, "Impl.extractMeta != Metadata", impl[:300], got_s[:300])); return
    if rhs != got_s:
        bad.append((tag, content, "pruned-tree records != Metadata", rhs[:300], got_s[:300])); return
    # (c) against the disk: same order, same paths, same lengths
    disk = disk_records(content, name) if is_dir else [(name, name, os.path.getsize(content))]
    mine = [(str(f["full"]), f["filename"], f["length"]) for f in md.files]
    if mine != disk:
        bad.append((tag, content, "records != files on disk", mine[:6], disk[:6])); return
    # the tree really records the empty directories (k = their number)
    tree = pyben.load(out)["info"]["file tree"]
    def empties(t):
        n = 0
        for kk, v in t.items():
            if "" in v: continue
            def hasfile(d): return any(("" in x) or hasfile(x) for x in d.values())
            if not hasfile(v): n += 1 + count_nodes(v)
            else: n += empties(v)
        return n
    def count_nodes(d): return sum(1 + (0 if "" in x else count_nodes(x)) for x in d.values())
    if empties(tree) != k:
        bad.append((tag, content, "removed-node count", empties(tree), k)); return
    return k

work = tempfile.mkdtemp(prefix="g13e")
try:
    i = 0
    while stats["metafiles"] < 160:
        i += 1
        name = rng.choice(["T", "album", "n", "a", "d"])
        content = os.path.join(work, f"c{i}", name)
        nf, ne = build(content, rng.randint(0, 3), True)
        for tag, mk in rng.sample(creators, 2):
            k = check(tag, content, name, True, mk)
            if k is not None and k != ne:
                bad.append((tag, content, "empty-dir nodes on disk vs removed", ne, k))
    # the namesake corner: D/{D (file), x/ (empty)}  -> D/D, and D/{D} alone -> flattened (pure v2) / D/D (hybrid)
    for j, extra in enumerate([["x"], ["0e", "ze"], []]):
        content = os.path.join(work, f"ns{j}", "D")
        os.makedirs(content)
        open(os.path.join(content, "D"), "wb").write(b"abc")
        for e in extra: os.makedirs(os.path.join(content, e))
        for tag, mk in creators:
            out = content + "." + tag + ".torrent"
            with contextlib.redirect_stdout(io.StringIO()), contextlib.redirect_stderr(io.StringIO()):
                mk(path=content, outfile=out, piece_length=16384).write()
                md = Metadata(out)
            raw = open(out, "rb").read()
            ans = ask("extractpruned " + hx(raw)).split(" | ")
            got = ",".join(f"{hx(str(f['full']))}:{hx(f['filename'])}:{f['length']}:" + (hx(f['root']) if f.get('root') is not None else "none") for f in md.files)
            stats["metafiles"] += 1; stats["single"] += 1
            if ans[0] != got or ans[1] != got:
                bad.append(("namesake", tag, extra, ans, got))
            print("namesake", tag, extra, [str(f["full"]) for f in md.files], "removed", ans[2])
    # single-file torrents
    for j in range(4):
        content = os.path.join(work, f"sf{j}.bin")
        open(content, "wb").write(b"q" * (j * 9000))
        if j == 0: open(content, "wb").write(b"q")
        for tag, mk in creators[:2]:
            check(tag, content, os.path.basename(content), False, mk); stats["single"] += 1
finally:
    shutil.rmtree(work, ignore_errors=True)
print(stats)
print("MISMATCHES:", len(bad))
for b in bad[:15]: print(b)
drv.stdin.close()

"""Props/C05.recheck_ignores_siblings on the real Checker: content path = a parent directory that
holds a (damaged / intact / missing) entry named exactly info.name next to intact copies whose
names differ in case only or match the name as a glob pattern.  The verdict stream and result
must equal those for a parent that holds that entry alone."""
import os, sys, shutil, tempfile, io, contextlib, random
sys.path.insert(0, '/repo')
from torrentfile.torrent import TorrentFile, TorrentFileV2, TorrentFileHybrid
from torrentfile.recheck import Checker

rng = random.Random(5)
work = tempfile.mkdtemp(prefix="g13s")
def quiet(f):
    with contextlib.redirect_stdout(io.StringIO()), contextlib.redirect_stderr(io.StringIO()):
        return f()
def mk_payload(p):
    os.makedirs(os.path.join(p, "d"))
    open(os.path.join(p, "a"), "wb").write(bytes(rng.getrandbits(8) for _ in range(40000)))
    open(os.path.join(p, "b"), "wb").write(b"")
    open(os.path.join(p, "d", "c"), "wb").write(bytes(rng.getrandbits(8) for _ in range(20000)))
def damage(p, kind):
    if kind == "truncate": open(os.path.join(p, "a"), "r+b").truncate(30000)
    elif kind == "flip":
        with open(os.path.join(p, "a"), "r+b") as f: f.seek(17000); f.write(b"\xff\xfe")
    elif kind == "missing": os.remove(os.path.join(p, "d", "c"))
    elif kind == "intact": pass
def run(mf, path):
    def go():
        try:
            c = Checker(mf, path)
            stream = [(chunk == piece, size, os.path.relpath(str(p), path)) for chunk, piece, p, size in c.iter_hashes()]
            return ("ok", stream, Checker(mf, path).results())
        except Exception as e:
            return ("err", type(e).__name__)
    return quiet(go)

cases = 0; bad = []
src = os.path.join(work, "src", "album"); mk_payload(src)
metas = {}
for tag, cls in [("v1", TorrentFile), ("v2", TorrentFileV2), ("hybrid", TorrentFileHybrid)]:
    out = os.path.join(work, tag + ".torrent")
    quiet(lambda: cls(path=src, outfile=out, piece_length=16384).write())
    metas[tag] = out
SIBS = [["Album"], ["ALBUM", "albu?", "*"], ["[a]lbum", "album ", "album.bak", "Album", "alb*"], []]
n = 0
for tag, mf in metas.items():
    for kind in ["truncate", "flip", "missing", "intact", "absent"]:
        for sibs in SIBS:
            n += 1
            crowd = os.path.join(work, f"crowd{n}", "h"); alone = os.path.join(work, f"alone{n}", "h")
            os.makedirs(crowd); os.makedirs(alone)
            for s in sibs: shutil.copytree(src, os.path.join(crowd, s))
            if kind != "absent":
                shutil.copytree(src, os.path.join(crowd, "album")); damage(os.path.join(crowd, "album"), kind)
                shutil.copytree(os.path.join(crowd, "album"), os.path.join(alone, "album"))
            r1 = run(mf, crowd); r2 = run(mf, alone)
            cases += 1
            if r1 != r2: bad.append((tag, kind, sibs, r1[:1], r2[:1], r1[-1], r2[-1]))
            if kind == "absent" and r1 != ("err", "FileNotFoundError"): bad.append((tag, kind, sibs, r1))
            if kind == "intact" and (r1[0] != "ok" or r1[-1] != 100): bad.append((tag, kind, sibs, "not 100", r1[-1]))
            if kind in ("truncate", "flip", "missing") and (r1[0] != "ok" or r1[-1] >= 100): bad.append((tag, kind, sibs, "damage not seen", r1[-1]))
shutil.rmtree(work, ignore_errors=True)
print("cases", cases, "MISMATCHES", len(bad))
for b in bad[:10]: print(b)

"""Validate Impl.renameTarget / Impl.renameCmd (driver G13) against the real
torrentfile.commands.rename through cli.execute(["rename", path]) on real temp files."""
import os, sys, random, shutil, subprocess, tempfile, io, contextlib
sys.path.insert(0, '/repo')
import pyben
from torrentfile import cli

DRIVER = sys.argv[1] if len(sys.argv) > 1 else '/verif/lean/.lake/build/bin/tvdriver'
drv = subprocess.Popen([DRIVER], stdin=subprocess.PIPE, stdout=subprocess.PIPE, text=True, bufsize=1)

def ask(line):
    drv.stdin.write(line + "\n"); drv.stdin.flush()
    return drv.stdout.readline().rstrip("\n")

def hx(b):
    return b.hex() if b else "-"

# ---- names -------------------------------------------------------------
explicit = [b'', b'.', b'..', b'a/b', b'../x', b'/abs/x', b'x/', b'x//', b'//', b'/', b'a/./b',
            b'../b/evil', b'a/..', b'a/.', b'./', b'../', b'..//', b'.//', b'...', b'.a', b'a.',
            b'a/b/', b'a/b//', b'///a', b'///a///', b'a//b', b' ', b' /', b'/ ', b'x/ ', b'\\', b'a\\b',
            b'a\\/', "é".encode(), "é/".encode(), "日本/語".encode(), "日本/語//".encode(),
            "../é".encode(), "/abs/日本".encode(), b'\xff', b'\xff/', b'a/\xff', b'\xff/a', b"\xff'",
            b'\xff"', b'\xff\'"', b'\xff/a\'', b'\xc3', b'\xc3/x', b'x/\xc3\xa9', b'\xe2\x82', b'\xed\xa0\x80',
            b'\xf4\x90\x80\x80', b'\xc0\xaf', b'\xff\\', b'\xff\t\n\r', b'\xff\x01\x7f\x80', b'\xff/../..',
            b'\xff/.', b"\xff/'", b'\xff/"', b"'", b'"', b"a'b", b'.torrent', b'x.torrent', b'x.torrent/',
            b'\t', b'\n', b'a\nb', b'*', b'?', b'[a]', b'~', b'$HOME', b'-h', b'--help', b'a' * 200]
pieces = [b'', b'.', b'..', b'a', b'b.c', b'/', b'//', b'/', b'/', "é".encode(), "日本".encode(), b' ',
          b'\\', b"'", b'"', b'\t', b'\n', b'\xff', b'\xc3', b'\xc3\xa9', b'x', b'.torrent', b'...', b'-']
rng = random.Random(13)
names = list(explicit)
while len(names) < 700:
    k = rng.randint(1, 5)
    n = b''.join(rng.choice(pieces) for _ in range(k))
    if b'\x00' in n or len(n) > 200:
        continue
    names.append(n)

# ---- target spellings (relative to the working directory `work`) ---------
def targets(work):
    return ["x.torrent", "./x.torrent", "sub/x.torrent", "sub//x.torrent", "sub/./x.torrent",
            "sub/../x.torrent", "sub/deep/../x.torrent", os.path.join(work, "x.torrent"),
            os.path.join(work, "sub", "x.torrent"), "/" + os.path.join(work, "sub", "x.torrent"),
            "sub/é.torrent", "x"]

def snapshot(root):
    out = {}
    for dp, dns, fns in os.walk(root):
        for n in dns + fns:
            p = os.path.join(dp, n)
            rel = os.path.relpath(p, root)
            if os.path.islink(p):
                out[rel] = ("l", os.readlink(p))
            elif os.path.isdir(p):
                out[rel] = ("d",)
            else:
                out[rel] = ("f", open(p, "rb").read())
    return out

stats = {"cases": 0, "ok": 0, "badname": 0, "exists": 0, "names": len(set(names))}
bad = []

def run_case(name, tspell_i, occ):
    work = tempfile.mkdtemp(prefix="g13r")
    old = os.getcwd()
    try:
        os.makedirs(os.path.join(work, "sub", "deep"))
        os.chdir(work)
        target = targets(work)[tspell_i]
        content = pyben.dumps({"info": {"name": name, "length": 1, "piece length": 16384, "pieces": b"x" * 20}})
        with open(target, "wb") as f:
            f.write(content)
        tb = target.encode()
        model = ask(f"renametarget {hx(tb)} {hx(name)}")
        new_model = bytes.fromhex(model[3:]) if model.startswith("ok ") and model != "ok -" else None
        occ_kind = "free"
        if occ and new_model is not None and not os.path.lexists(new_model.decode()):
            np = new_model.decode()
            if occ == "file":
                open(np, "wb").write(b"occupant"); occ_kind = "file"
            elif occ == "dir":
                os.mkdir(np); occ_kind = "other"
            elif occ == "dangling":
                os.symlink("nowhere-at-all", np); occ_kind = "other"
            elif occ == "link":
                open(os.path.join(work, "elsewhere"), "wb").write(b"e")
                os.symlink(os.path.join(work, "elsewhere"), np); occ_kind = "other"
        if new_model is not None and occ_kind == "free" and os.path.lexists(new_model.decode()) \
                and new_model != tb:
            # the new path is another SPELLING of an existing entry (e.g. `sub/x.torrent` for the
            # target `sub//x.torrent`): `lexists` is a fact about the file system, the model gets it
            # as a member of `others`
            occ_kind = "other"; stats["alias"] = stats.get("alias", 0) + 1
        modelcmd = ask(f"renamecmd {hx(tb)} {hx(name)} {occ_kind}")
        before = snapshot(work)
        with contextlib.redirect_stdout(io.StringIO()), contextlib.redirect_stderr(io.StringIO()):
            try:
                res = ("ok", cli.execute(["rename", target]))
            except ValueError:
                res = ("err:badname",)
            except FileExistsError:
                res = ("err:exists",)
            except FileNotFoundError:
                res = ("err:notfound",)
        after = snapshot(work)
        stats["cases"] += 1
        tag = (name, target, occ)
        if res[0] == "ok":
            stats["ok"] += 1
            newp = res[1]
            if model != "ok " + hx(newp.encode()):
                bad.append(("newpath", tag, model, newp)); return
            exp = f"ops read:{hx(tb)} rename:{hx(tb)}:{hx(newp.encode())}"
            if modelcmd != exp:
                bad.append(("cmd", tag, modelcmd, exp)); return
            # same directory, file moved with identical bytes, nothing else changed
            if not os.path.samefile(os.path.dirname(os.path.abspath(newp)), os.path.dirname(os.path.abspath(target))):
                bad.append(("dir", tag, newp)); return
            if "/" in os.path.basename(newp) or os.path.dirname(newp) != os.path.dirname(target):
                bad.append(("dirname", tag, newp)); return
            relold = os.path.relpath(os.path.realpath(target) if False else os.path.abspath(target), work)
            relnew = os.path.relpath(os.path.abspath(newp), work)
            exp_after = dict(before); v = exp_after.pop(relold); exp_after[relnew] = v
            if after != exp_after or v != ("f", content):
                bad.append(("fs", tag, sorted(before), sorted(after))); return
        else:
            stats["badname" if res[0] == "err:badname" else "exists"] += 1
            if after != before:
                bad.append(("changed-on-refusal", tag)); return
            if res[0] == "err:badname":
                if model != "err:badname" or modelcmd != "err:badname":
                    bad.append(("badname", tag, model, modelcmd)); return
            elif res[0] == "err:exists":
                if modelcmd != "err:exists" or not model.startswith("ok "):
                    bad.append(("exists", tag, model, modelcmd)); return
            else:
                bad.append(("unexpected", tag, res)); return
    finally:
        os.chdir(old)
        shutil.rmtree(work, ignore_errors=True)

nt = len(targets("/w"))
for i, name in enumerate(names):
    # every name with two target spellings; rotate through all spellings
    for t in {i % nt, (i * 7 + 3) % nt}:
        run_case(name, t, None)
    if i % 3 == 0:
        run_case(name, i % nt, ["file", "dir", "dangling", "link"][(i // 3) % 4])
# target missing
print("missing:", ask(f"renamecmd {hx(b'nowhere.torrent')} {hx(b'n')} missing"))
print(stats)
print("MISMATCHES:", len(bad))
for b in bad[:20]:
    print(b)
drv.stdin.close()

"""Python -> Lean translator for the pure helper functions of torrentfile (DESIGN §6a).

Every run reads the *current* source text of /repo, translates the functions listed in
`TARGETS` into Lean definitions (`lean/Gen/Src/<function>.lean`, never committed) and the
hand-written `lean/Gen/Tie/<function>.lean` proves, for all inputs, that each translated definition
computes what the hand-written `Impl.*` model computes.  The property theorems about `Impl.*`
therefore hold of what the code says *now*, for these functions without sampling.

The translator is deliberately small and refuses (TranslationError) whatever it does not know
exactly how to render; a refusal or a tie theorem that no longer checks is a broken
correspondence and is handled by the check like any other (search for a failing input,
otherwise `no-failing-input-found`).

Python fragment understood
  statements : docstring, `x = e`, `x op= e`, `if/elif/else`, `while` (body: assignments and
               ifs only), `return e`, `raise Name(...)`
  expressions: int literals, names, `+ - * ** << &`, unary `not`, comparisons (chained),
               `and`/`or` in a test position, `a / b > c` on ints (exact rational comparison,
               prelude `Py.trueDivGt`), `len(l)`, `l[0]`, truthiness of ints and lists,
               `isinstance(x, T)` decided from the static type (parameters: the specialisation),
               `s.isascii()`, `s.isdecimal()`, `try: x = int(s)` / `except ValueError: raise …`,
               `os.path.abspath/join`, `if commonpath([a, b]) != c`, `s.startswith("lit")`, `s[k:]`,
               `[sha256(x + y).digest() for x, y in zip(*[iter(l)] * 2)]`
  values     : int (Lean `Int`), bool, bytes (`List UInt8`), list of bytes
A `while` loop becomes a structurally recursive function with a fuel argument; the translated
function then returns `Option`: `none` means "fuel exhausted", and the tie theorem states how
much fuel always suffices (so termination is part of what is proved).
"""
import ast
import hashlib
import os

REPO = os.environ.get("VERIF_REPO", "/repo")

# function -> (module file, parameter types)      types: int | lbytes
TARGETS = {
    "normalize_piece_length": ("torrentfile/utils.py", {"piece_length": "int"}),
    "get_piece_length": ("torrentfile/utils.py", {"size": "int"}),
    "next_power_2": ("torrentfile/utils.py", {"value": "int"}),
    "merkle_root": ("torrentfile/hasher.py", {"blocks": "lbytes"}),
    # `str` values are rendered as their UTF-8 bytes, as in the hand-written path models
    "safe_join": ("torrentfile/rebuild.py", {"dest": "str", "relpath": "str"}),
    # the same function specialised to a `str` argument (`text` = list of code points)
    "normalize_piece_length__str": ("torrentfile/utils.py", {"piece_length": "text"}),
}

LEAN_TY = {"text": "List Char", "str": "List UInt8", "int": "Int", "bool": "Bool", "bytes": "List UInt8", "lbytes": "List (List UInt8)"}
WRAP = {"str": "Py.Val.bytes", "none": "Py.Val.none", "int": "Py.Val.int", "bool": "Py.Val.bool", "bytes": "Py.Val.bytes",
        "lbytes": "Py.Val.blist"}


class TranslationError(Exception):
    pass


def _bad(node, why):
    raise TranslationError(f"line {getattr(node, 'lineno', '?')}: {why}: "
                           f"{ast.unparse(node)[:80]}")


class Fn:
    def __init__(self, name, node, ptypes):
        self.name, self.node = name, node
        self.env = dict(ptypes)          # variable -> type
        self.params = [a.arg for a in node.args.args]
        if set(self.params) != set(ptypes):
            _bad(node, "parameters differ from the specialisation")
        self.loops = []                  # emitted auxiliary definitions
        self.uses_path = False
        self.in_loop = False
        self.uses_hash = False
        self.spec = dict(ptypes)

    # ------------------------------------------------------------------ expressions
    def expr(self, e):
        """-> (lean text, type)"""
        if isinstance(e, ast.Constant) and isinstance(e.value, bool):
            return ("true" if e.value else "false"), "bool"
        if isinstance(e, ast.Constant) and isinstance(e.value, int):
            return f"({e.value} : Int)", "int"
        if isinstance(e, ast.Constant) and isinstance(e.value, str):
            return "([" + ", ".join(str(b) for b in e.value.encode("utf8")) + "] : List UInt8)", "str"
        if isinstance(e, ast.Name):
            if e.id not in self.env:
                _bad(e, "unknown name")
            return e.id, self.env[e.id]
        if isinstance(e, ast.BinOp):
            a, ta = self.expr(e.left)
            b, tb = self.expr(e.right)
            if isinstance(e.op, ast.Add) and ta == tb == "bytes":
                return f"({a} ++ {b})", "bytes"
            if ta != "int" or tb != "int":
                _bad(e, "arithmetic on non-integers")
            op = type(e.op)
            if op in (ast.Add, ast.Sub, ast.Mult):
                return f"({a} {{0}} {b})".format({ast.Add: "+", ast.Sub: "-", ast.Mult: "*"}[op]), "int"
            if op is ast.Pow:
                return f"(Py.pow {a} {b})", "int"
            if op is ast.LShift:
                return f"(Py.shl {a} {b})", "int"
            if op is ast.BitAnd:
                return f"(Py.band {a} {b})", "int"
            _bad(e, "operator not supported")
        if isinstance(e, ast.UnaryOp) and isinstance(e.op, ast.Not):
            return f"(!{self.test(e.operand)})", "bool"
        if isinstance(e, ast.UnaryOp) and isinstance(e.op, ast.USub):
            a, ta = self.expr(e.operand)
            if ta != "int":
                _bad(e, "negation of a non-integer")
            return f"(-{a})", "int"
        if isinstance(e, ast.Compare):
            return self.compare(e), "bool"
        if isinstance(e, ast.BoolOp):
            parts = [self.test(v) for v in e.values]
            op = " && " if isinstance(e.op, ast.And) else " || "
            return "(" + op.join(parts) + ")", "bool"
        if isinstance(e, ast.Call):
            return self.call(e)
        if isinstance(e, ast.Subscript):
            sl = e.slice
            if (isinstance(sl, ast.Slice) and sl.upper is None and sl.step is None
                    and isinstance(sl.lower, ast.Constant) and isinstance(sl.lower.value, int)
                    and sl.lower.value >= 0):
                a, ta = self.expr(e.value)
                if ta in ("str", "bytes"):
                    return f"(({a}).drop {sl.lower.value})", ta
            _bad(e, "subscript outside `return l[0]` and `s[k:]`")
        if isinstance(e, ast.ListComp):
            return self.listcomp(e)
        _bad(e, "expression not supported")

    def test(self, e):
        """Python truth value of `e` as a Lean Bool."""
        if isinstance(e, ast.BoolOp):
            parts = [self.test(v) for v in e.values]
            op = " && " if isinstance(e.op, ast.And) else " || "
            return "(" + op.join(parts) + ")"
        if isinstance(e, ast.UnaryOp) and isinstance(e.op, ast.Not):
            return f"(!{self.test(e.operand)})"
        txt, ty = self.expr(e)
        if ty == "bool":
            return txt
        if ty == "int":
            return f"(decide ({txt} ≠ 0))"
        if ty in ("bytes", "lbytes", "str"):
            return f"(!({txt}).isEmpty)"
        _bad(e, "truth value of this type")

    def compare(self, e):
        ops, terms = e.ops, [e.left] + e.comparators
        # a / b > c  on integers: exact rational comparison
        if (len(ops) == 1 and isinstance(ops[0], ast.Gt) and isinstance(e.left, ast.BinOp)
                and isinstance(e.left.op, ast.Div)):
            a, ta = self.expr(e.left.left)
            b, tb = self.expr(e.left.right)
            c, tc = self.expr(terms[1])
            if (ta, tb, tc) != ("int", "int", "int"):
                _bad(e, "true division on non-integers")
            return f"(Py.trueDivGt {a} {b} {c})"
        sym = {ast.Lt: "<", ast.LtE: "≤", ast.Gt: ">", ast.GtE: "≥", ast.Eq: "=", ast.NotEq: "≠"}
        out = []
        for op, l, r in zip(ops, terms, terms[1:]):
            if type(op) not in sym:
                _bad(e, "comparison not supported")
            a, ta = self.expr(l)
            b, tb = self.expr(r)
            if ta == tb == "str" and type(op) in (ast.Eq, ast.NotEq):
                out.append(f"decide ({a} {sym[type(op)]} {b})")
                continue
            if ta != "int" or tb != "int":
                _bad(e, "comparison of non-integers")
            out.append(f"decide ({a} {sym[type(op)]} {b})")
        return "(" + " && ".join(out) + ")"

    def call(self, e):
        f = e.func
        if isinstance(f, ast.Name) and f.id == "len" and len(e.args) == 1:
            a, ta = self.expr(e.args[0])
            if ta not in ("bytes", "lbytes"):
                _bad(e, "len of a non-sequence")
            return f"(({a}).length : Int)", "int"
        if isinstance(f, ast.Name) and f.id == "isinstance" and len(e.args) == 2:
            x, t = e.args
            if isinstance(x, ast.Name) and x.id in self.spec and isinstance(t, ast.Name):
                # decided by the specialisation; only for a parameter not yet reassigned
                have = {"int": "int", "lbytes": "list", "str": "str", "text": "str",
                        "bytes": "bytes", "bool": "bool"}[self.env[x.id]]
                return ("true" if t.id == have else "false"), "bool"
            _bad(e, "isinstance not decidable from the specialisation")
        if (isinstance(f, ast.Attribute) and f.attr in ("isascii", "isdecimal") and not e.args):
            a, ta = self.expr(f.value)
            if ta != "text":
                _bad(e, "str method on a non-string")
            return f"(Py.{f.attr} {a})", "bool"
        if isinstance(f, ast.Name) and f.id == "str" and len(e.args) == 1:
            a, ta = self.expr(e.args[0])
            if ta != "str":
                _bad(e, "str() of a non-string")
            return a, "str"
        if (isinstance(f, ast.Attribute) and f.attr == "startswith" and len(e.args) == 1
                and isinstance(e.args[0], ast.Constant) and isinstance(e.args[0].value, str)):
            a, ta = self.expr(f.value)
            lit, _ = self.expr(e.args[0])
            if ta != "str":
                _bad(e, "startswith on a non-string")
            n = len(e.args[0].value.encode("utf8"))
            return f"(decide (({a}).take {n} = {lit}))", "bool"
        # os.path.<fn>: the modelled library functions (Model/Path.lean, trusted + sampled)
        if (isinstance(f, ast.Attribute) and isinstance(f.value, ast.Attribute)
                and isinstance(f.value.value, ast.Name) and f.value.value.id == "os"
                and f.value.attr == "path"):
            self.uses_path = True
            args = [self.expr(a) for a in e.args]
            if f.attr == "abspath" and [t for _, t in args] == ["str"]:
                return f"(TorrentVerif.PosixPath.abspath {args[0][0]})", "str"
            if f.attr == "join" and [t for _, t in args] == ["str", "str"]:
                return f"(TorrentVerif.PosixPath.join {args[0][0]} {args[1][0]})", "str"
            _bad(e, "os.path function not modelled here (commonpath only as `if commonpath([a, b]) != c`)")
        # sha256(<bytes>).digest()
        if (isinstance(f, ast.Attribute) and f.attr == "digest" and not e.args
                and isinstance(f.value, ast.Call) and isinstance(f.value.func, ast.Name)
                and f.value.func.id == "sha256" and len(f.value.args) == 1):
            a, ta = self.expr(f.value.args[0])
            if ta != "bytes":
                _bad(e, "sha256 of a non-bytes value")
            self.uses_hash = True
            return f"(H {a})", "bytes"
        _bad(e, "call not supported")

    def listcomp(self, e):
        if len(e.generators) != 1 or e.generators[0].ifs:
            _bad(e, "comprehension shape")
        g = e.generators[0]
        # for x, y in zip(*[iter(l)] * 2)
        ok = (isinstance(g.target, ast.Tuple) and len(g.target.elts) == 2
              and all(isinstance(t, ast.Name) for t in g.target.elts)
              and isinstance(g.iter, ast.Call) and isinstance(g.iter.func, ast.Name)
              and g.iter.func.id == "zip" and len(g.iter.args) == 1
              and isinstance(g.iter.args[0], ast.Starred))
        if ok:
            inner = g.iter.args[0].value
            ok = (isinstance(inner, ast.BinOp) and isinstance(inner.op, ast.Mult)
                  and isinstance(inner.right, ast.Constant) and inner.right.value == 2
                  and isinstance(inner.left, ast.List) and len(inner.left.elts) == 1
                  and isinstance(inner.left.elts[0], ast.Call)
                  and isinstance(inner.left.elts[0].func, ast.Name)
                  and inner.left.elts[0].func.id == "iter"
                  and len(inner.left.elts[0].args) == 1)
        if not ok:
            _bad(e, "only the pairing idiom zip(*[iter(l)] * 2) is understood")
        src, ts = self.expr(inner.left.elts[0].args[0])
        if ts != "lbytes":
            _bad(e, "pairing of a non-list")
        x, y = (t.id for t in g.target.elts)
        saved = dict(self.env)
        self.env[x] = self.env[y] = "bytes"
        body, tb = self.expr(e.elt)
        self.env = saved
        if tb != "bytes":
            _bad(e, "element type")
        return f"((Py.pairs {src}).map (fun (({x}, {y}) : List UInt8 × List UInt8) => {body}))", "lbytes"

    # ------------------------------------------------------------------ statements
    def vars_tuple(self):
        names = sorted(self.env)
        return names

    def assigned(self, stmts):
        out = set()
        for s in stmts:
            for n in ast.walk(s):
                if isinstance(n, (ast.Assign, ast.AugAssign)):
                    tgts = n.targets if isinstance(n, ast.Assign) else [n.target]
                    for t in tgts:
                        if isinstance(t, ast.Name):
                            out.add(t.id)
        return out

    def assign(self, s):
        """-> lean `let` line for an assignment statement."""
        if isinstance(s, ast.Assign):
            if len(s.targets) != 1 or not isinstance(s.targets[0], ast.Name):
                _bad(s, "assignment target")
            name = s.targets[0].id
            txt, ty = self.expr(s.value)
        else:
            if not isinstance(s.target, ast.Name):
                _bad(s, "assignment target")
            name = s.target.id
            txt, ty = self.expr(ast.BinOp(left=ast.Name(id=name, ctx=ast.Load()), op=s.op,
                                          right=s.value))
        if name in self.env and self.env[name] != ty and self.in_loop:
            _bad(s, "variable changes type inside a loop")
        self.env[name] = ty
        self.reassigned.add(name)
        return f"let {name} : {LEAN_TY[ty]} := {txt}"

    def terminates(self, stmts):
        if not stmts:
            return False
        last = stmts[-1]
        if isinstance(last, (ast.Return, ast.Raise)):
            return True
        if isinstance(last, ast.If):
            return self.terminates(last.body) and self.terminates(last.orelse)
        return False

    def block(self, stmts, ind, opt, tail=None):
        """Translate a statement list in return position.  `opt`: the function contains a
        loop, results are wrapped in `some`.  `tail`: text to use when falling off the end
        (inside loop bodies)."""
        pad = "  " * ind
        if not stmts:
            if tail is None:
                raise TranslationError(f"{self.name}: control can fall off the end")
            return pad + tail
        s, rest = stmts[0], stmts[1:]
        if isinstance(s, ast.Expr) and isinstance(s.value, ast.Constant) \
                and isinstance(s.value.value, str):
            return self.block(rest, ind, opt, tail)
        if isinstance(s, (ast.Assign, ast.AugAssign)):
            line = self.assign(s)
            return pad + line + "\n" + self.block(rest, ind, opt, tail)
        if isinstance(s, ast.Return):
            if tail is not None:
                _bad(s, "return inside a loop body")
            wrap = (lambda t: f"some ({t})") if opt else (lambda t: t)
            v = s.value
            if isinstance(v, ast.Subscript) and isinstance(v.slice, ast.Constant) \
                    and v.slice.value == 0:
                src, ts = self.expr(v.value)
                if ts != "lbytes":
                    _bad(s, "index into a non-list")
                return pad + wrap(f"match ({src}).head? with | some v => Except.ok (Py.Val.bytes v) "
                                  f"| none => Except.error \"IndexError\"")
            if v is None or (isinstance(v, ast.Constant) and v.value is None):
                return pad + wrap("Except.ok Py.Val.none")
            txt, ty = self.expr(v)
            return pad + wrap(f"Except.ok ({WRAP[ty]} {txt})")
        if isinstance(s, ast.Raise):
            if tail is not None:
                _bad(s, "raise inside a loop body")
            exc = s.exc
            name = exc.func.id if isinstance(exc, ast.Call) and isinstance(exc.func, ast.Name) \
                else exc.id if isinstance(exc, ast.Name) else None
            if name is None:
                _bad(s, "raise form")
            t = f"Except.error \"{name}\""
            return pad + (f"some ({t})" if opt else t)
        if isinstance(s, ast.Try):
            ok = (len(s.body) == 1 and isinstance(s.body[0], ast.Assign) and not s.orelse
                  and not s.finalbody and len(s.handlers) == 1
                  and isinstance(s.handlers[0].type, ast.Name)
                  and s.handlers[0].type.id == "ValueError"
                  and isinstance(s.body[0].value, ast.Call)
                  and isinstance(s.body[0].value.func, ast.Name)
                  and s.body[0].value.func.id == "int" and len(s.body[0].value.args) == 1
                  and len(s.body[0].targets) == 1 and isinstance(s.body[0].targets[0], ast.Name)
                  and self.terminates(s.handlers[0].body) and tail is None)
            if not ok:
                _bad(s, "only `try: x = int(s)` / `except ValueError: raise ...` is understood")
            arg, ta = self.expr(s.body[0].value.args[0])
            if ta != "text":
                _bad(s, "int() of a non-string")
            name = s.body[0].targets[0].id
            saved_env, saved_re = dict(self.env), set(self.reassigned)
            handler = self.block(s.handlers[0].body, ind + 1, opt, tail)
            self.env, self.reassigned = dict(saved_env), set(saved_re)
            self.env[name] = "int"
            self.reassigned.add(name)
            after = self.block(rest, ind + 1, opt, tail)
            return (f"{pad}match Py.intOfText {arg} with\n{pad}| none =>\n{handler}\n"
                    f"{pad}| some {name} =>\n{after}")
        if isinstance(s, ast.If) and self.fallible(s.test):
            t = s.test
            if isinstance(t, ast.BoolOp):
                # short-circuit evaluation made explicit, so that a call that can raise is
                # only evaluated when Python evaluates it
                first, others = t.values[0], t.values[1:]
                later = others[0] if len(others) == 1 else ast.BoolOp(op=t.op, values=others)
                if isinstance(t.op, ast.Or):
                    new = ast.If(test=first, body=s.body,
                                 orelse=[ast.If(test=later, body=s.body, orelse=s.orelse)])
                else:
                    new = ast.If(test=first,
                                 body=[ast.If(test=later, body=s.body, orelse=s.orelse)],
                                 orelse=s.orelse)
                return self.block([ast.copy_location(new, s)] + rest, ind, opt, tail)
            # commonpath([a, b]) ==/!= c
            ok = (isinstance(t, ast.Compare) and len(t.ops) == 1
                  and isinstance(t.ops[0], (ast.Eq, ast.NotEq)) and self.is_commonpath(t.left)
                  and not self.fallible(t.comparators[0]))
            if not ok:
                _bad(s, "a call that can raise is only understood as `commonpath([a, b]) ==/!= c`")
            la, lb = t.left.args[0].elts
            a, ta = self.expr(la)
            b, tb = self.expr(lb)
            c, tc = self.expr(t.comparators[0])
            if (ta, tb, tc) != ("str", "str", "str"):
                _bad(s, "commonpath of non-strings")
            self.uses_path = True
            sym = "=" if isinstance(t.ops[0], ast.Eq) else "≠"
            wrap = (lambda x: f"some ({x})") if opt else (lambda x: x)
            saved_env, saved_re = dict(self.env), set(self.reassigned)
            then_rest = [] if self.terminates(s.body) else rest
            x = self.block(s.body + then_rest, ind + 2, opt, tail)
            self.env, self.reassigned = dict(saved_env), set(saved_re)
            y = self.block(s.orelse + rest, ind + 2, opt, tail)
            return (f"{pad}match TorrentVerif.PosixPath.commonpath {a} {b} with\n"
                    f"{pad}| none => {wrap('Except.error \"ValueError\"')}\n"
                    f"{pad}| some cp__ =>\n{pad}  if decide (cp__ {sym} {c}) then\n{x}\n{pad}  else\n{y}")
        if isinstance(s, ast.If):
            cond = self.test(s.test)
            if cond == "true":
                return self.block(s.body + rest, ind, opt, tail)
            if cond in ("false", "(!true)"):
                return self.block(s.orelse + rest, ind, opt, tail)
            if cond == "(!false)":
                return self.block(s.body + rest, ind, opt, tail)
            saved_env, saved_re = dict(self.env), set(self.reassigned)
            then_rest = [] if self.terminates(s.body) else rest
            a = self.block(s.body + then_rest, ind + 1, opt, tail)
            env_a = self.env
            self.env, self.reassigned = dict(saved_env), set(saved_re)
            b = self.block(s.orelse + rest, ind + 1, opt, tail)
            return f"{pad}if {cond} then\n{a}\n{pad}else\n{b}"
        if isinstance(s, ast.While):
            if tail is not None or s.orelse:
                _bad(s, "nested loop / while-else")
            if not opt:
                raise TranslationError("internal: loop in a function translated without fuel")
            for n in ast.walk(s):
                if isinstance(n, (ast.Return, ast.Raise, ast.Break, ast.Continue, ast.While,
                                  ast.For)) and n is not s:
                    _bad(n, "statement not supported inside a loop body")
            # types of loop-carried variables must be known before the loop
            for v in self.assigned(s.body):
                if v not in self.env:
                    _bad(s, f"loop assigns a variable first defined inside it ({v})")
            names = self.vars_tuple()
            tup = "(" + ", ".join(names) + ")"
            tty = " × ".join(LEAN_TY[self.env[n]] for n in names)
            lname = f"{self.name}.loop{len(self.loops)}"
            hparam = "(H : List UInt8 → List UInt8) " if self.uses_hash_anywhere else ""
            hpass = "H " if self.uses_hash_anywhere else ""
            cond = self.test(s.test)
            self.in_loop = True
            body = self.block(s.body, 3, True, tail=f"{lname} {hpass}fuel {tup}")
            self.in_loop = False
            if self.vars_tuple() != names:
                _bad(s, "loop body defines new variables")
            self.loops.append(
                f"def {lname} {hparam}: Nat → {tty} → Option ({tty})\n"
                f"  | 0, _ => none\n"
                f"  | fuel + 1, {tup} =>\n"
                f"    if {cond} then\n{body}\n"
                f"    else some {tup}\n")
            after = self.block(rest, ind + 1, opt, tail)
            return (f"{pad}match {lname} {hpass}fuel {tup} with\n{pad}| none => none\n"
                    f"{pad}| some {tup} =>\n{after}")
        _bad(s, "statement not supported")

    def translate(self):
        body = self.node.body
        has_loop = any(isinstance(n, ast.While) for n in ast.walk(self.node))
        if any(isinstance(n, ast.For) for n in ast.walk(self.node)):
            # comprehensions are ast.comprehension, not ast.For
            _bad(self.node, "for loop")
        self.uses_hash_anywhere = any(isinstance(n, ast.Name) and n.id == "sha256"
                                      for n in ast.walk(self.node))
        self.reassigned = set()
        body = self.prune_try(body)
        text = self.block(body, 1, has_loop)
        hparam = "(H : List UInt8 → List UInt8) " if self.uses_hash_anywhere else ""
        fuel = "(fuel : Nat) " if has_loop else ""
        params = " ".join(f"({p} : {LEAN_TY[self.spec[p]]})" for p in self.params)
        ret = "Option (Except String Py.Val)" if has_loop else "Except String Py.Val"
        out = "".join(l + "\n" for l in self.loops)
        out += f"def {self.name} {hparam}{fuel}{params} : {ret} :=\n{text}\n"
        return out

    def is_commonpath(self, e):
        return (isinstance(e, ast.Call) and isinstance(e.func, ast.Attribute)
                and e.func.attr == "commonpath" and isinstance(e.func.value, ast.Attribute)
                and e.func.value.attr == "path" and len(e.args) == 1
                and isinstance(e.args[0], ast.List) and len(e.args[0].elts) == 2)

    def fallible(self, e):
        return any(isinstance(n, ast.Call) and isinstance(n.func, ast.Attribute)
                   and n.func.attr == "commonpath" for n in ast.walk(e))

    def prune_try(self, body):
        """A `try` is only accepted inside a branch the specialisation removes."""
        return body


def source_of(fn, rel, repo=None):
    path = os.path.join(repo or REPO, rel)
    tree = ast.parse(open(path, encoding="utf8").read())
    for node in tree.body:
        if isinstance(node, ast.FunctionDef) and node.name == fn:
            return node
    raise TranslationError(f"{rel}: function {fn} not found")


HEADER = """/-
  GENERATED by harness/pytrans.py from the current source of /repo — do not edit, do not commit.
  `Gen/Tie/{fn}.lean` relates this definition to the hand-written model.
  {rel}:{line}  {fn}  (source digest {digest})
-/
import Gen.Prelude
namespace Gen

{body}
end Gen
"""

# which properties lean on which translated function
PROPS_OF = {
    "normalize_piece_length": ["C12"],
    "get_piece_length": ["C12"],
    "next_power_2": ["C02", "C10"],
    "merkle_root": ["C02", "C10"],
    "safe_join": ["C19"],
    "normalize_piece_length__str": ["C12"],
}


def translate_one(fn, repo=None):
    """-> (lean text, digest of the Python source).  Raises TranslationError."""
    rel, ptypes = TARGETS[fn]
    node = source_of(fn.split("__")[0], rel, repo)
    digest = hashlib.sha256(ast.unparse(node).encode()).hexdigest()[:16]
    tr = Fn(fn, node, ptypes)
    body = tr.translate()
    text = HEADER.format(fn=fn, rel=rel, line=node.lineno, digest=digest, body=body)
    if tr.uses_path:
        text = text.replace("import Gen.Prelude\n", "import Gen.Prelude\nimport TorrentVerif.Model.Path\n")
    return text, digest


if __name__ == "__main__":
    import sys
    for fn in TARGETS:
        print(translate_one(fn, sys.argv[1] if len(sys.argv) > 1 else None)[0])

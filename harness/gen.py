"""
Input generators.  Every random choice comes from the `random.Random` handed in, so a
seed reproduces a run exactly.  Sizes are drawn from boundary classes relative to the block
size B and the piece length pl, because that is where the code under test branches.
"""
from harness.common import Blob

NAMES = ["a", "b", "c", "d", "e", "x", "z", "a.b", "a b", "B", "Z", "_", "0", "10", "2",
         "é", "ß", "日本", "𝄞", "a%26b", "a&b=c", "a+b", "#h", "~", "aa", "ab", "a-", "a.",
         "f.bin", "F.BIN", "data", "data.0", "data0", "ÿ", "Ā", "\U0001F600", "�",
         "cafe\u0301.txt", "caf\u00e9.txt", "A\u030a", "\u00c5",
         ".hidden", ".pad-notes.txt", "-dash", "info", "m", "new", "check", "@at", "a.torrent",
         "1", "16383", "16384", "AC\\DC.bin", "tail\\", "a:b", "3:abc", "i1e", "d1:ae"]
DIRS = ["d", "d.d", "dir", "D", "a", "a.b", "sub", "ü", "0", "z z", "𝄞d", "u\u0308", "cover",
        ".padlock", ".git", "-x", "edit", ".pad", ".pad", "win\\dir", "le", "4:spam"]


def size_classes(B, pl):
    return {
        "0": 0, "1": 1, "B-1": B - 1, "B": B, "B+1": B + 1, "pl/2": pl // 2,
        "pl-1": pl - 1, "pl": pl, "pl+1": pl + 1, "pl+B": pl + B, "2pl-1": 2 * pl - 1,
        "2pl": 2 * pl, "2pl+1": 2 * pl + 1, "3pl": 3 * pl, "3pl+5": 3 * pl + 5,
        "5pl-3": 5 * pl - 3, "4pl": 4 * pl, "4pl+1": 4 * pl + 1,
    }


def pick_size(rng, B, pl, allow_empty=True, big=True):
    classes = size_classes(B, pl)
    r = rng.random()
    if r < 0.6:
        name = rng.choice(sorted(classes))
        if not big and classes[name] > 3 * pl:
            name = "pl+1"
        size = classes[name]
        cls = name
    elif r < 0.8:
        size = rng.randrange(1, 3 * pl)
        cls = "uniform"
    elif r < 0.9:
        k = rng.choice([1, 2, 3, 4, 5, 7, 8])
        size = max(0, k * B + rng.choice([-1, 0, 1]))
        cls = "kB±1"
    else:
        size = rng.randrange(1, 64)
        cls = "tiny"
    if size == 0 and not allow_empty:
        size, cls = 1, "1"
    return size, cls


# contents whose SHA-1 / SHA-256 digest happens to be valid UTF-8 (found by search): a bencode
# decoder that returns text for valid UTF-8 hands such a piece hash / merkle root back as str
UTF8_DIGEST = [b"content-95049", b"c2-89753655"]
# two pieces of 16 KiB whose merkle ROOT is valid UTF-8: the key of its piece-layers entry
UTF8_ROOT_2PIECES = b"A" * 16384 + b"t-676778826"


def pick_blob(rng, size):
    if 0 < size < 200 and rng.random() < 0.25:
        return Blob.hexb(rng.choice(UTF8_DIGEST))
    r = rng.random()
    if size and r < 0.12:
        return Blob.zero(size)
    if size and r < 0.18 and size <= 300000:
        return Blob.hexb(bytes([rng.randrange(1, 256)]) * size)          # one byte repeated
    if size and r < 0.24 and size <= 300000:
        block = Blob.rand(rng.randrange(1, 50), 16384).bytes()           # one block repeated
        return Blob.hexb((block * (size // 16384 + 1))[:size])
    return Blob.rand(rng.randrange(1, 50), size)


def pick_pl(rng, B=16384):
    r = rng.random()
    if r < 0.6:
        return B
    if r < 0.85:
        return 2 * B
    if r < 0.97:
        return 4 * B
    return 8 * B


def rel_paths(rng, count, depth=3):
    """`count` distinct relative paths ('/'-separated) forming a valid tree (no path is a
    prefix directory of a file with the same name)."""
    files, dirs = set(), {""}
    out = []
    tries = 0
    if count >= 2 and rng.random() < 0.25:
        base = rng.choice(["cover", "disc 1", "a", "data"])
        pre = rng.choice(["", "d/"])
        for p in (pre + base + "/" + rng.choice(NAMES[:8]), pre + base + rng.choice([".jpg", " - notes.txt", "-b", ".b"])):
            files.add(p)
            out.append(p)
            comps = p.split("/")
            for i in range(1, len(comps)):
                dirs.add("/".join(comps[:i]))
    if rng.random() < 0.05:
        deep = "/".join(["n"] * rng.choice([15, 16, 17, 20])) + "/" + rng.choice(NAMES[:8])   # very deep nesting
        files.add(deep)
        out.append(deep)
        comps = deep.split("/")
        for i in range(1, len(comps)):
            dirs.add("/".join(comps[:i]))
    while len(out) < count and tries < 200:
        tries += 1
        d = rng.randrange(0, depth)
        comps = [rng.choice(DIRS) for _ in range(d)] + [rng.choice(NAMES)]
        ok = True
        for i in range(1, len(comps)):
            if "/".join(comps[:i]) in files:
                ok = False
        path = "/".join(comps)
        if not ok or path in files or path in dirs:
            continue
        files.add(path)
        for i in range(1, len(comps)):
            dirs.add("/".join(comps[:i]))
        out.append(path)
    return out


class FileList(list):
    """[(relpath, Blob)] plus the directories of the payload that hold no file at all
    (`emptydirs`, relative paths): only the creation checks materialise and model them."""
    emptydirs = ()


def tree(rng, B, pl, max_files=6, allow_empty=True, big=True):
    """[(relpath, Blob)] for a directory payload, plus class labels."""
    n = rng.choice([1, 2, 2, 3, 3, 4, 5, max_files])
    paths = rel_paths(rng, n)
    files, classes = [], []
    for p in paths:
        size, cls = pick_size(rng, B, pl, allow_empty, big)
        files.append((p, pick_blob(rng, size)))
        classes.append(cls)
    if all(len(b) == 0 for _, b in files):
        files[0] = (files[0][0], Blob.rand(3, B + 1))
        classes[0] = "B+1"
    if rng.random() < 0.22 and len(files) >= 2:      # identical files (equal roots)
        files[1] = (files[1][0], files[0][1])
        if rng.random() < 0.6:
            import copy
            twin = copy.copy(files[0][1])
            twin.hardlink_of = files[0][0]           # ... as a second name of the same inode
            if rng.random() < 0.55:
                twin.hardlink_of = None
                twin.symlink_of = files[0][0]         # ... or as a symbolic link to the first file
            files[1] = (files[1][0], twin)
    if rng.random() < 0.06 and not any(r == ".pad" or r.startswith(".pad/") for r, _ in files):
        n = rng.choice([1, 777, pl - 1, pl + 1, 22768])
        files.append((f".pad/{n}", Blob.rand(rng.randrange(1, 40), n)))     # named like a padding file
        classes.append("pad-like")
    files = FileList(files)
    if rng.random() < 0.15:
        taken = {r for r, _ in files}
        dirs = []
        for cand in rng.sample(["void", "a/void", "void/inner", "d/e/mpty", "zz", "0"], rng.choice([1, 2])):
            comps = cand.split("/")
            prefixes = {"/".join(comps[:i]) for i in range(1, len(comps) + 1)}
            if not (prefixes & taken) and not any(r.startswith(cand + "/") for r in taken) \
                    and not any(d == cand or d.startswith(cand + "/") or cand.startswith(d + "/") for d in dirs):
                dirs.append(cand)
        files.emptydirs = tuple(dirs)
    return files, classes


def utf8_sorted(files):
    """Order of the v1 listing: by full path string (code point order)."""
    return sorted(files, key=lambda f: f[0])


def v2_sorted(files):
    """Order of the BEP 52 file tree: component-wise."""
    return sorted(files, key=lambda f: f[0].split("/"))

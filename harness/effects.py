"""
Observation of filesystem effects of the implementation through `sys.addaudithook`
(in the harness process; nothing in /repo is instrumented).  The hook records every
mutating operation (open for writing, remove, rename/replace, mkdir, rmdir, copy, chmod,
truncate, link, symlink) and can *fence* a run: a mutating operation whose target is outside
the allowed roots is recorded and refused with PermissionError, so that a buggy
implementation cannot damage anything outside the sandbox while its attempt is still seen.

Audit hooks cannot be removed; the single hook installed here is inert unless a Tracer
is active.
"""
import contextlib
import os
import sys

_ACTIVE = []
_INSTALLED = [False]

WRITE_FLAGS = os.O_WRONLY | os.O_RDWR | os.O_CREAT | os.O_TRUNC | os.O_APPEND


class Escape(PermissionError):
    pass


def _norm(path):
    if isinstance(path, bytes):
        path = os.fsdecode(path)
    if isinstance(path, int):
        return None
    try:
        return os.path.abspath(os.fspath(path))
    except TypeError:
        return None


def _hook(event, args):
    if not _ACTIVE:
        return
    tracer = _ACTIVE[-1]
    if tracer.paused:
        return
    rec = None
    if event == "open":
        path, mode, flags = args
        if isinstance(flags, int) and flags & WRITE_FLAGS:
            p = _norm(path)
            if p is not None:
                kind = "append" if flags & os.O_APPEND else (
                    "create" if not os.path.lexists(p) else (
                        "truncate" if flags & os.O_TRUNC else "open-write"))
                rec = (kind, p)
        elif tracer.reads is not None:
            p = _norm(path)
            if p is not None and (tracer.read_root is None or p.startswith(tracer.read_root)):
                tracer.reads.append(p)
    elif event in ("os.remove", "os.rmdir", "os.mkdir", "os.truncate", "os.chmod", "os.chown",
                   "os.utime"):
        p = _norm(args[0])
        if p is not None:
            rec = (event.split(".")[1], p)
    elif event in ("os.rename", "os.link", "os.symlink"):
        a, b = _norm(args[0]), _norm(args[1])
        rec = (event.split(".")[1], a, b)
    elif event in ("shutil.copyfile", "shutil.move", "shutil.copytree"):
        a, b = _norm(args[0]), _norm(args[1])
        rec = (event.split(".")[1], a, b)
    elif event == "shutil.rmtree":
        rec = ("rmtree", _norm(args[0]))
    if rec is None:
        return
    tracer.events.append(rec)
    if tracer.fence is not None:
        targets = rec[1:] if rec[0] in ("rename", "move") else rec[-1:]
        for t in targets:
            if t is None:
                continue
            if not any(t == r or t.startswith(r + os.sep) for r in tracer.fence):
                tracer.escapes.append(rec)
                raise Escape(f"refused by verification fence: {rec}")
    if tracer.on_event is not None:
        tracer.on_event(tracer, rec)


class Tracer:
    def __init__(self, fence=None, on_event=None, read_root=None, record_reads=False):
        self.reads = [] if record_reads else None
        self.read_root = os.path.abspath(read_root) if read_root else None
        self.events = []
        self.escapes = []
        self.fence = [os.path.abspath(r) for r in fence] if fence else None
        self.on_event = on_event
        self.paused = False

    def mutating(self):
        """Events without the bookkeeping noise (chmod/utime from shutil.copy)."""
        return [e for e in self.events if e[0] not in ("chmod", "utime", "chown")]


@contextlib.contextmanager
def traced(fence=None, on_event=None, read_root=None, record_reads=False):
    if not _INSTALLED[0]:
        sys.addaudithook(_hook)
        _INSTALLED[0] = True
    tracer = Tracer(fence, on_event, read_root, record_reads)
    _ACTIVE.append(tracer)
    try:
        yield tracer
    finally:
        _ACTIVE.remove(tracer)


def relativize(events, root):
    root = os.path.abspath(root)

    def rel(p):
        if p is None:
            return None
        return os.path.relpath(p, root) if (p == root or p.startswith(root + os.sep)) else p
    return [(e[0],) + tuple(rel(p) for p in e[1:]) for e in events]

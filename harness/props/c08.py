"""C08 - info-hash depends only on payload, piece length, version and info options."""
import contextlib
import os
import pathlib
import random
import shutil

from harness import gen, impl, refspec
from harness.common import Driver, MachineryError, Run, drive, hx, sandbox, write_tree
from harness.props import creation as cr
from harness.props import metas

RULE = ("one payload (tree or single file), one (version, pl, private/source/comment) setting; "
        "the encoded info dictionary must be identical across: >= 10 spellings of the path "
        "(absolute, relative, ./, trailing /, //, /., x/../, '.' from inside), two working "
        "directories, a copy of the tree elsewhere, shuffled os.listdir / Path.iterdir, "
        "tracker/seed/outfile settings, progress 0/1/2, two clock values; whole files equal "
        "except creation date for equal input; distinct by (version, creator, tree shape, "
        "variant kinds); non-trivial when spelling != canonical and enumeration order != sorted; "
        "plus: the same path made into a torrent again by the same process after the tree changed "
        "below the first level (files added/removed/resized in sub-directories, also across the "
        "threshold of the automatic piece length) must equal the result for a fresh copy elsewhere")


@contextlib.contextmanager
def shuffled_enumeration(rng):
    """Make the OS enumerate directory entries in a random order (in this process)."""
    real_listdir, real_iterdir = os.listdir, pathlib.Path.iterdir

    def listdir(path="."):
        out = real_listdir(path)
        rng.shuffle(out)
        return out

    def iterdir(self):
        out = list(real_iterdir(self))
        rng.shuffle(out)
        return iter(out)
    os.listdir, pathlib.Path.iterdir = listdir, iterdir
    try:
        yield
    finally:
        os.listdir, pathlib.Path.iterdir = real_listdir, real_iterdir


@contextlib.contextmanager
def cwd(path):
    old = os.getcwd()
    os.chdir(path)
    try:
        yield
    finally:
        os.chdir(old)


def spellings(box, parent, name, single, files=()):
    """(label, cwd, path string) variants naming the same payload."""
    root = os.path.join(parent, name)
    other = os.path.join(box, "elsewhere")
    os.makedirs(other, exist_ok=True)
    os.makedirs(os.path.join(parent, "x"), exist_ok=True) if not single else None
    out = [("abs", box, root),
           ("rel", parent, name),
           ("dot-rel", parent, "./" + name),
           ("rel-from-other", other, os.path.relpath(root, other)),
           ("dbl-sep", box, root.replace("/" + name, "//" + name)),
           ("dbl-sep-mid", box, parent + "/./" + name)]
    link = os.path.join(box, "via-link")
    if not os.path.lexists(link):
        os.symlink(parent, link)
    out.append(("symlinked-parent", box, os.path.join(link, name)))
    if not single:
        out += [("trail", parent, name + "/"), ("trail-abs", box, root + "/"),
                ("trail-dot", parent, name + "/."), ("dot-inside", root, "."),
                ("dotslash-inside", root, "./"),
                ("updown", parent, "x/../" + name), ("abs-dot", box, root + "/.")]
        # the working directory lies INSIDE the payload, one or more levels down
        for rel, _ in files:
            comps = rel.split("/")[:-1]
            if comps:
                sub = os.path.join(root, *comps)
                out += [("abs-from-inside", sub, root), ("up-from-inside", sub, "/".join([".."] * len(comps))),
                        ("rel-from-inside", sub, os.path.relpath(root, sub) + "/")]
                break
    else:
        out += [("updown", parent, "../" + os.path.basename(parent) + "/" + name)]
    return out


def info_bytes(raw):
    return refspec.info_span(raw)


def strip_date(raw):
    meta = refspec.lenient_decode(raw)
    meta.pop(b"creation date", None)
    return refspec.encode(meta)


def fresh_create(box, kind, root, out, pl, opts, hashseed):
    """Create in a fresh interpreter with the given PYTHONHASHSEED; returns the raw bytes."""
    import json
    import subprocess
    import sys
    from harness.common import REPO, VERIF
    env = dict(os.environ, VERIF_HOME=VERIF, VERIF_REPO=REPO, PYTHONPATH=VERIF,
               PYTHONHASHSEED=hashseed)
    op = {"op": "create", "kind": kind, "path": root, "out": out, "pl": pl, "opts": opts}
    proc = subprocess.run([sys.executable, "-m", "harness.ops"], input=json.dumps(op),
                          capture_output=True, text=True, cwd=box, env=env)
    for line in proc.stdout.splitlines():
        if line.startswith("OBS "):
            obs = json.loads(line[4:])
            return bytes.fromhex(obs["raw"]) if "raw" in obs else None
    raise MachineryError("fresh interpreter produced no observable: " + proc.stderr[-300:])


def run_case(run, drv, case_seed, tier):
    rng = random.Random(case_seed)
    pl = rng.choice([16384, 32768])
    version = rng.choice([1, 2, 3])
    single = rng.random() < 0.2
    kind = rng.choice({1: ["v1"], 2: ["a2", "v2"], 3: ["a3", "hy"]}[version])
    files = metas.small_tree(rng, pl, single)
    forced_link = case_seed in (-1, -2)
    if case_seed in (-3, -4):
        # a payload literally named '~' (single file / directory given by its bare relative name)
        from harness.common import Blob
        version, single, kind = (1, True, "v1") if case_seed == -3 else (3, True, "a3")
        files = [("~", Blob.rand(9, 20000))]
    if case_seed in (-5, -6):
        # two names of ONE inode (hard link), several pieces long: a copy of the tree elsewhere has
        # two independent files with the same bytes - the info dictionary must not notice
        import copy
        from harness.common import Blob
        version, single = 3, False
        kind = "a3" if case_seed == -5 else "hy"
        first = Blob.rand(11, 40000)
        twin = copy.copy(first)
        twin.hardlink_of = "a/first.bin"
        files = gen.FileList([("a/first.bin", first), ("b/second-name.bin", twin), ("c", Blob.rand(12, 7))])
    if forced_link:
        # fixed shapes every run includes: a directory reachable under two names, for v1 and hybrid
        from harness.common import Blob
        version, single = (1, False) if case_seed == -1 else (3, False)
        kind = "v1" if version == 1 else "a3"
        files = gen.FileList([("discs/cd1/a.bin", Blob.rand(3, 20000)), ("discs/cd1/b", Blob.rand(4, 5)),
                              ("zeta", Blob.rand(5, 100))])
    if not single and rng.random() < 0.5:
        # siblings whose names differ only in case / sort differently under other keys
        from harness.common import Blob
        base = rng.choice(["", "d/", "D/d/"])
        pair = rng.choice([["README.txt", "Readme.txt", "readme.txt"], ["Data/x", "data/y"],
                           ["LIB/y", "lib/x", "Lib/z"]])
        for nm in pair + rng.sample(["lib.bin", "a-b", "a/b", "a.b"], rng.randrange(0, 3)):
            rel = base + nm
            if not any(r == rel or r.startswith(rel + "/") or rel.startswith(r + "/") for r, _ in files):
                files.append((rel, Blob.rand(rng.randrange(1, 30), rng.choice([3, 20000, 16384]))))
    if not single and rng.random() < 0.5:
        # entries named like the payload root, or ending with its name (docs/docs, docs/api-docs)
        from harness.common import Blob
        for rel in [rng.choice(["payload/inner.txt", "my-payload/ref.html"])] + \
                rng.sample(["d/payload/x", "payload.bak", "xpayload/payload/y"], rng.randrange(0, 3)):
            if not any(r == rel or r.startswith(rel + "/") or rel.startswith(r + "/") for r, _ in files):
                files.append((rel, Blob.rand(rng.randrange(1, 30), rng.choice([0, 3, 20000]))))
    iopts = {}
    if rng.random() < 0.5:
        iopts["comment"] = rng.choice(metas.WORDS)
    if rng.random() < 0.5:
        iopts["source"] = rng.choice(metas.WORDS)
    if rng.random() < 0.4:
        iopts["private"] = True
    case = {"case_seed": case_seed, "version": version, "creator": kind, "pl": pl,
            "single": single, "files": [(r, b.token()) for r, b in files], "iopts": iopts}
    variants = []
    with sandbox("c08") as box:
        parent = os.path.join(box, "par")
        os.makedirs(parent)
        root, name = cr.materialize(parent, files, single)
        if not single:
            name = "payload"
        nested = sorted({rel.split("/")[0] for rel, _ in files if "/" in rel})
        if not single and nested and (forced_link or rng.random() < 0.25) and \
                not os.path.lexists(os.path.join(root, "latest")):
            # one directory of the payload is reachable under a second name (a symbolic link):
            # the creators follow it, so its files are payload under both names
            os.symlink(nested[0], os.path.join(root, "latest"))
            case["dir_link"] = {"latest": nested[0]}
            dup = [("latest" + rel[len(nested[0]):], b) for rel, b in files
                   if rel.startswith(nested[0] + "/")]
            ed = tuple(getattr(files, "emptydirs", ())) + tuple(
                "latest" + d[len(nested[0]):] for d in getattr(files, "emptydirs", ())
                if d == nested[0] or d.startswith(nested[0] + "/"))
            files = gen.FileList(list(files) + dup)
            files.emptydirs = ed
        impl.pin_clock(1_700_000_000)
        base = impl.create(kind, root, os.path.join(box, "base.torrent"), piece_length=pl, **iopts)
        base_info = info_bytes(base)

        def check(label, raw):
            variants.append(label)
            if info_bytes(raw) != base_info:
                a, b = refspec.lenient_decode(raw)[b"info"], refspec.lenient_decode(base)[b"info"]
                diff = [hx(k) and k.decode() for k in set(a) | set(b) if a.get(k) != b.get(k)]
                run.fail("impl-vs-spec", dict(case, variant=label),
                         {"why": "info dictionary differs", "keys": diff,
                          "name": repr(a.get(b"name"))})
        n = 0
        for label, wd, spelled in spellings(box, parent, name, single, files):
            n += 1
            with cwd(wd):
                try:
                    raw = impl.create(kind, spelled, os.path.join(box, f"s{n}.torrent"),
                                      piece_length=pl, **iopts)
                except Exception as exc:
                    run.fail("impl-vs-spec", dict(case, variant=label, path=spelled),
                             {"raised": repr(exc)})
                    continue
            check("spelling:" + label, raw)
            drv.ask(f"torrentname {hx(wd.encode())} {hx(spelled.encode('utf8'))}",
                    ("name", dict(case, variant=label, cwd=wd.replace(box, "$BOX"),
                                  spelling=spelled.replace(box, "$BOX")),
                     refspec.lenient_decode(raw)[b"info"].get(b"name")))
        # copy elsewhere
        copy_parent = os.path.join(box, "deep", "er")
        os.makedirs(copy_parent)
        dst = os.path.join(copy_parent, name)
        shutil.copytree(root, dst) if not single else shutil.copy(root, dst)
        check("copy", impl.create(kind, dst, os.path.join(box, "c.torrent"), piece_length=pl, **iopts))
        # enumeration order
        for i in range(3):
            with shuffled_enumeration(rng):
                raw = impl.create(kind, root, os.path.join(box, f"e{i}.torrent"),
                                  piece_length=pl, **iopts)
            check("enum-order", raw)
        # trackers / seeds / outfile / progress / clock
        for i in range(3):
            o = metas.options(rng)
            for k in ("comment", "source", "private"):
                o.pop(k, None)
            out = os.path.join(box, rng.choice(["o%d.torrent" % i, "sub%d/" % i]))
            if out.endswith("/"):
                os.makedirs(out, exist_ok=True)
            impl.pin_clock(rng.choice([1, 1_600_000_000, 2_000_000_000]))
            raw = impl.create(kind, root, out, piece_length=pl, progress=rng.choice([0, 1, 2]),
                              **iopts, **o)
            check("non-info-options", raw)
        # equal input, different clock: equal except creation date
        o = metas.options(rng)
        o.update(iopts)
        impl.pin_clock(1_111_111_111)
        r1 = impl.create(kind, root, os.path.join(box, "t1.torrent"), piece_length=pl, **o)
        impl.pin_clock(1_999_999_999)
        with shuffled_enumeration(rng):
            r2 = impl.create(kind, root, os.path.join(box, "t2.torrent"), piece_length=pl, **o)
        variants.append("two-runs")
        if strip_date(r1) != strip_date(r2):
            run.fail("impl-vs-spec", dict(case, variant="two-runs"),
                     {"why": "files differ in more than the creation date"})
        # through the command line from another directory
        with cwd(parent):
            argv = ["create", "--prog", "0", "--piece-length", str(pl), "--meta-version",
                    str(version), "-o", os.path.join(box, "cli.torrent")]
            if "comment" in iopts:
                argv += ["--comment", iopts["comment"]]
            if "source" in iopts:
                argv += ["--source", iopts["source"]]
            if iopts.get("private"):
                argv += ["--private"]
            impl.cli(argv + [name if not name.startswith("-") else "./" + name])
        cli_raw = open(os.path.join(box, "cli.torrent"), "rb").read()
        if kind in ("v1", "a2", "a3"):      # the CLI uses TorrentFile / TorrentAssembler
            check("cli-relative", cli_raw)
            # output location inside the payload itself (the metafile does not exist yet
            # while the payload is scanned, so it must not appear in it)
            if not single:
                inside = os.path.join(root, "zz-out.torrent")
                try:
                    impl.cli(argv[:argv.index("-o") + 1] + [inside] + argv[argv.index("-o") + 2:] + [root])
                    check("outfile-inside-payload", open(inside, "rb").read())
                finally:
                    if os.path.exists(inside):
                        os.remove(inside)
        # equal input in two separate interpreters (different hash seeds), URL lists with
        # repeated entries: the files may differ in the creation date only
        dup = rng.sample(metas.URLS, 3)
        dup_opts = {"announce": [dup[0], dup[1], dup[0], dup[2]], "url_list": [dup[1], dup[2], dup[1]],
                    "httpseeds": [dup[2], dup[0], dup[2], dup[1]]}
        two = []
        for hs in ("1", "777"):
            two.append(fresh_create(box, kind, root, os.path.join(box, f"h{hs}.torrent"), pl,
                                    dict(dup_opts, **iopts), hs))
        variants.append("two-processes")
        if two[0] is None or two[1] is None or strip_date(two[0]) != strip_date(two[1]):
            run.fail("impl-vs-spec", dict(case, variant="two-processes"),
                     {"why": "two interpreters on equal input wrote different files",
                      "opts": dup_opts})
        elif info_bytes(two[0]) != base_info:
            run.fail("impl-vs-spec", dict(case, variant="two-processes"), {"why": "info differs"})
    run.case([version, kind, single, sorted(len(b) % pl for _, b in files), len(files)],
             True, sample=dict(case, variants=sorted(set(variants))),
             classes=[f"v{version}", kind, "single" if single else "dir"])

# ---------------------------------------------------------------- the tree changes between two creates

# fixed shapes: (creator, route, piece length or None = automatic, nested file near the automatic
# threshold or None, steps); every run includes them
CHANGED_FIXED = {
    -1: ("v1", "lib", 16384, None, ["add", "remove", "grow"]),
    -2: ("v1", "cli", 32768, None, ["newdir", "shrink", "replace"]),
    -3: ("v1", "lib", None, 16_000_000, ["grow-big"]),
    -4: ("a2", "cli", None, 16_000_000, ["grow-big"]),
    -5: ("hy", "lib", None, 16_000_000, ["grow-big"]),
    -6: ("v2", "lib", None, 16_800_000, ["shrink-big"]),
    -7: ("a3", "cli", 16384, None, ["add", "remove", "top-add"]),
    -8: ("v1", "cli", None, None, ["add-big"]),
}
CLI_VERSION = {"v1": "1", "a2": "2", "a3": "3"}


def _make(kind, route, path, out, pl, iopts):
    if route == "cli":
        argv = ["create", "--prog", "0", "--meta-version", CLI_VERSION[kind], "-o", out]
        if pl:
            argv += ["--piece-length", str(pl)]
        if "comment" in iopts:
            argv += ["--comment", iopts["comment"]]
        if iopts.get("private"):
            argv += ["--private"]
        impl.cli(argv + [path])
        with open(out, "rb") as fd:
            return fd.read()
    return impl.create(kind, path, out, piece_length=pl, **iopts)


def run_changed(run, drv, changed_seed, tier):
    """One process makes a torrent of a directory, the tree then changes - below the first level:
    files are added to / removed from / resized in sub-directories, the entries of the top
    directory itself stay - and the same path is made into a torrent again with the same
    arguments.  The info dictionary is a function of the payload only, so it must equal that of
    an identical fresh copy of the changed tree at another location (including the automatically
    chosen piece length when none is given)."""
    from harness.common import Blob
    rng = random.Random(f"changed/{changed_seed}")
    if changed_seed in CHANGED_FIXED:
        kind, route, pl, big, steps = CHANGED_FIXED[changed_seed]
    else:
        kind = rng.choice(["v1", "v1", "v1", "a2", "a3", "v2", "hy"])
        route = rng.choice(["lib", "cli"]) if kind in CLI_VERSION else "lib"
        pl = rng.choice([16384, 32768, None])
        big = None
        steps = [rng.choice(["add", "remove", "grow", "shrink", "newdir", "replace", "top-add"])
                 for _ in range(rng.randrange(1, 4))]
    iopts = {}
    if rng.random() < 0.3:
        iopts["comment"] = rng.choice(metas.WORDS)
    if rng.random() < 0.3:
        iopts["private"] = True
    sub, deep = rng.choice(["sub", "d", "ü", "a.b"]), rng.choice(["deep", "e", "z z"])
    names = rng.sample([n for n in gen.NAMES if n not in ("~", "-dash")], 6)
    tree = {names[0]: 40000, f"{sub}/{names[1]}": 70000, f"{sub}/{deep}/{names[2]}": 1234,
            f"{sub}/{deep}/{names[3]}": 999, f"other/{names[4]}": rng.choice([0, 5, 16384])}
    if big:
        tree[f"{sub}/big.bin"] = big
    case = {"changed_seed": changed_seed, "creator": kind, "route": route, "pl": pl,
            "steps": steps, "tree": dict(tree), "iopts": iopts}
    counter = [100]

    def data(n):
        counter[0] += 1
        return Blob.rand(counter[0], n).bytes()
    with sandbox("c08c") as box:
        root = os.path.join(box, "work", "payload")
        write_tree(root, [(rel, data(n)) for rel, n in tree.items()])
        impl.pin_clock(1_700_000_000)
        out = os.path.join(box, "out.torrent")
        _make(kind, route, root, out, pl, iopts)
        for i, step in enumerate(steps):
            nested = sorted(r for r in tree if r.count("/") >= 1 and not r.endswith("/big.bin"))
            victim = nested[rng.randrange(len(nested))] if nested else None
            path = lambda rel: os.path.join(root, *rel.split("/"))  # noqa: E731
            if step == "add":
                for rel in (f"{sub}/new-{i}", f"{sub}/{deep}/extra-{i}"):
                    tree[rel] = rng.choice([1, 20000, 50000])
                    write_tree(root, [(rel, data(tree[rel]))])
            elif step == "newdir":
                rel = f"{sub}/{deep}/fresh-{i}/x"
                tree[rel] = 16385
                write_tree(root, [(rel, data(16385))])
            elif step == "top-add":
                rel = f"zz-{i}"
                tree[rel] = 777
                write_tree(root, [(rel, data(777))])
            elif step == "add-big":
                tree[f"{sub}/{deep}/big2.bin"] = 16_500_000
                write_tree(root, [(f"{sub}/{deep}/big2.bin", data(16_500_000))])
            elif step in ("grow-big", "shrink-big"):
                tree[f"{sub}/big.bin"] += 800_000 if step == "grow-big" else -800_000
                with open(path(f"{sub}/big.bin"), "ab") as fd:     # in place
                    fd.truncate(tree[f"{sub}/big.bin"])
            elif victim is None:
                continue
            elif step == "remove":
                os.remove(path(victim))
                del tree[victim]
            elif step == "replace":
                os.remove(path(victim))
                del tree[victim]
                rel = victim + ".v2"
                tree[rel] = 4321
                write_tree(root, [(rel, data(4321))])
            elif step == "grow":
                tree[victim] += 30000
                with open(path(victim), "ab") as fd:
                    fd.write(data(30000))
            elif step == "shrink":
                tree[victim] //= 2
                with open(path(victim), "ab") as fd:
                    fd.truncate(tree[victim])
            label = f"changed-below:{i}:{step}"
            here = dict(case, variant=label, tree_now=dict(tree))
            try:
                again = _make(kind, route, root, out, pl, iopts)
                dst = os.path.join(box, f"elsewhere{i}", "payload")
                shutil.copytree(root, dst)
                fresh = _make(kind, route, dst, os.path.join(box, "copy.torrent"), pl, iopts)
            except Exception as exc:
                from harness.common import raised_in_repo
                if not (raised_in_repo(exc) or type(exc).__name__ == "CliExit"):
                    raise
                run.fail("impl-vs-spec", here, {"raised": repr(exc)[:300]})
                break
            if info_bytes(again) != info_bytes(fresh):
                a, b = refspec.lenient_decode(again)[b"info"], refspec.lenient_decode(fresh)[b"info"]
                run.fail("impl-vs-spec", here,
                         {"why": "info dictionary of the changed tree differs from that of an identical "
                                 "copy at another location",
                          "keys": sorted(k.decode() for k in set(a) | set(b) if a.get(k) != b.get(k)),
                          "piece length": [a.get(b"piece length"), b.get(b"piece length")]})
            shutil.rmtree(os.path.join(box, f"elsewhere{i}"), ignore_errors=True)
    run.case(["changed-below", kind, route, pl, bool(big), steps], True, sample=case,
             classes=["recreated-after-change", kind, route + "-route", "auto-pl" if pl is None else "explicit-pl"])


def run(tier, seed, replay=None):
    run = Run("C08", tier, seed, RULE)
    drv = Driver()
    from harness.common import guarded
    if replay and "changed_seed" in replay["case"]:
        guarded(run, replay["case"], run_changed, run, drv, replay["case"]["changed_seed"], tier)
        return run.finish()
    seeds = [replay["case"]["case_seed"]] if replay else \
        [-1, -2, -3, -4, -5, -6] + [run.rng.randrange(10 ** 9) for _ in range(40 if tier == "quick" else 400)]
    for s in seeds:
        guarded(run, {"case_seed": s}, run_case, run, drv, s, tier)
    if not replay:
        # (own generator: the case seeds drawn above stay what they were)
        crng = random.Random(f"{seed}/changed")
        for s in sorted(CHANGED_FIXED, reverse=True) + [crng.randrange(10 ** 9) for _ in range(12 if tier == "quick" else 120)]:
            guarded(run, {"changed_seed": s}, run_changed, run, drv, s, tier)
    listing_model(run, drv, tier)
    return run.finish()


def listing_model(run, drv, tier):
    """Tie of the Lean listing model (Impl.listV1 / sorted traversal) to utils and _traverse:
    names from the hostile pool, enumeration order shuffled."""
    use = __import__("harness.common", fromlist=["use_repo"]).use_repo
    use()
    from torrentfile import utils
    rng = run.rng
    asked = []
    with sandbox("c08l") as box:
        for i in range(30 if tier == "quick" else 300):
            paths = gen.rel_paths(rng, rng.randrange(1, 8))
            root = os.path.join(box, "t%d" % i)
            write_tree(root, [(p, b"x") for p in paths])
            with shuffled_enumeration(rng):
                _, listed = utils.filelist_total(root)
            got = [os.path.relpath(p, root) for p in listed]
            want = sorted(paths)
            run.case(["listing", sorted(paths)], got != paths, classes=["listing"])
            if got != want:
                run.fail("impl-vs-spec", {"listing": paths}, {"impl": got, "spec": want})
            shuffled = list(paths)
            rng.shuffle(shuffled)
            drv.ask("listv1 " + " ".join(p.encode("utf8").hex() for p in shuffled),
                    ({"listing": paths}, got))
    answers = drv.run()
    for slot, req, out in [a for a in answers if a[0][0] == "name"]:
        _, case, name = slot
        run.model_checked += 1
        model = b"" if out.strip() == "-" else bytes.fromhex(out.strip()) if not out.startswith("ERR") else None
        if model != name:
            run.fail("impl-vs-model", case, {"correspondence": "Impl.torrentName (basename(abspath))",
                                             "model": out[:80], "impl": repr(name)})
    # UTF-8 byte order = code point order on the name pool (proved: utf8_order_preserving)
    pool = sorted(set(gen.NAMES + gen.DIRS))
    pairs = [(a, b) for a in pool[:24] for b in pool[:24]]
    more = drive([f"utf8le {len(a)} " + " ".join(str(ord(c)) for c in a) + " " +
                  " ".join(str(ord(c)) for c in b) for a, b in pairs])
    for (a, b), out in zip(pairs, more):
        run.model_checked += 1
        want = "1" if a <= b else "0"
        if out.split() != [want, "1" if a.encode("utf8") <= b.encode("utf8") else "0"] or \
                out.split()[0] != out.split()[1]:
            run.fail("spec-vs-ref", {"names": [a, b]}, {"lean": out, "python str <=": want})
    for (case, got), req, out in [a for a in answers if a[0][0] != "name"]:
        if out.startswith("ERR"):
            if os.environ.get("VERIF_DEV") and "bad-op" in out:
                continue
            raise MachineryError(f"driver: {req[:40]} -> {out[:100]}")
        run.model_checked += 1
        left, _, right = out.partition("|")
        model = [bytes.fromhex(t).decode("utf8") for t in left.split()]
        spec = [bytes.fromhex(t).decode("utf8") for t in right.split()]
        if model != got:
            run.fail("impl-vs-model", case, {"correspondence": "Impl.listV1", "model": model,
                                             "impl": got})
        if spec != sorted(case["listing"]):
            run.fail("spec-vs-ref", case, {"lean": spec, "ref": sorted(case["listing"])})

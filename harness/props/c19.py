"""C19 - rebuild never writes outside the destination, whatever the metafile says."""
import os
import random

from harness import effects, impl, refspec
from harness.common import Driver, MachineryError, Run, guarded, hx, sandbox, snapshot, write_tree

RULE = ("reference-encoder metafiles (v1 multi/single, v2, hybrid) whose name and path "
        "components are drawn from a hostile alphabet ('..', '.', '', absolute paths, "
        "'a/../../b', deep '..' chains, embedded separators, backslashes), also two entries that "
        "normalise to one target; entries WITHOUT content at the same hostile locations "
        "(empty-directory nodes of the v2 / hybrid file tree, zero-length and directory-like entries "
        "of the v1 list; fixed shapes via library and command line, and random ones) next to "
        "ordinary files; with matching candidate files "
        "in the search directory so that the copy is attempted; the run is fenced with an "
        "audit hook (any mutating operation outside the destination is recorded and refused) "
        "and everything outside the destination is snapshotted before/after; distinct by "
        "(version, name, path shape); non-trivial when a name/path element is hostile and a "
        "candidate exists")

PL = 16384


def hostile_alphabet(box):
    outside = os.path.join(box, "outside")
    return ["..", ".", "", outside, outside + "/x", "a/../../b", "../" * 3 + "up", "../../..",
            "../" * 12 + "deep", "ok", "sub", "a/b", "/", "..//..", "./../x", "ok/..", "…",
            "../dest2", "../dest.bak", "../destX/y", "../../y/dest", "//" + box.lstrip("/"),
            "..", "../dest", "../dest", "../dest", "../dest", "../DEST", "../Dest/x", "../DEST", "..\\..\\created", "x\\..\\..\\..\\victim", "..\\byname", "\\", "..\\",
            # '..' in disguise (invisible / control characters) and an element too long to create
            ".\u202e.", ".\u200e.", "\u200b..", ".\x7f.", "..\n", "..\u200d", "x" * 300]


def add_empty_dirs(meta, dirs):
    """Insert EMPTY-DIRECTORY nodes (empty dictionaries, as torrentfile's own v2 / hybrid creators
    emit for directories without files) into the v2 file tree; returns those inserted."""
    tree = meta["info"]["file tree"]
    done = []
    for comps in dirs:
        node = tree
        for c in comps[:-1]:
            if c not in node:
                node[c] = {}
            node = node[c]
            if "" in node:
                node = None         # below a file: not a tree any more
                break
        if node is None or "" in node or comps[-1] in node:
            continue
        node[comps[-1]] = {}
        done.append(tuple(comps))
    return done


def hostile_dirs(box):
    """Fixed hostile locations for entries that describe no content (empty directories of a v2
    tree, zero-length entries of a v1 list): below '..', embedded separators, an absolute
    element, a deep '..' chain, leaving the destination and coming back, and a harmless one."""
    outside = os.path.join(box, "outside")
    return [("..", "..", "escaped-a"), ("..", "inside-after-all"), ("sub/../../../escaped-b",), (outside, "absolute-dir", "inner"),
            ("sub", "..", "..", "..", "escaped-c", "inner"), ("../" * 12 + "escaped-deep",),
            ("..",) * 14 + ("escaped-deep2",), ("..", "..", "dest", "returned"), ("..", "..", "pack", "returned"),
            ("..", "..", "dest.bak", "escaped-d"), ("..\\..\\escaped-e",), ("art", "harmless-empty")]


def gen_meta(rng, box, forced=None):
    alpha = hostile_alphabet(box)
    EMPTY[:] = []
    if forced and forced >= 4:
        # fixed shapes every run includes: entries WITHOUT content at hostile locations next to
        # ordinary files that have candidates (4/6: v2, 5/7: hybrid - empty-directory nodes;
        # 8/9: v1 - zero-length and directory-like entries of the `files` list)
        version, name = {4: 2, 5: 3, 6: 2, 7: 3, 8: 1, 9: 1}[forced], "pack"
        files = [(("f0.bin",), b"A" * 10), (("sub", "g.bin"), b"G" * (PL + 7))]
        if version == 1:
            files += [(comps + ("e%d.cfg" % i,), b"") for i, comps in enumerate(hostile_dirs(box))]
            files += [(("..", "dirlike", ""), b""), (("../dirlike2/",), b""), (("..", "dirlike3", "."), b"")]
        meta = refspec.ref_metafile(name, files, PL, version, single=False, trailing_pad=True, with_length=True)
        if version != 1:
            EMPTY[:] = add_empty_dirs(meta, hostile_dirs(box))
        return meta, name, files, version, False
    if forced:
        # fixed shapes every run includes: two entries that normalise to ONE target (the later one
        # longer), for each meta version
        version, single, name = forced, False, "pack"
        files = [(("f0.bin",), b"A" * 10), (("ok/..", "f0.bin") if forced == 1 else ("sub", "..", "f0.bin"),
                                            b"A" * 10 + b"+" * (PL + 1)), (("g.bin",), b"G" * 5)]
        meta = refspec.ref_metafile(name, files, PL, version, single=False, trailing_pad=True, with_length=True)
        return meta, name, files, version, single
    version = rng.choice([1, 1, 2, 3])
    single = rng.random() < 0.25
    name = rng.choice(alpha) if rng.random() < 0.65 else rng.choice(["ok", "sub", "pack"])
    files = []
    for i in range(1 if single else rng.randrange(1, 4)):
        depth = rng.choice([0, 1, 2])
        comps = [rng.choice(alpha) for _ in range(depth)]
        last = rng.choice(["f%d.bin" % i, "f%d.bin" % i, "f%d.bin" % i, "..", ""])
        data = bytes([65 + i]) * rng.choice([0, 10, PL, PL + 7])
        files.append((tuple(comps + [last]), data))
    if not single and files and files[0][0][-1] not in ("..", "") and rng.random() < 0.3:
        # two entries that normalise to ONE target, the later one longer: the second placement
        # overwrites the first inside the destination - and must touch nothing else
        first, data = files[0]
        via = rng.choice([("ok/..",), ("sub", ".."), (".",), ("a/b", "../.."), ("",)])
        files = [files[0], (first[:-1] + via + (first[-1],), data + b"+" * rng.choice([1, PL]))] + files[1:]
    if single:
        name = rng.choice([name, "../escape.bin", os.path.join(box, "outside", "abs.bin"), "s.bin"])
        files = [((name,), files[0][1])]
    if version != 1:
        # BEP 52 trees cannot repeat a key; keep the first occurrence of each prefix shape
        seen, uniq = set(), []
        for comps, data in files:
            if any(comps[:k] in seen for k in range(1, len(comps) + 1)) or \
                    any(s[:len(comps)] == comps for s in seen):
                continue
            seen.add(comps)
            uniq.append((comps, data))
        files = uniq or files[:1]
    meta = refspec.ref_metafile(name, files, PL, version, single=single, trailing_pad=True,
                                with_length=rng.random() < 0.5)
    if version != 1 and not single and rng.random() < 0.5:
        # empty-directory nodes of the v2 tree at hostile locations ('' would turn its parent
        # into a file node, so it is left out here)
        pool = [a for a in alpha if a]
        EMPTY[:] = add_empty_dirs(meta, [tuple(rng.choice(pool) for _ in range(rng.choice([1, 2, 2, 3])))
                                         for _ in range(rng.randrange(1, 4))])
    return meta, name, files, version, single


EMPTY = []      # the empty-directory nodes of the metafile gen_meta built last


def case_stub(case_seed, version, single, name, files):
    return {"case_seed": case_seed, "version": version, "single": single, "name": name,
            "paths": [list(c) for c, _ in files]}


def run_case(run, drv, case_seed):
    rng = random.Random(case_seed)
    with sandbox("c19") as box:
        base = os.path.join(box, "w", "x", "y")
        meta, name, files, version, single = gen_meta(rng, box, forced=-case_seed if case_seed < 0 else None)
        dname = "dest"
        if name and "/" not in name and name not in (".", "..") and len(name.encode("utf8")) < 200 \
                and "\n" not in name and rng.random() < 0.5:
            dname = name            # destination directory named like the torrent
        dest = os.path.join(base, dname)
        if rng.random() < 0.3:
            # the destination is the only thing in its parent and grandparent: whatever clean-up
            # runs after a failed placement must stop at the destination
            dest = os.path.join(base, "solo", "nest", dname)
        relname = os.path.relpath(dest, base)     # the destination as a relative string from `base`
        os.makedirs(dest)
        os.makedirs(os.path.join(box, "outside"))
        linked = rng.random() < 0.2
        if linked:
            # the destination is reached through a symbolic link with a RELATIVE target, and the
            # working directory is somewhere else: everything still lands in the real directory
            os.makedirs(os.path.join(base, "store"), exist_ok=True)
            os.rename(dest, os.path.join(base, "store", "real-" + dname))
            os.symlink(os.path.relpath(os.path.join(base, "store", "real-" + dname), os.path.dirname(dest)), dest)
        raw = refspec.encode(meta)
        mpath = os.path.join(base, "h.torrent")
        with open(mpath, "wb") as fd:
            fd.write(raw)
        search = os.path.join(base, "search")
        cands = 0
        for comps, data in files:
            fname = name if single else comps[-1]
            fname = fname.split("/")[-1] if isinstance(fname, str) else fname
            if fname in ("", ".", "..") or len(fname.encode("utf8")) > 255 or "\0" in fname:
                continue        # no such file can exist, so there is no candidate to offer
            write_tree(os.path.join(search, f"c{cands}"), [(fname, data)])
            cands += 1
        os.makedirs(search, exist_ok=True)
        for comps, data in files:
            rel = name if single else os.path.join(name, *comps)
            for base_dir in (dest, os.path.dirname(dest)):
                target = os.path.normpath(os.path.join(base_dir, rel))
                inside_box = target.startswith(box + os.sep)
                if inside_box and not (target + os.sep).startswith(dest + os.sep) and \
                        not os.path.lexists(target) and rng.random() < 0.6:
                    try:
                        os.makedirs(os.path.dirname(target), exist_ok=True)
                        with open(target, "wb") as fd:
                            fd.write(b"x")           # smaller than any candidate
                    except OSError:
                        pass
        emptydirs = [list(c) for c in EMPTY]
        case = {"case_seed": case_seed, "version": version, "single": single, "name": name,
                "paths": [list(c) for c, _ in files], "dest_is_relative_link": linked,
                "emptydirs": [[c.replace(box, "$BOX") for c in comps] for comps in emptydirs]}
        raised = None
        relative = rng.random() < 0.3
        old_cwd = os.getcwd()
        if relative:
            # the same relative destination string used from two working directories in one
            # process: each run may only write below ITS destination
            other = os.path.join(box, "w", "elsewhere")
            os.makedirs(os.path.join(other, relname))
            os.chdir(other)
            try:
                with effects.traced(fence=[os.path.join(other, relname)]) as tr0:
                    try:
                        impl.rebuild([mpath], [search], relname)
                    except Exception:
                        pass
            finally:
                os.chdir(base)
            # empty the first destination again: anything that turns up there later was
            # written by the second run, which was given a different destination
            import shutil as _sh
            _sh.rmtree(os.path.join(other, relname), ignore_errors=True)
            os.makedirs(os.path.join(other, relname))
            if tr0.escapes:
                run.fail("impl-vs-spec", dict(case_stub(case_seed, version, single, name, files), relative="first"),
                         {"why": "attempted to write outside the destination",
                          "operation": [str(x) for x in tr0.escapes[0]]})
        realdest = os.path.realpath(dest)
        inside = lambda k: (os.path.join(box, k) + os.sep).startswith(dest + os.sep) or \
            (os.path.join(box, k) + os.sep).startswith(realdest + os.sep)
        before = {k: v for k, v in snapshot(box).items() if not inside(k)}
        via_cli = rng.random() < 0.3
        if -9 <= case_seed <= -4:
            via_cli = case_seed in (-6, -7, -9)
        try:
            with effects.traced(fence=[dest, realdest]) as tr:
                try:
                    if via_cli:     # the command-line entry point (commands.rebuild)
                        impl.cli(["rebuild", "-m", mpath, "-c", search, "-d", relname if relative else dest])
                    else:
                        impl.rebuild([mpath], [search], relname if relative else dest)
                except effects.Escape:
                    raised = "Escape"
                except BaseException as exc:  # noqa
                    raised = type(exc).__name__
        finally:
            os.chdir(old_cwd)
        after = {k: v for k, v in snapshot(box).items() if not inside(k)}
        if tr.escapes:
            run.fail("impl-vs-spec", case, {"why": "attempted to write outside the destination",
                                            "operation": [str(x) for x in tr.escapes[0]]})
        elif before != after:
            diff = sorted(k for k in set(before) | set(after) if before.get(k) != after.get(k))
            run.fail("impl-vs-spec", case, {"why": "something outside the destination changed",
                                            "paths": diff[:6]})
        # model tie: safe_join on every (dest, relative path) this metafile produces
        try:
            from torrentfile.rebuild import safe_join
        except ImportError:
            run.fail("impl-vs-model", case, {"correspondence": "Impl.safeJoin: "
                                             "torrentfile.rebuild.safe_join no longer exists"})
            safe_join = None
        for comps, _ in files:
            if safe_join is None:
                break
            rel = name if single else os.path.join(name, *comps)
            got = safe_join(dest, rel)
            drv.ask(f"safejoin {hx(dest.encode())} {hx(rel.encode('utf8'))}",
                    (dict(case, rel=rel), got))
    hostile = any(c in ("..", ".", "") or "/" in c for comps, _ in files for c in comps[:-1]) \
        or name in ("..", ".", "") or "/" in name \
        or any(c in ("..", ".") or "/" in c for comps in emptydirs for c in comps)
    run.case([version, single, name.replace(box, "$BOX"),
              [[c.replace(box, "$BOX") for c in comps] for comps, _ in files]],
             hostile and cands > 0, sample={k: (v if k != "name" else v.replace(box, "$BOX"))
                                            for k, v in case.items() if k != "paths"},
             classes=[f"v{version}", "raised:" + str(raised), f"cands={min(cands, 2)}"] +
             (["empty-directory-nodes"] if emptydirs else []) +
             (["fixed-entries-without-content"] if -9 <= case_seed <= -4 else []))


def run(tier, seed, replay=None):
    impl.use_repo()
    run = Run("C19", tier, seed, RULE)
    drv = Driver()
    seeds = [replay["case"]["case_seed"]] if replay else \
        [-1, -2, -3, -4, -5, -6, -7, -8, -9] + [run.rng.randrange(10 ** 9) for _ in range(300 if tier == "quick" else 3000)]
    for s in seeds:
        guarded(run, {"case_seed": s}, run_case, run, drv, s)
    for (case, got), req, out in drv.run():
        if out.startswith("ERR"):
            if os.environ.get("VERIF_DEV") and "bad-op" in out:
                continue
            raise MachineryError(f"driver: {req[:40]} -> {out[:100]}")
        run.model_checked += 1
        tok = out.split()[0]
        model = None if tok == "none" else bytes.fromhex(tok).decode("utf8")
        if model != got:
            run.fail("impl-vs-model", case, {"correspondence": "Impl.safeJoin", "model": model,
                                             "impl": got})
    if not replay:
        from harness.common import translated_tie
        translated_tie(run, ["safe_join"])
    return run.finish()

"""C15 - piece-aligned v1 metafiles: padding entries account exactly for the pieces."""
import os

from harness import gen, impl, refspec
from harness.common import Blob, Driver, Run, hx, sandbox
from harness.props import creation as cr

RULE = ("trees / single files with align=True through TorrentFile and `create --align`; sizes "
        "from boundary classes incl. empty, < pl, exact multiples, > pl with every class of "
        "remainder; distinct by (pl, per-file residues in listed order); non-trivial when some "
        "file is not a multiple of pl")


def run_case(run, drv, files, pl, single, via_cli, tag):
    case = {"links": cr.links(files),
            "files": [(rel, b.token()) for rel, b in files], "pl": pl, "single": single,
            "via_cli": via_cli, "gen": tag}
    with sandbox("c15") as box:
        root, name = cr.materialize(box, files, single)
        out = os.path.join(box, "o.torrent")
        try:
            spelled, prog = cr.variant(run.rng, root, single)
            case["progress"], case["spelled"] = prog, spelled.replace(box, "$BOX")
            if via_cli:
                impl.cli(["create", "--align", "--piece-length", str(pl), "--prog", str(prog),
                          "-o", out, spelled])
                raw = open(out, "rb").read()
            else:
                # alignment requested by any truthy value means alignment
                case["align_value"] = repr(run.rng.choice([True, True, 1, "yes", "true", 2]))
                raw = impl.create("v1", spelled, out, piece_length=pl, align=eval(case["align_value"]),
                                  progress=prog)
        except Exception as exc:
            run.fail("impl-vs-spec", case, {"raised": repr(exc)})
            return
    meta = impl.decode(raw)
    if not via_cli:
        cr.ask_createfull(drv, ("createfull", case, raw), "v1align", files, pl, single, name, raw)
    why = cr.check_align_view(meta, files, pl, single, name)
    if why:
        run.fail("impl-vs-spec", case, {"why": why})
    info = meta[b"info"]
    if not single and isinstance(info.get(b"files"), list):
        want = {cr.comps(rel): b for rel, b in files}
        order = [want[tuple(e[b"path"])] for e in info[b"files"]
                 if e.get(b"attr") != b"p" and tuple(e[b"path"]) in want]
        entries = " ".join(("p" if e.get(b"attr") == b"p" else "f") + str(e[b"length"])
                           for e in info[b"files"])
        drv.ask("v1 1 %d %s" % (pl, " ".join(b.token() for b in order)),
                (case, bytes(info.get(b"pieces", b"")), entries))
    run.case([pl, single] + [[len(b) % pl, min(len(b) // pl, 5)] for _, b in gen.utf8_sorted(files)],
             any(len(b) % pl for _, b in files), sample=case,
             classes=[f"files={len(files)}", f"pl={pl}", "single" if single else "dir",
                      "cli" if via_cli else "lib"])


def auto_piece_length(run):
    """align with the automatically chosen piece length: the recorded piece length must be
    the one the padding entries and the pieces were made with (sparse files: a payload of at
    most 1000 pieces whose padded stream has more, and the reverse)."""
    for sizes in ([333 * 16384 + 100] * 3, [16384 * 1000 - 5, 7], [20000, 0, 50000]):
        with sandbox("c15a") as box:
            root = os.path.join(box, "payload")
            os.makedirs(root)
            files = []
            for i, size in enumerate(sizes):
                with open(os.path.join(root, f"f{i}"), "wb") as fd:
                    fd.truncate(size)
                files.append((f"f{i}", Blob.zero(size)))
            for via_cli in (False, True):
                out = os.path.join(box, "o.torrent")
                case = {"auto_piece_length": True, "sizes": sizes, "via_cli": via_cli}
                try:
                    if via_cli:
                        impl.cli(["create", "--align", "--prog", "0", "-o", out, root])
                        raw = open(out, "rb").read()
                    else:
                        raw = impl.create("v1", root, out, align=True)
                except Exception as exc:
                    run.fail("impl-vs-spec", case, {"raised": repr(exc)})
                    continue
                meta = impl.decode(raw)
                pl = meta[b"info"].get(b"piece length")
                why = cr.check_align_view(meta, files, pl, False, "payload") if isinstance(pl, int) \
                    and pl >= 16384 else "piece length"
                if why:
                    run.fail("impl-vs-spec", case, {"why": why, "recorded piece length": pl})
                run.case(["auto", sizes, via_cli], True, sample=case, classes=["auto-pl"])


def run(tier, seed, replay=None):
    run = Run("C15", tier, seed, RULE)
    drv = Driver()

    def still_fails(c):
        probe = Run("C15", tier, seed, RULE)
        files = cr.files_of_case(c)
        run_case(probe, Driver(), files, c["pl"], c["single"], c.get("via_cli", False), "shrink")
        return any(f.kind == "impl-vs-spec" for f in probe.failures)
    run.shrinker = still_fails
    if replay:
        c = replay["case"]
        files = cr.files_of_case(c)
        run_case(run, drv, files, c["pl"], c["single"], c.get("via_cli", False), "replay")
    else:
        from harness.common import corpus_cases
        for c in corpus_cases("C15"):
            files = cr.files_of_case(c)
            run_case(run, drv, files, c["pl"], c["single"], c.get("via_cli", False), "corpus")
        for files, pl, single in cr.corner_cases():
            for via in (False, True):
                run_case(run, drv, files, pl, single, via, "corner")
        from harness.common import Blob as _B
        from harness import gen as _g
        # a 2 MiB piece: gaps of more than 1 MiB to the next boundary
        run_case(run, drv, _g.FileList([("a", _B.rand(1, 100)), ("b", _B.rand(2, 2 ** 21 + 5)), ("c", _B.rand(3, 7))]),
                 2 ** 21, False, False, "big-gap")
        for _ in range(120 if tier == "quick" else 1200):
            files, pl, single = cr.make_case(run.rng, tier, single_p=0.2)
            run_case(run, drv, files, pl, single, run.rng.random() < 0.3, "random")
    if not replay:
        auto_piece_length(run)
    for (case, pieces, entries), _, out in cr.settle_createfull(run, drv.run()):
        run.model_checked += 1
        parts = out.split(" ")
        if parts[0] == "ERR":
            run.fail("spec-vs-ref", case, {"driver": out})
            continue
        if parts[0] != parts[1]:
            run.fail("spec-vs-ref", case, {"what": "Lean Impl.hasherV1 align != Lean Spec"})
        if parts[0] != hx(pieces):
            run.fail("impl-vs-model", case, {"correspondence": "Impl.hasherV1 align=true"})
        if " ".join(parts[2:]) != entries:
            run.fail("impl-vs-model", case, {"correspondence": "Impl.alignedEntries",
                                             "model": " ".join(parts[2:]), "impl": entries})
    return run.finish()

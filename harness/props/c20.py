"""C20 - a create option means the same via flag, configuration file or keyword."""
import itertools
import os
import random

from harness import impl, refspec
from harness.common import Driver, MachineryError, Run, drive, guarded, hx, sandbox, write_tree
from harness.props import metas

RULE = ("all subsets (sampled) and varied values of the ten documented options (announce, "
        "web-seed, http-seed, private, source, comment, piece-length, meta-version, out, "
        "align); per subset >= 12 (thorough 40) argument orders incl. every 'list-valued flag "
        "immediately before the content path' position, short and long spellings; the "
        "equivalent .ini through --config/--config-path; the keyword route through the creator "
        "classes; metafiles compared strictly decoded minus creation date and each option "
        "checked in its documented field; distinct by (option subset, order shape, route); "
        "non-trivial when >= 3 options, a list flag directly before the path, or config route")

FLAGS = {"announce": ["-a", "--announce", "--tracker"], "url_list": ["--web-seed"],
         "httpseeds": ["--http-seed"], "private": ["-p", "--private"],
         "source": ["-s", "--source"], "comment": ["-c", "--comment"],
         "piece_length": ["--piece-length"], "meta_version": ["--meta-version"],
         "outfile": ["-o", "--out"], "align": ["--align"]}
CONFIG_KEYS = {"announce": "announce", "url_list": "web-seed", "httpseeds": "http-seed",
               "private": "private", "source": "source", "comment": "comment",
               "piece_length": "piece-length", "meta_version": "meta-version",
               "outfile": "out", "align": "align"}
LISTY = ("announce", "url_list", "httpseeds")


def gen_options(rng, box, idx):
    o = {}
    if rng.random() < 0.6:
        o["announce"] = rng.sample([u for u in metas.URLS if " " not in u], rng.randrange(1, 4))
    if rng.random() < 0.45:
        o["url_list"] = rng.sample([u for u in metas.URLS if " " not in u], rng.randrange(1, 3))
    if rng.random() < 0.45:
        o["httpseeds"] = rng.sample([u for u in metas.URLS if " " not in u], rng.randrange(1, 3))
    if rng.random() < 0.4:
        o["private"] = True
    if rng.random() < 0.5:
        o["source"] = rng.choice(["src", "PTP", "true", "x y", "False", "é", "@HDT"])
    if rng.random() < 0.5:
        o["comment"] = rng.choice(["a comment", "true", "c", "100% #1", "FALSE", "@uploader x", "new", "m",
                                   "50%", "%(x)s", "%%", "no", "0"])
    if rng.random() < 0.6:
        o["piece_length"] = rng.choice(["14", "15", "16384", "32768", "16"])
    if rng.random() < 0.7:
        o["meta_version"] = rng.choice(["1", "2", "3"])
    if rng.random() < 0.3:
        o["align"] = True
    return o


def group(name, val, rng):
    flag = rng.choice(FLAGS[name])
    if name in LISTY:
        return [flag] + list(val)
    if name in ("private", "align"):
        return [flag]
    return [flag, val]


def orders(rng, opts, path, out, count):
    """argument vectors: option groups permuted, the path at every kind of position"""
    names = sorted(opts)
    seen, res = set(), []
    tries = 0
    while len(res) < count and tries < count * 20:
        tries += 1
        perm = names[:]
        rng.shuffle(perm)
        groups = [group(n, opts[n], rng) for n in perm] + [["-o", out]]
        rng.shuffle(groups)
        listpos = [i for i, g in enumerate(groups) if g[0] in sum((FLAGS[n] for n in LISTY), [])]
        mode = rng.choice(["front", "end", "after-list", "middle"])
        if mode == "after-list" and listpos:
            pos = rng.choice(listpos) + 1
            shape = "after-list"
        elif mode == "front":
            pos, shape = 0, "front"
        elif mode == "end":
            pos = len(groups)
            shape = "after-list" if listpos and listpos[-1] == len(groups) - 1 else "end"
        else:
            pos = rng.randrange(len(groups) + 1)
            shape = "after-list" if pos - 1 in listpos else "middle"
        argv = sum(groups[:pos], []) + [path] + sum(groups[pos:], [])
        key = tuple(argv)
        if key in seen:
            continue
        seen.add(key)
        res.append((argv, shape))
    return res


def _bytes_keys(v):
    if isinstance(v, dict):
        return {k: _bytes_keys(x) for k, x in v.items()}
    if isinstance(v, list):
        return [_bytes_keys(x) for x in v]
    return v


def normalized(raw):
    meta = _bytes_keys(refspec.lenient_decode(raw))
    meta.pop(b"creation date", None)
    return meta


def expected_fields(opts, meta):
    """each option lands in its documented field"""
    info = meta[b"info"]
    e = lambda s: s.encode("utf8")
    if "announce" in opts:
        if meta.get(b"announce") != e(opts["announce"][0]) or \
                meta.get(b"announce-list") != [[e(u) for u in opts["announce"]]]:
            return "announce / announce-list"
    elif b"announce" in meta:
        return "announce present although not given"
    for k, f in (("url_list", b"url-list"), ("httpseeds", b"httpseeds")):
        if k in opts:
            if meta.get(f) != [e(u) for u in opts[k]]:
                return f.decode()
        elif f in meta:
            return f.decode() + " present although not given"
    if bool(opts.get("private")) != (info.get(b"private") == 1):
        return "private"
    for k in ("source", "comment"):
        if opts.get(k) is not None:
            if info.get(e(k)) != e(opts[k]):
                return k
        elif e(k) in info:
            return k + " present although not given"
    if "piece_length" in opts:
        n = int(opts["piece_length"])
        if info.get(b"piece length") != (2 ** n if n < 30 else n):
            return "piece length"
    ver = opts.get("meta_version", "1")
    if (b"meta version" in info) != (ver in ("2", "3")) or (b"pieces" in info) != (ver in ("1", "3")):
        return "meta version"
    if ver == "1" and b"files" in info:
        has_pad = any(x.get(b"attr") == b"p" for x in info[b"files"])
        need = any(x[b"length"] % info[b"piece length"] for x in info[b"files"] if x.get(b"attr") != b"p")
        if opts.get("align") and need and not has_pad:
            return "align"
        if not opts.get("align") and has_pad:
            return "align (padding without the option)"
    return None


def run_case(run, drv, case_seed, tier):
    rng = random.Random(case_seed)
    with sandbox("c20") as box:
        root = os.path.join(box, "content")
        write_tree(root, [("a.bin", b"A" * 20000), ("d/b.bin", b"B" * 16384), ("d/c", b"")])
        opts = gen_options(rng, box, 0)
        case = {"case_seed": case_seed, "opts": opts}
        impl.pin_clock(1_700_000_000)
        # keyword route
        out_kw = os.path.join(box, "kw.torrent")
        kw = dict(opts)
        ver = kw.pop("meta_version", "1")
        kind = "v1" if ver == "1" else ("a2" if ver == "2" else "a3")
        if kind != "v1" and rng.random() < 0.4:
            kind += "i"         # the keyword given as an integer, as documented
        if len(kw.get("announce", [])) == 1 and rng.random() < 0.6:
            kw["announce"] = kw["announce"][0]      # documented: `announce : str` for one tracker
        raw_kw = impl.create(kind, root, out_kw, progress=0, **kw)
        ref = normalized(raw_kw)
        why = expected_fields(opts, ref)
        if why:
            run.fail("impl-vs-spec", dict(case, route="keyword"), {"why": "option not in its documented field: " + why})
        n_orders = 12 if tier == "quick" else 40
        shapes = set()
        outname = rng.choice(["cli.torrent", "cli.torrent", "weekly.tor", "noext", "x.TORRENT"])
        outdir = box
        if rng.random() < 0.2:
            # the output path lies inside the content directory (it does not exist while the content
            # is read, and is removed again before the next route runs)
            outdir = root
        for i, (argv, shape) in enumerate(orders(rng, opts, root, os.path.join(outdir, outname), n_orders)):
            out = os.path.join(outdir, outname)
            if os.path.exists(out):
                os.remove(out)
            sub = rng.choice([["create"], ["new"], []]) if argv[0] != root else ["create"]
            full = sub + ["--prog", "0"] + argv
            try:
                impl.cli(list(full))
                got = normalized(open(out, "rb").read())
            except BaseException as exc:  # noqa
                run.fail("impl-vs-spec", dict(case, route="cli", argv=[a.replace(box, "$BOX") for a in full]),
                         {"raised": repr(exc)[:200], "shape": shape})
                continue
            shapes.add(shape)
            if got != ref:
                keys = [k for k in set(got) | set(ref) if got.get(k) != ref.get(k)]
                run.fail("impl-vs-spec", dict(case, route="cli", argv=[a.replace(box, "$BOX") for a in full]),
                         {"why": "metafile differs from the keyword route", "keys": [repr(k) for k in keys],
                          "shape": shape})
            drv.ask("clirec " + hx(root.encode("utf8")) + " " + " ".join(hx(a.encode("utf8")) for a in argv),
                    ("argparse", dict(case, argv=[a.replace(box, "$BOX") for a in argv]), (opts, root, box)))
        if outdir == root and os.path.exists(os.path.join(outdir, outname)):
            os.remove(os.path.join(outdir, outname))
        # configuration file route
        cfg = os.path.join(box, "torrentfile.ini")
        out_cfg = os.path.join(box, rng.choice(["cfg.torrent", "cfg.tor", "cfgnoext"]))
        out_written = out_cfg
        rel_out = rng.random() < 0.4
        if rel_out:
            # a relative `out` means the same as `-o rel`: relative to the WORKING directory,
            # wherever the configuration file lives
            os.makedirs(os.path.join(box, "cfgdir"), exist_ok=True)
            cfg = os.path.join(box, "cfgdir", "torrentfile.ini")
            out_written = os.path.basename(out_cfg)
        lines = ["[config]"]
        for k, v in opts.items():
            key = CONFIG_KEYS[k]
            if k in LISTY:
                lines.append(f"{key} =\n" + "\n".join("    " + u for u in v))       # '%' is literal
            elif k in ("private", "align"):
                lines.append(f"{key} = " + rng.choice(["true", "True", "yes", "YES", "on", "On", "1"]))
            else:
                lines.append(f"{key} = {v}")
        for k in ("private", "align"):
            if k not in opts and rng.random() < 0.5:
                # switched off explicitly: the same as not given
                lines.append(f"{k} = " + rng.choice(["false", "False", "no", "No", "off", "OFF", "0"]))
        lines.append(f"out = {out_written}")
        with open(cfg, "w", encoding="utf8") as fd:
            fd.write("\n".join(lines) + "\n")
        old_cwd = os.getcwd()
        try:
            os.chdir(box)
            try:
                impl.cli(["create", "--prog", "0", "--config", "--config-path", cfg, root])
            finally:
                os.chdir(old_cwd)
            got = normalized(open(out_cfg, "rb").read())
            if got != ref:
                keys = [k for k in set(got) | set(ref) if got.get(k) != ref.get(k)]
                ikeys = [k for k in set(got[b"info"]) | set(ref[b"info"])
                         if got[b"info"].get(k) != ref[b"info"].get(k)]
                run.fail("impl-vs-spec", dict(case, route="config"),
                         {"why": "metafile differs from the keyword route",
                          "keys": [repr(k) for k in keys], "info keys": [repr(k) for k in ikeys]})
        except BaseException as exc:  # noqa
            run.fail("impl-vs-spec", dict(case, route="config"), {"raised": repr(exc)[:200]})
        # model tie of the configuration route: the (key, value) pairs as the standard library's
        # configparser yields them, on top of the namespace of the same command line
        import configparser
        cp = configparser.ConfigParser(interpolation=None)
        cp.read(cfg)
        pairs = " ".join(f"{hx(k.encode('utf8'))}={hx(v.encode('utf8'))}" for k, v in cp["config"].items())
        toks = ["--prog", "0", "--config", "--config-path", cfg, root]
        drv.ask("cfgrec " + hx(root.encode("utf8")) + " " + pairs + " @ " +
                " ".join(hx(a.encode("utf8")) for a in toks),
                ("cfgrec", dict(case, route="config", ini=[l for l in lines]), (opts, root, out_written)))
        run.case([sorted(opts), sorted(shapes)], len(opts) >= 3 or "after-list" in shapes,
                 sample=dict(case, shapes=sorted(shapes)),
                 classes=[f"opts={len(opts)}"] + sorted(shapes) + ["config"])


def run(tier, seed, replay=None):
    impl.use_repo()
    run = Run("C20", tier, seed, RULE)
    drv = Driver()
    seeds = [replay["case"]["case_seed"]] if replay else \
        [run.rng.randrange(10 ** 9) for _ in range(30 if tier == "quick" else 250)]
    for s in seeds:
        guarded(run, {"case_seed": s}, run_case, run, drv, s, tier)
    table_and_model(run, drv)
    if not replay:
        parser_model(run, drv, tier)
    return run.finish()


def live_parser():
    """The `create` sub-parser as the running code builds it (captured from cli.execute)."""
    import argparse
    import contextlib
    import io
    from torrentfile import cli
    captured = []
    orig = argparse.ArgumentParser.parse_args

    def capture(self, *a, **k):
        captured.append(self)
        raise SystemExit(0)
    argparse.ArgumentParser.parse_args = capture
    try:
        with contextlib.redirect_stdout(io.StringIO()), contextlib.redirect_stderr(io.StringIO()):
            try:
                cli.execute(["create", "x"])
            except SystemExit:
                pass
    finally:
        argparse.ArgumentParser.parse_args = orig
    main = captured[0]
    sub = [a for a in main._actions if isinstance(a, argparse._SubParsersAction)][0]
    return sub.choices["create"]


def _v(x):
    e = lambda s: hx(s.encode("utf8"))
    if x is None:
        return "N"
    if x is True:
        return "T"
    if x is False:
        return "F"
    if isinstance(x, str):
        return "s:" + e(x)
    if isinstance(x, list):
        return "l:" + ",".join(e(i) for i in x)
    return "?" + repr(x)


def table_tokens(sub):
    import argparse
    toks = []
    for a in sub._actions:
        if isinstance(a, argparse._HelpAction):
            continue
        if not a.option_strings:
            toks.append("p:" + hx(a.dest.encode()) + ("" if a.nargs == "?" and a.default is None else ":odd"))
            continue
        n = "0" if a.nargs == 0 else "1" if a.nargs is None else "+" if a.nargs == "+" else "?"
        toks.append("o:%s:%s:%s:%s:%s" % (
            hx(a.dest.encode()), n, _v(a.default),
            ",".join(hx(c.encode()) for c in a.choices) if a.choices else "-",
            ",".join(hx(f.encode()) for f in a.option_strings)))
    return toks


def parser_model(run, drv, tier):
    """The option table of the running parser must be the one the theorems are about
    (`tableok … -> ok same`), and the Lean argparse model must agree with the real parser on
    raw token lists (before MetaFile's path recovery)."""
    import contextlib
    import io
    sub = live_parser()
    out = drive(["tableok " + " ".join(table_tokens(sub))])[0]
    run.model_checked += 1
    if out.split()[:2] != ["ok", "same"]:
        run.fail("impl-vs-model", {"table": "create sub-parser"},
                 {"correspondence": "Impl.createTable / tableOK vs the live argparse table",
                  "model": out[:200]})
    rng = run.rng
    flags = [f for a in sub._actions if a.option_strings and "help" not in a.dest for f in a.option_strings]
    vals = ["u1", "u2", "p", "1", "2", "3", "x y", "http://a/b", "16384", "q", "é"]
    cases = []
    for _ in range(300 if tier == "quick" else 3000):
        n = rng.randrange(0, 9)
        cases.append([rng.choice(flags) if rng.random() < 0.45 else rng.choice(vals) for _ in range(n)])
    answers = drive(["argparse " + " ".join(hx(x.encode("utf8")) for x in t) if t else "argparse"
                     for t in cases])
    for toks, ans in zip(cases, answers):
        run.model_checked += 1
        try:
            with contextlib.redirect_stdout(io.StringIO()), contextlib.redirect_stderr(io.StringIO()):
                ns = vars(sub.parse_args(list(toks)))
            g = ns.get
            want = "kw path=%s content=%s announce=%s url_list=%s httpseeds=%s private=%s source=%s " \
                   "comment=%s piece_length=%s meta_version=%s outfile=%s align=%s" % tuple(
                       _v(x) for x in (g("path"), g("content"), g("announce"), g("url_list"),
                                       g("httpseeds"), g("private", False), g("source"),
                                       g("comment"), g("piece_length"), g("meta_version"),
                                       g("outfile"), g("align", False)))
        except SystemExit:
            want = "err"
        if ans.strip() == "unsupported":
            continue
        if ans.strip() != want:
            run.fail("impl-vs-model", {"tokens": toks},
                     {"correspondence": "Impl.argparse vs argparse", "model": ans[:200], "impl": want[:200]})
        run.case(["argparse", len(toks), want == "err"], True, classes=["argparse-raw"])


def table_and_model(run, drv):
    """Compare the Lean argparse + MetaFile path-recovery model on the same token lists with
    the record the options denote (which the real parser + MetaFile produced: the metafile
    equality above is the implementation side of this comparison)."""
    for (kind, case, (opts, root, box)), req, out in drv.run():
        if out.startswith("ERR"):
            if os.environ.get("VERIF_DEV") and "bad-op" in out:
                continue
            raise MachineryError(f"driver: {req[:60]} -> {out[:100]}")
        run.model_checked += 1
        got = parse_kw(out)
        if kind == "cfgrec":
            want = render(opts, root, box)          # third element = the 'out' of the ini file
            if got != want:
                diff = {k: (got.get(k) if got else None, want.get(k)) for k in want
                        if not got or got.get(k) != want.get(k)}
                run.fail("impl-vs-model", case, {"correspondence": "Impl.parseConfig + metaInit (cfgrec)",
                                                 "model": out[:200], "differs": diff})
            continue
        want = render(opts, root, got["outfile"] and bytes.fromhex(got["outfile"][2:]).decode() if got else "")
        if got != want:
            diff = {k: (got.get(k) if got else None, want.get(k)) for k in want
                    if not got or got.get(k) != want.get(k)}
            run.fail("impl-vs-model", case, {"correspondence": "Impl.argparse + metaInit (clirec)",
                                             "model": out[:200], "differs": diff})


def parse_kw(out):
    t = out.split()
    if not t or t[0] != "kw":
        return None
    rec = dict(x.split("=", 1) for x in t[1:])
    if rec.get("path") == "N":
        rec["path"] = rec.get("content")
    rec.pop("content", None)
    return rec


def render(opts, root, out):
    """the keyword record the options denote, in the driver's rendering"""
    e = lambda s: hx(s.encode("utf8"))
    rec = {"path": "s:" + e(root)}
    for k in ("announce", "url_list", "httpseeds"):
        rec[k] = ("l:" + ",".join(e(u) for u in opts[k])) if k in opts else ("l:" if k == "announce" else "N")
    rec["private"] = "T" if opts.get("private") else "F"
    for k in ("source", "comment", "piece_length"):
        rec[k] = ("s:" + e(opts[k])) if k in opts else "N"
    rec["meta_version"] = "s:" + e(opts.get("meta_version", "1"))
    rec["outfile"] = "s:" + e(out)
    rec["align"] = "T" if opts.get("align") else "F"
    return rec
